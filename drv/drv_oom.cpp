// C15 driver: allocation-failure enumeration. Harness code; asmjit is only driven through its API.
//
// Fault classes
//   arena : hook H1 (asmjit_verif_arena_fail_fn) - every Arena request of asmjit asks the predicate below
//   heap  : link-time --wrap=malloc/realloc/calloc/free (references from asmjit's objects and this file only)
//   vm    : link-time --wrap=mmap/munmap/mprotect/ftruncate64/shm_open/shm_unlink/open64/unlink/close/syscall(memfd_create)
// A request is counted / failed only while `F.in_api` is set (an asmjit call of a workload is in progress).
//
// One case = (workload, class, failure pattern):
//   phase 1  objects are constructed and the workload body runs with the pattern armed. Every returned Error,
//            every ErrorHandler invocation and every null result is recorded ("reported").
//            Oracle: !reported  =>  output == output of the failure-free run.
//   phase 2  disarmed; the SAME objects are reset / reinit as the API documents and the body runs again.
//            Oracle: no error and output == failure-free output.
//   phase 3  all objects destroyed. Oracle: wrapped malloc/free, mmap/munmap, fd and shm-name balances are back
//            at the pre-case level. (LSan runs at exit; ASan/UBSan abort the process -> the Python side attributes
//            the crash to the case announced by the last "@case" marker and re-runs it alone.)
#include <asmjit/x86.h>
#include <asmjit/a64.h>
#include <asmjit/support/arenabitset_p.h>
#include <asmjit/support/arenahash.h>
#include <asmjit/support/arenapool.h>
#include <asmjit/support/arenastring.h>
#include <asmjit/support/arenatree.h>
#include <asmjit/support/arenavector.h>
#include "vcommon.h"

#include <dlfcn.h>
#include <execinfo.h>
#include <errno.h>
#include <fcntl.h>
#include <pthread.h>
#include <stdarg.h>
#include <sys/mman.h>
#include <sys/syscall.h>
#include <sys/wait.h>
#include <unistd.h>
#include <algorithm>
#include <memory>
#include <optional>

using namespace asmjit;
typedef unsigned long long ull;

// =========================================================================================================
// Fault controller
// =========================================================================================================

enum { CL_ARENA = 0, CL_HEAP = 1, CL_VM = 2, CL_N = 3 };
static const char* kClassNames[CL_N] = { "arena", "heap", "vm" };
enum { M_COUNT = 0, M_SINGLE = 1, M_STICKY = 2, M_PATTERN = 3, M_TWIN = 4 };   // twin: request k and the next request from the same call site

static constexpr int kSiteDepth = 12;
struct Site { uintptr_t pc[kSiteDepth]; uint64_t count; uint64_t first_k; uint8_t cls; uint8_t used; uint8_t failed; };
static constexpr size_t kSiteTab = 1u << 15;
// Everything a worker observes lives in MAP_SHARED memory: armed cases run in fork()ed workers so that a case a
// sanitizer kills costs one fork, not a new process with ASan start-up and counting runs; the supervisor goes on
// behind the dead case and prints the merged summary.
struct CaseStats {
  uint64_t cases = 0, fired_cases = 0, reported = 0, tolerated = 0, not_fired = 0;
  uint64_t retry_ok = 0, requests_failed = 0, continue_ok = 0, emits_refused = 0;
  uint64_t errs_by_code[64] {};
  // W8 (String model): calls by (start state | 7 = free-running sequence, operation); counted in armed cases only
  uint64_t sm_ops = 0, sm_failed_calls = 0, sm_checks = 0, sm_continuations = 0;
  uint64_t sm_ops_after_failure = 0;        // phase 1: calls on an object that has already seen a failed call (not reset in between by the harness)
  uint64_t sm_ops_in_retry_after_failure = 0;   // phase 2: calls on such an object after reset / swap-out / destroy + construct
  uint64_t sm_failed_by_type[3] {};         // storage of the string when the failed call was made: SSO, heap (kTypeLarge), external
  uint64_t sm_run[8][64] {}, sm_failed[8][64] {};
  // cases whose first refused request was made inside a constructor / was the first request of that constructor (by fault class)
  uint64_t ctor_cases[3] {}, ctor_cases_first_request[3] {};
  // W5c (ConstPool model, continue recovery); armed cases only
  // W1c / W2c (continue recovery for every kind of call)
  uint64_t static_arena_cases = 0, static_arena_cases_grown = 0;   // armed cases on an arena that starts in static memory / that had heap blocks chained behind it when the body ended
  uint64_t hugetlb_mmaps = 0;           // mmap(MAP_HUGETLB) requests seen (all runs of the process)
  uint64_t first_report_after_the_refusing_call_returned = 0;   // cases judged by the 'who reports' oracle whose first report came from a later call
  uint64_t reinit_compiler_rounds_after_failure = 0;   // W1r: functions generated with a Compiler after an armed reinit / init / attach round met a refused request
  uint64_t vm_releases_checked = 0;     // munmap / close / unlink of something tracked, each checked for length / result / repetition
  uint64_t cont_refused_by_kind[24] {}, cont_calls_after_refused = 0, cont_cases_with_refused_call = 0;
  uint64_t cp_adds = 0, cp_refused = 0, cp_refused_with_padding_pending = 0, cp_refused_with_gaps_registered = 0, cp_adds_after_refused = 0, cp_retries_of_refused = 0, cp_checks = 0, cp_pool_resets = 0;
};
// Requests made while a constructor of an asmjit object is running (the workloads bracket constructor calls with CtorScope).
// requests[]: failure-free phase-1 runs of this process (count mode); fired*: armed cases whose refused request was inside it.
struct CtorStat { char name[56]; uint64_t requests[3]; uint64_t fired[3]; uint64_t fired_first[3]; };
static constexpr int kCtorTab = 48;
struct Shared {
  Site sites[kSiteTab];
  size_t site_used;
  CaseStats st;
  CtorStat ctors[kCtorTab];
  uint64_t cur;            // index (k or pattern number) of the case a worker is running
  uint64_t workers_killed;
  uint64_t done;           // the worker ran its last case (what follows is exit() with the LeakSanitizer check)
  size_t viol_len;
  char viol_buf[1u << 20]; // JSON objects, comma separated
};
static Shared* SH = nullptr;
#define g_sites (SH->sites)
#define g_site_used (SH->site_used)
#define ST (SH->st)

struct FaultCtl {
  int in_api = 0;
  bool counting = false;   // requests are counted (phase 1 only)
  bool armed = false;      // failures are injected
  bool record_requests = false;  // count mode: record the site of every request
  bool record_ctors = false;     // first counting run: count the requests made inside constructors
  int cls = -1;
  int mode = M_COUNT;
  uint64_t k = 0;
  uint64_t pat[16]; int npat = 0;
  uint64_t seen[CL_N] {};
  uint64_t fired = 0;
  uint64_t last_fired_seq = 0;   // g_call_seq when the most recent request was refused
  bool fired_in_ctor = false;    // a request was refused inside a constructor (constructors report nothing: is_initialized())
  uintptr_t first_site[kSiteDepth] {};
  uint64_t cur_case = 0;
  void* twin_site = nullptr; int twin_left = 0;
  bool memfd_enosys = false;   // environment variation: pretend memfd_create() does not exist (old kernel)
};
static FaultCtl F;
static uint64_t g_call_seq;    // (defined with Rec below)

static uintptr_t g_stack_lo = 0, g_stack_hi = 0;
static uintptr_t g_exe_base_early = 0;

static void init_stack_bounds() {
  pthread_attr_t at;
  if (pthread_getattr_np(pthread_self(), &at) == 0) {
    void* addr = nullptr; size_t size = 0;
    pthread_attr_getstack(&at, &addr, &size);
    g_stack_lo = uintptr_t(addr); g_stack_hi = uintptr_t(addr) + size;
    pthread_attr_destroy(&at);
  }
}

// Call chain of a request: libgcc's unwinder (exact also where shrink-wrapping skipped a frame-pointer setup).
// The leading frames are the wrapper / hook themselves; the Python side drops them by name.
static inline void walk_frames(void** fp, uintptr_t* out) {
  (void)fp;
  void* bt[kSiteDepth + 1];
  int n = backtrace(bt, kSiteDepth + 1);
  for (int i = 0; i < kSiteDepth; i++) out[i] = (i + 1 < n) ? uintptr_t(bt[i + 1]) : 0;   // [0] is walk_frames/fault_point itself
}

static void record_site(int cls, const uintptr_t* pc, bool failed, uint64_t k) {
  uint64_t h = fnv1a(pc, sizeof(uintptr_t) * kSiteDepth) ^ uint64_t(cls) * 0x9E3779B97F4A7C15ull ^ (failed ? 0x5555 : 0);
  for (size_t probe = 0; probe < kSiteTab; probe++) {
    Site& s = g_sites[(h + probe) & (kSiteTab - 1)];
    if (!s.used) {
      if (g_site_used > kSiteTab - 64) return;
      s.used = 1; s.cls = uint8_t(cls); s.failed = failed; s.count = 1; s.first_k = k;
      memcpy(s.pc, pc, sizeof s.pc);
      g_site_used++;
      return;
    }
    if (s.cls == cls && s.failed == uint8_t(failed) && memcmp(s.pc, pc, sizeof s.pc) == 0) { s.count++; return; }
  }
}

// The single decision point of all three fault classes.
static const char* g_ctor_name = nullptr;   // constructor in progress
static uint64_t g_ctor_seen[3];               // requests it has made so far, per class
struct CtorScope {
  const char* prev; uint64_t prev_seen[3];
  explicit CtorScope(const char* name) : prev(g_ctor_name) { memcpy(prev_seen, g_ctor_seen, sizeof prev_seen); g_ctor_name = name; memset(g_ctor_seen, 0, sizeof g_ctor_seen); }
  ~CtorScope() { g_ctor_name = prev; memcpy(g_ctor_seen, prev_seen, sizeof prev_seen); }
};
static CtorStat* ctor_stat(const char* name) {
  for (int i = 0; i < kCtorTab; i++) {
    CtorStat& c = SH->ctors[i];
    if (!c.name[0]) { snprintf(c.name, sizeof c.name, "%s", name); return &c; }
    if (!strncmp(c.name, name, sizeof c.name - 1)) return &c;
  }
  return nullptr;
}

static inline bool fault_point(int cls, void** fp, void* caller) {
  if (!F.in_api || !F.counting) return false;
  uint64_t n = ++F.seen[cls];
  uint64_t ctor_index = 0;
  if (g_ctor_name) {
    ctor_index = g_ctor_seen[cls]++;
    if (F.record_ctors) { if (CtorStat* c = ctor_stat(g_ctor_name)) c->requests[cls]++; }
  }
  if (F.record_requests) { uintptr_t pc[kSiteDepth]; walk_frames(fp, pc); record_site(cls, pc, false, n); }
  if (!F.armed || cls != F.cls) return false;
  bool fail = false;
  switch (F.mode) {
    case M_SINGLE: fail = (n == F.k); break;
    case M_STICKY: fail = (n >= F.k); break;
    case M_PATTERN: for (int i = 0; i < F.npat; i++) if (F.pat[i] == n) fail = true; break;
    case M_TWIN:
      if (n == F.k) { fail = true; F.twin_site = caller; F.twin_left = 1; }
      else if (n > F.k && F.twin_left && caller == F.twin_site) { fail = true; F.twin_left = 0; }
      break;
    default: break;
  }
  if (fail) {
    uintptr_t pc[kSiteDepth]; walk_frames(fp, pc);
    if (!F.fired) {
      memcpy(F.first_site, pc, sizeof pc);
      char b[400]; int len = snprintf(b, sizeof b, "@fired %d", cls);
      for (int i = 0; i < kSiteDepth && len < 370; i++) len += snprintf(b + len, sizeof b - size_t(len), " %llu", (ull)(pc[i] ? pc[i] - g_exe_base_early : 0));
      b[len++] = '\n';
      ssize_t w = write(2, b, size_t(len)); (void)w;
    }
    if (g_ctor_name) {
      if (CtorStat* c = ctor_stat(g_ctor_name)) { c->fired[cls]++; if (ctor_index == 0) c->fired_first[cls]++; }
      if (!F.fired) { ST.ctor_cases[cls]++; if (ctor_index == 0) ST.ctor_cases_first_request[cls]++; }
    }
    F.fired++;
    F.last_fired_seq = g_call_seq;
    if (g_ctor_name) F.fired_in_ctor = true;
    record_site(cls, pc, true, n);
  }
  return fail;
}

#define FAULT(cls) fault_point(cls, (void**)__builtin_frame_address(0), __builtin_return_address(0))

// ---- class arena: hook H1 -------------------------------------------------------------------------------
static bool __attribute__((noinline)) arena_fail_hook(size_t) { return FAULT(CL_ARENA); }

// ---- class heap: --wrap ---------------------------------------------------------------------------------
static int64_t g_heap_live = 0;          // blocks obtained through the wrappers and not yet freed
static uint64_t g_heap_calls = 0;        // proves that the wrappers really see asmjit's calls (also under ASan)
extern "C" {
void* __real_malloc(size_t);
void* __real_realloc(void*, size_t);
void* __real_calloc(size_t, size_t);
void __real_free(void*);

__attribute__((noinline)) void* __wrap_malloc(size_t n) {
  g_heap_calls++;
  if (FAULT(CL_HEAP)) { errno = ENOMEM; return nullptr; }
  void* p = __real_malloc(n);
  if (p) g_heap_live++;
  return p;
}
__attribute__((noinline)) void* __wrap_calloc(size_t a, size_t b) {
  g_heap_calls++;
  if (FAULT(CL_HEAP)) { errno = ENOMEM; return nullptr; }
  void* p = __real_calloc(a, b);
  if (p) g_heap_live++;
  return p;
}
__attribute__((noinline)) void* __wrap_realloc(void* old, size_t n) {
  g_heap_calls++;
  if (FAULT(CL_HEAP)) { errno = ENOMEM; return nullptr; }   // the old block stays valid, as realloc() specifies
  void* p = __real_realloc(old, n);
  if (p && !old) g_heap_live++;
  if (!p && old && n == 0) g_heap_live--;
  return p;
}
__attribute__((noinline)) void __wrap_free(void* p) {
  if (p) g_heap_live--;
  __real_free(p);
}
}

// ---- class vm: --wrap -----------------------------------------------------------------------------------
struct MapEnt { void* p; size_t n; };
static MapEnt g_maps[512];
static int64_t g_map_live = 0, g_fd_live = 0, g_name_live = 0;
static uint64_t g_vm_calls = 0;
static int g_fds[256]; static int g_nfds = 0;

// Release calls are checked, not only counted: a mapping must be released whole (same address, same length up to page
// rounding, munmap() == 0), a descriptor / name that asmjit obtained must be released once. What a case did wrong is kept
// here (first call chain + text) and reported by run_case() whether or not an error was reported.
static char g_vm_defects[1024]; static size_t g_vm_defects_len = 0;   // (static storage: the wrappers allocate nothing)
static uintptr_t g_vm_defect_site[kSiteDepth];
static uint64_t g_vm_release_checks = 0;        // releases of something that is tracked (all of them are checked)
static int g_closed_fds[64]; static int g_nclosed = 0;          // descriptors released in this case and not handed out again
static char g_unlinked[8][96]; static int g_nunlinked = 0;      // names released in this case
static char g_names[16][96]; static int g_nnames = 0;           // names created and not yet released
static size_t g_page = 4096;
static bool g_strip_hugetlb = false;

static void vm_defect(const char* fmt, ...) {
  char b[300]; va_list ap; va_start(ap, fmt); vsnprintf(b, sizeof b, fmt, ap); va_end(ap);
  if (!g_vm_defects_len) walk_frames(nullptr, g_vm_defect_site);
  if (g_vm_defects_len < 600) g_vm_defects_len += size_t(snprintf(g_vm_defects + g_vm_defects_len, sizeof g_vm_defects - g_vm_defects_len, "%s; ", b));
}
static void vm_case_begin() { g_nclosed = 0; g_nunlinked = 0; g_vm_defects_len = 0; g_vm_defects[0] = 0; memset(g_vm_defect_site, 0, sizeof g_vm_defect_site); }

static void fd_add(int fd) {
  if (g_nfds < 256) g_fds[g_nfds++] = fd;
  g_fd_live++;
  for (int i = 0; i < g_nclosed; i++) if (g_closed_fds[i] == fd) { g_closed_fds[i] = g_closed_fds[--g_nclosed]; break; }
}
static bool fd_del(int fd) { for (int i = 0; i < g_nfds; i++) if (g_fds[i] == fd) { g_fds[i] = g_fds[--g_nfds]; g_fd_live--; return true; } return false; }
static void name_add(const char* n) {
  if (g_nnames < 16) snprintf(g_names[g_nnames++], sizeof g_names[0], "%s", n);
  for (int i = 0; i < g_nunlinked; i++) if (!strcmp(g_unlinked[i], n)) { memcpy(g_unlinked[i], g_unlinked[--g_nunlinked], sizeof g_unlinked[0]); break; }
}
static void name_release(const char* what, const char* n, int r) {
  for (int i = 0; i < g_nnames; i++) if (!strncmp(g_names[i], n, sizeof g_names[0] - 1)) {
    g_vm_release_checks++;
    if (r != 0) { vm_defect("%s(\"%s\") of a name asmjit created failed with errno %d", what, n, errno); return; }
    memcpy(g_names[i], g_names[--g_nnames], sizeof g_names[0]);
    if (g_nunlinked < 8) snprintf(g_unlinked[g_nunlinked++], sizeof g_unlinked[0], "%s", n);
    return;
  }
  for (int i = 0; i < g_nunlinked; i++) if (!strncmp(g_unlinked[i], n, sizeof g_unlinked[0] - 1)) { vm_defect("%s(\"%s\"): the name has already been released in this case (released twice)", what, n); return; }
}

extern "C" {
void* __real_mmap(void*, size_t, int, int, int, off_t);
int __real_munmap(void*, size_t);
int __real_mprotect(void*, size_t, int);
int __real_ftruncate64(int, off64_t);
int __real_shm_open(const char*, int, mode_t);
int __real_shm_unlink(const char*);
int __real_open64(const char*, int, ...);
int __real_unlink(const char*);
int __real_close(int);
long __real_syscall(long, ...);

__attribute__((noinline)) void* __wrap_mmap(void* a, size_t n, int prot, int flags, int fd, off_t off) {
  g_vm_calls++;
  if (FAULT(CL_VM)) { errno = ENOMEM; return MAP_FAILED; }
  if (flags & MAP_HUGETLB) {
    // large pages: the sandbox has no huge-page pool. "large" workloads get the mapping (same length, regular pages) so that
    // the success path of the caller runs; everywhere else the real mmap() decides (it fails: the caller's fall-back path)
    if (SH) SH->st.hugetlb_mmaps++;
    if (g_strip_hugetlb) flags &= ~(MAP_HUGETLB | (0x3f << 26));
  }
  void* p = __real_mmap(a, n, prot, flags, fd, off);
  if (p != MAP_FAILED) {
    for (auto& m : g_maps) if (!m.p) { m.p = p; m.n = n; break; }
    g_map_live++;
  }
  return p;
}
__attribute__((noinline)) int __wrap_munmap(void* p, size_t n) {
  auto up = [](size_t v) { return (v + g_page - 1) & ~(g_page - 1); };
  MapEnt* hit = nullptr; MapEnt* inside = nullptr;
  for (auto& m : g_maps) {
    if (!m.p) continue;
    if (m.p == p) { hit = &m; break; }
    if (uintptr_t(p) > uintptr_t(m.p) && uintptr_t(p) < uintptr_t(m.p) + up(m.n)) inside = &m;
  }
  size_t mapped = hit ? hit->n : 0;
  if (hit) { g_vm_release_checks++; hit->p = nullptr; g_map_live--; }
  int r = __real_munmap(p, n);
  int en = errno;
  if (hit && (n == 0 || up(n) != up(mapped))) vm_defect("munmap(p, %zu) of a mapping that was made with mmap(%zu): %s", n, mapped, up(n) < up(mapped) ? "the rest of it stays mapped (leak)" : "unmaps memory behind it");
  else if (hit && r != 0) vm_defect("munmap(p, %zu) of a tracked mapping failed with errno %d", n, en);
  else if (!hit && inside && F.in_api) vm_defect("munmap(p, %zu) with p %zu bytes inside a mapping of %zu bytes: partial unmap", n, size_t(uintptr_t(p) - uintptr_t(inside->p)), inside->n);
  errno = en;
  return r;
}
__attribute__((noinline)) int __wrap_mprotect(void* p, size_t n, int prot) {
  g_vm_calls++;
  if (FAULT(CL_VM)) { errno = ENOMEM; return -1; }
  return __real_mprotect(p, n, prot);
}
__attribute__((noinline)) int __wrap_ftruncate64(int fd, off64_t n) {
  g_vm_calls++;
  if (FAULT(CL_VM)) { errno = ENOMEM; return -1; }
  return __real_ftruncate64(fd, n);
}
__attribute__((noinline)) int __wrap_shm_open(const char* name, int fl, mode_t mode) {
  g_vm_calls++;
  if (FAULT(CL_VM)) { errno = ENOMEM; return -1; }
  int fd = __real_shm_open(name, fl, mode);
  if (fd >= 0) { fd_add(fd); g_name_live++; name_add(name); }
  return fd;
}
__attribute__((noinline)) int __wrap_shm_unlink(const char* name) {
  int r = __real_shm_unlink(name);
  int en = errno;
  if (r == 0) g_name_live--;
  name_release("shm_unlink", name, r);
  errno = en;
  return r;
}
__attribute__((noinline)) int __wrap_open64(const char* path, int fl, ...) {
  mode_t mode = 0;
  if (fl & O_CREAT) { va_list ap; va_start(ap, fl); mode = va_arg(ap, mode_t); va_end(ap); }
  g_vm_calls++;
  if (FAULT(CL_VM)) { errno = ENOMEM; return -1; }
  int fd = __real_open64(path, fl, mode);
  if (fd >= 0) { fd_add(fd); if (fl & O_CREAT) { g_name_live++; name_add(path); } }
  return fd;
}
__attribute__((noinline)) int __wrap_unlink(const char* path) {
  int r = __real_unlink(path);
  int en = errno;
  if (r == 0) g_name_live--;
  name_release("unlink", path, r);
  errno = en;
  return r;
}
__attribute__((noinline)) int __wrap_close(int fd) {
  bool tracked = fd_del(fd);
  if (tracked) g_vm_release_checks++;
  else if (F.in_api) {
    for (int i = 0; i < g_nclosed; i++) if (g_closed_fds[i] == fd) { vm_defect("close(%d): the descriptor has already been closed in this case and was not handed out again (closed twice: would close somebody else's descriptor)", fd); break; }
  }
  int r = __real_close(fd);
  int en = errno;
  if (tracked) {
    if (r != 0) vm_defect("close(%d) of a descriptor asmjit obtained failed with errno %d", fd, en);
    if (g_nclosed < 64) g_closed_fds[g_nclosed++] = fd;
  }
  errno = en;
  return r;
}
__attribute__((noinline)) long __wrap_syscall(long nr, ...) {
  va_list ap; va_start(ap, nr);
  long a[6]; for (int i = 0; i < 6; i++) a[i] = va_arg(ap, long);
  va_end(ap);
#if defined(__NR_memfd_create)
  if (nr == __NR_memfd_create) {
    if (F.memfd_enosys) { errno = ENOSYS; return -1; }
    g_vm_calls++;
    if (FAULT(CL_VM)) { errno = ENOMEM; return -1; }
    long fd = __real_syscall(nr, a[0], a[1], a[2], a[3], a[4], a[5]);
    if (fd >= 0) fd_add(int(fd));
    return fd;
  }
#endif
  return __real_syscall(nr, a[0], a[1], a[2], a[3], a[4], a[5]);
}
}

struct Balance { int64_t heap, maps, fds, names; };
static Balance balance_now() { return Balance{g_heap_live, g_map_live, g_fd_live, g_name_live}; }

struct ApiScope { ApiScope() { F.in_api++; } ~ApiScope() { F.in_api--; } };

// =========================================================================================================
// Recording what the API reported
// =========================================================================================================

// Sequence number of the API call in progress (advanced by every recorded call result): lets the harness tell whether the
// first thing a caller was told came from the call that met the refused request or from a LATER call - the call in
// progress "reports an error (or completes correctly)", it does not return kOk and leave the error to its successors.
struct Rec {
  uint32_t calls = 0, errs = 0, handler = 0, nulls = 0;
  uint32_t first_err = 0; uint32_t first_err_call = 0;
  bool stop = false;     // "stop at first error" style (a caller that propagates); otherwise the caller carries on
  // the first event of the run: 0 = none; code of the first error returned / passed to the ErrorHandler (a null result counts as kOutOfMemory)
  bool has_event = false, first_event_late = false; uint32_t first_event_code = 0; uint64_t first_event_calls_since_refusal = 0;
  void event(Error e) {
    if (has_event) return;
    has_event = true; first_event_code = uint32_t(e);
    // every refused request so far was made in an earlier call, and that call has returned
    first_event_late = F.fired > 0 && F.last_fired_seq < g_call_seq && !F.fired_in_ctor;
    first_event_calls_since_refusal = g_call_seq - F.last_fired_seq;
  }
  bool rec(Error e) { calls++; if (e != Error::kOk) { event(e); if (!errs) { first_err = uint32_t(e); first_err_call = calls; } errs++; g_call_seq++; return true; } g_call_seq++; return false; }
  void null_result() { nulls++; event(Error::kOutOfMemory); g_call_seq++; }
  bool reported() const { return errs || handler || nulls; }
  bool stopped() const { return stop && reported(); }
};

static bool g_debug = false;
class CountingHandler : public ErrorHandler {
public:
  Rec* R = nullptr;
  Error last = Error::kOk;    // what the most recent invocation was told
  void handle_error(Error e, const char* msg, BaseEmitter*) override {
    if (R) { R->handler++; R->event(e); }
    last = e;
    if (g_debug) fprintf(stderr, "@handler err=%u %s\n", unsigned(e), msg ? msg : "");
  }
};

#define E(x) do { R.rec((x)); if (R.stopped()) return; } while (0)
#define CHK() do { if (R.stopped()) return; } while (0)
// The canonical asmjit usage: emission calls are not checked one by one, but before the result is consumed
// (finalize / flatten / JitRuntime::add) the caller looks at what its ErrorHandler and the returned codes said.
#define GATE() do { if (R.reported()) return; } while (0)

struct Result {
  std::string main;   // compared with the failure-free run whenever nothing was reported
  std::string aux;    // best-effort text (logs) and implementation-defined choices: compared in the retry only
  const char* defect_kind = "jit-memory-kept-after-failed-add";
  std::string defects; // observations that are wrong whether or not an error was reported (e.g. JIT memory a failed add() kept)
  // defects of a workload that knows which API call is at fault (W8): one per (kind, api) and case; the violation key names
  // that call instead of the first refused request's call chain
  struct Defect { const char* kind; const char* api; std::string what; };
  std::vector<Defect> api_defects;
  const char* ref_api = nullptr;   // continue-mode workloads that know the kind of the (first) refused call: names the violation key
  std::string image;  // hex of the last flattened image (diagnostics: lets the Python side compare two images structurally)
  void put(const char* tag, const void* p, size_t n) { main += tag; main += '='; main += hexstr(p, n); main += ';'; }
  void num(const char* tag, uint64_t v) { char b[64]; snprintf(b, sizeof b, "%s=%llu;", tag, (ull)v); main += b; }
};

struct Params { uint64_t seed = 1; };

static void note_static_arena(Arena& a) {
  if (F.mode == M_COUNT || !F.counting || !a.has_static_block()) return;
  ST.static_arena_cases++;
  if (a.statistics().block_count() >= 2) ST.static_arena_cases_grown++;
}

static int recover_holder(CodeHolder& code, int strategy, Rec& R) {
  if (strategy == 1 && code.is_initialized()) {
    bool no_base = code.base_address() == Globals::kNoBaseAddress;
    R.rec(code.reinit());
    return no_base ? 1 : 0;
  }
  code.reset(strategy == 2 ? ResetPolicy::kHard : ResetPolicy::kSoft);
  return strategy == 1 ? 1 : 0;
}

struct Workload {
  Params P;
  virtual ~Workload() {}
  virtual void construct() = 0;                       // emplace asmjit objects (may be armed)
  virtual void body(Rec& R, Result& out) = 0;            // (init +) generate + produce output
  // reset / reinit the same objects as the API documents. Returns 1 when the retry must look like a FIRST run
  // (reinit() keeps the base address a completed relocate_to_base() left behind - documented - so a holder that
  // never got that far is compared with the first-run output), else 0.
  virtual int recover(int strategy, Rec& R) = 0;
  virtual void destroy() = 0;
  // "continue" recovery: the caller skipped the calls that reported an error and carried on with the same objects.
  // A workload that supports it rebuilds, on FRESH objects and failure-free, the program without exactly those calls;
  // phase-1 output must then equal that reference (instead of the complete failure-free output). False = not supported.
  virtual bool reference(Rec&, Result&) { return false; }
};

// =========================================================================================================
// W5 - containers and ConstPool
// =========================================================================================================

struct HNode : public ArenaHashNode {
  uint32_t key, val;
  HNode(uint32_t k, uint32_t v) noexcept : ArenaHashNode(k * 2654435761u), key(k), val(v) {}
};
struct HKey {
  uint32_t key;
  uint32_t hash_code() const noexcept { return key * 2654435761u; }
  bool matches(const HNode* n) const noexcept { return n->key == key; }
};
struct PoolItem { uint64_t a, b, c; };

struct W5 : Workload {
  std::optional<Arena> arena;
  ArenaVector<uint32_t> v32, v32b;
  ArenaVector<uint64_t> v64;
  ArenaVector<uint8_t> v8;
  ArenaHash<HNode> hash;
  ArenaBitSet bits, bits2;
  ArenaString<16> s1, s2;
  ArenaPool<PoolItem> pool;
  std::optional<ConstPool> cpool;
  size_t block_size;
  explicit W5(size_t bs) : block_size(bs) {}

  void construct() override { arena.emplace(block_size); cpool.emplace(*arena); }

  void body(Rec& R, Result& out) override {
    Arena& A = *arena;
    Rng r(P.seed * 77 + 5);
    uint32_t n32 = 260 + uint32_t(r.below(80));
    // -- ArenaVector ------------------------------------------------------------------------------------
    for (uint32_t i = 0; i < n32; i++) E(v32.append(A, i * 3u + 1u));
    for (uint32_t i = 0; i < 12; i++) E(v32.insert(A, i * 7u, 0xA0000000u + i));
    for (uint32_t i = 0; i < 6; i++) E(v32.prepend(A, 0xB0000000u + i));
    for (uint32_t i = 0; i < 40; i++) E(v32b.append(A, 0xC0000000u + i));
    E(v32.concat(A, v32b));
    E(v64.reserve_fit(A, 10));
    for (uint32_t i = 0; i < 10 && i < v64.capacity(); i++) v64.append_unchecked(i * 0x0101010101ull);
    E(v64.resize_grow(A, 100));
    E(v64.reserve_grow(A, 700));       // > largest reusable slot -> dynamic block (malloc)
    E(v64.resize_fit(A, 650));
    E(v8.resize_fit(A, 3000));         // dynamic block
    E(v8.reserve_additional(A, 5000)); // dynamic block replaced by a bigger one
    for (uint32_t i = 0; i < 9; i++) E(v8.append(A, uint8_t(i)));
    v32b.release(A);
    for (uint32_t i = 0; i < 20; i++) E(v32b.append(A, i));
    out.put("v32", v32.data(), v32.size() * 4);
    out.put("v32b", v32b.data(), v32b.size() * 4);
    out.put("v64", v64.data(), v64.size() * 8);
    out.num("v8", v8.size());
    // -- ArenaHash --------------------------------------------------------------------------------------
    uint32_t nh = 400 + uint32_t(r.below(200));
    for (uint32_t i = 0; i < nh; i++) {
      HNode* n = A.new_oneshot<HNode>(i * 13u + 7u, i);
      if (!n) { R.null_result(); CHK(); continue; }
      hash.insert(A, n);
    }
    {
      uint64_t found = 0, sum = 0;
      for (uint32_t i = 0; i < nh; i++) { HNode* n = hash.get(HKey{i * 13u + 7u}); if (n) { found++; sum += n->val; } }
      out.num("hfound", found); out.num("hsum", sum); out.num("hsize", hash.size());
      if (found != hash.size()) out.main += "HASH-LOST-NODES;";   // differs from clean -> flagged when nothing was reported
    }
    // -- ArenaBitSet ------------------------------------------------------------------------------------
    E(bits.resize(A, 100, false));
    if (bits.size() >= 100) { bits.set_bit(3, true); bits.set_bit(99, true); }
    E(bits.resize(A, 5000, true));
    E(bits.resize(A, 70000, false));   // dynamic block
    for (uint32_t i = 0; i < 70; i++) E(bits.append(A, (i & 3) == 0));
    E(bits2.resize(A, bits.size(), false));
    if (bits2.size() == bits.size() && bits.size()) { bits2.or_(bits); bits2.clear_bits(10, 20); }
    out.put("bits", bits.data(), bits.size_in_bit_words() * sizeof(Support::BitWord));
    out.put("bits2", bits2.data(), bits2.size_in_bit_words() * sizeof(Support::BitWord));
    // -- ArenaString / ArenaPool / Arena helpers --------------------------------------------------------
    static const char long_text[] = "a-string-that-does-not-fit-the-embedded-buffer-of-an-ArenaString<16>-and-needs-the-arena";
    E(s1.set_data(A, "short", 5));
    E(s2.set_data(A, long_text, sizeof(long_text) - 1));
    out.put("s1", s1.data(), s1.size()); out.put("s2", s2.data(), s2.size());
    {
      PoolItem* items[24]; uint32_t got = 0;
      for (uint32_t i = 0; i < 24; i++) { items[i] = pool.alloc(A); if (!items[i]) { R.null_result(); CHK(); } else { items[i]->a = i; got++; } }
      for (uint32_t i = 0; i < 24; i += 2) if (items[i]) pool.release(items[i]);
      out.num("pool", got);
    }
    {
      void* d = A.dup(long_text, sizeof(long_text) - 1, true);
      if (!d) { R.null_result(); CHK(); } else out.put("dup", d, sizeof(long_text));
      char* f = A.sformat("%s/%d/%08X", "fmt", 42, 0xBEEFu);
      if (!f) { R.null_result(); CHK(); } else out.put("sformat", f, strlen(f));
      void* z = A.alloc_oneshot_zeroed(4096 * 3);
      if (!z) { R.null_result(); CHK(); } else out.num("zeroed", uint64_t(((uint8_t*)z)[4096 * 3 - 1]));
      void* big = A.alloc_reusable(40000);
      if (!big) { R.null_result(); CHK(); } else { memset(big, 0x5A, 40000); A.free_reusable(big, 40000); }
    }
    // -- ConstPool --------------------------------------------------------------------------------------
    ConstPool& cp = *cpool;
    {
      // Oracle for the pool is semantic (every returned offset is aligned and holds the constant after fill()):
      // ConstPool ignores allocation failures of its gap bookkeeping on purpose, which changes offsets, not correctness.
      // The exact layout goes to `aux` (must be reproduced exactly by the retry).
      struct Added { uint8_t data[64]; size_t size, off; };
      std::vector<Added> added;
      uint8_t data[64];
      static const uint8_t sizes[] = { 1, 8, 2, 16, 4, 32, 1, 64, 8, 8, 4, 2, 16, 32, 1, 4, 64, 16, 8, 2 };
      uint32_t nadd = 60 + uint32_t(r.below(30));
      for (uint32_t i = 0; i < nadd + 8; i++) {
        size_t sz = i < nadd ? sizes[i % sizeof(sizes)] : 8;
        const uint8_t* src = data;
        if (i < nadd) for (size_t j = 0; j < 64; j++) data[j] = uint8_t((i % 9) * 17 + (j / 4) * 3 + (i & 1 ? j : 0));
        else { for (size_t j = 0; j < 64; j++) data[j] = uint8_t(((i - nadd) % 9) * 17 + (j / 4) * 3); src = data + 32; }   // exists as a shared sub-constant
        size_t off = ~size_t(0);
        Error e = cp.add(src, sz, Out(off));
        R.rec(e); CHK();
        if (e == Error::kOk) { Added a; memcpy(a.data, src, sz); a.size = sz; a.off = off; added.push_back(a); char b[40]; snprintf(b, sizeof b, "c%u@%zu;", i, off); out.aux += b; }
      }
      std::string img(cp.size() + 264, '\xEE');
      cp.fill(&img[0]);
      uint32_t bad = 0;
      for (auto& a : added) if (a.off % a.size != 0 || a.off + a.size > cp.size() || memcmp(img.data() + a.off, a.data, a.size) != 0) bad++;
      for (size_t g = 0; g < 264; g++) if (uint8_t(img[cp.size() + g]) != 0xEE) { bad++; break; }
      // (whether or not an add() reported an error: the caller went on with the same pool, what add() accepted must be in it)
      if (bad) {
        char b[160]; snprintf(b, sizeof b, "W5: %u of %zu constants that add() accepted are misaligned / outside [0, size()=%zu) / not reproduced by fill()", bad, added.size(), cp.size());
        out.api_defects.push_back(Result::Defect{"constpool-inconsistent", "ConstPool::add", b});
      }
      out.num("cpool_added", added.size()); out.num("cpool_bad", bad); out.num("cpalign", cp.alignment());
      out.aux += "cpool=" + hexstr(img.data(), cp.size()) + ";";
    }
  }

  void release_all() {
    Arena& A = *arena;
    v32.release(A); v32b.release(A); v64.release(A); v8.release(A);
    hash.release(A); bits.release(A); bits2.release(A);
    s1.reset(); s2.reset(); pool.reset(); cpool->reset();
  }

  int recover(int strategy, Rec&) override {
    if (strategy == 1) {  // give everything back to the arena, keep the arena (reusable slots are recycled)
      release_all();
      return 0;
    }
    v32.reset(); v32b.reset(); v64.reset(); v8.reset(); hash.reset(); bits.reset(); bits2.reset();
    s1.reset(); s2.reset(); pool.reset(); cpool->reset();
    arena->reset(strategy == 0 ? ResetPolicy::kSoft : ResetPolicy::kHard);
    return 0;
  }

  void destroy() override {
    v32.reset(); v32b.reset(); v64.reset(); v8.reset(); hash.reset(); bits.reset(); bits2.reset();
    s1.reset(); s2.reset(); pool.reset();
    cpool.reset(); arena.reset();
  }
};

// W5c - ConstPool against a model, "continue" recovery: a caller whose add() was refused goes on with the SAME pool (adds
// other constants, or the refused one again) without resetting it. Whatever add() accepted - before or after the refused
// call - must then lie inside [0, size()), be aligned to its size, and be reproduced by fill(), which must not write
// behind size(); alignment() must cover the largest accepted constant. Judged whether or not an error was reported.
// Sizes are mixed on purpose (1..64, small before big): most adds meet alignment padding and reusable gaps.
struct W5c : Workload {
  std::optional<Arena> arena;
  std::optional<ConstPool> cpool;
  size_t block_size;
  struct Item { uint8_t data[64]; size_t size, off; };
  std::vector<Item> items;          // what add() accepted since the pool was last reset
  Rec* R = nullptr; Result* out = nullptr;
  bool stats = false;
  explicit W5c(size_t bs) : block_size(bs) {}

  void construct() override { arena.emplace(block_size); cpool.emplace(*arena); items.clear(); }

  void defect(const char* kind, const std::string& what) {
    for (auto& x : out->api_defects) if (!strcmp(x.kind, kind)) { if (x.what.size() < 400) x.what += what + "; "; return; }
    out->api_defects.push_back(Result::Defect{kind, "ConstPool::add", what + "; "});
  }

  void check(const char* when, uint32_t step, bool after_failure) {
    bool c = F.counting; F.counting = false;
    ConstPool& cp = *cpool;
    if (stats) ST.cp_checks++;
    size_t sz = cp.size(), largest = 0;
    constexpr size_t kGuard = 320;
    std::vector<uint8_t> img(sz + kGuard, uint8_t(0xCC));
    cp.fill(img.data());
    const char* kind = after_failure ? "constpool-inconsistent-after-refused-add" : "constpool-inconsistent";
    char b[240];
    for (size_t g = 0; g < kGuard; g++) if (img[sz + g] != 0xCC) { snprintf(b, sizeof b, "%s (step %u): fill() wrote %zu bytes behind size()=%zu", when, step, g + 1, sz); defect(kind, b); break; }
    uint32_t reported = 0;
    for (const Item& it : items) {
      largest = std::max(largest, it.size);
      const char* what = nullptr;
      if (it.off % it.size) what = "is not aligned to its size";
      else if (it.off + it.size > sz) what = "lies outside [0, size())";
      else if (memcmp(img.data() + it.off, it.data, it.size) != 0) what = "is not reproduced by fill() at the offset add() returned (another constant overlaps it)";
      if (what && reported++ < 2) { snprintf(b, sizeof b, "%s (step %u): the %zu-byte constant at offset %zu %s, size()=%zu", when, step, it.size, it.off, what, sz); defect(kind, b); }
    }
    if (largest && (cp.alignment() < largest || (cp.alignment() & (cp.alignment() - 1)))) { snprintf(b, sizeof b, "%s (step %u): alignment()=%zu with an accepted %zu-byte constant", when, step, cp.alignment(), largest); defect(kind, b); }
    F.counting = c;
  }

  static void make_const(uint8_t* dst, uint32_t v, size_t sz, uint32_t part) {
    // 64-byte pattern per value v (every 4-byte group distinct within and across patterns); a constant is an aligned part of
    // it, so that equal constants, and constants that are halves / quarters of a bigger one (shared nodes), occur
    uint8_t pat[64];
    for (size_t j = 0; j < 64; j++) pat[j] = uint8_t(v * 37u + uint32_t(j / 4u) * 5u + uint32_t(j % 4u) * 61u + (j & 1u ? v : 0u));
    size_t o = (size_t(part) * sz) % 64u;
    memcpy(dst, pat + o, sz);
  }

  // returns false when the caller stops
  bool add(const uint8_t* d, size_t sz, uint32_t step, bool is_retry, bool& ok) {
    ConstPool& cp = *cpool;
    bool faults_on = F.counting;
    size_t before = cp.size();
    size_t off = ~size_t(0);
    Error e = cp.add(d, sz, Out(off));
    ok = e == Error::kOk;
    if (stats) { ST.cp_adds++; if (is_retry) ST.cp_retries_of_refused++; if (failed_epoch) ST.cp_adds_after_refused++; }
    if (ok) {
      R->calls++;
      Item it; memcpy(it.data, d, sz); it.size = sz; it.off = off; items.push_back(it);
      if (failed_epoch) check("an add() that followed the refused one", step, true);
      return true;
    }
    R->rec(e);
    if (stats) { ST.cp_refused++; if (before % sz) ST.cp_refused_with_padding_pending++; if (cp._gap_pool || [&] { for (auto* g : cp._gaps) if (g) return true; return false; }()) ST.cp_refused_with_gaps_registered++; }
    if (!faults_on && F.mode != M_COUNT) defect("error-with-memory-available", "add() returned error " + std::to_string(unsigned(e)) + " although no request can be refused");
    failed_epoch = true;
    check("right after the refused add()", step, true);
    return !R->stopped();
  }
  bool failed_epoch = false;

  void body(Rec& R_, Result& out_) override {
    R = &R_; out = &out_; stats = F.mode != M_COUNT;
    ConstPool& cp = *cpool;
    Rng r(P.seed * 9176 + 77);
    uint32_t n = 70 + uint32_t(r.below(30));
    uint32_t accepted = 0;
    failed_epoch = false;
    static const uint8_t small_then_big[] = { 0, 3, 1, 4, 2, 5, 0, 6, 2, 4, 5, 6, 3, 3, 1, 5 };   // log2 of the size
    for (uint32_t epoch = 0; epoch < 2; epoch++) {
      for (uint32_t i = 0; i < n; i++) {
        uint32_t lg = r.chance(1, 2) ? small_then_big[(i + epoch * 5) % sizeof small_then_big] : uint32_t(r.below(7));
        size_t sz = size_t(1) << lg;
        uint8_t d[64];
        make_const(d, uint32_t(r.below(14)), sz, uint32_t(r.below(8)));
        bool ok = false;
        uint32_t step = epoch * 1000 + i;
        if (!add(d, sz, step, false, ok)) return;
        if (ok) { accepted++; continue; }
        if (!F.counting) continue;
        // the caller carries on with the same pool: case RNG-free choice by position so that both phases make the same calls
        Rng c(P.seed * 31 + step * 7 + F.k);
        switch (c.below(4)) {
          case 0: break;                                                                    // gives the constant up
          case 1: if (!add(d, sz, step, true, ok)) return; accepted += ok; break;           // the same constant again
          case 2: {                                                                         // constants that fit the padding, then again
            for (size_t s2 = 1; s2 < sz && s2 <= 32; s2 <<= 1) { uint8_t e2[64]; make_const(e2, 40u + uint32_t(s2) + i, s2, i); bool ok2; if (!add(e2, s2, step, false, ok2)) return; accepted += ok2; }
            if (!add(d, sz, step, true, ok)) return; accepted += ok;
            break;
          }
          default: {                                                                        // again, then two of the padding's size
            if (!add(d, sz, step, true, ok)) return; accepted += ok;
            for (uint32_t q = 0; q < 2 && sz > 1; q++) { uint8_t e2[64]; make_const(e2, 90u + q + i, sz / 2, q); bool ok2; if (!add(e2, sz / 2, step, false, ok2)) return; accepted += ok2; }
            break;
          }
        }
      }
      check("end of the epoch", epoch, failed_epoch);
      char b[64]; snprintf(b, sizeof b, "e%u:size=%zu,align=%zu;", epoch, cp.size(), cp.alignment()); out->aux += b;
      for (const Item& it : items) { snprintf(b, sizeof b, "%zu@%zu,", it.size, it.off); out->aux += b; }
      out->num("accepted", accepted);
      if (epoch == 0) { cp.reset(); items.clear(); failed_epoch = false; if (stats) ST.cp_pool_resets++; }   // the pool object is reused, the arena keeps what it has
    }
  }

  int recover(int strategy, Rec&) override {
    cpool->reset(); items.clear(); failed_epoch = false;
    if (strategy != 1) arena->reset(strategy == 0 ? ResetPolicy::kSoft : ResetPolicy::kHard);
    return 0;
  }
  void destroy() override { cpool.reset(); arena.reset(); items.clear(); }
};

// W5s - Arena reuse after a soft reset: retained blocks that are too small for the next request are skipped.
template<int TMP>
struct W5sT : Workload {
  std::optional<Arena> arena;
  std::optional<ArenaTmp<512>> tmp;      // TMP: the arena starts in an embedded 512-byte block that is never freed
  void construct() override { if (TMP) tmp.emplace(1024); else arena.emplace(1024); }
  void body(Rec& R, Result& out) override {
    Arena& A = TMP ? static_cast<Arena&>(*tmp) : *arena;
    uint64_t sum = 0;
    for (int round = 0; round < 3; round++) {
      // several blocks of growing size
      for (uint32_t i = 0; i < 60; i++) {
        uint8_t* p = A.alloc_oneshot<uint8_t>(256);
        if (!p) { R.null_result(); CHK(); continue; }
        memset(p, int(i), 256); sum += p[17];
      }
      ArenaStatistics st = A.statistics();
      sum += st.block_count() >= 2 ? 1000 : 0;   // (the exact block count depends on what earlier rounds retained)
      A.reset(ResetPolicy::kSoft);
      // a request larger than every retained block: all of them are skipped (and freed), a new one is allocated
      uint8_t* big = A.alloc_oneshot<uint8_t>(64 * 1024 + round * 8192);
      if (!big) { R.null_result(); CHK(); } else { memset(big, 0x33, 64 * 1024); sum += big[5]; }
      uint8_t* q = A.alloc_oneshot<uint8_t>(512);
      if (!q) { R.null_result(); CHK(); } else { memset(q, 1, 512); sum += q[1]; }
      st = A.statistics();
      sum += st.block_count() >= 1 ? 100 : 0;
      if (round == 2) note_static_arena(A);
      A.reset(round == 1 ? ResetPolicy::kHard : ResetPolicy::kSoft);
    }
    out.num("sum", sum);
  }
  int recover(int strategy, Rec&) override { (TMP ? static_cast<Arena&>(*tmp) : *arena).reset(strategy == 2 ? ResetPolicy::kHard : ResetPolicy::kSoft); return 0; }
  void destroy() override { arena.reset(); tmp.reset(); }
};
typedef W5sT<0> W5s;

// =========================================================================================================
// W6 - String and logger / formatter
// =========================================================================================================

struct W6 : Workload {
  std::optional<String> s, t;
  std::optional<StringTmp<32>> tmp;
  std::optional<StringLogger> logger;
  std::optional<CodeHolder> code;
  std::optional<x86::Assembler> as;
  CountingHandler eh;

  void construct() override { s.emplace(); t.emplace(); tmp.emplace(); logger.emplace(); code.emplace(); as.emplace(); }

  void body(Rec& R, Result& out) override {
    eh.R = &R;
    String& S = *s; String& T = *t;
    Rng r(P.seed * 31 + 9);
    E(S.assign("head:"));
    for (uint32_t i = 0; i < 40; i++) E(S.append_format("[%u|%s|%08X]", i, "item", i * 2654435761u));
    E(S.append_chars('=', 300));
    E(S.append_int(-1234567, 10, 12, StringFormatFlags::kShowSign));
    E(S.append_uint(0xDEADBEEFCAFEull, 16, 20, StringFormatFlags::kAlternate));
    static const uint8_t raw[24] = { 1, 2, 3, 4, 5, 6, 7, 8, 9, 10, 11, 12, 13, 14, 15, 16, 17, 18, 19, 20, 21, 22, 23, 24 };
    E(S.append_hex(raw, sizeof raw, ':'));
    E(S.pad_end(S.size() + 77, '.'));
    E(T.assign(S));
    E(T.truncate(100));
    E(T.append(S));
    E(T._op_string(String::ModifyOp::kAssign, "re-assigned after growth"));
    E(T.append_chars('x', 5000 + size_t(r.below(3000))));
    E(tmp->assign("tmp-string-that-outgrows-its-embedded-32-byte-buffer-and-moves-to-the-heap"));
    E(tmp->append_format("%s", "!"));
    out.put("S", S.data(), S.size()); out.num("T", T.size()); out.put("tmp", tmp->data(), tmp->size());
    E(S.clear());

    // Formatter (explicit calls return Error)
    {
      String f;
      Operand ops[3] = { x86::rax, x86::ptr(x86::rbx, x86::rcx, 2, 0x1234), imm(0x7766554433221100ll) };
      for (int i = 0; i < 12; i++) {
        E(Formatter::format_instruction(f, FormatFlags::kHexImms | FormatFlags::kHexOffsets | FormatFlags::kRegCasts, nullptr, Arch::kX64,
                                        BaseInst(i & 1 ? x86::Inst::kIdMov : x86::Inst::kIdAdd), Span<const Operand_>(ops, 2)));
        E(f.append('\n'));
        E(Formatter::format_operand(f, FormatFlags::kNone, nullptr, Arch::kX64, ops[2]));
        E(Formatter::format_type_id(f, TypeId::kFloat64x2));
        E(Formatter::format_register(f, FormatFlags::kRegType, nullptr, Arch::kX64, RegType::kVec256, uint32_t(i)));
        E(Formatter::format_data(f, FormatFlags::kNone, Arch::kX64, TypeId::kUInt32, raw, 6, 2));
        E(Formatter::format_feature(f, Arch::kX64, uint32_t(CpuFeatures::X86::kAVX2)));
      }
      out.put("fmt", f.data(), f.size());
    }

    // StringLogger attached to an assembler: logging is best effort (aux), the code must not depend on it
    {
      CodeHolder& C = *code; x86::Assembler& a = *as;
      if (!C.is_initialized()) { E(C.init(Environment(Arch::kX64))); GATE(); }
      C.set_error_handler(&eh);
      logger->set_flags(FormatFlags::kMachineCode | FormatFlags::kHexImms | FormatFlags::kExplainImms);
      C.set_logger(&*logger);
      E(C.attach(&a));
      Label L = a.new_named_label("logged_label");
      if (!L.is_valid()) { R.null_result(); CHK(); }
      else E(a.bind(L));
      for (uint32_t i = 0; i < 60; i++) {
        E(a.mov(x86::rax, imm(int64_t(i) * 0x0102030405ll)));
        E(a.add(x86::dword_ptr(x86::rsp, int32_t(i * 4)), x86::ecx));
        E(a.vaddps(x86::ymm1, x86::ymm2, x86::ymmword_ptr(x86::rdi, x86::rsi, 3, 64)));
        if ((i % 10) == 0) E(a.commentf("comment #%u %s", i, "with some text to make the log line long enough to matter"));
        if (L.is_valid()) E(a.jnz(L));
      }
      E(a.embed(raw, sizeof raw));
      E(a.align(AlignMode::kCode, 16));
      E(a.ret());
      if (C.is_initialized() && C.section_count()) {
        Section* text = C.text_section();
        out.put("code", text->data(), text->buffer_size());
      }
      out.aux.assign(logger->data(), logger->data_size());
    }
  }

  int recover(int strategy, Rec& R) override {
    (void)s->reset(); (void)t->reset(); (void)tmp->reset();
    logger->clear();
    return recover_holder(*code, strategy, R);
  }

  void destroy() override { as.reset(); code.reset(); logger.reset(); tmp.reset(); t.reset(); s.reset(); }
};

// =========================================================================================================
// W1 / W2 - assembling (Assembler) and building + serializing (Builder)
// =========================================================================================================

struct Labels { std::vector<std::pair<std::string, Label>> all; void add(const char* n, const Label& l) { all.emplace_back(n, l); } };

// What a caller does after generation: flatten, resolve, relocate, copy. Output = image + label / section placement.
static void finish_image(CodeHolder& code, Rec& R, Result& out, const Labels& L, uint64_t base) {
  GATE();
  E(code.flatten()); GATE();
  E(code.resolve_cross_section_fixups()); GATE();
  CodeHolder::RelocationSummary sum {};
  E(code.relocate_to_base(base, &sum)); GATE();
  size_t sz = code.code_size();
  std::string img(sz + 16, '\xCC');
  E(code.copy_flattened_data(&img[0], sz, CopySectionFlags::kPadSectionBuffer | CopySectionFlags::kPadTargetBuffer)); GATE();
  out.put("image", img.data(), sz);
  out.image = hexstr(img.data(), sz);
  out.num("reduction", sum.code_size_reduction);
  for (auto& p : L.all) {
    if (code.is_label_valid(p.second) && code.is_label_bound(p.second)) out.num(p.first.c_str(), code.label_offset_from_base(p.second));
    else out.main += p.first + "=unbound;";
  }
  for (size_t i = 0; i < code.section_count(); i++) {
    Section* s = code.section_by_id(uint32_t(i));
    char b[120]; snprintf(b, sizeof b, "sec%zu@%llu+%llu/%zu;", i, (ull)s->offset(), (ull)s->real_size(), s->buffer_size());
    out.main += b;
  }
}

template<typename EM>
static Label mk_label(EM& e, Rec& R) { Label l = e.new_label(); if (!l.is_valid()) R.null_result(); return l; }

// The x86 program: labels (anonymous, global, local, many named), four sections with creation order != layout order,
// forward / backward / cross-section references, absolute far and near targets (address table in 64-bit mode),
// embed / embed_label / embed_label_delta / embed_data_array / embed_const_pool, alignment, > 16 KiB of code.
template<typename EM>
static void x86_program(EM& e, CodeHolder& code, Rec& R, Labels& L, bool is64, uint64_t seed, uint64_t base, ConstPool* cpool) {
  Rng r(seed * 131 + (is64 ? 1 : 2));
  uint32_t nfill = 700 + uint32_t(r.below(500));
  uint32_t nnamed = 130 + uint32_t(r.below(90));
  Section *s_data = nullptr, *s_ro = nullptr, *s_hot = nullptr;
  E(code.new_section(Out(s_data), ".data", SIZE_MAX, SectionFlags::kNone, 16, 2));
  E(code.new_section(Out(s_ro), ".rodata", SIZE_MAX, SectionFlags::kReadOnly, 8, 1));
  E(code.new_section(Out(s_hot), ".hot", SIZE_MAX, SectionFlags::kExecutable | SectionFlags::kReadOnly, 32, -1));

  Label l_entry = mk_label(e, R), l_loop = mk_label(e, R), l_fwd = mk_label(e, R), l_fn2 = mk_label(e, R);
  Label l_data = mk_label(e, R), l_ro = mk_label(e, R), l_pool = mk_label(e, R);
  CHK();
  Label l_main = e.new_named_label("main");
  if (!l_main.is_valid()) { R.null_result(); CHK(); }
  Label l_inner = l_main.is_valid() ? e.new_named_label("inner", SIZE_MAX, LabelType::kLocal, l_main.id()) : Label();
  if (l_main.is_valid() && !l_inner.is_valid()) { R.null_result(); CHK(); }
  L.add("entry", l_entry); L.add("loop", l_loop); L.add("fwd", l_fwd); L.add("fn2", l_fn2); L.add("data", l_data);
  L.add("ro", l_ro); L.add("pool", l_pool); L.add("main", l_main); L.add("inner", l_inner);

  x86::Gp acc = is64 ? x86::rax : x86::eax, cnt = is64 ? x86::rcx : x86::ecx, ptr = is64 ? x86::rdx : x86::edx;

  if (l_main.is_valid()) E(e.bind(l_main));
  if (l_entry.is_valid()) E(e.bind(l_entry));
  E(e.mov(x86::eax, 1));
  if (l_data.is_valid()) E(e.lea(ptr, x86::ptr(l_data)));
  if (l_ro.is_valid()) E(e.mov(cnt, x86::ptr(l_ro, 8, is64 ? 8 : 4)));
  if (l_inner.is_valid()) E(e.bind(l_inner));
  if (l_loop.is_valid()) E(e.bind(l_loop));
  E(e.add(acc, cnt));
  E(e.dec(cnt));
  if (l_loop.is_valid()) E(e.jnz(l_loop));
  if (l_fwd.is_valid()) E(e.jmp(l_fwd));
  for (uint32_t i = 0; i < nfill; i++) {
    if (is64) E(e.mov(x86::rax, imm(0x0101010101010101ull * (i & 0xFF) + i)));
    else E(e.mov(x86::eax, imm(0x01010101u * (i & 0xFF) + i)));
    E(e.add(x86::dword_ptr(ptr, int32_t(i * 4)), x86::eax));
    if ((i % 37) == 0 && l_fwd.is_valid()) E(e.jz(l_fwd));          // many forward references -> fixups
    if ((i % 101) == 0 && l_fn2.is_valid()) E(e.call(l_fn2));       // cross-section references
  }
  if (l_fwd.is_valid()) E(e.bind(l_fwd));
  if (l_fn2.is_valid()) E(e.call(l_fn2));
  E(e.call(imm(is64 ? 0x123456789ABCull : 0x12345678ull)));         // far absolute target (64-bit: address table slot)
  E(e.jmp(imm(is64 ? 0x00007FFF12345678ull : 0x7FFF1234ull)));
  E(e.call(imm(base + 0x4000)));                                     // near absolute target (slot can be dropped)
  E(e.call(imm(is64 ? 0x123456789ABCull : 0x12345678ull)));         // same far target again (slot shared)
  for (uint32_t i = 0; i < nnamed; i++) {
    char nm[40]; snprintf(nm, sizeof nm, "named_label_%u_%llu", i, (ull)(seed & 7));
    Label nl = e.new_named_label(nm);
    if (!nl.is_valid()) { R.null_result(); CHK(); continue; }
    E(e.bind(nl));
    E(e.nop());
    if (i % 16 == 0) L.add(nm, nl);
  }
  E(e.ret());

  if (s_hot) {
    E(e.section(s_hot));
    E(e.align(AlignMode::kCode, 32));
    if (l_fn2.is_valid()) E(e.bind(l_fn2));
    E(e.xor_(x86::eax, x86::eax));
    // (no reference to a label that is already bound in another section: see the final report, not a C15 matter)
    E(e.ret());
  }
  static uint8_t blob[3000];
  for (size_t i = 0; i < sizeof blob; i++) blob[i] = uint8_t(i * 7 + 3);
  if (s_ro) {
    E(e.section(s_ro));
    if (l_ro.is_valid()) E(e.bind(l_ro));
    E(e.embed(blob, 40));
    static const uint32_t arr[4] = { 0x11111111u, 0x22222222u, 0x33333333u, 0x44444444u };
    E(e.embed_data_array(TypeId::kUInt32, arr, 4, 3));
    E(e.embed_uint64(0x8877665544332211ull, 2));
  }
  if (s_data) {
    E(e.section(s_data));
    E(e.align(AlignMode::kData, 16));
    if (l_data.is_valid()) E(e.bind(l_data));
    if (l_entry.is_valid()) E(e.embed_label(l_entry));                 // absolute address of a label -> relocation
    if (l_fn2.is_valid()) E(e.embed_label(l_fn2));
    if (l_fwd.is_valid() && l_entry.is_valid()) E(e.embed_label_delta(l_fwd, l_entry, 4));
    if (l_fn2.is_valid() && l_data.is_valid()) E(e.embed_label_delta(l_fn2, l_data, is64 ? 8 : 4));   // cross-section delta
    E(e.embed(blob, sizeof blob));
    if (cpool && l_pool.is_valid()) {
      for (uint32_t i = 0; i < 10; i++) {
        // one size only: the layout then does not depend on gap bookkeeping, whose allocation failures ConstPool
        // deliberately ignores (a different but valid layout would be "completes correctly", not comparable bytewise)
        uint8_t c[8]; for (size_t j = 0; j < 8; j++) c[j] = uint8_t(i * 16 + j);
        size_t off; E(cpool->add(c, 8, Out(off)));
      }
      E(e.embed_const_pool(l_pool, *cpool));
    }
    E(e.align(AlignMode::kZero, 64));
  }
}

template<int ARCH64>
struct W1x86 : Workload {
  std::optional<CodeHolder> code;
  std::optional<x86::Assembler> as;
  std::optional<Arena> parena;
  std::optional<ConstPool> cpool;
  CountingHandler eh;
  static constexpr uint64_t kBase = ARCH64 ? 0x00007F1200010000ull : 0x08040000ull;

  void construct() override { code.emplace(); as.emplace(); parena.emplace(4096); cpool.emplace(*parena); }
  void body(Rec& R, Result& out) override {
    eh.R = &R;
    CodeHolder& C = *code;
    if (!C.is_initialized()) { E(C.init(Environment(ARCH64 ? Arch::kX64 : Arch::kX86))); GATE(); }
    C.set_error_handler(&eh);
    E(C.attach(&*as));
    Labels L;
    x86_program(*as, C, R, L, ARCH64 != 0, P.seed, kBase, &*cpool); CHK();
    finish_image(C, R, out, L, kBase);
  }
  int recover(int strategy, Rec& R) override {
    cpool->reset(); parena->reset(strategy == 2 ? ResetPolicy::kHard : ResetPolicy::kSoft);
    return recover_holder(*code, strategy, R);
  }
  void destroy() override { as.reset(); code.reset(); cpool.reset(); parena.reset(); }
};

// W2: the same program through x86::Builder (+ builder-only node operations), then finalize() or serialize_to().
template<int EXPLICIT_SERIALIZE>
struct W2x86 : Workload {
  std::optional<CodeHolder> code;
  std::optional<x86::Builder> cb;
  std::optional<x86::Assembler> as;
  std::optional<Arena> parena;
  std::optional<ConstPool> cpool;
  CountingHandler eh;
  static constexpr uint64_t kBase = 0x00007F1200010000ull;

  void construct() override { code.emplace(); cb.emplace(); as.emplace(); parena.emplace(4096); cpool.emplace(*parena); }
  void body(Rec& R, Result& out) override {
    eh.R = &R;
    CodeHolder& C = *code; x86::Builder& B = *cb;
    if (!C.is_initialized()) { E(C.init(Environment(Arch::kX64))); GATE(); }
    C.set_error_handler(&eh);
    E(C.attach(&B)); GATE();
    Labels L;
    x86_program(B, C, R, L, true, P.seed + 100, kBase, &*cpool); CHK();
    // builder-only operations
    if (B.is_initialized()) {
      E(B.comment("a comment node"));
      CommentNode* cn = nullptr;
      E(B.new_comment_node(Out(cn), "inserted", 8));
      BaseNode* first = B.first_node();
      if (cn && first) { B.add_after(cn, first); }
      InstNode* in = nullptr;
      E(B.new_inst_node(Out(in), x86::Inst::kIdNop, InstOptions::kNone, 0));
      if (in) in->reset_op_range(0, in->op_capacity());   // new_inst_node() leaves the operand storage uninitialised
      if (in && first) { B.add_before(in, first); B.remove_node(in); B.add_after(in, first); }
      AlignNode* an = nullptr;
      E(B.new_align_node(Out(an), AlignMode::kCode, 8));
      if (an && first) B.add_after(an, first);
      static const uint64_t q[3] = { 1, 2, 3 };
      EmbedDataNode* en = nullptr;
      E(B.new_embed_data_node(Out(en), TypeId::kUInt64, q, 3, 100));   // 2400 bytes: out-of-line data
      if (en && B.last_node()) { B.set_cursor(B.last_node()); B.add_node(en); }
    }
    GATE();
    if (EXPLICIT_SERIALIZE) {
      E(B.run_passes());
      E(C.attach(&*as));
      E(B.serialize_to(&*as));
    }
    else E(B.finalize());
    finish_image(C, R, out, L, kBase);
  }
  int recover(int strategy, Rec& R) override {
    cpool->reset(); parena->reset(strategy == 2 ? ResetPolicy::kHard : ResetPolicy::kSoft);
    return recover_holder(*code, strategy, R);
  }
  void destroy() override { as.reset(); cb.reset(); code.reset(); cpool.reset(); parena.reset(); }
};

// W1 on AArch64: labels, literal-style loads, cross-section adr/b/bl, embeds.
struct W1a64 : Workload {
  std::optional<CodeHolder> code;
  std::optional<a64::Assembler> as;
  CountingHandler eh;
  void construct() override { code.emplace(); as.emplace(); }
  void body(Rec& R, Result& out) override {
    eh.R = &R;
    CodeHolder& C = *code; a64::Assembler& a = *as;
    if (!C.is_initialized()) { E(C.init(Environment(Arch::kAArch64))); GATE(); }
    C.set_error_handler(&eh);
    E(C.attach(&a));
    Labels L;
    Rng r(P.seed * 17 + 3);
    Section* s_data = nullptr; Section* s_cold = nullptr;
    E(C.new_section(Out(s_data), ".data", SIZE_MAX, SectionFlags::kNone, 8, 1));
    E(C.new_section(Out(s_cold), ".cold", SIZE_MAX, SectionFlags::kExecutable, 16, 0));
    Label l_entry = mk_label(a, R), l_loop = mk_label(a, R), l_end = mk_label(a, R), l_lit = mk_label(a, R), l_cold = mk_label(a, R), l_tab = mk_label(a, R);
    CHK();
    L.add("entry", l_entry); L.add("loop", l_loop); L.add("end", l_end); L.add("lit", l_lit); L.add("cold", l_cold); L.add("tab", l_tab);
    if (l_entry.is_valid()) E(a.bind(l_entry));
    E(a.mov(a64::x0, 100));
    if (l_lit.is_valid()) E(a.ldr(a64::x2, a64::ptr(l_lit)));
    if (l_tab.is_valid()) E(a.adr(a64::x3, l_tab));
    if (l_loop.is_valid()) E(a.bind(l_loop));
    E(a.subs(a64::x0, a64::x0, 1));
    if (l_loop.is_valid()) E(a.b_ne(l_loop));
    uint32_t nfill = 500 + uint32_t(r.below(300));
    for (uint32_t i = 0; i < nfill; i++) {
      E(a.add(a64::x1, a64::x1, a64::x2, a64::lsl(i & 7)));
      E(a.mov(a64::x4, uint64_t(i) * 0x10001u));
      if (i % 41 == 0 && l_end.is_valid()) E(a.cbz(a64::x1, l_end));
      if (i % 97 == 0 && l_cold.is_valid()) E(a.bl(l_cold));
      if (i % 53 == 0 && l_end.is_valid()) E(a.tbnz(a64::x1, 3, l_end));
    }
    if (l_end.is_valid()) E(a.bind(l_end));
    E(a.ret(a64::x30));
    if (l_lit.is_valid()) { E(a.align(AlignMode::kData, 8)); E(a.bind(l_lit)); E(a.embed_uint64(0x1122334455667788ull)); }
    for (uint32_t i = 0; i < 120; i++) {
      char nm[32]; snprintf(nm, sizeof nm, "a64_label_%u", i);
      Label nl = a.new_named_label(nm);
      if (!nl.is_valid()) { R.null_result(); CHK(); continue; }
      E(a.bind(nl)); E(a.nop());
    }
    if (s_cold) {
      E(a.section(s_cold));
      if (l_cold.is_valid()) E(a.bind(l_cold));
      E(a.mov(a64::w0, 0));
      E(a.ret(a64::x30));
    }
    if (s_data) {
      E(a.section(s_data));
      if (l_tab.is_valid()) E(a.bind(l_tab));
      if (l_entry.is_valid()) E(a.embed_label(l_entry));
      if (l_end.is_valid() && l_entry.is_valid()) E(a.embed_label_delta(l_end, l_entry, 4));
      static uint8_t blob[2000];
      E(a.embed(blob, sizeof blob));
    }
    finish_image(C, R, out, L, 0x0000007F00100000ull);
  }
  int recover(int strategy, Rec& R) override {
    return recover_holder(*code, strategy, R);
  }
  void destroy() override { as.reset(); code.reset(); }
};

// W1r - reuse under failure: init / small program / reinit / small program / reset / init ... with the faults armed
// during the reset and re-initialisation steps themselves.
struct W1r : Workload {
  std::optional<CodeHolder> code;
  std::optional<x86::Assembler> as;
  std::optional<x86::Builder> cb;
  std::optional<x86::Compiler> cc;
  CountingHandler eh;
  // static_size != 0: the holder's arena starts in caller-provided memory (the first heap block is chained behind it; a hard
  // reset must keep the static block and free the rest - also after a request for that heap block was refused)
  size_t static_size = 0;
  alignas(64) uint8_t static_mem[2048];
  explicit W1r(size_t st = 0) : static_size(st) {}
  void construct() override {
    if (static_size) { CtorScope cs("CodeHolder(static memory)"); code.emplace(Span<uint8_t>(static_mem, static_size)); } else code.emplace();
    as.emplace(); cb.emplace(); cc.emplace();
  }
  // a function with virtual registers (the RA pass that on_attach / on_reinit registers must really run)
  void small_func(x86::Compiler& c, Rec& R, uint32_t round);
  template<typename EM> void small(EM& e, CodeHolder& C, Rec& R, uint32_t round) {
    Section* s = nullptr;
    E(C.new_section(Out(s), ".d", SIZE_MAX, SectionFlags::kNone, 8, int32_t(round & 1) * 2 - 1));
    Section* s2 = nullptr;
    E(C.new_section(Out(s2), ".e", SIZE_MAX, SectionFlags::kNone, 4, 0));
    Label a = mk_label(e, R), b = mk_label(e, R); CHK();
    if (b.is_valid()) E(e.jmp(b));
    if (a.is_valid()) E(e.bind(a));
    for (uint32_t i = 0; i < 20 + round; i++) E(e.mov(x86::eax, imm(i + round * 1000)));
    if (b.is_valid()) E(e.bind(b));
    if (a.is_valid()) E(e.lea(x86::rax, x86::ptr(a)));
    E(e.call(imm(0x1234500000ull + round)));
    E(e.ret());
    if (s) { E(e.section(s)); if (a.is_valid()) E(e.embed_label(a)); E(e.embed_uint32(round, 5)); }
    if (s2) { E(e.section(s2)); E(e.embed_uint16(uint16_t(round), 3)); }
  }
  void image(CodeHolder& C, Rec& R, Result& out) { Labels L; finish_image(C, R, out, L, 0x7F0000000000ull); }
  void body(Rec& R, Result& out) override {
    eh.R = &R;
    CodeHolder& C = *code;
    // A caller that reuses its objects in a loop: an iteration that reported an error is abandoned, the loop goes on.
    Rec R0 = R;
    auto failed_since = [&](const Rec& before) { return R.errs != before.errs || R.handler != before.handler || R.nulls != before.nulls; };
    for (uint32_t round = 0; round <= 15; round++) {
      if (R.stopped()) return;
      Rec before = R;
      bool use_builder = (round >= 5 && round <= 7);
      bool use_compiler = round >= 10;      // reinit / reset + init + attach with a Compiler (its passes are registered again each time)
      BaseEmitter* em = use_compiler ? static_cast<BaseEmitter*>(&*cc) : use_builder ? static_cast<BaseEmitter*>(&*cb) : static_cast<BaseEmitter*>(&*as);
      // how this iteration gets a clean holder: reinit (even rounds, if possible), soft reset + init, hard reset + init
      if (C.is_initialized() && (round % 3) != 2 && em->code() == &C) R.rec(C.reinit());
      else {
        C.reset(round % 3 == 2 ? ResetPolicy::kHard : ResetPolicy::kSoft);
        R.rec(C.init(Environment(Arch::kX64), 0x7F0000000000ull));   // base address known from the start (reinit keeps it)
        if (!C.is_initialized()) continue;
        C.set_error_handler(&eh);
        R.rec(C.attach(em));
      }
      if (failed_since(before)) continue;
      if (use_compiler) { small_func(*cc, R, round); if (!failed_since(before) && F.mode != M_COUNT && F.fired) ST.reinit_compiler_rounds_after_failure++; }
      else if (use_builder) small(*cb, C, R, round); else small(*as, C, R, round);
      if (failed_since(before)) continue;
      if (use_builder) { R.rec(cb->finalize()); if (failed_since(before)) continue; }
      if (use_compiler) { R.rec(cc->finalize()); if (failed_since(before)) continue; }
      {
        Rec saved = R; R.errs = R.handler = R.nulls = 0;    // finish_image() gates on errors of THIS iteration only
        image(C, R, out);
        R.errs += saved.errs; R.handler += saved.handler; R.nulls += saved.nulls; if (!R.first_err) { R.first_err = saved.first_err; R.first_err_call = saved.first_err_call; }
      }
    }
    (void)R0;
    note_static_arena(C.arena());
  }
  int recover(int strategy, Rec& R) override {
    (void)R;
    code->reset(strategy == 2 ? ResetPolicy::kHard : ResetPolicy::kSoft);   // (the body itself exercises reinit)
    return 0;
  }
  void destroy() override { cc.reset(); cb.reset(); as.reset(); code.reset(); }
};
void W1r::small_func(x86::Compiler& c, Rec& R, uint32_t round) {
  FuncNode* fn = c.add_func(FuncSignature::build<int, int, int>());
  if (!fn) { R.null_result(); return; }
  x86::Gp a = c.new_gp32("a"), b = c.new_gp32("b");
  if (!a.is_valid() || !b.is_valid()) { R.null_result(); return; }
  fn->set_arg(0, a); fn->set_arg(1, b);
  std::vector<x86::Gp> v;
  // (as many values as fit into registers: a spill slot whose creation fails is created later - different, correct code)
  for (uint32_t i = 0; i < 10; i++) { x86::Gp g = c.new_gp32("v%u", i); if (!g.is_valid()) { R.null_result(); return; } v.push_back(g); E(c.mov(g, int(i + round * 100))); }
  for (auto& g : v) E(c.add(a, g));
  E(c.imul(a, b));
  E(c.ret(a));
  E(c.end_func());
}


// =========================================================================================================
// W3 - Compiler: spills, invokes, annotated jump tables, constant pools, stack slots
// =========================================================================================================

static int callee10(int a, int b, int c, int d, int e, int f, int g, int h, int i, int j) { return a + b * 2 + c * 3 + d + e + f + g + h + i + j; }
static double callee_d(double a, int b, double c) { return a * b + c; }
static int64_t callee_q(int64_t a, uint8_t b, int16_t c, int64_t d, int e, int f, int64_t g, int64_t h) { return a + b + c + d + e + f + g + h; }

template<typename RegT> static bool okreg(const RegT& r, Rec& R) { if (!r.is_valid()) { R.null_result(); return false; } return true; }

static void x86_functions(x86::Compiler& cc, Rec& R, Labels& L, bool is64, uint64_t seed) {
  Rng r(seed * 211 + (is64 ? 0 : 1));
  // ---- f1: register pressure -> spills, stack slot, vector registers ------------------------------------
  {
    FuncNode* fn = cc.add_func(FuncSignature::build<int, int*, int>());
    if (!fn) { R.null_result(); CHK(); }
    else {
      L.add("f1", fn->label());
      x86::Gp p = cc.new_gp_ptr("p"), n = cc.new_gp32("n");
      if (okreg(p, R) && okreg(n, R)) { fn->set_arg(0, p); fn->set_arg(1, n); }
      CHK();
      uint32_t nregs = 18 + uint32_t(r.below(8));
      std::vector<x86::Gp> v;
      for (uint32_t i = 0; i < nregs; i++) { x86::Gp g = cc.new_gp32("v%u", i); if (okreg(g, R)) v.push_back(g); CHK(); }
      for (size_t i = 0; i < v.size(); i++) E(cc.mov(v[i], int(i * 3 + 1)));
      x86::Mem stk = cc.new_stack(16, 16, "slot");
      if (stk.is_none()) { R.null_result(); CHK(); }
      Label loop = cc.new_label(), done = cc.new_label();
      if (!loop.is_valid() || !done.is_valid()) { R.null_result(); CHK(); }
      else if (p.is_valid() && n.is_valid()) {
        E(cc.test(n, n)); E(cc.jz(done));
        E(cc.bind(loop));
        for (size_t i = 0; i < v.size(); i++) E(cc.add(v[i], x86::dword_ptr(p, int32_t(i * 4))));
        if (!stk.is_none() && !v.empty()) { x86::Mem m = stk; m.set_size(4); E(cc.mov(m, v[0])); E(cc.add(v[v.size() - 1], m)); }
        E(cc.dec(n)); E(cc.jnz(loop));
        E(cc.bind(done));
      }
      x86::Gp sum = cc.new_gp32("sum");
      if (okreg(sum, R)) {
        E(cc.xor_(sum, sum));
        for (size_t i = 0; i < v.size(); i++) E(cc.add(sum, v[i]));
        E(cc.ret(sum));
      }
      E(cc.end_func());
    }
  }
  // ---- f1v: vector register pressure (own function: frames stay below 128 bytes, so that a different order of spill
  //      slots never changes an instruction length and the structural comparison of two images stays exact) -----------
  {
    FuncNode* fn = cc.add_func(FuncSignature::build<int, int>());
    if (!fn) { R.null_result(); CHK(); }
    else {
      L.add("f1v", fn->label());
      x86::Gp sum = cc.new_gp32("vsum");
      if (okreg(sum, R)) {
        fn->set_arg(0, sum);
        std::vector<x86::Vec> x;
        for (uint32_t i = 0; i < (is64 ? 19u : 10u); i++) { x86::Vec q = cc.new_xmm("x%u", i); if (okreg(q, R)) x.push_back(q); CHK(); }
        for (size_t i = 0; i < x.size(); i++) { E(cc.movd(x[i], sum)); E(cc.paddd(x[i], x[i])); }
        for (size_t i = 1; i < x.size(); i++) E(cc.paddd(x[0], x[i]));
        if (!x.empty()) E(cc.movd(sum, x[0]));
        E(cc.ret(sum));
      }
      E(cc.end_func());
    }
  }
  // ---- f2: invokes (many arguments, stack arguments, floating point) ---------------------------------------
  {
    FuncNode* fn = cc.add_func(FuncSignature::build<int, int, int>());
    if (!fn) { R.null_result(); CHK(); }
    else {
      L.add("f2", fn->label());
      x86::Gp a = cc.new_gp32("a"), b = cc.new_gp32("b");
      if (okreg(a, R) && okreg(b, R)) { fn->set_arg(0, a); fn->set_arg(1, b); }
      CHK();
      std::vector<x86::Gp> t;
      for (uint32_t i = 0; i < 10; i++) { x86::Gp g = cc.new_gp32("t%u", i); if (okreg(g, R)) { t.push_back(g); E(cc.mov(g, int(i + 10))); } CHK(); }
      if (t.size() == 10 && a.is_valid() && b.is_valid()) {
        E(cc.add(t[0], a)); E(cc.add(t[1], b));
        for (int rep = 0; rep < 2; rep++) {
          InvokeNode* inv = nullptr;
          Error e = cc.invoke(Out(inv), imm((void*)callee10), FuncSignature::build<int, int, int, int, int, int, int, int, int, int, int>());
          R.rec(e); CHK();
          if (e == Error::kOk && inv) { for (uint32_t i = 0; i < 10; i++) inv->set_arg(i, t[(i + rep) % 10]); inv->set_ret(0, t[rep]); }
        }
        x86::Vec d0 = cc.new_xmm_sd("d0"), d1 = cc.new_xmm_sd("d1");
        if (okreg(d0, R) && okreg(d1, R)) {
          E(cc.cvtsi2sd(d0, t[0])); E(cc.cvtsi2sd(d1, t[1]));
          InvokeNode* inv = nullptr;
          Error e = cc.invoke(Out(inv), imm((void*)callee_d), FuncSignature::build<double, double, int, double>());
          R.rec(e); CHK();
          if (e == Error::kOk && inv) { inv->set_arg(0, d0); inv->set_arg(1, t[2]); inv->set_arg(2, d1); inv->set_ret(0, d0); }
          E(cc.cvttsd2si(t[3], d0));
          E(cc.add(t[0], t[3]));
        }
        E(cc.ret(t[0]));
      }
      E(cc.end_func());
    }
  }
  // ---- f3: annotated jump table ------------------------------------------------------------------------------
  {
    FuncNode* fn = cc.add_func(FuncSignature::build<int, int, int>());
    if (!fn) { R.null_result(); CHK(); }
    else {
      L.add("f3", fn->label());
      x86::Gp op = cc.new_gp32("op"), val = cc.new_gp32("val"), target = cc.new_gp_ptr("target"), offset = cc.new_gp_ptr("offset");
      bool regs = okreg(op, R) && okreg(val, R) && okreg(target, R) && okreg(offset, R);
      CHK();
      Label tab = cc.new_label(), end = cc.new_label();
      Label cs[5]; bool labels_ok = tab.is_valid() && end.is_valid();
      for (auto& c : cs) { c = cc.new_label(); labels_ok = labels_ok && c.is_valid(); }
      if (!labels_ok) { R.null_result(); CHK(); }
      if (regs && labels_ok) {
        fn->set_arg(0, op); fn->set_arg(1, val);
        E(cc.lea(offset, x86::ptr(tab)));
        if (is64) E(cc.movsxd(target, x86::dword_ptr(offset, op.clone_as(offset), 2)));
        else E(cc.mov(target, x86::dword_ptr(offset, op.clone_as(offset), 2)));
        E(cc.add(target, offset));
        JumpAnnotation* ann = cc.new_jump_annotation();
        if (!ann) { R.null_result(); CHK(); }
        else {
          for (auto& c : cs) E(ann->add_label(c));
          E(cc.jmp(target, ann));
          for (int i = 0; i < 5; i++) {
            E(cc.bind(cs[i]));
            switch (i) { case 0: E(cc.add(val, 7)); break; case 1: E(cc.sub(val, 3)); break; case 2: E(cc.imul(val, val)); break; case 3: E(cc.neg(val)); break; default: E(cc.not_(val)); break; }
            if (i != 4) E(cc.jmp(end));
          }
          E(cc.bind(end));
          E(cc.ret(val));
        }
      }
      E(cc.end_func());
      if (labels_ok) {
        E(cc.bind(tab));
        for (auto& c : cs) E(cc.embed_label_delta(c, tab, 4));
      }
    }
  }
  // ---- f4: constant pools (local + global, shared sub-constants), wide vectors -----------------------------
  {
    FuncNode* fn = cc.add_func(FuncSignature::build<int, int>());
    if (!fn) { R.null_result(); CHK(); }
    else {
      L.add("f4", fn->label());
      x86::Gp a = cc.new_gp32("a");
      if (okreg(a, R)) fn->set_arg(0, a);
      CHK();
      x86::Vec x0 = cc.new_xmm("c0"), x1 = cc.new_xmm("c1");
      if (okreg(x0, R) && okreg(x1, R) && a.is_valid()) {
        uint8_t data[32]; for (size_t i = 0; i < 32; i++) data[i] = uint8_t(i * 5 + (seed & 3));
        x86::Mem c32 = cc.new_const(ConstPoolScope::kGlobal, data, 32);
        x86::Mem c16 = cc.new_const(ConstPoolScope::kLocal, data + 16, 16);
        x86::Mem c4 = cc.new_int32_const(ConstPoolScope::kLocal, 200);
        x86::Mem c8 = cc.new_qword_const(ConstPoolScope::kGlobal, 0x1122334455667788ull);
        x86::Mem c4b = cc.new_int32_const(ConstPoolScope::kGlobal, 33);
        x86::Mem cd = cc.new_double_const(ConstPoolScope::kLocal, 3.25);
        if (c32.is_none() || c16.is_none() || c4.is_none() || c8.is_none() || c4b.is_none() || cd.is_none()) { R.null_result(); CHK(); }
        else {
          x86::Mem m16 = c32; m16.set_size(16);
          E(cc.movdqu(x0, m16)); E(cc.paddb(x0, c16));
          E(cc.movd(x1, a)); E(cc.paddd(x0, x1));
          E(cc.add(a, c4)); E(cc.add(a, c4b));
          E(cc.movq(x1, c8)); E(cc.paddd(x0, x1));
          E(cc.addsd(x1, cd));
          E(cc.movd(a, x0));
        }
        E(cc.ret(a));
      }
      E(cc.end_func());
    }
  }
  // ---- f5: invoke arguments that are immediates: the RA pass creates a register for one that is passed in a register and
  //      stores one that is passed on the stack (x86-32: all of them; 64-bit values in two halves) ---------------------------
  {
    FuncNode* fn = cc.add_func(FuncSignature::build<int, int>());
    if (!fn) { R.null_result(); CHK(); }
    else {
      L.add("f5", fn->label());
      x86::Gp a = cc.new_gp32("a"), res = cc.new_gp32("res");
      if (okreg(a, R) && okreg(res, R)) {
        fn->set_arg(0, a);
        InvokeNode* inv = nullptr;
        Error e = cc.invoke(Out(inv), imm((void*)callee10), FuncSignature::build<int, int, int, int, int, int, int, int, int, int, int>());
        R.rec(e); CHK();
        if (e == Error::kOk && inv) {
          inv->set_arg(0, a); inv->set_arg(1, imm(0x11)); inv->set_arg(2, a); inv->set_arg(3, imm(-7)); inv->set_arg(4, imm(0x7FFFFFFF));
          inv->set_arg(5, a); inv->set_arg(6, imm(0x66)); inv->set_arg(7, a); inv->set_arg(8, imm(int32_t(seed & 0xFF) + 1)); inv->set_arg(9, imm(-1));
          inv->set_ret(0, res);
        }
        if (is64) {
          x86::Gp r64 = cc.new_gp64("r64");
          if (okreg(r64, R)) {
            InvokeNode* inv2 = nullptr;
            e = cc.invoke(Out(inv2), imm((void*)callee_q), FuncSignature::build<int64_t, int64_t, uint8_t, int16_t, int64_t, int, int, int64_t, int64_t>());
            R.rec(e); CHK();
            if (e == Error::kOk && inv2) {
              inv2->set_arg(0, imm(0x1122334455667788ll)); inv2->set_arg(1, imm(0x1FF)); inv2->set_arg(2, imm(-2)); inv2->set_arg(3, imm(0x12345678));
              inv2->set_arg(4, a); inv2->set_arg(5, imm(5)); inv2->set_arg(6, imm(0x1122334455667788ll)); inv2->set_arg(7, imm(-9));
              inv2->set_ret(0, r64);
            }
            E(cc.add(res, r64.r32()));
          }
        }
        E(cc.add(res, a));
        E(cc.ret(res));
      }
      E(cc.end_func());
    }
  }
  // ---- f6: floating point returned by the function itself (x86-32: through st0, which needs temporary memory) ---------------
  {
    FuncNode* fn = cc.add_func(FuncSignature::build<double, int, float>());
    if (!fn) { R.null_result(); CHK(); }
    else {
      L.add("f6", fn->label());
      x86::Gp a = cc.new_gp32("a"); x86::Vec d = cc.new_xmm_sd("d"), f = cc.new_xmm_ss("f");
      if (okreg(a, R) && okreg(d, R) && okreg(f, R)) {
        fn->set_arg(0, a); fn->set_arg(1, f);
        Label other = cc.new_label();
        if (!other.is_valid()) { R.null_result(); CHK(); }
        else {
          E(cc.cvtsi2sd(d, a));
          E(cc.test(a, a)); E(cc.jz(other));
          E(cc.addsd(d, d));
          E(cc.ret(d));
          E(cc.bind(other));
          E(cc.cvtss2sd(d, f));
          E(cc.ret(d));
        }
      }
      E(cc.end_func());
    }
    FuncNode* fn2 = cc.add_func(FuncSignature::build<float, int>());
    if (!fn2) { R.null_result(); CHK(); }
    else {
      L.add("f6f", fn2->label());
      x86::Gp a = cc.new_gp32("a"); x86::Vec f = cc.new_xmm_ss("f");
      if (okreg(a, R) && okreg(f, R)) { fn2->set_arg(0, a); E(cc.cvtsi2ss(f, a)); E(cc.ret(f)); }
      E(cc.end_func());
    }
  }
  if (is64) {
    // ---- f7: vector arguments that the calling convention passes by reference (Win64): the RA pass spills them to the call
    //      stack and creates a pointer register; immediates for the register and stack arguments next to them ----------------
    {
      FuncNode* fn = cc.add_func(FuncSignature::build<int, int>());
      if (!fn) { R.null_result(); CHK(); }
      else {
        L.add("f7", fn->label());
        x86::Gp a = cc.new_gp32("a"); x86::Vec v0 = cc.new_xmm("v0"), v1 = cc.new_xmm("v1"), v2 = cc.new_xmm("v2");
        if (okreg(a, R) && okreg(v0, R) && okreg(v1, R) && okreg(v2, R)) {
          fn->set_arg(0, a);
          E(cc.movd(v0, a)); E(cc.pshufd(v1, v0, 0)); E(cc.movdqa(v2, v1)); E(cc.paddd(v2, v0));
          InvokeNode* inv = nullptr;
          Error e = cc.invoke(Out(inv), imm((void*)callee10), FuncSignature::build<int, Type::Vec128, int, Type::Vec128, int, int, int>(CallConvId::kX64Windows));
          R.rec(e); CHK();
          // (a by-reference vector argument that travels on the stack - index >= 4 - is refused with kInvalidAssignment: not used)
          if (e == Error::kOk && inv) { inv->set_arg(0, v0); inv->set_arg(1, a); inv->set_arg(2, v1); inv->set_arg(3, imm(3)); inv->set_arg(4, imm(4)); inv->set_arg(5, imm(77)); inv->set_ret(0, a); }
          E(cc.paddd(v0, v2)); E(cc.movd(v1, a)); E(cc.paddd(v0, v1)); E(cc.movd(a, v0));
          E(cc.ret(a));
        }
        E(cc.end_func());
      }
    }
    // ---- f8: an instruction that needs consecutive registers (k, k+1) -> the bin packer's consecutive-register lists ----
    {
      FuncNode* fn = cc.add_func(FuncSignature::build<int, int>());
      if (!fn) { R.null_result(); CHK(); }
      else {
        L.add("f8", fn->label());
        x86::Gp a = cc.new_gp32("a"), b = cc.new_gp32("b");
        x86::KReg ka = cc.new_kw("ka"), kb = cc.new_kw("kb"), kc = cc.new_kw("kc"), kd = cc.new_kw("kd");
        x86::Vec z0 = cc.new_zmm("z0"), z1 = cc.new_zmm("z1");
        if (okreg(a, R) && okreg(b, R) && okreg(ka, R) && okreg(kb, R) && okreg(kc, R) && okreg(kd, R) && okreg(z0, R) && okreg(z1, R)) {
          fn->set_arg(0, a);
          E(cc.vpbroadcastd(z0, a)); E(cc.vpternlogd(z1, z1, z1, 0xFF));
          E(cc.vp2intersectd(ka, kb, z0, z1));
          E(cc.vpaddd(z1, z1, z0));
          E(cc.vp2intersectd(kc, kd, z1, z0));
          E(cc.kmovw(a, ka)); E(cc.kmovw(b, kb)); E(cc.add(a, b)); E(cc.kmovw(b, kc)); E(cc.add(a, b)); E(cc.kmovw(b, kd)); E(cc.add(a, b));
          E(cc.ret(a));
        }
        E(cc.end_func());
      }
    }
  }
}

static void a64_functions(a64::Compiler& cc, Rec& R, Labels& L, uint64_t seed) {
  Rng r(seed * 223 + 5);
  {
    FuncNode* fn = cc.add_func(FuncSignature::build<int, int*, int>());
    if (!fn) { R.null_result(); CHK(); }
    else {
      L.add("g1", fn->label());
      a64::Gp p = cc.new_gp_ptr("p"), n = cc.new_gp32("n");
      if (okreg(p, R) && okreg(n, R)) { fn->set_arg(0, p); fn->set_arg(1, n); }
      CHK();
      uint32_t nregs = 34 + uint32_t(r.below(8));
      std::vector<a64::Gp> v;
      for (uint32_t i = 0; i < nregs; i++) { a64::Gp g = cc.new_gp32("v%u", i); if (okreg(g, R)) v.push_back(g); CHK(); }
      for (size_t i = 0; i < v.size(); i++) E(cc.mov(v[i], uint64_t(i * 3 + 1)));
      Label loop = cc.new_label(), done = cc.new_label();
      a64::Gp tmp = cc.new_gp32("tmp");
      if (!loop.is_valid() || !done.is_valid() || !tmp.is_valid()) { R.null_result(); CHK(); }
      else if (p.is_valid() && n.is_valid()) {
        E(cc.cbz(n, done));
        E(cc.bind(loop));
        for (size_t i = 0; i < v.size(); i++) { E(cc.ldr(tmp, a64::ptr(p, int32_t(i * 4)))); E(cc.add(v[i], v[i], tmp)); }
        E(cc.subs(n, n, 1)); E(cc.b_ne(loop));
        E(cc.bind(done));
      }
      a64::Gp sum = cc.new_gp32("sum");
      if (okreg(sum, R)) {
        E(cc.mov(sum, 0));
        for (size_t i = 0; i < v.size(); i++) E(cc.add(sum, sum, v[i]));
        std::vector<a64::Vec> q;
        for (uint32_t i = 0; i < 36; i++) { a64::Vec x = cc.new_vec_q("q%u", i); if (okreg(x, R)) q.push_back(x); CHK(); }
        for (size_t i = 0; i < q.size(); i++) E(cc.dup(q[i].s4(), sum));
        for (size_t i = 1; i < q.size(); i++) E(cc.add(q[0].s4(), q[0].s4(), q[i].s4()));
        if (!q.empty()) E(cc.mov(sum, q[0].s(0)));
        E(cc.ret(sum));
      }
      E(cc.end_func());
    }
  }
  {
    FuncNode* fn = cc.add_func(FuncSignature::build<int, int, int>());
    if (!fn) { R.null_result(); CHK(); }
    else {
      L.add("g2", fn->label());
      a64::Gp a = cc.new_gp32("a"), b = cc.new_gp32("b"), f = cc.new_gp_ptr("fn");
      if (okreg(a, R) && okreg(b, R) && okreg(f, R)) { fn->set_arg(0, a); fn->set_arg(1, b); }
      CHK();
      std::vector<a64::Gp> t;
      for (uint32_t i = 0; i < 10; i++) { a64::Gp g = cc.new_gp32("t%u", i); if (okreg(g, R)) { t.push_back(g); E(cc.mov(g, uint64_t(i + 10))); } CHK(); }
      if (t.size() == 10 && a.is_valid() && b.is_valid() && f.is_valid()) {
        E(cc.add(t[0], t[0], a)); E(cc.add(t[1], t[1], b));
        E(cc.mov(f, uint64_t(0x0000123456789ABCull)));
        InvokeNode* inv = nullptr;
        Error e = cc.invoke(Out(inv), f, FuncSignature::build<int, int, int, int, int, int, int, int, int, int, int>());
        R.rec(e); CHK();
        if (e == Error::kOk && inv) { for (uint32_t i = 0; i < 10; i++) inv->set_arg(i, t[i]); inv->set_ret(0, t[0]); }
        a64::Vec d0 = cc.new_vec_d("d0"), d1 = cc.new_vec_d("d1");
        if (okreg(d0, R) && okreg(d1, R)) {
          E(cc.scvtf(d0, t[0])); E(cc.scvtf(d1, t[1]));
          InvokeNode* inv2 = nullptr;
          e = cc.invoke(Out(inv2), f, FuncSignature::build<double, double, int, double>());
          R.rec(e); CHK();
          if (e == Error::kOk && inv2) { inv2->set_arg(0, d0); inv2->set_arg(1, t[2]); inv2->set_arg(2, d1); inv2->set_ret(0, d0); }
          E(cc.fcvtzs(t[3], d0));
          E(cc.add(t[0], t[0], t[3]));
        }
        E(cc.ret(t[0]));
      }
      E(cc.end_func());
    }
  }
  {
    FuncNode* fn = cc.add_func(FuncSignature::build<int, int, int>());
    if (!fn) { R.null_result(); CHK(); }
    else {
      L.add("g3", fn->label());
      a64::Gp op = cc.new_gp32("op"), val = cc.new_gp32("val"), target = cc.new_gp_ptr("target"), offset = cc.new_gp_ptr("offset");
      bool regs = okreg(op, R) && okreg(val, R) && okreg(target, R) && okreg(offset, R);
      CHK();
      Label tab = cc.new_label(), end = cc.new_label();
      Label cs[4]; bool labels_ok = tab.is_valid() && end.is_valid();
      for (auto& c : cs) { c = cc.new_label(); labels_ok = labels_ok && c.is_valid(); }
      if (!labels_ok) { R.null_result(); CHK(); }
      if (regs && labels_ok) {
        fn->set_arg(0, op); fn->set_arg(1, val);
        E(cc.adr(target, tab));
        E(cc.ldrsw(offset, a64::ptr(target, op, a64::sxtw(2))));
        E(cc.add(target, target, offset));
        JumpAnnotation* ann = cc.new_jump_annotation();
        if (!ann) { R.null_result(); CHK(); }
        else {
          for (auto& c : cs) E(ann->add_label(c));
          E(cc.br(target, ann));
          for (int i = 0; i < 4; i++) {
            E(cc.bind(cs[i]));
            switch (i) { case 0: E(cc.add(val, val, 7)); break; case 1: E(cc.sub(val, val, 3)); break; case 2: E(cc.mul(val, val, val)); break; default: E(cc.neg(val, val)); break; }
            if (i != 3) E(cc.b(end));
          }
          E(cc.bind(end));
          // constants
          uint8_t data[16]; for (size_t i = 0; i < 16; i++) data[i] = uint8_t(i * 9 + 1);
          a64::Mem c16 = cc.new_const(ConstPoolScope::kLocal, data, 16);
          a64::Mem c8 = cc.new_const(ConstPoolScope::kGlobal, data + 8, 8);
          a64::Vec q = cc.new_vec_q("cq"); a64::Gp g64 = cc.new_gp64("c8");
          if (c16.is_none() || c8.is_none() || !q.is_valid() || !g64.is_valid()) { R.null_result(); CHK(); }
          else { E(cc.ldr(q, c16)); E(cc.ldr(g64, c8)); E(cc.add(val, val, g64.w())); E(cc.mov(op, q.s(1))); E(cc.add(val, val, op)); }
          E(cc.ret(val));
        }
      }
      E(cc.end_func());
      if (labels_ok) {
        E(cc.bind(tab));
        for (auto& c : cs) E(cc.embed_label_delta(c, tab, 4));
      }
    }
  }
  // ---- g4: invoke arguments that are immediates (register and stack), register lists (ld2 / st2 / tbl need consecutive
  //      vector registers -> the bin packer's consecutive-register lists) ---------------------------------------------------
  {
    FuncNode* fn = cc.add_func(FuncSignature::build<int, int*, int>());
    if (!fn) { R.null_result(); CHK(); }
    else {
      L.add("g4", fn->label());
      a64::Gp p = cc.new_gp_ptr("p"), a = cc.new_gp32("a"), f = cc.new_gp_ptr("fn"), res = cc.new_gp32("res");
      if (okreg(p, R) && okreg(a, R) && okreg(f, R) && okreg(res, R)) {
        fn->set_arg(0, p); fn->set_arg(1, a);
        E(cc.mov(f, uint64_t(0x0000123456789ABCull)));
        InvokeNode* inv = nullptr;
        Error e = cc.invoke(Out(inv), f, FuncSignature::build<int, int, int64_t, int, int8_t, int, uint16_t, int, int, int, int64_t>());
        R.rec(e); CHK();
        if (e == Error::kOk && inv) {
          inv->set_arg(0, a); inv->set_arg(1, imm(0x1122334455667788ll)); inv->set_arg(2, imm(-7)); inv->set_arg(3, imm(0x1FF)); inv->set_arg(4, a);
          inv->set_arg(5, imm(0x12345)); inv->set_arg(6, imm(6)); inv->set_arg(7, a); inv->set_arg(8, imm(int32_t(seed & 0xFF) + 1)); inv->set_arg(9, imm(0x0102030405060708ll));
          inv->set_ret(0, res);
        }
        a64::Vec v0 = cc.new_vec_q("l0"), v1 = cc.new_vec_q("l1"), t0 = cc.new_vec_q("t0"), t1 = cc.new_vec_q("t1"), t2 = cc.new_vec_q("t2"), idx = cc.new_vec_q("idx"), o = cc.new_vec_q("o");
        if (okreg(v0, R) && okreg(v1, R) && okreg(t0, R) && okreg(t1, R) && okreg(t2, R) && okreg(idx, R) && okreg(o, R)) {
          E(cc.ld2(v0.s4(), v1.s4(), a64::ptr(p)));
          E(cc.add(v0.s4(), v0.s4(), v1.s4()));
          E(cc.st2(v1.s4(), v0.s4(), a64::ptr(p)));                 // the pair the other way round
          E(cc.mov(t0.b16(), v0.b16())); E(cc.mov(t1.b16(), v1.b16())); E(cc.add(t2.s4(), t0.s4(), t1.s4()));
          E(cc.movi(idx.b16(), 3));
          E(cc.tbl(o.b16(), t0.b16(), t1.b16(), t2.b16(), idx.b16()));
          E(cc.mov(a, o.s(0)));
          E(cc.add(res, res, a));
        }
        E(cc.ret(res));
      }
      E(cc.end_func());
    }
  }
}

// ARCH: 0 = x86-64, 1 = x86-32, 2 = AArch64.  LOG: attach a StringLogger with RA annotations/debug output.
template<int ARCH, int LOG>
struct W3 : Workload {
  std::optional<CodeHolder> code;
  std::optional<x86::Compiler> xc;
  std::optional<a64::Compiler> ac;
  std::optional<StringLogger> logger;
  CountingHandler eh;
  static constexpr uint64_t kBase = ARCH == 1 ? 0x08040000ull : 0x00007F3300010000ull;

  void construct() override {
    code.emplace();
    if (ARCH == 2) ac.emplace(); else xc.emplace();
    if (LOG) logger.emplace();
  }
  void body(Rec& R, Result& out) override {
    eh.R = &R;
    CodeHolder& C = *code;
    Environment env(ARCH == 0 ? Arch::kX64 : ARCH == 1 ? Arch::kX86 : Arch::kAArch64);
    if (!C.is_initialized()) { E(C.init(env)); GATE(); }
    C.set_error_handler(&eh);
    if (LOG) { logger->set_flags(FormatFlags::kMachineCode | FormatFlags::kRegCasts | FormatFlags::kPositions); C.set_logger(&*logger); }
    BaseCompiler* bc = ARCH == 2 ? static_cast<BaseCompiler*>(&*ac) : static_cast<BaseCompiler*>(&*xc);
    E(C.attach(bc)); GATE();
    if (LOG) bc->add_diagnostic_options(DiagnosticOptions::kRAAnnotate | DiagnosticOptions::kRADebugAll | DiagnosticOptions::kValidateIntermediate);
    Labels L;
    if (ARCH == 2) a64_functions(*ac, R, L, P.seed); else x86_functions(*xc, R, L, ARCH == 0, P.seed);
    CHK(); GATE();
    E(bc->finalize());
    finish_image(C, R, out, L, kBase);
    if (LOG) out.aux.assign(logger->data(), logger->data_size());
  }
  int recover(int strategy, Rec& R) override {
    if (LOG) logger->clear();
    int v = recover_holder(*code, strategy, R);
    // BaseCompiler never clears _jump_annotations on detach / reinit: the vector keeps pointing into the arena that has
    // just been reset and the next new_jump_annotation() writes into re-issued memory. That is reuse residue without
    // any allocation failure (property C16, reported to the lead) - neutralised here so that C15 judges C15 only.
    if (xc) xc->_jump_annotations.reset();
    if (ac) ac->_jump_annotations.reset();
    return v;
  }
  void destroy() override { xc.reset(); ac.reset(); code.reset(); logger.reset(); }
};

// =========================================================================================================
// W4 - JitRuntime::add / release (single and dual mapping, several allocator configurations)
// =========================================================================================================

static int callee_for_jit(int x);

template<uint32_t OPTS, int FAR = 0>
struct W4 : Workload {
  std::optional<JitRuntime> rt;
  std::optional<CodeHolder> code;
  std::optional<x86::Assembler> as;
  CountingHandler eh;
  static constexpr int kFns = 8;
  size_t live = 0;      // spans the harness holds: what the runtime's allocator must report while the runtime is ALIVE

  // A long-lived JitRuntime must not keep memory of an add() that failed (it would only be released by ~JitRuntime).
  void check_allocator(const char* when, int i, const JitAllocator::Statistics* before, Result& out) {
    JitAllocator::Statistics st = rt->allocator().statistics();
    char b[200];
    if (st.allocation_count() != live) {
      snprintf(b, sizeof b, "%s(fn%d): allocator reports %zu live spans, the caller holds %zu;", when, i, st.allocation_count(), live);
      out.defects += b;
    }
    else if (before && st.block_count() == before->block_count() && st.used_size() != before->used_size()) {
      snprintf(b, sizeof b, "%s(fn%d): used_size %zu -> %zu with the same %zu blocks and spans;", when, i, before->used_size(), st.used_size(), st.block_count());
      out.defects += b;
    }
  }

  void make_rt() {
    JitAllocator::CreateParams p;
    p.options = JitAllocatorOptions(OPTS);
    CtorScope cs("JitRuntime(W4)");
    rt.emplace(&p);
  }
  void construct() override { make_rt(); code.emplace(); as.emplace(); }

  // function #i returns kRet(i); some are padded with data so that they need an own / bigger block
  static int expect(int i) { return i == 3 ? callee_for_jit(5) + 1000 + i : 1000 + i * 7; }
  static size_t padding(int i) { static const size_t p[kFns] = { 0, 200, 70000, 0, 3000, 140000, 64, 20000 }; return p[i]; }

  void gen(int i, Rec& R) {
    CodeHolder& C = *code; x86::Assembler& a = *as;
    if (C.is_initialized() && (i & 1)) E(C.reinit());
    else {
      C.reset(ResetPolicy::kSoft);
      E(C.init(rt->environment(), rt->cpu_features()));
      C.set_error_handler(&eh);
      E(C.attach(&a));
    }
    if (i == 3) {
      E(a.sub(x86::rsp, 8));
      E(a.mov(x86::edi, 5));
      E(a.call(imm((void*)callee_for_jit)));       // absolute target: rel32 or an address-table slot
      E(a.add(x86::eax, 1000 + i));
      E(a.add(x86::rsp, 8));
      E(a.ret());
    }
    else {
      Label l = a.new_label();
      if (!l.is_valid()) { R.null_result(); CHK(); E(a.mov(x86::eax, 1000 + i * 7)); }
      else {
        E(a.mov(x86::eax, 1000 + i * 7)); E(a.jmp(l)); E(a.int3());
        if (FAR) {   // never executed: 64-bit absolute far targets -> address-table relocations, '.addrtab' gets a buffer in relocate_to_base()
          E(a.call(imm(0x0000123456789AB0ull + uint64_t(i) * 0x1000)));
          E(a.jmp(imm(0x00006789ABCDEF00ull)));
          E(a.call(imm(0x0000123456789AB0ull + uint64_t(i) * 0x1000)));
          E(a.jmp(imm(0x0000456789ABCD00ull + uint64_t(i) * 16)));
        }
        E(a.bind(l));
      }
      E(a.ret());
    }
    static uint8_t pad[4096];
    for (size_t left = padding(i); left; ) { size_t n = std::min(left, sizeof pad); E(a.embed(pad, n)); left -= n; }
  }

  void add_and_check(int i, void** slot, Rec& R, Result& out) {
    *slot = nullptr;
    Rec before = R;
    gen(i, R); CHK();
    if (R.errs != before.errs || R.handler != before.handler || R.nulls != before.nulls) return;   // this function is abandoned
    void* fn = nullptr;
    JitAllocator::Statistics st0 = rt->allocator().statistics();
    Error e = rt->add(&fn, &*code);
    R.rec(e);
    if (e != Error::kOk) { if (fn) out.main += "ADD-FAILED-BUT-POINTER-SET;"; check_allocator("after a failed add", i, &st0, out); CHK(); return; }
    if (!fn) { out.main += "ADD-OK-BUT-NULL;"; return; }
    *slot = fn; live++;
    check_allocator("after add", i, nullptr, out); CHK();
    // the bytes at the returned address must be the relocated image the CodeHolder now describes
    size_t sz = code->code_size();
    std::string img(sz, '\0');
    Error ce = code->copy_flattened_data(&img[0], sz, CopySectionFlags::kPadSectionBuffer | CopySectionFlags::kPadTargetBuffer);
    R.rec(ce); CHK();
    if (ce == Error::kOk) {
      if (memcmp(fn, img.data(), sz) != 0) { char b[64]; snprintf(b, sizeof b, "JIT-BYTES-DIFFER(fn%d);", i); out.main += b; return; }
      int got = reinterpret_cast<int (*)()>(fn)();
      char b[64]; snprintf(b, sizeof b, "fn%d=%d%s;", i, got, got == expect(i) ? "" : "(WRONG)"); out.main += b;
    }
  }

  void body(Rec& R, Result& out) override {
    eh.R = &R;
    live = 0;
    void* fns[kFns + 2] = {};
    for (int i = 0; i < 6; i++) { add_and_check(i, &fns[i], R, out); CHK(); }
    for (int i : { 1, 2 }) if (fns[i]) { Error e = rt->release(fns[i]); R.rec(e); if (e == Error::kOk) live--; fns[i] = nullptr; check_allocator("after release", i, nullptr, out); CHK(); }
    for (int i = 6; i < kFns; i++) { add_and_check(i, &fns[i], R, out); CHK(); }
    add_and_check(2, &fns[kFns], R, out); CHK();
    for (int i = 0; i < kFns + 1; i++) if (fns[i]) {
      int idx = i == kFns ? 2 : i;
      int got = reinterpret_cast<int (*)()>(fns[i])();
      if (got != expect(idx)) { char b[64]; snprintf(b, sizeof b, "again%d=%d(WRONG);", idx, got); out.main += b; }
    }
    for (int i = kFns; i >= 0; i--) if (fns[i]) { Error e = rt->release(fns[i]); R.rec(e); if (e == Error::kOk) live--; fns[i] = nullptr; check_allocator("after release", i, nullptr, out); CHK(); }
    JitAllocator::Statistics st = rt->allocator().statistics();
    out.num("live", st.allocation_count());
  }

  int recover(int strategy, Rec&) override {
    code->reset(strategy == 2 ? ResetPolicy::kHard : ResetPolicy::kSoft);
    if (!rt->allocator().is_initialized()) {
      // construction failed: there is no re-init API, the caller makes a new one - after resetting the old one like any other
      // (sticky cases: destroyed as it is)
      if (F.mode != M_STICKY) {
        if (strategy != 1) rt->reset(ResetPolicy::kSoft);
        if (strategy != 0) rt->reset(ResetPolicy::kHard);
      }
      rt.reset(); make_rt();
    }
    else rt->reset(strategy == 0 ? ResetPolicy::kSoft : ResetPolicy::kHard);
    return 0;
  }
  void destroy() override { as.reset(); code.reset(); rt.reset(); }
};

// =========================================================================================================
// W7 - one-shot emitter state (opmask / rep counter / lock / explicit options / inline comment) and "continue" recovery:
//      an emit call that reports an error is skipped by the caller, which carries on with the SAME emitter.
// =========================================================================================================

struct W7Regs {
  x86::Vec a, b, c; x86::KReg k1, k2; x86::Gp p, g1, g2, cnt;
};

// One emit call of the program. Kinds alternate "carries one-shot state" / "plain instruction that would show it".
template<typename EM>
static Error w7_slot(EM& e, uint32_t i, const W7Regs& r, bool with_rep) {
  static const char kComment[] = "one-shot inline comment";
  switch (i % 12u) {
    case 0:  return e.k(r.k1).vaddps(r.a, r.b, r.c);
    case 1:  return e.vsubps(r.a, r.b, r.c);
    case 2:  return e.k(r.k2).z().vaddps(r.b, r.a, r.c);
    case 3:  return e.vmulps(r.c, r.a, r.b);
    case 4:  return e.lock().add(x86::dword_ptr(r.p, int32_t((i % 64u) * 4u)), r.g1);
    case 5:  return e.add(x86::dword_ptr(r.p, int32_t((i % 64u) * 4u)), r.g2);
    case 6:  e.add_inst_options(InstOptions::kX86_ModMR); return e.mov(r.g1, r.g2);
    case 7:  return e.mov(r.g2, r.g1);
    case 8:  if (with_rep) return static_cast<x86::EmitterExplicitT<EM>&>(e).rep(r.cnt).movs(x86::byte_ptr(x86::rdi), x86::byte_ptr(x86::rsi));   // rep with an explicit counter register (extra_reg)
             return e.k(r.k1).vpaddd(r.a, r.a, r.b);
    case 9:  if (with_rep) return e.movs(x86::byte_ptr(x86::rdi), x86::byte_ptr(x86::rsi));
             return e.vpsubd(r.b, r.b, r.c);
    case 10: e.set_inline_comment(kComment); return e.sub(r.g1, r.g2);
    default: return e.xor_(r.g2, r.g1);
  }
}

// EMITTER: 0 = x86::Assembler, 1 = x86::Builder, 2 = x86::Compiler (virtual registers)
template<int EMITTER>
struct W7 : Workload {
  std::optional<CodeHolder> code;
  std::optional<x86::Assembler> as;
  std::optional<x86::Builder> cb;
  std::optional<x86::Compiler> cc;
  std::optional<StringLogger> logger;
  CountingHandler eh;
  std::vector<uint8_t> dropped;     // emit calls of the last body() run that returned an error
  static constexpr uint64_t kBase = 0x00007F5500010000ull;

  uint32_t slots() const { return (EMITTER == 0 ? 1700u : EMITTER == 1 ? 340u : 200u) + uint32_t(P.seed % 7u) * 12u; }

  void construct() override { code.emplace(); logger.emplace(); if (EMITTER == 0) as.emplace(); else if (EMITTER == 1) cb.emplace(); else cc.emplace(); }

  template<typename EM>
  void program(EM& e, Rec& R, Result& out, const std::vector<uint8_t>* skip, std::vector<uint8_t>* drop) {
    W7Regs r;
    Labels L;
    if constexpr (std::is_same<EM, x86::Compiler>::value) {
      x86::Compiler& c = e;
      FuncNode* fn = c.add_func(FuncSignature::build<int, int*, int>());
      if (!fn) { R.null_result(); return; }
      r.a = c.new_zmm("a"); r.b = c.new_zmm("b"); r.c = c.new_zmm("c"); r.k1 = c.new_kw("k1"); r.k2 = c.new_kw("k2");
      r.p = c.new_gp_ptr("p"); r.g1 = c.new_gp32("g1"); r.g2 = c.new_gp32("g2");
      if (!r.a.is_valid() || !r.b.is_valid() || !r.c.is_valid() || !r.k1.is_valid() || !r.k2.is_valid() || !r.p.is_valid() || !r.g1.is_valid() || !r.g2.is_valid()) { R.null_result(); return; }
      fn->set_arg(0, r.p); fn->set_arg(1, r.g1);
      E(c.mov(r.g2, 7)); E(c.vpxord(r.a, r.a, r.a)); E(c.vpternlogd(r.b, r.b, r.b, 0xFF)); E(c.vmovdqa32(r.c, r.b));
      E(c.kxnorw(r.k1, r.k1, r.k1)); E(c.kshiftrw(r.k2, r.k1, 3));
      GATE();
    }
    else {
      r.a = x86::zmm3; r.b = x86::zmm17; r.c = x86::zmm30; r.k1 = x86::k1; r.k2 = x86::k5;
      r.p = x86::rdx; r.g1 = x86::eax; r.g2 = x86::ebx; r.cnt = x86::rcx;
    }
    Label top = e.new_label();
    if (!top.is_valid()) { R.null_result(); return; }
    E(e.bind(top)); GATE();
    uint32_t n = slots();
    n -= n % 12u;
    // Assembler: the only requests of an emit call are the section buffer's malloc/realloc. Twelve extra sections, the
    // first emit into section s is of kind s: every kind of one-shot state meets a failing buffer allocation.
    uint32_t total = n + (std::is_same<EM, x86::Assembler>::value ? 12u * 48u : 0u);
    if (drop) drop->assign(total, 0);
    Section* extra[12] = {};
    if constexpr (std::is_same<EM, x86::Assembler>::value) {
      for (uint32_t sct = 0; sct < 12; sct++) {
        char nm[16]; snprintf(nm, sizeof nm, ".s%u", sct);
        E(e.code()->new_section(Out(extra[sct]), nm, SIZE_MAX, SectionFlags::kExecutable, 16, int32_t(sct) + 1));
      }
      GATE();
    }
    for (uint32_t i = 0; i < total; i++) {
      if (i >= n) {
        uint32_t sct = (i - n) / 48u, j = (i - n) % 48u;
        if (j == 0) { E(e.section(extra[sct])); GATE(); }
        if (j < sct || j >= sct + 24u) continue;     // section s holds kinds s, s+1, ... (24 emit calls)
      }
      if (skip && i < skip->size() && (*skip)[i]) continue;
      uint32_t handler_before = R.handler;
      Error err = w7_slot(e, i, r, EMITTER != 2);
      if (err == Error::kOk) continue;
      if (err == Error::kOutOfMemory) R.handler = handler_before;   // delivered by the return value and handled by the caller (skip)
      // the call is refused: the caller drops it and goes on with the same emitter ...
      if (drop) (*drop)[i] = 1;
      if (err != Error::kOutOfMemory) R.rec(err);
      // ... which must not remember anything of it (direct state oracle)
      char b[160];
      if (e.inst_options() != InstOptions::kNone) { snprintf(b, sizeof b, "emit #%u (kind %u) refused with error %u left inst_options=0x%x;", i, i % 12u, unsigned(err), unsigned(e.inst_options())); out.defects += b; }
      if (e.extra_reg().is_reg()) { snprintf(b, sizeof b, "emit #%u (kind %u) refused with error %u left the extra register (opmask / rep counter) set;", i, i % 12u, unsigned(err)); out.defects += b; }
      if (e.inline_comment() != nullptr) { snprintf(b, sizeof b, "emit #%u (kind %u) refused with error %u left the inline comment set;", i, i % 12u, unsigned(err)); out.defects += b; }
      // (no reset_state() here: a caller would not do that, and the byte oracle must see what the next call inherits)
      if (R.stopped()) return;
    }
    if constexpr (std::is_same<EM, x86::Assembler>::value) { E(e.section(e.code()->text_section())); GATE(); }
    E(e.test(r.g1, r.g1));
    E(e.jnz(top));
    if constexpr (std::is_same<EM, x86::Compiler>::value) { E(e.ret(r.g1)); E(e.end_func()); }
    else E(e.ret());
  }

  template<typename EM>
  void whole(CodeHolder& C, EM& e, StringLogger* lg, Rec& R, Result& out, const std::vector<uint8_t>* skip, std::vector<uint8_t>* drop) {
    out.defect_kind = "one-shot-state-survives-refused-emit";
    if (!C.is_initialized()) { E(C.init(Environment(Arch::kX64))); GATE(); }
    C.set_error_handler(&eh);
    if (lg && EMITTER != 0) { lg->set_flags(FormatFlags::kMachineCode); C.set_logger(lg); }
    E(C.attach(&e)); GATE();
    program(e, R, out, skip, drop); CHK(); GATE();
    if constexpr (EMITTER != 0) { E(e.finalize()); GATE(); }
    Labels L;
    finish_image(C, R, out, L, kBase);
    if (lg && EMITTER != 0) out.aux.assign(lg->data(), lg->data_size());
  }

  void body(Rec& R, Result& out) override {
    eh.R = &R;
    if constexpr (EMITTER == 0) whole(*code, *as, &*logger, R, out, nullptr, &dropped);
    else if constexpr (EMITTER == 1) whole(*code, *cb, &*logger, R, out, nullptr, &dropped);
    else whole(*code, *cc, &*logger, R, out, nullptr, &dropped);
    for (uint8_t d : dropped) ST.emits_refused += d;
  }

  bool reference(Rec& R, Result& out) override {
    CountingHandler* keep = &eh; (void)keep;
    eh.R = &R;
    CodeHolder C;
    if constexpr (EMITTER == 0) { x86::Assembler e; whole(C, e, nullptr, R, out, &dropped, nullptr); }
    else if constexpr (EMITTER == 1) { x86::Builder e; whole(C, e, nullptr, R, out, &dropped, nullptr); }
    else { x86::Compiler e; whole(C, e, nullptr, R, out, &dropped, nullptr); }
    out.aux.clear();
    return true;
  }

  int recover(int strategy, Rec& R) override { logger->clear(); return recover_holder(*code, strategy, R); }
  void destroy() override { as.reset(); cb.reset(); cc.reset(); code.reset(); logger.reset(); }
};

// =========================================================================================================
// W1c / W2c - "continue" recovery for every kind of call of an assembling caller (not only instruction emits, W7):
//      a call that is refused with kOutOfMemory (new_section, new_label, new_named_label, bind, section, align, embed,
//      embed_label, embed_label_delta, embed_data_array, comment, an emit with a label / absolute-address operand) is
//      dropped by the caller, which carries on with the SAME holder and emitter; what depended on a label / section that
//      was never created is dropped with it. Phase-1 output (image, label offsets, section layout - or the error
//      flatten / resolve / relocate / copy return) must equal a failure-free run on fresh objects that omits exactly
//      those calls. A refused new_named_label is looked up by name (must not resolve to an id the holder does not have)
//      and made again (own call). Composite calls (embed_const_pool = align + bind + embed) may legitimately stop half-way:
//      their refusal counts as "reported" (no comparison).
// =========================================================================================================

enum { CK_NEW_SECTION = 0, CK_NEW_LABEL, CK_NEW_NAMED_LABEL, CK_RETRY_NAMED_LABEL, CK_BIND, CK_SECTION, CK_ALIGN, CK_EMBED, CK_EMBED_LABEL, CK_EMBED_LABEL_DELTA,
       CK_EMBED_DATA_ARRAY, CK_COMMENT, CK_EMIT, CK_EMIT_LABEL_REF, CK_EMIT_ABS_TARGET, CK_CC_NEW_REG, CK_CC_NEW_STACK, CK_CC_INVOKE, CK_CC_EMIT, CK_N };
static const char* const kContKindNames[CK_N] = { "new_section", "new_label", "new_named_label", "new_named_label_again", "bind", "section", "align", "embed", "embed_label",
                                                  "embed_label_delta", "embed_data_array", "comment", "emit", "emit_with_label_operand", "emit_with_absolute_target",
                                                  "compiler_new_reg", "compiler_new_stack", "compiler_invoke", "compiler_emit" };

struct Cont {
  const std::vector<uint8_t>* skip = nullptr;   // reference run: calls to omit
  std::vector<uint8_t>* drop = nullptr;         // armed run: calls that were refused
  CountingHandler* eh = nullptr; Rec* R = nullptr;
  uint32_t idx = 0, refused = 0, handler_before = 0; uint64_t fired_before = 0;
  int first_kind = -1;
  bool last_lost = false;
  bool skipped(uint32_t ci) const { return skip && ci < skip->size() && (*skip)[ci]; }
  bool lost(uint32_t ci) const { return skipped(ci) || (drop && ci < drop->size() && (*drop)[ci]); }
  uint32_t next() { last_lost = false; return idx++; }
  void before() { handler_before = R->handler; fired_before = F.fired; eh->last = Error::kOk; }
  void mark(uint32_t ci, int kind) {
    R->handler = handler_before;    // delivered to the caller, who drops the call
    if (drop) { if (drop->size() <= ci) drop->resize(ci + 1, 0); (*drop)[ci] = 1; }
    if (!refused) first_kind = kind;
    refused++; last_lost = true;
    if (F.mode != M_COUNT) ST.cont_refused_by_kind[kind]++;
  }
  void after(uint32_t ci, int kind, Error e) {
    if (e == Error::kOk) { R->calls++; if (refused && F.mode != M_COUNT) ST.cont_calls_after_refused++; return; }
    if (e == Error::kOutOfMemory && F.fired != fired_before) { mark(ci, kind); return; }
    R->rec(e);
  }
  void after_label(uint32_t ci, int kind, const Label& l) { after_valid(ci, kind, l.is_valid()); }
  void after_valid(uint32_t ci, int kind, bool valid) {
    if (valid) { R->calls++; if (refused && F.mode != M_COUNT) ST.cont_calls_after_refused++; return; }
    // (an emitter reports the refusal to the ErrorHandler - Assembler - or not at all - Builder::new_label: the caller sees an invalid label)
    if (F.fired != fired_before && (eh->last == Error::kOutOfMemory || eh->last == Error::kOk)) { mark(ci, kind); return; }
    R->null_result();
  }
};

#define CC(kind, cond, expr) do { uint32_t ci_ = K.next(); if (K.skipped(ci_)) K.last_lost = true; else if (cond) { K.before(); Error e_ = (expr); K.after(ci_, kind, e_); if (R.stopped()) return; } } while (0)
#define CL(var, kind, cond, expr) do { uint32_t ci_ = K.next(); if (K.skipped(ci_)) K.last_lost = true; else if (cond) { K.before(); var = (expr); K.after_label(ci_, kind, var); if (R.stopped()) return; } } while (0)

template<typename EM>
static void cont_program(EM& e, CodeHolder& code, Rec& R, Result& out, Labels& L, Cont& K, uint64_t seed, uint64_t base) {
  Rng r(seed * 137 + 3);
  uint32_t nfill = 36 + uint32_t(r.below(24)), nnamed = 34 + uint32_t(r.below(20));
  Section *s_data = nullptr, *s_ro = nullptr, *s_hot = nullptr;
  CC(CK_NEW_SECTION, true, code.new_section(Out(s_data), ".data", SIZE_MAX, SectionFlags::kNone, 16, 2)); if (K.last_lost) s_data = nullptr;
  CC(CK_NEW_SECTION, true, code.new_section(Out(s_ro), ".rodata", SIZE_MAX, SectionFlags::kReadOnly, 8, 1)); if (K.last_lost) s_ro = nullptr;
  CC(CK_NEW_SECTION, true, code.new_section(Out(s_hot), ".hot", SIZE_MAX, SectionFlags::kExecutable | SectionFlags::kReadOnly, 32, -1)); if (K.last_lost) s_hot = nullptr;
  GATE();

  Label l_entry, l_loop, l_fwd, l_fn2, l_data, l_ro, l_late, l_main, l_inner;
  CL(l_entry, CK_NEW_LABEL, true, e.new_label()); CL(l_loop, CK_NEW_LABEL, true, e.new_label()); CL(l_fwd, CK_NEW_LABEL, true, e.new_label());
  CL(l_fn2, CK_NEW_LABEL, true, e.new_label()); CL(l_data, CK_NEW_LABEL, true, e.new_label()); CL(l_ro, CK_NEW_LABEL, true, e.new_label());
  CL(l_late, CK_NEW_LABEL, true, e.new_label());
  CL(l_main, CK_NEW_NAMED_LABEL, true, e.new_named_label("main"));
  CL(l_inner, CK_NEW_NAMED_LABEL, l_main.is_valid(), e.new_named_label("inner", SIZE_MAX, LabelType::kLocal, l_main.id()));
  GATE();
  L.add("entry", l_entry); L.add("loop", l_loop); L.add("fwd", l_fwd); L.add("fn2", l_fn2); L.add("data", l_data);
  L.add("ro", l_ro); L.add("late", l_late); L.add("main", l_main); L.add("inner", l_inner);
  x86::Gp acc = x86::rax, cnt = x86::rcx, ptr = x86::rdx;

  CC(CK_BIND, l_main.is_valid(), e.bind(l_main));
  CC(CK_BIND, l_entry.is_valid(), e.bind(l_entry));
  CC(CK_EMIT, true, e.mov(x86::eax, 1));
  CC(CK_EMIT_LABEL_REF, l_data.is_valid(), e.lea(ptr, x86::ptr(l_data)));                     // label of another section, not yet bound
  CC(CK_EMIT_LABEL_REF, l_ro.is_valid(), e.mov(cnt, x86::ptr(l_ro, 8, 8)));
  CC(CK_BIND, l_inner.is_valid(), e.bind(l_inner));
  CC(CK_BIND, l_loop.is_valid(), e.bind(l_loop));
  CC(CK_EMIT, true, e.add(acc, cnt));
  CC(CK_EMIT, true, e.dec(cnt));
  CC(CK_EMIT_LABEL_REF, l_loop.is_valid(), e.jnz(l_loop));                                    // bound, backward
  CC(CK_EMIT_LABEL_REF, l_fwd.is_valid(), e.jmp(l_fwd));                                      // forward: fixup
  CC(CK_COMMENT, true, e.comment("between the loop and the filler"));
  for (uint32_t i = 0; i < nfill; i++) {
    CC(CK_EMIT, true, e.mov(x86::rax, imm(0x0101010101010101ull * (i & 0xFF) + i)));
    CC(CK_EMIT, true, e.add(x86::dword_ptr(ptr, int32_t(i * 4)), x86::eax));
    CC(CK_EMIT_LABEL_REF, (i % 5) == 0 && l_fwd.is_valid(), e.jz(l_fwd));
    CC(CK_EMIT_LABEL_REF, (i % 9) == 0 && l_fn2.is_valid(), e.call(l_fn2));                   // cross-section
    CC(CK_EMIT_LABEL_REF, (i % 11) == 0 && l_late.is_valid(), e.lea(acc, x86::ptr(l_late, int32_t(i))));
    CC(CK_EMIT_ABS_TARGET, (i % 13) == 0, e.call(imm(0x0000123456789000ull + uint64_t(i % 3) * 0x100)));   // far targets: address table
  }
  CC(CK_BIND, l_fwd.is_valid(), e.bind(l_fwd));
  CC(CK_EMIT_LABEL_REF, l_fn2.is_valid(), e.call(l_fn2));
  CC(CK_EMIT_ABS_TARGET, true, e.call(imm(0x123456789ABCull)));
  CC(CK_EMIT_ABS_TARGET, true, e.jmp(imm(0x00007FFF12345678ull)));
  CC(CK_EMIT_ABS_TARGET, true, e.call(imm(base + 0x4000)));                                  // near: the slot can be dropped
  CC(CK_EMIT_ABS_TARGET, true, e.call(imm(0x123456789ABCull)));                              // slot shared
  CC(CK_EMIT_ABS_TARGET, true, e.mov(x86::eax, x86::dword_ptr(uint64_t(base + 0x2000))));   // [abs] in 64-bit mode: rip-relative after relocation
  for (uint32_t i = 0; i < nnamed; i++) {
    char nm[40]; snprintf(nm, sizeof nm, "named_label_%u_%llu", i, (ull)(seed & 7));
    Label nl;
    uint32_t first_ci = K.idx;
    CL(nl, CK_NEW_NAMED_LABEL, true, e.new_named_label(nm));
    bool first_lost = K.lost(first_ci);
    if (first_lost && !K.skipped(first_ci)) {
      // the name of a label whose creation was refused must not resolve to a label the holder does not have
      Label q = code.label_by_name(nm);
      if (q.id() != Globals::kInvalidId && !code.is_label_valid(q)) {
        char b[200]; snprintf(b, sizeof b, "new_named_label(\"%s\") was refused, label_by_name() then returns id %u, label_count()=%zu;", nm, q.id(), code.label_count());
        out.defects += b;
      }
    }
    // ... and the caller makes the label again (own call: the reference makes it once)
    CL(nl, CK_RETRY_NAMED_LABEL, first_lost, e.new_named_label(nm));
    CC(CK_BIND, nl.is_valid(), e.bind(nl));
    CC(CK_EMIT, true, e.nop());
    if (i % 8 == 0) L.add(nm, nl);
  }
  CC(CK_EMIT, true, e.ret());

  CC(CK_SECTION, s_hot != nullptr, e.section(s_hot));
  if (s_hot && !K.last_lost) {
    CC(CK_ALIGN, true, e.align(AlignMode::kCode, 32));
    CC(CK_BIND, l_fn2.is_valid(), e.bind(l_fn2));
    CC(CK_EMIT, true, e.xor_(x86::eax, x86::eax));
    CC(CK_EMIT_LABEL_REF, l_late.is_valid(), e.lea(acc, x86::ptr(l_late)));
    CC(CK_EMIT, true, e.ret());
  }
  static uint8_t blob[3000];
  for (size_t i = 0; i < sizeof blob; i++) blob[i] = uint8_t(i * 7 + 3);
  CC(CK_SECTION, s_ro != nullptr, e.section(s_ro));
  if (s_ro && !K.last_lost) {
    CC(CK_BIND, l_ro.is_valid(), e.bind(l_ro));
    CC(CK_EMBED, true, e.embed(blob, 40));
    static const uint32_t arr[4] = { 0x11111111u, 0x22222222u, 0x33333333u, 0x44444444u };
    CC(CK_EMBED_DATA_ARRAY, true, e.embed_data_array(TypeId::kUInt32, arr, 4, 3));
    CC(CK_EMBED, true, e.embed_uint64(0x8877665544332211ull, 2));
  }
  CC(CK_SECTION, s_data != nullptr, e.section(s_data));
  if (s_data && !K.last_lost) {
    CC(CK_ALIGN, true, e.align(AlignMode::kData, 16));
    CC(CK_BIND, l_data.is_valid(), e.bind(l_data));
    CC(CK_EMBED_LABEL, l_entry.is_valid(), e.embed_label(l_entry));                           // bound, another section
    CC(CK_EMBED_LABEL, l_fn2.is_valid(), e.embed_label(l_fn2));
    CC(CK_EMBED_LABEL, l_late.is_valid(), e.embed_label(l_late));                             // not yet bound: fixup
    CC(CK_EMBED_LABEL_DELTA, l_fwd.is_valid() && l_entry.is_valid(), e.embed_label_delta(l_fwd, l_entry, 4));   // both bound in .text
    CC(CK_EMBED_LABEL_DELTA, l_fn2.is_valid() && l_data.is_valid(), e.embed_label_delta(l_fn2, l_data, 8));    // cross-section: expression
    CC(CK_EMBED_LABEL_DELTA, l_late.is_valid() && l_data.is_valid(), e.embed_label_delta(l_late, l_data, 4));  // unbound: expression
    CC(CK_EMBED, true, e.embed(blob, sizeof blob));                                           // grows the section buffer
    CC(CK_ALIGN, true, e.align(AlignMode::kZero, 64));
    CC(CK_BIND, l_late.is_valid(), e.bind(l_late));
    CC(CK_EMBED, true, e.embed_uint32(0xA1B2C3D4u, 3));
  }
}

// flatten / resolve / relocate / copy of a continue-mode caller: an error these calls return without a request having been
// refused inside them is an OUTPUT (the reference must return the same), not something that exempts the comparison.
static void finish_cont(CodeHolder& code, Rec& R, Result& out, const Labels& L, uint64_t base) {
  GATE();
  uint64_t fired0 = F.fired;
  const char* step = "flatten";
  Error e = code.flatten();
  CodeHolder::RelocationSummary sum {};
  size_t sz = 0; std::string img;
  if (e == Error::kOk) { step = "resolve_cross_section_fixups"; e = code.resolve_cross_section_fixups(); }
  if (e == Error::kOk) { step = "relocate_to_base"; e = code.relocate_to_base(base, &sum); }
  if (e == Error::kOk) {
    step = "copy_flattened_data";
    sz = code.code_size(); img.assign(sz + 16, '\xCC');
    e = code.copy_flattened_data(&img[0], sz, CopySectionFlags::kPadSectionBuffer | CopySectionFlags::kPadTargetBuffer);
  }
  if (e != Error::kOk) {
    if (F.fired != fired0) { R.rec(e); return; }
    char b[96]; snprintf(b, sizeof b, "finish:%s=error%u;", step, unsigned(e)); out.main += b;
    out.num("unresolved", code.unresolved_fixup_count());
    return;
  }
  R.calls += 4;
  out.put("image", img.data(), sz);
  out.image = hexstr(img.data(), sz);
  out.num("reduction", sum.code_size_reduction);
  for (auto& p : L.all) {
    if (code.is_label_valid(p.second) && code.is_label_bound(p.second)) out.num(p.first.c_str(), code.label_offset_from_base(p.second));
    else out.main += p.first + "=unbound;";
  }
  for (size_t i = 0; i < code.section_count(); i++) {
    Section* s = code.section_by_id(uint32_t(i));
    // (an empty section is not output: a refused `call <far address>` may have created '.addrtab' before its entry was refused)
    if (s->real_size() == 0 && s->buffer_size() == 0) continue;
    char b[120]; snprintf(b, sizeof b, "sec%zu@%llu+%llu/%zu;", i, (ull)s->offset(), (ull)s->real_size(), s->buffer_size());
    out.main += b;
  }
}

// EMITTER: 0 = x86::Assembler, 1 = x86::Builder (finalize). STATIC: bytes of caller-provided arena memory for the holder.
template<int EMITTER, int STATIC = 0>
struct W1c : Workload {
  alignas(64) uint8_t static_mem[STATIC ? STATIC : 1];
  std::optional<CodeHolder> code;
  std::optional<x86::Assembler> as;
  std::optional<x86::Builder> cb;
  CountingHandler eh;
  std::vector<uint8_t> dropped;
  static constexpr uint64_t kBase = 0x00007F1200010000ull;

  void construct() override {
    if (STATIC) { CtorScope cs("CodeHolder(static memory)"); code.emplace(Span<uint8_t>(static_mem, size_t(STATIC))); } else code.emplace();
    if (EMITTER == 0) as.emplace(); else cb.emplace();
  }

  template<typename EM>
  void whole(CodeHolder& C, EM& e, Rec& R, Result& out, const std::vector<uint8_t>* skip, std::vector<uint8_t>* drop) {
    out.defect_kind = "refused-call-left-state-behind";
    if (!C.is_initialized()) { E(C.init(Environment(Arch::kX64))); GATE(); }
    C.set_error_handler(&eh);
    E(C.attach(&e)); GATE();
    Cont K; K.skip = skip; K.drop = drop; K.eh = &eh; K.R = &R;
    if (drop) drop->clear();
    Labels L;
    cont_program(e, C, R, out, L, K, P.seed, kBase);
    if (K.first_kind >= 0) out.ref_api = kContKindNames[K.first_kind];
    CHK(); GATE();
    if (K.refused && F.mode != M_COUNT) ST.cont_cases_with_refused_call++;
    if constexpr (EMITTER != 0) { E(e.finalize()); GATE(); }
    finish_cont(C, R, out, L, kBase);
  }

  void body(Rec& R, Result& out) override {
    eh.R = &R;
    if constexpr (EMITTER == 0) whole(*code, *as, R, out, nullptr, &dropped);
    else whole(*code, *cb, R, out, nullptr, &dropped);
    if (STATIC) note_static_arena(code->arena());
  }
  bool reference(Rec& R, Result& out) override {
    eh.R = &R;
    CodeHolder C;
    std::vector<uint8_t> skip = dropped;
    if constexpr (EMITTER == 0) { x86::Assembler e; whole(C, e, R, out, &skip, nullptr); }
    else { x86::Builder e; whole(C, e, R, out, &skip, nullptr); }
    out.aux.clear();
    return true;
  }
  int recover(int strategy, Rec& R) override { return recover_holder(*code, strategy, R); }
  void destroy() override { as.reset(); cb.reset(); code.reset(); }
};

// W3c - the same for a Compiler (x86-64): virtual registers, stack areas, invokes, labels and instructions whose creation is
// refused are dropped together with what needs them; finalize() then runs with memory available. (Constants are not part of
// it: a refused ConstPool::add() may keep the space it reserved - a bigger, correct pool.)
#define CV(var, kind, cond, expr, validexpr) do { uint32_t ci_ = K.next(); if (K.skipped(ci_)) K.last_lost = true; else if (cond) { K.before(); var = (expr); K.after_valid(ci_, kind, (validexpr)); if (R.stopped()) return; } } while (0)

static void cont_cc_program(x86::Compiler& e, Rec& R, Labels& L, Cont& K, uint64_t seed) {
  Rng r(seed * 151 + 9);
  FuncNode* fn = e.add_func(FuncSignature::build<int, int*, int>());
  if (!fn) { R.null_result(); return; }
  L.add("fc", fn->label());
  x86::Gp p, n, sum;
  CV(p, CK_CC_NEW_REG, true, e.new_gp_ptr("p"), p.is_valid());
  CV(n, CK_CC_NEW_REG, true, e.new_gp32("n"), n.is_valid());
  if (p.is_valid()) fn->set_arg(0, p);
  if (n.is_valid()) fn->set_arg(1, n);
  uint32_t nregs = 17 + uint32_t(r.below(4));          // more than there are registers: spill slots
  std::vector<x86::Gp> v(nregs);
  for (uint32_t i = 0; i < nregs; i++) { CV(v[i], CK_CC_NEW_REG, true, e.new_gp32("v%u", i), v[i].is_valid()); CC(CK_CC_EMIT, v[i].is_valid(), e.mov(v[i], int(i * 3 + 1))); }
  x86::Mem stk;
  bool have_stk = false;    // (a refused new_stack() returns `[0]`, a memory operand without base - not a 'none' operand)
  CV(stk, CK_CC_NEW_STACK, true, e.new_stack(16, 16, "slot"), stk.has_base());
  have_stk = stk.is_mem() && stk.has_base();
  Label loop, done;
  CL(loop, CK_NEW_LABEL, true, e.new_label()); CL(done, CK_NEW_LABEL, true, e.new_label());
  bool looped = loop.is_valid() && done.is_valid() && n.is_valid();
  CC(CK_CC_EMIT, looped, e.test(n, n));
  CC(CK_CC_EMIT, looped, e.jz(done));
  CC(CK_BIND, looped, e.bind(loop));
  for (uint32_t i = 0; i < nregs; i++) CC(CK_CC_EMIT, v[i].is_valid() && p.is_valid(), e.add(v[i], x86::dword_ptr(p, int32_t(i * 4))));
  { x86::Mem m = stk; m.set_size(4);
    CC(CK_CC_EMIT, have_stk && v[0].is_valid(), e.mov(m, v[0]));
    CC(CK_CC_EMIT, have_stk && v[1].is_valid(), e.add(v[1], m)); }
  CC(CK_CC_EMIT, looped, e.dec(n));
  CC(CK_CC_EMIT, looped, e.jnz(loop));
  CC(CK_BIND, looped, e.bind(done));
  // an invoke: ten arguments (registers, immediates; four of them on the stack)
  {
    InvokeNode* inv = nullptr;
    uint32_t ci = K.next();
    if (K.skipped(ci)) K.last_lost = true;
    else if (v[2].is_valid() && v[3].is_valid()) {
      K.before();
      Error err = e.invoke(Out(inv), imm((void*)callee10), FuncSignature::build<int, int, int, int, int, int, int, int, int, int, int>());
      K.after(ci, CK_CC_INVOKE, err);
      if (R.stopped()) return;
      if (err != Error::kOk) inv = nullptr;
    }
    if (inv) {
      for (uint32_t i = 0; i < 10; i++) { if (i & 1) inv->set_arg(i, imm(int(i) * 11)); else inv->set_arg(i, v[2 + (i % 2)]); }
      inv->set_ret(0, v[2]);
    }
  }
  CV(sum, CK_CC_NEW_REG, true, e.new_gp32("sum"), sum.is_valid());
  CC(CK_CC_EMIT, sum.is_valid(), e.xor_(sum, sum));
  for (uint32_t i = 0; i < nregs; i++) CC(CK_CC_EMIT, sum.is_valid() && v[i].is_valid(), e.add(sum, v[i]));
  CC(CK_CC_EMIT, sum.is_valid(), e.ret(sum));
  { Error err = e.end_func(); if (R.rec(err) && R.stopped()) return; }
}

struct W3c : Workload {
  std::optional<CodeHolder> code;
  std::optional<x86::Compiler> cc;
  CountingHandler eh;
  std::vector<uint8_t> dropped;
  static constexpr uint64_t kBase = 0x00007F3300010000ull;
  void construct() override { code.emplace(); cc.emplace(); }
  void whole(CodeHolder& C, x86::Compiler& e, Rec& R, Result& out, const std::vector<uint8_t>* skip, std::vector<uint8_t>* drop) {
    if (!C.is_initialized()) { E(C.init(Environment(Arch::kX64))); GATE(); }
    C.set_error_handler(&eh);
    E(C.attach(&e)); GATE();
    Cont K; K.skip = skip; K.drop = drop; K.eh = &eh; K.R = &R;
    if (drop) drop->clear();
    Labels L;
    cont_cc_program(e, R, L, K, P.seed);
    if (K.first_kind >= 0) out.ref_api = kContKindNames[K.first_kind];
    CHK(); GATE();
    if (K.refused && F.mode != M_COUNT) ST.cont_cases_with_refused_call++;
    E(e.finalize()); GATE();
    finish_cont(C, R, out, L, kBase);
  }
  void body(Rec& R, Result& out) override { eh.R = &R; whole(*code, *cc, R, out, nullptr, &dropped); }
  bool reference(Rec& R, Result& out) override {
    eh.R = &R;
    CodeHolder C; x86::Compiler e;
    std::vector<uint8_t> skip = dropped;
    whole(C, e, R, out, &skip, nullptr);
    out.aux.clear();
    return true;
  }
  int recover(int strategy, Rec& R) override { return recover_holder(*code, strategy, R); }
  void destroy() override { cc.reset(); code.reset(); }
};

// =========================================================================================================
// W8 - String / StringTmp<N> / ArenaString<N> against a std::string model
// =========================================================================================================
//
// Every call is checked against the model. After kOk the string holds the model's new content. After an error it
// still holds what it held before the call: that is what string.cpp implements - every operation obtains the new
// buffer before it touches the old one. The one exception is _op_vformat(), which formats in place first whenever
// >= 128 bytes are free: a failed assign_format() may therefore hold anything (it was about to be replaced), but it
// is still a string: data() != null, size() <= capacity(), data()[size()] == 0 - demanded after every call.
// After a failed call the caller goes on with the SAME object: all of it is read (String::equals + memcmp), then -
// with memory available again - a growing assign and an append, then the script goes on (whose next step is a
// reset(), a re-assign, ...). "Stop at first error" callers skip that and reset / swap out / destroy the object as
// it is. A buffer that a failed call released too early is thus read, written, released and replaced.
//
// Part 1 (matrix): every script below from every start state (re-established before each script).
// Part 2 (free running): seeded random calls, no re-establishing. Part 3: ArenaString::set_data.

enum { SM_SSO = 0, SM_HEAP_SMALL, SM_HEAP_GROWN, SM_HEAP_ROOMY, SM_EXT, SM_EXT_ROOMY, SM_EXT_TO_HEAP, SM_FREE, SM_NROWS };
static const char* const kSmRowNames[SM_NROWS] = { "sso", "heap_small_capacity", "heap_after_growth", "heap_roomy", "external", "external_roomy",
                                                   "external_moved_to_heap", "free_running" };

#define SM_OPS(X) \
  X(SETUP_RESET) X(SETUP_EXTERNAL) X(SETUP_ASSIGN) X(SETUP_APPEND) X(SETUP_ASSIGN_CHARS) X(SETUP_TRUNCATE) \
  X(ASSIGN_SHORT) X(ASSIGN_GROW) X(ASSIGN_GROW_BIG) X(ASSIGN_SHRINK) X(ASSIGN_SAME_SIZE) X(ASSIGN_CAPACITY) X(ASSIGN_CSTR_GROW) \
  X(ASSIGN_SELF) X(ASSIGN_SELF_TAIL) X(ASSIGN_NULL) X(ASSIGN_OTHER) X(ASSIGN_SPAN_GROW) X(ASSIGN_CHAR) X(ASSIGN_CHARS_GROW) \
  X(ASSIGN_INT) X(ASSIGN_UINT_WIDE) X(ASSIGN_HEX_GROW) X(ASSIGN_FORMAT_SMALL) X(ASSIGN_FORMAT_GROW) X(ASSIGN_FORMAT_HUGE) \
  X(OP_STRING_ASSIGN_GROW) X(OP_STRING_ASSIGN_EMPTY) X(PREPARE_ASSIGN_GROW) \
  X(APPEND_SMALL) X(APPEND_GROW) X(APPEND_CSTR_GROW) X(APPEND_SPAN_GROW) X(APPEND_CHAR) X(APPEND_CHARS_GROW) X(APPEND_OTHER) \
  X(APPEND_INT) X(APPEND_UINT_HEX) X(APPEND_UINT_WIDE) X(APPEND_HEX) X(APPEND_HEX_GROW) \
  X(APPEND_FORMAT_SMALL) X(APPEND_FORMAT_GROW) X(APPEND_FORMAT_HUGE) X(OP_NUMBER_APPEND) X(PREPARE_APPEND_GROW) \
  X(PAD_END_GROW) X(PAD_END_CAPACITY) X(PAD_END_NOOP) X(TRUNCATE_HALF) X(TRUNCATE_NOOP) X(CLEAR) \
  X(SWAP_OTHER) X(MOVE_FROM_OTHER) X(MOVE_ROUNDTRIP) \
  X(ARENA_SET_EMBEDDED) X(ARENA_SET_EXTERNAL)
enum SmOp {
#define X(n) SMOP_##n,
  SM_OPS(X)
#undef X
  SM_NOPS
};
static const char* const kSmOpNames[SM_NOPS] = {
#define X(n) #n,
  SM_OPS(X)
#undef X
};
static_assert(SM_NOPS <= 64 && SM_NROWS <= 8, "CaseStats::sm_run / sm_failed are [8][64]");

static char g_sm_txt[2][8192 + 128];
static void sm_init_text() {
  for (size_t i = 0; i < sizeof g_sm_txt[0]; i++) { g_sm_txt[0][i] = char('a' + (i * 7 + i / 26) % 26); g_sm_txt[1][i] = char('A' + (i * 5 + i / 13) % 26); }
}

// What String::_op_number documents by its flags, written independently of it.
static std::string sm_number(uint64_t v, uint32_t base, size_t width, StringFormatFlags flags) {
  uint64_t orig = v; char sign = 0;
  if (Support::test(flags, StringFormatFlags::kSigned) && int64_t(v) < 0) { v = uint64_t(0) - v; sign = '-'; }
  else if (Support::test(flags, StringFormatFlags::kShowSign)) sign = '+';
  else if (Support::test(flags, StringFormatFlags::kShowSpace)) sign = ' ';
  std::string digits;
  do { digits.insert(digits.begin(), "0123456789ABCDEF"[v % base]); v /= base; } while (v);
  std::string o;
  if (sign) o += sign;
  if (Support::test(flags, StringFormatFlags::kAlternate)) { if (base == 8 && orig != 0) o += '0'; if (base == 16) o += "0x"; }
  if (width > 256) width = 256;
  if (width > digits.size()) o.append(width - digits.size(), '0');
  return o + digits;
}
static std::string sm_hex(const void* p, size_t n, char sep) {
  std::string o;
  for (size_t i = 0; i < n; i++) { if (i && sep) o += sep; o += "0123456789ABCDEF"[((const uint8_t*)p)[i] >> 4]; o += "0123456789ABCDEF"[((const uint8_t*)p)[i] & 15]; }
  return o;
}

static volatile uint32_t g_sm_sink;
struct SmSubject { String* s = nullptr; std::string m; bool failed = false; int tmp = 0; const char* name = ""; };
struct SmFaultsOff { bool c; SmFaultsOff() : c(F.counting) { F.counting = false; } ~SmFaultsOff() { F.counting = c; } };

struct W8 : Workload {
  std::optional<String> s_plain, s_other;
  std::optional<StringTmp<32>> s_t32;
  std::optional<StringTmp<256>> s_t256;
  std::optional<Arena> arena;
  ArenaString<16> a16; ArenaString<32> a32; ArenaString<64> a64;
  std::string m_a[3]; bool a_failed[3] = { false, false, false };
  SmSubject U[4];            // plain String, StringTmp<32>, StringTmp<256>, the "other" String of two-string calls
  Rec* R = nullptr; Result* out = nullptr;
  bool stats = false, phase1 = false, halt = false;
  uint64_t h = 0; uint32_t salt = 0;

  void bind() {
    U[0].s = &*s_plain; U[0].name = "String"; U[0].tmp = 0;
    U[1].s = &*s_t32; U[1].name = "StringTmp<32>"; U[1].tmp = 1;
    U[2].s = &*s_t256; U[2].name = "StringTmp<256>"; U[2].tmp = 2;
    U[3].s = &*s_other; U[3].name = "String(other)"; U[3].tmp = 0;
  }
  void construct() override {
    sm_init_text();
    s_plain.emplace(); s_other.emplace(); s_t32.emplace(); s_t256.emplace(); arena.emplace(1024);
    a16.reset(); a32.reset(); a64.reset();
    bind();
    for (auto& u : U) { u.m.clear(); u.failed = false; }
    for (int i = 0; i < 3; i++) { m_a[i].clear(); a_failed[i] = false; }
  }

  // the public call behind an operation (names the violation key)
  static const char* api_of(int op) {
    switch (op) {
      case SMOP_SETUP_RESET: return "String::reset";
      case SMOP_SETUP_EXTERNAL: return "StringTmp::_reset_to_temporary";
      case SMOP_SETUP_ASSIGN: case SMOP_ASSIGN_SHORT: case SMOP_ASSIGN_GROW: case SMOP_ASSIGN_GROW_BIG: case SMOP_ASSIGN_SHRINK: case SMOP_ASSIGN_SAME_SIZE:
      case SMOP_ASSIGN_CAPACITY: case SMOP_ASSIGN_CSTR_GROW: case SMOP_ASSIGN_SELF: case SMOP_ASSIGN_SELF_TAIL: case SMOP_ASSIGN_NULL: case SMOP_ASSIGN_OTHER:
        return "String::assign";
      case SMOP_ASSIGN_SPAN_GROW: case SMOP_OP_STRING_ASSIGN_GROW: case SMOP_OP_STRING_ASSIGN_EMPTY: return "String::_op_string(assign)";
      case SMOP_ASSIGN_CHAR: return "String::assign(char)";
      case SMOP_SETUP_ASSIGN_CHARS: case SMOP_ASSIGN_CHARS_GROW: return "String::assign_chars";
      case SMOP_ASSIGN_INT: case SMOP_ASSIGN_UINT_WIDE: return "String::assign_int";
      case SMOP_ASSIGN_HEX_GROW: return "String::assign_hex";
      case SMOP_ASSIGN_FORMAT_SMALL: case SMOP_ASSIGN_FORMAT_GROW: case SMOP_ASSIGN_FORMAT_HUGE: return "String::assign_format";
      case SMOP_PREPARE_ASSIGN_GROW: case SMOP_PREPARE_APPEND_GROW: return "String::prepare";
      case SMOP_SETUP_APPEND: case SMOP_APPEND_SMALL: case SMOP_APPEND_GROW: case SMOP_APPEND_CSTR_GROW: case SMOP_APPEND_SPAN_GROW: case SMOP_APPEND_OTHER: return "String::append";
      case SMOP_APPEND_CHAR: return "String::append(char)";
      case SMOP_APPEND_CHARS_GROW: return "String::append_chars";
      case SMOP_APPEND_INT: case SMOP_APPEND_UINT_HEX: case SMOP_APPEND_UINT_WIDE: case SMOP_OP_NUMBER_APPEND: return "String::append_int";
      case SMOP_APPEND_HEX: case SMOP_APPEND_HEX_GROW: return "String::append_hex";
      case SMOP_APPEND_FORMAT_SMALL: case SMOP_APPEND_FORMAT_GROW: case SMOP_APPEND_FORMAT_HUGE: return "String::append_format";
      case SMOP_PAD_END_GROW: case SMOP_PAD_END_CAPACITY: case SMOP_PAD_END_NOOP: return "String::pad_end";
      case SMOP_SETUP_TRUNCATE: case SMOP_TRUNCATE_HALF: case SMOP_TRUNCATE_NOOP: return "String::truncate";
      case SMOP_CLEAR: return "String::clear";
      case SMOP_SWAP_OTHER: return "String::swap";
      case SMOP_MOVE_FROM_OTHER: case SMOP_MOVE_ROUNDTRIP: return "String::operator=(String&&)";
      case SMOP_ARENA_SET_EMBEDDED: case SMOP_ARENA_SET_EXTERNAL: return "ArenaString::set_data";
      default: return "String";
    }
  }

  void defect(const char* kind, const char* who, int op, int row, const std::string& what) {
    const char* api = api_of(op);
    std::string text = std::string(who) + " " + kSmOpNames[op] + " (start state " + kSmRowNames[row] + "): " + what + "; ";
    for (auto& x : out->api_defects) if (!strcmp(x.kind, kind) && !strcmp(x.api, api)) { if (x.what.size() < 400) x.what += text; return; }
    out->api_defects.push_back(Result::Defect{kind, api, text});
  }

  static int storage_of(const String& s) { return s.is_external() ? 2 : s.is_large_or_external() ? 1 : 0; }

  // after_error: the call that preceded returned an error; content_unspecified: ... and was a formatting assign
  void verify(SmSubject& u, int op, int row, bool after_error, bool content_unspecified) {
    String& s = *u.s;
    if (stats) ST.sm_checks++;
    const char* d = s.data(); size_t n = s.size(), c = s.capacity();
    char b[240];
    if (!d || n > c) {
      snprintf(b, sizeof b, "data()=%p size()=%zu capacity()=%zu", (const void*)d, n, c);
      defect(after_error ? "string-invalid-after-failed-call" : "string-invalid", u.name, op, row, b);
      return;
    }
    bool resync = false;
    if (after_error && content_unspecified) {
      if (!s.equals(d, n)) resync = true;          // reads every byte through asmjit
      uint32_t sum = 0; for (size_t i = 0; i <= n; i++) sum += uint8_t(d[i]);
      g_sm_sink = sum;
      resync = resync || n != u.m.size() || memcmp(d, u.m.data(), n) != 0;
    }
    else if (n != u.m.size() || !s.equals(u.m.data(), u.m.size()) || memcmp(d, u.m.data(), n) != 0) {
      size_t i = 0; while (i < n && i < u.m.size() && d[i] == u.m[i]) i++;
      snprintf(b, sizeof b, "size()=%zu, model %zu; first difference at %zu; storage=%d capacity()=%zu", n, u.m.size(), i, storage_of(s), c);
      defect(after_error ? "string-changed-by-failed-call" : "string-differs-from-model", u.name, op, row, b);
      resync = true;
    }
    if (d[n] != 0) {
      snprintf(b, sizeof b, "data()[size()] = 0x%02x, size()=%zu capacity()=%zu storage=%d", unsigned(uint8_t(d[n])), n, c, storage_of(s));
      defect(after_error ? "string-not-terminated-after-failed-call" : "string-not-terminated", u.name, op, row, b);
    }
    if (resync) u.m.assign(d, n);                  // one deviation is reported once
  }

  // One call. `want` receives the content the model holds after kOk. Returns what the call returned.
  Error do_op(int op, SmSubject& u, size_t param, std::string& want, bool& content_unspecified, bool& with_other, bool& skipped) {
    String& s = *u.s; const std::string& m = u.m; SmSubject& O = U[3];
    size_t n = s.size(), c = s.capacity();
    const char* A = g_sm_txt[0] + (salt % 61u);
    const char* B = g_sm_txt[1] + (salt % 29u);
    static const uint8_t raw[24] = { 1, 2, 3, 4, 5, 6, 7, 8, 9, 10, 11, 12, 13, 14, 15, 16, 17, 18, 19, 20, 21, 22, 23, 0xFE };
    auto clamp = [](size_t k) { return k > 8000 ? size_t(8000) : k; };
    size_t room = c - n, k;
    switch (op) {
      case SMOP_SETUP_RESET: want.clear(); return s.reset();
      case SMOP_SETUP_EXTERNAL:
        want.clear();
        if (n != 0 || s.is_large_or_external() || !u.tmp) { want = m; skipped = true; return Error::kOk; }   // only a StringTmp that was just reset()
        if (u.tmp == 1) static_cast<StringTmp<32>&>(s)._reset_to_temporary(); else static_cast<StringTmp<256>&>(s)._reset_to_temporary();
        return Error::kOk;
      case SMOP_SETUP_ASSIGN: k = clamp(param); want.assign(A, k); return s.assign(A, k);
      case SMOP_SETUP_APPEND: k = clamp(param); want = m + std::string(B, k); return s.append(B, k);
      case SMOP_SETUP_ASSIGN_CHARS: k = clamp(param); want.assign(k, 'r'); return s.assign_chars('r', k);
      case SMOP_SETUP_TRUNCATE: want = m.substr(0, std::min(param, m.size())); return s.truncate(param);

      case SMOP_ASSIGN_SHORT: want.assign(A, 7); return s.assign(A, 7);
      case SMOP_ASSIGN_GROW: k = clamp(c + 14); want.assign(B, k); return s.assign(B, k);
      case SMOP_ASSIGN_GROW_BIG: k = clamp(c + 700); want.assign(A, k); return s.assign(A, k);
      case SMOP_ASSIGN_SHRINK: k = n / 2; want.assign(B, k); return s.assign(B, k);
      case SMOP_ASSIGN_SAME_SIZE: want.assign(B, n); return s.assign(B, n);
      case SMOP_ASSIGN_CAPACITY: k = clamp(c); want.assign(A, k); return s.assign(A, k);
      case SMOP_ASSIGN_CSTR_GROW: { std::string z(B, clamp(c + 3)); want = z; return s.assign(z.c_str()); }
      case SMOP_ASSIGN_SELF: want = m; return s.assign(s.data(), s.size());
      case SMOP_ASSIGN_SELF_TAIL: k = n / 3; want = m.substr(std::min(k, m.size())); return s.assign(s.data() + k, n - k);
      case SMOP_ASSIGN_NULL: want.clear(); return s.assign(nullptr, 0);
      case SMOP_ASSIGN_OTHER: want = O.m; with_other = true; return s.assign(*O.s);
      case SMOP_ASSIGN_SPAN_GROW: k = clamp(c + 5); want.assign(B, k); return s.assign(Span<const char>(B, k));
      case SMOP_ASSIGN_CHAR: want = "c"; return s.assign('c');
      case SMOP_ASSIGN_CHARS_GROW: k = clamp(c + 9); want.assign(k, 'z'); return s.assign_chars('z', k);
      case SMOP_ASSIGN_INT: want = sm_number(uint64_t(int64_t(-42)), 10, 0, StringFormatFlags::kSigned); return s.assign_int(-42);
      case SMOP_ASSIGN_UINT_WIDE: want = sm_number(0x1234, 8, 300, StringFormatFlags::kAlternate); return s.assign_uint(0x1234, 8, 300, StringFormatFlags::kAlternate);
      case SMOP_ASSIGN_HEX_GROW: k = clamp(c) / 3 + 4; want = sm_hex(A, k, ':'); return s.assign_hex(A, k, ':');
      case SMOP_ASSIGN_FORMAT_SMALL: { char t[64]; snprintf(t, sizeof t, "[%u|%s|%08X]", 7u, "it", 0xBEEFu); want = t; content_unspecified = true; return s.assign_format("[%u|%s|%08X]", 7u, "it", 0xBEEFu); }
      case SMOP_ASSIGN_FORMAT_GROW: { std::string z(A, clamp(c + 9)); want = "<" + z + ">"; content_unspecified = true; return s.assign_format("<%s>", z.c_str()); }
      case SMOP_ASSIGN_FORMAT_HUGE: { std::string z(B, clamp(std::max<size_t>(c, 1100) + 40)); want = z + "#77"; content_unspecified = true; return s.assign_format("%s#%d", z.c_str(), 77); }
      case SMOP_OP_STRING_ASSIGN_GROW: k = clamp(c + 7); want.assign(B, k); return s._op_string(String::ModifyOp::kAssign, B, k);
      case SMOP_OP_STRING_ASSIGN_EMPTY: want.clear(); return s._op_string(String::ModifyOp::kAssign, "", 0);
      case SMOP_PREPARE_ASSIGN_GROW: {
        k = clamp(c + 12); want.assign(k, 'p');
        char* p = s.prepare(String::ModifyOp::kAssign, k);
        if (!p) return Error::kOutOfMemory;
        memset(p, 'p', k); return Error::kOk;
      }

      case SMOP_APPEND_SMALL: want = m + std::string(A, 3); return s.append(A, 3);
      case SMOP_APPEND_GROW: k = clamp(room + 6); want = m + std::string(B, k); return s.append(B, k);
      case SMOP_APPEND_CSTR_GROW: { std::string z(A, clamp(room + 2)); want = m + z; return s.append(z.c_str()); }
      case SMOP_APPEND_SPAN_GROW: k = clamp(room + 4); want = m + std::string(A, k); return s.append(Span<const char>(A, k));
      case SMOP_APPEND_CHAR: want = m + '!'; return s.append('!');
      case SMOP_APPEND_CHARS_GROW: k = clamp(room + 10); want = m + std::string(k, '='); return s.append_chars('=', k);
      case SMOP_APPEND_OTHER: want = m + O.m; with_other = true; return s.append(*O.s);
      case SMOP_APPEND_INT: want = m + sm_number(uint64_t(int64_t(-1234567)), 10, 12, StringFormatFlags::kShowSign | StringFormatFlags::kSigned);
        return s.append_int(-1234567, 10, 12, StringFormatFlags::kShowSign);
      case SMOP_APPEND_UINT_HEX: want = m + sm_number(0xDEADBEEFCAFEull, 16, 20, StringFormatFlags::kAlternate); return s.append_uint(0xDEADBEEFCAFEull, 16, 20, StringFormatFlags::kAlternate);
      case SMOP_APPEND_UINT_WIDE: want = m + sm_number(5, 2, 250, StringFormatFlags::kShowSpace); return s.append_uint(5, 2, 250, StringFormatFlags::kShowSpace);
      case SMOP_APPEND_HEX: want = m + sm_hex(raw, sizeof raw, ':'); return s.append_hex(raw, sizeof raw, ':');
      case SMOP_APPEND_HEX_GROW: k = clamp(room) / 2 + 4; want = m + sm_hex(B, k, '\0'); return s.append_hex(B, k);
      case SMOP_APPEND_FORMAT_SMALL: { char t[64]; snprintf(t, sizeof t, "[%u|%s|%08X]", 9u, "item", 0xC0FFEEu); want = m + t; return s.append_format("[%u|%s|%08X]", 9u, "item", 0xC0FFEEu); }
      case SMOP_APPEND_FORMAT_GROW: { std::string z(A, clamp(room + 9)); want = m + "<" + z + ">"; return s.append_format("<%s>", z.c_str()); }
      case SMOP_APPEND_FORMAT_HUGE: { std::string z(B, clamp(std::max<size_t>(room, 1100) + 40)); want = m + z + "#78"; return s.append_format("%s#%d", z.c_str(), 78); }
      case SMOP_OP_NUMBER_APPEND: want = m + sm_number(0777, 8, 0, StringFormatFlags::kAlternate); return s._op_number(String::ModifyOp::kAppend, 0777, 8, 0, StringFormatFlags::kAlternate);
      case SMOP_PREPARE_APPEND_GROW: {
        k = clamp(room + 12); want = m + std::string(k, 'q');
        char* p = s.prepare(String::ModifyOp::kAppend, k);
        if (!p) return Error::kOutOfMemory;
        memset(p, 'q', k); return Error::kOk;
      }

      case SMOP_PAD_END_GROW: k = clamp(c + 17); want = m; if (k > n) want.append(k - n, '.'); return s.pad_end(k, '.');
      case SMOP_PAD_END_CAPACITY: k = clamp(c); want = m; if (k > n) want.append(k - n, '_'); return s.pad_end(k, '_');
      case SMOP_PAD_END_NOOP: want = m; return s.pad_end(n / 2);
      case SMOP_TRUNCATE_HALF: want = m.substr(0, m.size() / 2); return s.truncate(n / 2);
      case SMOP_TRUNCATE_NOOP: want = m; return s.truncate(n + 10);
      case SMOP_CLEAR: want.clear(); return s.clear();

      // (a swap that would leave a plain String pointing into the embedded buffer of a StringTmp is a caller's mistake: skipped)
      case SMOP_SWAP_OTHER:
        if (s.is_external() || O.s->is_external()) { want = m; skipped = true; return Error::kOk; }
        want = O.m; with_other = true; s.swap(*O.s); O.m = m; return Error::kOk;
      case SMOP_MOVE_FROM_OTHER:
        if (O.s->is_external()) { want = m; skipped = true; return Error::kOk; }
        want = O.m; with_other = true; s = std::move(*O.s); O.m.clear(); return Error::kOk;
      case SMOP_MOVE_ROUNDTRIP: {
        want = m;
        String x(std::move(s));
        if (s.size() != 0 || s.is_large_or_external() || s.data()[0] != 0) defect("string-differs-from-model", u.name, op, SM_FREE, "a moved-from String is not empty");
        if (!x.equals(m.data(), m.size())) defect("string-differs-from-model", u.name, op, SM_FREE, "the move-constructed String does not hold the content");
        s = std::move(x);
        return Error::kOk;
      }
      default: break;
    }
    skipped = true; want = m;
    return Error::kOk;
  }

  void run_op(SmSubject& u, int op, int row, size_t param = 0) {
    if (halt) return;
    std::string want; bool unspecified = false, with_other = false, skipped = false;
    bool faults_on = F.counting;
    bool obj_failed_before = u.failed || ((op == SMOP_ASSIGN_OTHER || op == SMOP_APPEND_OTHER || op == SMOP_SWAP_OTHER || op == SMOP_MOVE_FROM_OTHER) && U[3].failed);
    int storage = storage_of(*u.s);
    salt = salt * 31u + uint32_t(op) + 7u;
    Error e = do_op(op, u, param, want, unspecified, with_other, skipped);
    if (skipped) return;
    if (stats) {
      ST.sm_ops++; ST.sm_run[row][op]++;
      if (obj_failed_before) { if (phase1) ST.sm_ops_after_failure++; else ST.sm_ops_in_retry_after_failure++; }
    }
    if (e == Error::kOk) {
      R->calls++;
      u.m = want;
      if (op == SMOP_SWAP_OTHER) { U[3].failed = U[3].failed || u.failed; }
      verify(u, op, row, false, false);
      if (with_other) verify(U[3], op, row, false, false);
    }
    else {
      R->rec(e);
      u.failed = true;
      if (stats) { ST.sm_failed_calls++; ST.sm_failed[row][op]++; ST.sm_failed_by_type[storage]++; }
      if (phase1 && !faults_on) defect("error-with-memory-available", u.name, op, row, "the call returned error " + std::to_string(unsigned(e)) + " although no request was refused");
      SmFaultsOff off;
      verify(u, op, row, true, unspecified);
      if (with_other) verify(U[3], op, row, false, false);
      if (R->stopped()) { halt = true; return; }
      if (faults_on) {
        // the caller carries on with the same object, memory is available again
        if (stats) ST.sm_continuations++;
        run_op(u, SMOP_ASSIGN_GROW, row);
        run_op(u, SMOP_APPEND_CHARS_GROW, row);
      }
    }
    h = fnv1a(u.s->data(), u.s->size(), h * 31 + uint64_t(e));
  }

  void establish(SmSubject& u, int row) {
    run_op(u, SMOP_SETUP_RESET, row);
    switch (row) {
      case SM_SSO: run_op(u, SMOP_SETUP_ASSIGN, row, 11); break;
      case SM_HEAP_SMALL: run_op(u, SMOP_SETUP_ASSIGN, row, 41); break;                                               // malloc(size + 1): capacity == size
      case SM_HEAP_GROWN: run_op(u, SMOP_SETUP_ASSIGN, row, 35); run_op(u, SMOP_SETUP_APPEND, row, 100); break;       // second buffer, grown by prepare()
      case SM_HEAP_ROOMY: run_op(u, SMOP_SETUP_ASSIGN_CHARS, row, 600); run_op(u, SMOP_SETUP_TRUNCATE, row, 20); break;   // >= 128 bytes free
      case SM_EXT: case SM_EXT_ROOMY: run_op(u, SMOP_SETUP_EXTERNAL, row); run_op(u, SMOP_SETUP_ASSIGN, row, 17); break;
      case SM_EXT_TO_HEAP: run_op(u, SMOP_SETUP_EXTERNAL, row); run_op(u, SMOP_SETUP_ASSIGN, row, 80); break;          // outgrew the embedded buffer
      default: break;
    }
  }

  void prepare_other(size_t size, int row) {
    run_op(U[3], SMOP_SETUP_RESET, row);
    run_op(U[3], SMOP_SETUP_ASSIGN, row, size);
  }
  static bool needs_other(int op) { return op == SMOP_ASSIGN_OTHER || op == SMOP_APPEND_OTHER || op == SMOP_SWAP_OTHER || op == SMOP_MOVE_FROM_OTHER; }

  template<size_t N>
  void arena_set(ArenaString<N>& a, int idx, const char* p, size_t n) {
    if (halt) return;
    int op = n <= ArenaString<N>::kMaxEmbeddedSize ? SMOP_ARENA_SET_EMBEDDED : SMOP_ARENA_SET_EXTERNAL;
    static const char* const names[3] = { "ArenaString<16>", "ArenaString<32>", "ArenaString<64>" };
    bool faults_on = F.counting;
    if (stats) { ST.sm_ops++; ST.sm_run[SM_FREE][op]++; if (a_failed[idx]) { if (phase1) ST.sm_ops_after_failure++; else ST.sm_ops_in_retry_after_failure++; } }
    Error e = a.set_data(*arena, p, n);
    bool failed = e != Error::kOk;
    if (!failed) { R->calls++; m_a[idx].assign(p, n); }
    else { R->rec(e); a_failed[idx] = true; if (stats) { ST.sm_failed_calls++; ST.sm_failed[SM_FREE][op]++; } }
    SmFaultsOff off;
    if (stats) ST.sm_checks++;
    const std::string& m = m_a[idx];
    if (a.size() != m.size() || !a.data() || memcmp(a.data(), m.data(), m.size()) != 0 || a.data()[m.size()] != 0 || a.is_embedded() != (m.size() <= ArenaString<N>::kMaxEmbeddedSize))
      defect(failed ? "string-changed-by-failed-call" : "string-differs-from-model", names[idx], op, SM_FREE, "size()=" + std::to_string(a.size()) + ", model " + std::to_string(m.size()));
    h = fnv1a(m.data(), m.size(), h * 31 + uint64_t(e));
    if (!failed) return;
    if (R->stopped()) { halt = true; return; }
    if (faults_on) { if (stats) ST.sm_continuations++; arena_set(a, idx, g_sm_txt[1] + 3, 70 + n % 50); }
  }

  void body(Rec& R_, Result& out_) override {
    R = &R_; out = &out_; phase1 = F.counting; stats = F.mode != M_COUNT; halt = false; h = 1469598103934665603ull; salt = 0;
    bind();
    // ---- part 1: start state x script ---------------------------------------------------------------------------
    static const int scripts[][3] = {
      {SMOP_ASSIGN_SHORT, -1, -1}, {SMOP_ASSIGN_GROW, -1, -1}, {SMOP_ASSIGN_GROW_BIG, -1, -1}, {SMOP_ASSIGN_SHRINK, -1, -1}, {SMOP_ASSIGN_SAME_SIZE, -1, -1},
      {SMOP_ASSIGN_CAPACITY, -1, -1}, {SMOP_ASSIGN_CSTR_GROW, -1, -1}, {SMOP_ASSIGN_SELF, -1, -1}, {SMOP_ASSIGN_SELF_TAIL, -1, -1}, {SMOP_ASSIGN_NULL, -1, -1},
      {SMOP_ASSIGN_OTHER, -1, -1}, {SMOP_ASSIGN_SPAN_GROW, -1, -1}, {SMOP_ASSIGN_CHAR, -1, -1}, {SMOP_ASSIGN_CHARS_GROW, -1, -1}, {SMOP_ASSIGN_INT, -1, -1},
      {SMOP_ASSIGN_UINT_WIDE, -1, -1}, {SMOP_ASSIGN_HEX_GROW, -1, -1}, {SMOP_ASSIGN_FORMAT_SMALL, -1, -1}, {SMOP_ASSIGN_FORMAT_GROW, -1, -1},
      {SMOP_ASSIGN_FORMAT_HUGE, -1, -1}, {SMOP_OP_STRING_ASSIGN_GROW, -1, -1}, {SMOP_OP_STRING_ASSIGN_EMPTY, -1, -1}, {SMOP_PREPARE_ASSIGN_GROW, -1, -1},
      {SMOP_APPEND_SMALL, -1, -1}, {SMOP_APPEND_GROW, -1, -1}, {SMOP_APPEND_CSTR_GROW, -1, -1}, {SMOP_APPEND_SPAN_GROW, -1, -1}, {SMOP_APPEND_CHAR, -1, -1},
      {SMOP_APPEND_CHARS_GROW, -1, -1}, {SMOP_APPEND_OTHER, -1, -1}, {SMOP_APPEND_INT, -1, -1}, {SMOP_APPEND_UINT_HEX, -1, -1}, {SMOP_APPEND_UINT_WIDE, -1, -1},
      {SMOP_APPEND_HEX, -1, -1}, {SMOP_APPEND_HEX_GROW, -1, -1}, {SMOP_APPEND_FORMAT_SMALL, -1, -1}, {SMOP_APPEND_FORMAT_GROW, -1, -1},
      {SMOP_APPEND_FORMAT_HUGE, -1, -1}, {SMOP_OP_NUMBER_APPEND, -1, -1}, {SMOP_PREPARE_APPEND_GROW, -1, -1}, {SMOP_PAD_END_GROW, -1, -1},
      {SMOP_PAD_END_NOOP, -1, -1}, {SMOP_TRUNCATE_NOOP, -1, -1}, {SMOP_SWAP_OTHER, SMOP_APPEND_GROW, -1}, {SMOP_MOVE_FROM_OTHER, SMOP_ASSIGN_GROW, -1},
      {SMOP_MOVE_ROUNDTRIP, SMOP_APPEND_GROW, -1},
      {SMOP_PAD_END_CAPACITY, SMOP_APPEND_CHAR, -1},                  // one character more than fits
      {SMOP_ASSIGN_GROW, SMOP_ASSIGN_GROW, SMOP_ASSIGN_SHRINK},       // heap buffer replaced by a heap buffer
      {SMOP_CLEAR, SMOP_ASSIGN_GROW, SMOP_APPEND_FORMAT_GROW},
      {SMOP_TRUNCATE_HALF, SMOP_APPEND_GROW, SMOP_ASSIGN_GROW_BIG},
      {SMOP_APPEND_GROW, SMOP_ASSIGN_CSTR_GROW, SMOP_SETUP_RESET},
      {SMOP_ASSIGN_FORMAT_GROW, SMOP_ASSIGN_GROW, SMOP_CLEAR},
    };
    for (int row = 0; row < SM_FREE; row++) {
      SmSubject& u = U[row < SM_EXT ? 0 : row == SM_EXT_ROOMY ? 2 : 1];
      for (auto& sc : scripts) {
        establish(u, row);
        for (int i = 0; i < 3 && sc[i] >= 0; i++) {
          if (needs_other(sc[i])) prepare_other(u.s->capacity() + 21, row);
          run_op(u, sc[i], row);
        }
        if (halt) return;
      }
    }
    // ---- part 2: free-running sequences ---------------------------------------------------------------------------
    for (int idx = 0; idx < 3; idx++) {
      SmSubject& u = U[idx];
      Rng r(P.seed * 7919 + uint64_t(idx) * 104729 + 11);
      for (int i = 0; i < 60; i++) {
        int op = int(r.range(SMOP_ASSIGN_SHORT, SMOP_MOVE_ROUNDTRIP));
        if (u.s->capacity() > 3000 || r.chance(1, 12)) {
          run_op(u, SMOP_SETUP_RESET, SM_FREE);
          if (u.tmp && r.chance(2, 3)) run_op(u, SMOP_SETUP_EXTERNAL, SM_FREE);
        }
        if (needs_other(op)) prepare_other(size_t(r.below(3) == 0 ? u.s->capacity() + 1 + r.below(40) : r.below(120)), SM_FREE);
        run_op(u, op, SM_FREE);
        if (halt) return;
      }
    }
    // ---- every object once more: grow, shrink, release, grow (what is left is released by destroy()) -----------------
    for (auto& u : U) {
      run_op(u, SMOP_ASSIGN_GROW, SM_FREE); run_op(u, SMOP_TRUNCATE_HALF, SM_FREE); run_op(u, SMOP_SETUP_RESET, SM_FREE); run_op(u, SMOP_ASSIGN_GROW_BIG, SM_FREE);
      if (halt) return;
      out->put(u.name, u.s->data(), u.s->size());
    }
    // ---- part 3: ArenaString ------------------------------------------------------------------------------------------
    {
      const char* A = g_sm_txt[0] + 17;
      static const size_t sizes[] = { 5, 11, 12, 27, 28, 59, 60, 90, 3, 200, 2000, 0, 61 };
      for (size_t n : sizes) { arena_set(a16, 0, A + n, n); arena_set(a32, 1, A + 2 * n, n); arena_set(a64, 2, A + 3 * n, n); }
      if (halt) return;
      out->put("a16", a16.data(), a16.size()); out->put("a32", a32.data(), a32.size()); out->put("a64", a64.data(), a64.size());
    }
    out->num("h", h);
  }

  int recover(int strategy, Rec&) override {
    if (strategy == 2) {   // destroy and construct anew
      s_plain.reset(); s_other.reset(); s_t32.reset(); s_t256.reset();
      s_plain.emplace(); s_other.emplace(); s_t32.emplace(); s_t256.emplace();
      bind();
    }
    else for (auto& u : U) {
      if (strategy == 0) (void)u.s->reset();
      else { String fresh; u.s->swap(fresh); }   // the temporary takes what the object held and releases it
    }
    for (auto& u : U) u.m.clear();
    a16.reset(); a32.reset(); a64.reset();
    for (auto& m : m_a) m.clear();
    arena->reset(strategy == 2 ? ResetPolicy::kHard : ResetPolicy::kSoft);
    return 0;
  }

  void destroy() override { s_t256.reset(); s_t32.reset(); s_other.reset(); s_plain.reset(); a16.reset(); a32.reset(); a64.reset(); arena.reset(); }
};

// =========================================================================================================
// W9 - objects whose CONSTRUCTION met the refused request
// =========================================================================================================
//
// Constructors report nothing: JitAllocator / JitRuntime install a "not initialized" state, an emitter constructed
// with a CodeHolder stays detached, CodeHolder::init() returns an error and leaves an empty holder. Such an object must
// afterwards behave like any other: every call returns an error or works, reset() with both policies, reuse where the
// API has a way to initialise again (CodeHolder::init, CodeHolder::attach), destruction.
//   part A  the same calls for every case (compared with the failure-free run when nothing was reported; the caller
//           learns about a failed constructor from is_initialized(), which counts as "reported").
//   part B  per object a menu drawn from the case RNG (seed, fault class, mode, pattern): nothing / reset soft /
//           reset hard / the same policy twice / reset, calls, reset / calls, reset, calls, reset, reset.
//   recover an initialised object is reset as documented; one that is not is, by the case RNG, reset (soft, hard,
//           both) and replaced, or replaced as it is.
// A call on a not-initialised object that claims success is a defect keyed by that call; a crash is keyed by the
// function that crashed.

static void api_defect(Result& out, const char* kind, const char* api, const std::string& text) {
  for (auto& x : out.api_defects) if (!strcmp(x.kind, kind) && !strcmp(x.api, api)) { if (x.what.size() < 400) x.what += text + "; "; return; }
  out.api_defects.push_back(Result::Defect{kind, api, text + "; "});
}

static uint64_t case_rng_seed(uint64_t seed) {
  uint64_t h = fnv1a(&seed, sizeof seed);
  int cls = F.cls, mode = F.mode;
  h = fnv1a(&cls, sizeof cls, h); h = fnv1a(&mode, sizeof mode, h);
  if (mode == M_PATTERN) h = fnv1a(F.pat, sizeof(uint64_t) * size_t(F.npat), h); else if (mode != M_COUNT) h = fnv1a(&F.k, sizeof F.k, h);
  return h;
}

struct W9 : Workload {
  static constexpr int kJA = 7, kRT = 2, kEM = 6;
  std::optional<JitAllocator> ja[kJA];
  std::optional<JitRuntime> rt[kRT];
  std::optional<CodeHolder> code[kEM];
  std::optional<x86::Assembler> xa; std::optional<x86::Builder> xb; std::optional<x86::Compiler> xc;
  std::optional<a64::Assembler> aa; std::optional<a64::Builder> ab; std::optional<a64::Compiler> ac;
  std::vector<JitAllocator::Span> held[kJA];
  std::vector<void*> rt_held[kRT];
  std::vector<Error> pending;      // what CodeHolder::init() returned in construct()
  bool ctor_failed_ja[kJA] {}, ctor_failed_rt[kRT] {}, ctor_failed_em[kEM] {};
  Rec* R = nullptr; Result* out = nullptr;
  bool halt = false, phase1 = false;

  static JitAllocator::CreateParams ja_params(int j) {
    JitAllocator::CreateParams p;
    switch (j) {
      case 1: p.options = JitAllocatorOptions::kUseDualMapping; break;
      case 2: p.options = JitAllocatorOptions::kUseMultiplePools | JitAllocatorOptions::kFillUnusedMemory | JitAllocatorOptions::kImmediateRelease; break;
      case 3: p.options = JitAllocatorOptions::kUseDualMapping | JitAllocatorOptions::kFillUnusedMemory | JitAllocatorOptions::kCustomFillPattern;
              p.block_size = 128 * 1024; p.granularity = 128; p.fill_pattern = 0xCCCCCCCCu; break;
      case 4: p.options = JitAllocatorOptions::kDisableInitialPadding | JitAllocatorOptions::kUseMultiplePools; break;
      case 5: p.options = JitAllocatorOptions::kUseDualMapping | JitAllocatorOptions::kUseMultiplePools | JitAllocatorOptions::kImmediateRelease | JitAllocatorOptions::kDisableInitialPadding;
              p.block_size = 64 * 1024; p.granularity = 256; break;
      case 6: p.options = JitAllocatorOptions::kUseLargePages | JitAllocatorOptions::kAlignBlockSizeToLargePage | JitAllocatorOptions::kFillUnusedMemory; break;
      default: break;
    }
    return p;
  }
  static const char* ja_name(int j) {
    static const char* const n[kJA] = { "JitAllocator(nullptr)", "JitAllocator(dual)", "JitAllocator(pools|fill|immediate)", "JitAllocator(dual|fill|pattern,128K/128)",
                                        "JitAllocator(nopadding|pools)", "JitAllocator(dual|pools|immediate|nopadding,64K/256)", "JitAllocator(largepages|align|fill)" };
    return n[j];
  }
  static const char* rt_name(int j) { return j ? "JitRuntime(dual|fill)" : "JitRuntime(nullptr)"; }
  static const char* em_name(int j) {
    static const char* const n[kEM] = { "x86::Assembler(&code)", "x86::Builder(&code)", "x86::Compiler(&code)", "a64::Assembler(&code)", "a64::Builder(&code)", "a64::Compiler(&code)" };
    return n[j];
  }
  BaseEmitter* em(int j) {
    switch (j) { case 0: return &*xa; case 1: return &*xb; case 2: return &*xc; case 3: return &*aa; case 4: return &*ab; default: return &*ac; }
  }

  void make_ja(int j) { JitAllocator::CreateParams p = ja_params(j); CtorScope cs(ja_name(j)); if (j == 0) ja[j].emplace(nullptr); else ja[j].emplace(&p); }
  void make_rt(int j) {
    JitAllocator::CreateParams p; p.options = JitAllocatorOptions::kUseDualMapping | JitAllocatorOptions::kFillUnusedMemory;
    CtorScope cs(rt_name(j));
    if (j == 0) rt[j].emplace(nullptr); else rt[j].emplace(&p);
  }
  void make_em(int j) {
    CodeHolder* c = &*code[j];
    CtorScope cs(em_name(j));
    switch (j) { case 0: xa.emplace(c); break; case 1: xb.emplace(c); break; case 2: xc.emplace(c); break; case 3: aa.emplace(c); break; case 4: ab.emplace(c); break; default: ac.emplace(c); break; }
  }
  static Environment env_of(int j) { return Environment(j < 3 ? Arch::kX64 : Arch::kAArch64); }

  void construct() override {
    pending.clear();
    for (int j = 0; j < kJA; j++) { make_ja(j); held[j].clear(); ctor_failed_ja[j] = !ja[j]->is_initialized(); }
    for (int j = 0; j < kRT; j++) { make_rt(j); rt_held[j].clear(); ctor_failed_rt[j] = !rt[j]->allocator().is_initialized(); }
    for (int j = 0; j < kEM; j++) {
      { CtorScope cs("CodeHolder()+init"); code[j].emplace(); pending.push_back(code[j]->init(env_of(j))); }
      make_em(j);
      ctor_failed_em[j] = !em(j)->is_initialized();
    }
  }

  // ---- JitAllocator ------------------------------------------------------------------------------------------------
  void expect_error(bool uninit, Error e, const char* api, const char* who) {
    R->rec(e);
    if (uninit && e == Error::kOk) api_defect(*out, "uninitialized-object-accepted-call", api, std::string(who) + ": returned kOk although the object is not initialized");
  }

  void ja_calls(int j, bool full) {
    JitAllocator& A = *ja[j]; const char* who = ja_name(j);
    bool uninit = !A.is_initialized();
    if (uninit) R->null_result();       // how a caller learns that the constructor failed
    (void)A.options(); (void)A.block_size(); (void)A.granularity(); (void)A.fill_pattern();
    static uint8_t src[512]; for (size_t i = 0; i < sizeof src; i++) src[i] = uint8_t(i * 13 + j);
    size_t sizes[3] = { size_t(64 + j * 16), 5000, 70000 };
    char b[200];
    for (int i = 0; i < (full ? 3 : 1); i++) {
      JitAllocator::Span sp;
      Error e = A.alloc(Out(sp), sizes[i]);
      expect_error(uninit, e, "JitAllocator::alloc", who);
      if (e != Error::kOk) {
        if (sp.rx() || sp.rw() || sp.size()) api_defect(*out, "failed-call-produced-a-result", "JitAllocator::alloc", std::string(who) + ": alloc() returned an error and filled the span");
        if (R->stopped()) { halt = true; return; }
        continue;
      }
      if (!sp.rx() || sp.size() < sizes[i]) { snprintf(b, sizeof b, "%s: alloc(%zu) returned kOk with rx=%p size=%zu", who, sizes[i], sp.rx(), sp.size()); api_defect(*out, "wrong-result-after-ok", "JitAllocator::alloc", b); continue; }
      held[j].push_back(sp);
      JitAllocator::Span& S = held[j].back();
      size_t wn = std::min(sizeof src, S.size() - 8);
      Error w = A.write(S, 8, src, wn); R->rec(w);
      if (w == Error::kOk && memcmp(static_cast<uint8_t*>(S.rx()) + 8, src, wn) != 0) api_defect(*out, "wrong-result-after-ok", "JitAllocator::write", std::string(who) + ": the bytes at rx differ from what was written");
      JitAllocator::Span q;
      Error qe = A.query(Out(q), S.rx()); R->rec(qe);
      if (qe == Error::kOk && (q.rx() != S.rx() || q.size() != S.size())) api_defect(*out, "wrong-result-after-ok", "JitAllocator::query", std::string(who) + ": query() describes another span");
      if (i == 1) {
        Error se = A.shrink(S, 1000); R->rec(se);
        if (se == Error::kOk && (S.size() < 1000 || S.size() > 5000)) api_defect(*out, "wrong-result-after-ok", "JitAllocator::shrink", std::string(who) + ": span size after shrink(1000) = " + std::to_string(S.size()));
        JitAllocator::WriteScope ws(A);
        Error e1 = ws.write(S, 0, src, 64); R->rec(e1);
        // (WriteScope::write(span, lambda) does not compile: it forwards an lvalue, scoped_write<Lambda&> forms a pointer to a reference)
        Error e2 = ws.write(S, [](JitAllocator::Span& x, void* ud) noexcept -> Error { memcpy(x.rw(), static_cast<const uint8_t*>(ud) + 1, 32); return Error::kOk; }, src); R->rec(e2);
        Error e4 = A.write(S, [&](JitAllocator::Span& x) noexcept -> Error { memcpy(static_cast<uint8_t*>(x.rw()) + 32, src + 33, 16); return Error::kOk; }); R->rec(e4);
        Error e3 = ws.flush(); R->rec(e3);
        if (e1 == Error::kOk && e2 == Error::kOk && memcmp(S.rx(), src + 1, 32) != 0) api_defect(*out, "wrong-result-after-ok", "JitAllocator::scoped_write", std::string(who) + ": the bytes at rx differ from what was written");
      }
      if (R->stopped()) { halt = true; return; }
    }
    // calls that can only be refused: an address / a span the allocator never handed out
    { JitAllocator::Span none; Error e = A.query(Out(none), reinterpret_cast<void*>(uintptr_t(0x1000))); R->calls++; if (e == Error::kOk) api_defect(*out, "uninitialized-object-accepted-call", "JitAllocator::query", std::string(who) + ": query(0x1000) returned kOk"); }
    { JitAllocator::Span none; Error e = A.shrink(none, 0); R->calls++; if (e == Error::kOk) api_defect(*out, "uninitialized-object-accepted-call", "JitAllocator::shrink", std::string(who) + ": shrink(empty span) returned kOk"); }
    { JitAllocator::Span none; Error e = A.write(none, 0, src, 4); R->calls++; if (e == Error::kOk) api_defect(*out, "uninitialized-object-accepted-call", "JitAllocator::write", std::string(who) + ": write(empty span) returned kOk"); }
    { JitAllocator::Span none; Error e = A.write(none, [](JitAllocator::Span&) noexcept -> Error { return Error::kOk; }); R->calls++; if (e == Error::kOk) api_defect(*out, "uninitialized-object-accepted-call", "JitAllocator::write", std::string(who) + ": write(empty span, fn) returned kOk"); }
    { Error e = A.release(reinterpret_cast<void*>(uintptr_t(0x1000))); R->calls++; if (e == Error::kOk) api_defect(*out, "uninitialized-object-accepted-call", "JitAllocator::release", std::string(who) + ": release(0x1000) returned kOk"); }
    { Error e = A.release(nullptr); R->calls++; if (e == Error::kOk) api_defect(*out, "uninitialized-object-accepted-call", "JitAllocator::release", std::string(who) + ": release(nullptr) returned kOk"); }
    // give back all but the first span
    while (held[j].size() > 1) {
      Error e = A.release(held[j].back().rx()); R->rec(e); held[j].pop_back();
      if (R->stopped()) { halt = true; return; }
    }
    ja_stats(j, "after the calls");
  }

  void ja_stats(int j, const char* when) {
    JitAllocator::Statistics st = ja[j]->statistics();
    bool uninit = !ja[j]->is_initialized();
    char b[240];
    if (st.allocation_count() != held[j].size() || (uninit && (st.block_count() || st.reserved_size() || st.used_size() || st.overhead_size()))) {
      snprintf(b, sizeof b, "%s %s: statistics() reports %zu spans / %zu blocks / %zu reserved, the caller holds %zu%s", ja_name(j), when, st.allocation_count(), st.block_count(), st.reserved_size(), held[j].size(), uninit ? " (not initialized)" : "");
      api_defect(*out, "wrong-result-after-ok", "JitAllocator::statistics", b);
    }
    if (st.used_size() > st.reserved_size()) api_defect(*out, "wrong-result-after-ok", "JitAllocator::statistics", std::string(ja_name(j)) + " " + when + ": used_size() > reserved_size()");
  }

  void ja_reset(int j, ResetPolicy policy) {
    ja[j]->reset(policy);
    held[j].clear();
    ja_stats(j, policy == ResetPolicy::kHard ? "after reset(kHard)" : "after reset(kSoft)");
    if (policy == ResetPolicy::kHard && ja[j]->statistics().block_count() != 0) api_defect(*out, "wrong-result-after-ok", "JitAllocator::reset", std::string(ja_name(j)) + ": blocks survive reset(kHard)");
  }

  // ---- JitRuntime ----------------------------------------------------------------------------------------------------
  void rt_calls(int j, int nfn) {
    JitRuntime& RT = *rt[j]; const char* who = rt_name(j);
    bool uninit = !RT.allocator().is_initialized();
    if (uninit) R->null_result();
    for (int i = 0; i < nfn; i++) {
      CodeHolder c; x86::Assembler a;
      Error e = c.init(RT.environment(), RT.cpu_features()); R->rec(e);
      if (e == Error::kOk) { e = c.attach(&a); R->rec(e); }
      if (e == Error::kOk) { e = a.mov(x86::eax, 4000 + j * 10 + i); R->rec(e); }
      if (e == Error::kOk) { e = a.ret(); R->rec(e); }
      if (R->stopped()) { halt = true; return; }
      if (e != Error::kOk) continue;
      int (*fn)() = nullptr;
      Error ae = RT.add(&fn, &c);
      expect_error(uninit, ae, "JitRuntime::add", who);
      if (ae != Error::kOk) {
        if (fn) api_defect(*out, "failed-call-produced-a-result", "JitRuntime::add", std::string(who) + ": add() returned an error and set the pointer");
        if (R->stopped()) { halt = true; return; }
        continue;
      }
      if (!fn) { api_defect(*out, "wrong-result-after-ok", "JitRuntime::add", std::string(who) + ": add() returned kOk and a null pointer"); continue; }
      int got = fn();
      if (got != 4000 + j * 10 + i) api_defect(*out, "wrong-result-after-ok", "JitRuntime::add", std::string(who) + ": the added function returned " + std::to_string(got));
      rt_held[j].push_back(reinterpret_cast<void*>(fn));
    }
    { Error e = RT.release(reinterpret_cast<void*>(uintptr_t(0x1000))); R->calls++; if (e == Error::kOk) api_defect(*out, "uninitialized-object-accepted-call", "JitRuntime::release", std::string(who) + ": release(0x1000) returned kOk"); }
    while (rt_held[j].size() > 1) {
      Error e = RT.release(rt_held[j].back()); R->rec(e); rt_held[j].pop_back();
      if (R->stopped()) { halt = true; return; }
    }
    rt_stats(j, "after the calls");
  }
  void rt_stats(int j, const char* when) {
    JitAllocator::Statistics st = rt[j]->allocator().statistics();
    if (st.allocation_count() != rt_held[j].size()) {
      char b[200]; snprintf(b, sizeof b, "%s %s: the allocator reports %zu spans, the caller holds %zu", rt_name(j), when, st.allocation_count(), rt_held[j].size());
      api_defect(*out, "wrong-result-after-ok", "JitAllocator::statistics", b);
    }
  }
  void rt_reset(int j, ResetPolicy policy) { rt[j]->reset(policy); rt_held[j].clear(); rt_stats(j, "after reset"); }

  // ---- emitters constructed with a CodeHolder ----------------------------------------------------------------------------
  // One small function; returns what the emit calls reported.
  template<typename EM>
  void em_program(EM& e, bool detached, const char* who) {
    constexpr bool kX86 = std::is_base_of<x86::Emitter, EM>::value || std::is_same<EM, x86::Assembler>::value || std::is_same<EM, x86::Builder>::value || std::is_same<EM, x86::Compiler>::value;
    constexpr bool kCompiler = std::is_same<EM, x86::Compiler>::value || std::is_same<EM, a64::Compiler>::value;
    constexpr bool kBuilder = kCompiler || std::is_same<EM, x86::Builder>::value || std::is_same<EM, a64::Builder>::value;
    Label l = e.new_label();
    if (!l.is_valid()) R->null_result();
    else if (detached) api_defect(*out, "uninitialized-object-accepted-call", "BaseEmitter::new_label", std::string(who) + ": a detached emitter returned a valid label");
    Label nl = e.new_named_label("w9_named");
    if (!nl.is_valid()) R->null_result();
    else if (detached) api_defect(*out, "uninitialized-object-accepted-call", "BaseEmitter::new_named_label", std::string(who) + ": a detached emitter returned a valid label");
    if constexpr (kCompiler) {
      FuncNode* fn = e.add_func(FuncSignature::build<int, int>());
      if (!fn) R->null_result();
      else if (detached) api_defect(*out, "uninitialized-object-accepted-call", "BaseCompiler::add_func", std::string(who) + ": a detached compiler returned a function node");
      if (fn) {
        if constexpr (kX86) { x86::Gp v = e.new_gp32("v"); if (!v.is_valid()) R->null_result(); else { fn->set_arg(0, v); expect_error(detached, e.add(v, 7), "BaseEmitter::emit", who); expect_error(detached, e.ret(v), "BaseEmitter::emit", who); } }
        else { a64::Gp v = e.new_gp32("v"); if (!v.is_valid()) R->null_result(); else { fn->set_arg(0, v); expect_error(detached, e.add(v, v, 7), "BaseEmitter::emit", who); expect_error(detached, e.ret(v), "BaseEmitter::emit", who); } }
        expect_error(detached, e.end_func(), "BaseCompiler::end_func", who);
      }
    }
    else {
      if constexpr (kX86) { expect_error(detached, e.mov(x86::eax, 77), "BaseEmitter::emit", who); if (l.is_valid()) expect_error(detached, e.jmp(l), "BaseEmitter::emit", who); }
      else { expect_error(detached, e.mov(a64::w0, 77), "BaseEmitter::emit", who); if (l.is_valid()) expect_error(detached, e.b(l), "BaseEmitter::emit", who); }
      expect_error(detached, e.align(AlignMode::kCode, 16), "BaseEmitter::align", who);
      if (l.is_valid()) expect_error(detached, e.bind(l), "BaseEmitter::bind", who);
      if constexpr (kX86) expect_error(detached, e.ret(), "BaseEmitter::emit", who);
      else expect_error(detached, e.ret(a64::x30), "BaseEmitter::emit", who);
    }
    static const uint8_t blob[24] = { 9, 8, 7, 6, 5, 4, 3, 2, 1 };
    if (nl.is_valid()) expect_error(detached, e.bind(nl), "BaseEmitter::bind", who);
    expect_error(detached, e.embed(blob, sizeof blob), "BaseEmitter::embed", who);
    expect_error(detached, e.comment("w9"), "BaseEmitter::comment", who);
    if constexpr (kBuilder) expect_error(detached, e.finalize(), "BaseBuilder::finalize", who);
    else R->rec(e.finalize());      // (an assembler has nothing to finalize: kOk also when detached)
  }
  void em_run(int j, bool detached) {
    switch (j) {
      case 0: em_program(*xa, detached, em_name(j)); break; case 1: em_program(*xb, detached, em_name(j)); break; case 2: em_program(*xc, detached, em_name(j)); break;
      case 3: em_program(*aa, detached, em_name(j)); break; case 4: em_program(*ab, detached, em_name(j)); break; default: em_program(*ac, detached, em_name(j)); break;
    }
  }
  // Calls on a CodeHolder that may be empty (init() failed). Only the ones that need no section / label to exist.
  void holder_calls(int j) {
    CodeHolder& C = *code[j]; bool empty = !C.is_initialized();
    const char* who = "CodeHolder";
    if (!empty) return;
    // (new_section / new_label_id do not look at is_initialized() - on a holder that never saw init() either - and are
    //  not called here: what they leave behind would be a caller's mistake, not a matter of the refused request)
    expect_error(true, C.attach(em(j)), "CodeHolder::attach", who);
    expect_error(true, C.reinit(), "CodeHolder::reinit", who);
    R->rec(C.detach(em(j)) == Error::kOk ? Error::kInvalidState : Error::kOk);   // detaching what is not attached: refused
    (void)C.flatten(); (void)C.resolve_cross_section_fixups(); (void)C.code_size();
    uint8_t buf[64]; (void)C.copy_flattened_data(buf, sizeof buf);
  }
  void em_calls(int j) {
    CodeHolder& C = *code[j]; BaseEmitter* E_ = em(j);
    bool detached = !E_->is_initialized();
    if (detached) {
      R->null_result();                       // how a caller learns that the constructor did not attach
      em_run(j, true);                        // every call is refused
      if (R->stopped()) { halt = true; return; }
      holder_calls(j);
      if (R->stopped()) { halt = true; return; }
      // initialise again: the API has a way
      if (!C.is_initialized()) { if (R->rec(C.init(env_of(j)))) { if (R->stopped()) halt = true; return; } }
      if (R->rec(C.attach(E_))) { if (R->stopped()) halt = true; return; }
    }
    Rec before = *R;
    em_run(j, false);
    if (R->stopped()) { halt = true; return; }
    if (R->errs == before.errs && R->nulls == before.nulls && C.is_initialized() && C.section_count()) {
      char tag[16]; snprintf(tag, sizeof tag, "em%d", j);
      out->put(tag, C.text_section()->data(), C.text_section()->buffer_size());
    }
  }

  // ---- the menu ------------------------------------------------------------------------------------------------------------
  void ja_menu(int j, int variant) {
    switch (variant) {
      case 0: break;
      case 1: ja_reset(j, ResetPolicy::kSoft); break;
      case 2: ja_reset(j, ResetPolicy::kHard); break;
      case 3: ja_reset(j, (j & 1) ? ResetPolicy::kHard : ResetPolicy::kSoft); ja_reset(j, (j & 1) ? ResetPolicy::kHard : ResetPolicy::kSoft); break;
      case 4: ja_reset(j, ResetPolicy::kHard); ja_calls(j, false); if (halt) return; ja_reset(j, ResetPolicy::kSoft); break;
      default: ja_calls(j, false); if (halt) return; ja_reset(j, ResetPolicy::kSoft); ja_calls(j, true); if (halt) return; ja_reset(j, ResetPolicy::kHard); ja_reset(j, ResetPolicy::kHard); ja_reset(j, ResetPolicy::kSoft); ja_calls(j, false); break;
    }
  }
  void rt_menu(int j, int variant) {
    switch (variant) {
      case 0: break;
      case 1: rt_reset(j, ResetPolicy::kSoft); break;
      case 2: rt_reset(j, ResetPolicy::kHard); break;
      case 3: rt_reset(j, j ? ResetPolicy::kHard : ResetPolicy::kSoft); rt_reset(j, j ? ResetPolicy::kHard : ResetPolicy::kSoft); break;
      case 4: rt_reset(j, ResetPolicy::kHard); rt_calls(j, 1); if (halt) return; rt_reset(j, ResetPolicy::kSoft); break;
      default: rt_calls(j, 1); if (halt) return; rt_reset(j, ResetPolicy::kSoft); rt_calls(j, 2); if (halt) return; rt_reset(j, ResetPolicy::kHard); rt_reset(j, ResetPolicy::kHard); rt_reset(j, ResetPolicy::kSoft); rt_calls(j, 1); break;
    }
  }
  void em_menu(int j, int variant) {
    CodeHolder& C = *code[j]; BaseEmitter* E_ = em(j);
    switch (variant) {
      case 0: break;
      case 1: C.reset(ResetPolicy::kSoft); break;                    // detaches the emitter
      case 2: C.reset(ResetPolicy::kHard); break;
      case 3: C.reset(ResetPolicy::kSoft); C.reset(ResetPolicy::kSoft); em_run(j, true); break;
      case 4: if (E_->is_initialized()) R->rec(C.detach(E_)); em_run(j, true); C.reset(ResetPolicy::kHard); break;
      default:
        C.reset(ResetPolicy::kHard);
        if (R->rec(C.init(env_of(j)))) break;
        if (R->rec(C.attach(E_))) break;
        em_run(j, false);
        if (R->stopped()) { halt = true; return; }
        if (C.is_initialized()) R->rec(C.reinit());
        C.reset(ResetPolicy::kSoft); C.reset(ResetPolicy::kHard);
        break;
    }
    if (R->stopped()) halt = true;
  }

  void body(Rec& R_, Result& out_) override {
    R = &R_; out = &out_; halt = false; phase1 = F.counting;
    for (Error e : pending) if (R->rec(e) && R->stopped()) { pending.clear(); return; }
    pending.clear();
    // ---- part A -----------------------------------------------------------------------------------------------------
    for (int j = 0; j < kJA; j++) { ja_calls(j, true); if (halt) return; out->num(ja_name(j), held[j].size()); }
    for (int j = 0; j < kRT; j++) { rt_calls(j, 3); if (halt) return; out->num(rt_name(j), rt_held[j].size()); }
    for (int j = 0; j < kEM; j++) { em_calls(j); if (halt) return; }
    // ---- part B -----------------------------------------------------------------------------------------------------
    // (its calls are expected to be refused wherever an object is detached / not initialized: own record, defects only)
    Rng r(case_rng_seed(P.seed) + (phase1 ? 0 : 99));
    Result menu_out; Result* keep = out;
    Rec menu_rec; Rec* keep_rec = R; R = &menu_rec;
    struct Restore { W9* w; Rec* r; Result* o; ~Restore() { w->R = r; w->out = o; } } restore{this, keep_rec, keep};
    bool full = F.mode == M_COUNT;
    for (int j = 0; j < kJA; j++) { ja_menu(j, full ? 5 : int(r.below(6))); if (halt) return; }
    for (int j = 0; j < kRT; j++) { rt_menu(j, full ? 5 : int(r.below(6))); if (halt) return; }
    out = &menu_out;             // (the menu's text sections are not output)
    for (int j = 0; j < kEM; j++) { em_menu(j, full ? 5 : int(r.below(6))); if (halt) break; }
    out = keep; R = keep_rec;
    for (auto& d : menu_out.api_defects) api_defect(*out, d.kind, d.api, d.what);
    halt = false;
    if (phase1) {   // what the menu's calls reported is "reported" (in the retry the refusals of detached objects are expected)
      if (!R->errs && menu_rec.errs) { R->first_err = menu_rec.first_err; R->first_err_call = R->calls + menu_rec.first_err_call; }
      R->calls += menu_rec.calls; R->errs += menu_rec.errs; R->nulls += menu_rec.nulls; R->handler += menu_rec.handler;
    }
  }

  int recover(int strategy, Rec& Rr) override {
    Rng r(case_rng_seed(P.seed) + 7);
    ResetPolicy pol = strategy == 2 ? ResetPolicy::kHard : ResetPolicy::kSoft;
    Result scratch; out = &scratch; R = &Rr;
    for (int j = 0; j < kJA; j++) {
      if (ja[j]->is_initialized()) { ja[j]->reset(pol); held[j].clear(); continue; }
      // there is no way to initialise it again: the caller makes a new one
      switch (F.mode == M_COUNT ? 3 : int(r.below(4))) {
        case 0: break;
        case 1: ja[j]->reset(ResetPolicy::kSoft); break;
        case 2: ja[j]->reset(ResetPolicy::kHard); break;
        default: ja[j]->reset(ResetPolicy::kSoft); ja[j]->reset(ResetPolicy::kHard); break;
      }
      ja[j].reset(); make_ja(j); held[j].clear();
    }
    for (int j = 0; j < kRT; j++) {
      if (rt[j]->allocator().is_initialized()) { rt[j]->reset(pol); rt_held[j].clear(); continue; }
      switch (F.mode == M_COUNT ? 3 : int(r.below(4))) {
        case 0: break;
        case 1: rt[j]->reset(ResetPolicy::kSoft); break;
        case 2: rt[j]->reset(ResetPolicy::kHard); break;
        default: rt[j]->reset(ResetPolicy::kHard); rt[j]->reset(ResetPolicy::kSoft); break;
      }
      rt[j].reset(); make_rt(j); rt_held[j].clear();
    }
    for (int j = 0; j < kEM; j++) {
      code[j]->reset(pol);
      Rr.rec(code[j]->init(env_of(j)));
      Rr.rec(code[j]->attach(em(j)));
    }
    return 0;
  }

  void destroy() override {
    // emitters before or after their holders, allocators in both directions
    xa.reset(); ab.reset(); xc.reset();
    for (int j = 0; j < kEM; j++) code[j].reset();
    xb.reset(); aa.reset(); ac.reset();
    for (int j = 0; j < kJA; j++) ja[j].reset();
    for (int j = kRT - 1; j >= 0; j--) rt[j].reset();
  }
};

// @@WORKLOADS@@

// =========================================================================================================
// Runner
// =========================================================================================================

static Workload* make_workload(const std::string& name);   // registry below

struct Viol { std::string got_image, clean_image; std::string kind, what, api; uint64_t k; int cls; int mode; uintptr_t site[kSiteDepth]; uint64_t count; std::string pattern; };
static std::vector<Viol> g_viol;

static std::string g_wname;
static uintptr_t g_exe_base = 0;

static std::string pattern_str() {
  char b[64]; std::string s;
  if (F.mode == M_SINGLE || F.mode == M_STICKY || F.mode == M_TWIN) { snprintf(b, sizeof b, "%llu", (ull)F.k); return b; }
  for (int i = 0; i < F.npat; i++) { snprintf(b, sizeof b, "%s%llu", i ? "," : "", (ull)F.pat[i]); s += b; }
  return s;
}

static const char* mode_name(int m);
static std::string g_viol_images[2];
static const char* g_viol_api = nullptr;
static bool g_viol_api_is_first_kind = false;   // the api names the FIRST refused call of the case (exact for single-failure cases only)
static void viol(const char* kind, const std::string& what) {
  bool with_images = !g_viol_images[0].empty();
  std::string api = g_viol_api ? g_viol_api : "";
  for (auto& v : g_viol)
    if (!with_images && v.kind == kind && v.cls == F.cls && v.api == api && (!api.empty() || memcmp(v.site, F.first_site, sizeof v.site) == 0)) { v.count++; return; }
  Viol v; v.kind = kind; v.what = what; v.k = F.k; v.cls = F.cls; v.mode = F.mode; v.count = 1; v.pattern = pattern_str(); v.api = api;
  memcpy(v.site, F.first_site, sizeof v.site);
  g_viol.push_back(v);
  // serialize now (a later case may kill this worker); "count" is therefore 1 here, repeats are not re-sent
  std::string o = "{\"kind\":" + jstr(v.kind) + ",\"what\":" + jstr(v.what) + ",\"class\":" + jstr(kClassNames[v.cls]) + ",\"mode\":" + jstr(mode_name(v.mode)) + ",\"pattern\":" + jstr(v.pattern);
  char b[64];
  snprintf(b, sizeof b, ",\"count\":%llu,\"site\":[", (ull)v.count); o += b;
  for (int j = 0; j < kSiteDepth; j++) { snprintf(b, sizeof b, "%s%llu", j ? "," : "", (ull)(v.site[j] ? v.site[j] - g_exe_base : 0)); o += b; }
  o += "]";
  if (!v.api.empty()) o += ",\"api\":" + jstr(v.api);
  if (!v.api.empty() && g_viol_api_is_first_kind) o += ",\"api_first_kind\":1";
  if (!g_viol_images[0].empty() && g_viol_images[0].size() + g_viol_images[1].size() < 60000) o += ",\"got_main\":" + jstr(g_viol_images[0]) + ",\"clean_main\":" + jstr(g_viol_images[1]);
  o += "}";
  if (SH->viol_len + o.size() + 2 < sizeof SH->viol_buf) {
    if (SH->viol_len) SH->viol_buf[SH->viol_len++] = ',';
    memcpy(SH->viol_buf + SH->viol_len, o.data(), o.size()); SH->viol_len += o.size();
  }
}

static std::string first_diff(const std::string& a, const std::string& b) {
  size_t n = std::min(a.size(), b.size()), i = 0;
  while (i < n && a[i] == b[i]) i++;
  size_t from = i > 40 ? i - 40 : 0;
  char h[96]; snprintf(h, sizeof h, "sizes %zu vs %zu, first difference at %zu: ", a.size(), b.size(), i);
  return std::string(h) + "got ..." + a.substr(from, 90) + " / clean ..." + b.substr(from, 90);
}


static Result g_clean;            // phase-1 output of the failure-free run
static Result g_clean_retry[3];   // phase-2 output of the failure-free run, per recover strategy
static uint64_t g_N[CL_N];
static bool g_have_clean = false;
static unsigned g_retry_differs_from_first = 0;   // bit per strategy (informative: reuse residue is property C16's business)

static uint64_t g_case_index = 0;
static void marker(const char* mode, int style, int strategy) {
  char b[200];
  int n = snprintf(b, sizeof b, "@case %s %s %s %s %llu %d %d\n", g_wname.c_str(), F.cls >= 0 ? kClassNames[F.cls] : "-", mode, F.mode == M_COUNT ? "-" : pattern_str().c_str(), (ull)g_case_index, style, strategy);
  if (n > 0) { ssize_t w = write(2, b, size_t(n)); (void)w; }
}

static const char* mode_name(int m) { return m == M_COUNT ? "count" : m == M_SINGLE ? "single" : m == M_STICKY ? "sticky" : m == M_TWIN ? "twin" : "pattern"; }

struct Deferred { Rec R1, Rr, R2, Rf; Result o1, o2, ref; bool has_ref = false; int strategy; int variant; uint64_t fired, k; int mode, npat; uint64_t pat[16]; uintptr_t site[kSiteDepth]; };
static bool g_defer = false;      // cold mode: the armed case runs first, the failure-free reference afterwards
static std::vector<Deferred> g_deferred;

static void judge(const Deferred& d) {
  F.k = d.k; F.mode = d.mode; F.npat = d.npat; memcpy(F.pat, d.pat, sizeof F.pat); memcpy(F.first_site, d.site, sizeof F.first_site);
  const Rec& R1 = d.R1; const Rec& R2 = d.R2; int strategy = d.strategy;
  ST.cases++;
  ST.requests_failed += d.fired;
  if (!d.fired) ST.not_fired++;
  else {
    ST.fired_cases++;
    if (R1.reported()) { ST.reported++; if (R1.first_err < 64) ST.errs_by_code[R1.first_err]++; }
    else ST.tolerated++;
  }
  if (d.has_ref) {
    // continue mode: refused emit calls are expected; anything else that reported exempts the comparison
    if (d.Rf.reported()) viol("harness-reference-run-failed", "the failure-free reference with the refused calls omitted reported an error");
    else if (!R1.reported() && d.o1.main != d.ref.main) {
      g_viol_api = d.o1.ref_api; g_viol_api_is_first_kind = true;
      if (!d.o1.image.empty() && !d.ref.image.empty()) { g_viol_images[0] = d.o1.main; g_viol_images[1] = d.ref.main; }   // (the Python side may accept another spill-slot placement)
      viol("wrong-code-after-refused-call", "the refused calls were skipped, every other call returned kOk, but the output differs from a failure-free run that omits exactly those calls: " + first_diff(d.o1.main, d.ref.main));
      g_viol_api = nullptr; g_viol_api_is_first_kind = false;
      g_viol_images[0].clear(); g_viol_images[1].clear();
    }
    else if (!R1.reported()) ST.continue_ok++;
  }
  else if (!R1.reported() && d.o1.main != g_clean.main)
  {
    if (!d.o1.image.empty()) { g_viol_images[0] = d.o1.main; g_viol_images[1] = g_clean.main; }   // image + label offsets
    viol("silent-wrong-output", "no call reported an error but the output differs from the failure-free run: " + first_diff(d.o1.main, g_clean.main));
    g_viol_images[0].clear(); g_viol_images[1].clear();
  }
  if (R1.has_event) {
    if (R1.first_event_late) ST.first_report_after_the_refusing_call_returned++;
    if (R1.first_event_late && R1.first_event_code != uint32_t(Error::kOutOfMemory) && R1.first_event_code != uint32_t(Error::kOk)) {
      char b[300]; snprintf(b, sizeof b, "every call up to and including the one in which the request was refused returned kOk; %llu recorded call(s) later the caller was told error %u (%s), not kOutOfMemory: "
                            "the refusing call neither reported the failure nor completed its work", (ull)R1.first_event_calls_since_refusal, R1.first_event_code, DebugUtils::error_as_string(Error(R1.first_event_code)));
      viol("failure-not-reported-by-the-failing-call", b);
    }
  }
  if (!d.o1.defects.empty()) { g_viol_api = d.o1.ref_api; g_viol_api_is_first_kind = d.o1.ref_api != nullptr; viol(d.o1.defect_kind, "with the objects still alive: " + d.o1.defects.substr(0, 400)); g_viol_api = nullptr; g_viol_api_is_first_kind = false; }
  if (!d.o2.defects.empty()) viol((std::string(d.o2.defect_kind) + "-in-retry").c_str(), "in the retry with memory available: " + d.o2.defects.substr(0, 400));
  for (auto& x : d.o1.api_defects) { g_viol_api = x.api; viol(x.kind, "with the objects still alive: " + x.what.substr(0, 500)); g_viol_api = nullptr; }
  for (auto& x : d.o2.api_defects) { g_viol_api = x.api; viol((std::string(x.kind) + "-in-retry").c_str(), "in the retry with memory available: " + x.what.substr(0, 500)); g_viol_api = nullptr; }
  if (d.Rr.reported()) viol("recover-failed", "reset/reinit after the failure reported error " + std::to_string(d.Rr.first_err));
  if (R2.reported()) {
    char b[200]; snprintf(b, sizeof b, "retry with memory available (recover strategy %d) reported an error: errs=%u first=%u (call %u) handler=%u nulls=%u", strategy, R2.errs, R2.first_err, R2.first_err_call, R2.handler, R2.nulls);
    viol("retry-error", b);
  }
  else {
    const Result& ref = d.variant == 1 ? g_clean : g_clean_retry[strategy];
    if (d.o2.main != ref.main) viol("retry-differs", "retry with memory available (recover strategy " + std::to_string(strategy) + (d.variant ? ", compared with a first run" : "") + ") produced different output than the same retry after a failure-free run: " + first_diff(d.o2.main, ref.main));
    else if (d.o2.aux != ref.aux) viol("retry-log-differs", "retry produced different log text: " + first_diff(d.o2.aux, ref.aux));
    else ST.retry_ok++;
  }
}

// Runs one case. Returns false when the case is the counting run and it is not self-consistent (harness problem).
static bool run_case(Workload& W, int style_stop, int strategy) {
  marker(mode_name(F.mode), style_stop, strategy);
  Balance b0 = balance_now();
  for (int c = 0; c < CL_N; c++) F.seen[c] = 0;
  F.fired = 0; memset(F.first_site, 0, sizeof F.first_site);
  F.twin_site = nullptr; F.twin_left = 0;
  vm_case_begin();
  g_call_seq = 0; F.last_fired_seq = 0; F.fired_in_ctor = false;
  uint64_t release_checks0 = g_vm_release_checks;
  Rec R1; R1.stop = style_stop != 0;
  Result o1;
  // phase 1
  {
    ApiScope api;
    F.counting = true; F.armed = (F.mode != M_COUNT); F.record_requests = (F.mode == M_COUNT); F.record_ctors = (F.mode == M_COUNT && strategy == 0);
    W.construct();
    W.body(R1, o1);
    F.counting = false; F.armed = false; F.record_requests = false; F.record_ctors = false;
  }
  bool ok = true;
  if (F.mode == M_COUNT) {
    for (int c = 0; c < CL_N; c++) g_N[c] = F.seen[c];
    if (R1.reported()) {
      fprintf(stderr, "HARNESS: failure-free run of %s reported an error (errs=%u first=%u at call %u, handler=%u, nulls=%u)\n",
              g_wname.c_str(), R1.errs, R1.first_err, R1.first_err_call, R1.handler, R1.nulls);
      ok = false;
    }
    if (!o1.defects.empty()) { fprintf(stderr, "HARNESS: failure-free run of %s: %s\n", g_wname.c_str(), o1.defects.c_str()); ok = false; }
    for (auto& x : o1.api_defects) { fprintf(stderr, "HARNESS: failure-free run of %s: %s %s: %s\n", g_wname.c_str(), x.kind, x.api, x.what.c_str()); ok = false; }
    g_clean = o1; g_have_clean = true;
  }
  Rec Rf; Result oref; bool has_ref = false;
  if (F.mode != M_COUNT) { ApiScope api; has_ref = W.reference(Rf, oref); }
  // (armed cases are judged after phase 2)
  // phase 2: same objects, memory available again
  {
    ApiScope api;
    Rec Rr; int variant = W.recover(strategy, Rr);
    Rec R2; Result o2;
    W.body(R2, o2);
    if (F.mode == M_COUNT) {
      g_clean_retry[strategy] = o2;
      if (R2.reported()) {
        fprintf(stderr, "HARNESS: failure-free retry of %s (strategy %d) reported an error: errs=%u first=%u call %u handler=%u nulls=%u\n",
                g_wname.c_str(), strategy, R2.errs, R2.first_err, R2.first_err_call, R2.handler, R2.nulls);
        ok = false;
      }
      for (auto& x : o2.api_defects) { fprintf(stderr, "HARNESS: failure-free retry of %s (strategy %d): %s %s: %s\n", g_wname.c_str(), strategy, x.kind, x.api, x.what.c_str()); ok = false; }
      if (o2.main != g_clean.main || o2.aux != g_clean.aux) g_retry_differs_from_first |= 1u << strategy;
    }
    else {
      Deferred d; d.Rf = Rf; d.ref = oref; d.has_ref = has_ref; d.R1 = R1; d.Rr = Rr; d.R2 = R2; d.o1 = o1; d.o2 = o2; d.strategy = strategy; d.variant = variant; d.fired = F.fired; d.k = F.k; d.mode = F.mode; d.npat = F.npat;
      memcpy(d.pat, F.pat, sizeof d.pat); memcpy(d.site, F.first_site, sizeof d.site);
      if (g_defer) g_deferred.push_back(d); else judge(d);
    }
    // phase 3
    W.destroy();
  }
  if (F.mode != M_COUNT) ST.vm_releases_checked += g_vm_release_checks - release_checks0;
  if (g_vm_defects_len) {
    if (F.mode == M_COUNT) { fprintf(stderr, "HARNESS: failure-free run releases virtual memory / descriptors wrongly: %s\n", g_vm_defects); ok = false; }
    else {
      // keyed by the call chain of the wrong release call (not of the first refused request)
      uintptr_t keep[kSiteDepth]; memcpy(keep, F.first_site, sizeof keep); memcpy(F.first_site, g_vm_defect_site, sizeof keep);
      viol("wrong-release-call", std::string("a mapping / descriptor / name asmjit obtained was released wrongly: ") + g_vm_defects);
      memcpy(F.first_site, keep, sizeof keep);
    }
  }
  Balance b1 = balance_now();
  if (b1.heap != b0.heap || b1.maps != b0.maps || b1.fds != b0.fds || b1.names != b0.names) {
    char b[240]; snprintf(b, sizeof b, "after destroying every object: heap blocks %+lld, mappings %+lld, descriptors %+lld, shm/tmp names %+lld versus before the case",
                          (long long)(b1.heap - b0.heap), (long long)(b1.maps - b0.maps), (long long)(b1.fds - b0.fds), (long long)(b1.names - b0.names));
    if (F.mode == M_COUNT) { fprintf(stderr, "HARNESS: failure-free run leaks: %s\n", b); ok = false; }
    else viol(b1.heap != b0.heap ? "leak-heap" : b1.maps != b0.maps ? "leak-mapping" : b1.fds != b0.fds ? "leak-fd" : "leak-name", b);
    // resynchronise so that one leak is reported once
    g_heap_live = b0.heap; g_map_live = b0.maps; g_fd_live = b0.fds; g_name_live = b0.names;
  }
  return ok;
}

static void emit_json(const Args& args, int cls, int mode, int rc_note) {
  std::string o = "{";
  o += "\"workload\":" + jstr(g_wname) + ",\"class\":" + jstr(cls >= 0 ? kClassNames[cls] : "-") + ",\"mode\":" + jstr(mode_name(mode));
  char b[256];
  snprintf(b, sizeof b, ",\"N\":{\"arena\":%llu,\"heap\":%llu,\"vm\":%llu}", (ull)g_N[0], (ull)g_N[1], (ull)g_N[2]); o += b;
  snprintf(b, sizeof b, ",\"cases\":%llu,\"fired_cases\":%llu,\"reported\":%llu,\"tolerated\":%llu,\"not_fired\":%llu,\"retry_ok\":%llu,\"requests_failed\":%llu,\"continue_ok\":%llu,\"emits_refused\":%llu",
           (ull)ST.cases, (ull)ST.fired_cases, (ull)ST.reported, (ull)ST.tolerated, (ull)ST.not_fired, (ull)ST.retry_ok, (ull)ST.requests_failed, (ull)ST.continue_ok, (ull)ST.emits_refused); o += b;
  snprintf(b, sizeof b, ",\"heap_wrapper_calls\":%llu,\"vm_wrapper_calls\":%llu,\"exe_base\":%llu,\"harness_ok\":%d,\"retry_differs_from_first\":%u,\"workers_killed\":%llu", (ull)g_heap_calls, (ull)g_vm_calls, (ull)g_exe_base, rc_note, g_retry_differs_from_first, (ull)SH->workers_killed); o += b;
  { uint64_t h = fnv1a(g_clean.main.data(), g_clean.main.size()); o += ",\"clean_hash\":" + jstr(hexstr(&h, 8)); }
  snprintf(b, sizeof b, ",\"clean_size\":%zu,\"clean_aux_size\":%zu", g_clean.main.size(), g_clean.aux.size()); o += b;
  o += ",\"errors\":{";
  bool first = true;
  for (int i = 0; i < 64; i++) if (ST.errs_by_code[i]) { snprintf(b, sizeof b, "%s\"%d\":%llu", first ? "" : ",", i, (ull)ST.errs_by_code[i]); o += b; first = false; }
  o += "}";
  if (ST.sm_ops) {
    snprintf(b, sizeof b, ",\"strmodel\":{\"ops\":%llu,\"failed_calls\":%llu,\"checks\":%llu,\"continuations\":%llu,\"ops_after_failure\":%llu,\"ops_in_retry_after_failure\":%llu,\"failed_by_storage\":{\"sso\":%llu,\"heap\":%llu,\"external\":%llu}",
             (ull)ST.sm_ops, (ull)ST.sm_failed_calls, (ull)ST.sm_checks, (ull)ST.sm_continuations, (ull)ST.sm_ops_after_failure, (ull)ST.sm_ops_in_retry_after_failure,
             (ull)ST.sm_failed_by_type[0], (ull)ST.sm_failed_by_type[1], (ull)ST.sm_failed_by_type[2]); o += b;
    for (int pass = 0; pass < 2; pass++) {
      o += pass ? ",\"failed\":{" : ",\"run\":{";
      bool f1 = true;
      for (int r = 0; r < SM_NROWS; r++) for (int q = 0; q < SM_NOPS; q++) {
        uint64_t v = pass ? ST.sm_failed[r][q] : ST.sm_run[r][q];
        if (!v) continue;
        snprintf(b, sizeof b, "%s\"%s/%s\":%llu", f1 ? "" : ",", kSmRowNames[r], kSmOpNames[q], (ull)v); o += b; f1 = false;
      }
      o += "}";
    }
    o += "}";
  }
  snprintf(b, sizeof b, ",\"vm_releases_checked\":%llu,\"reinit_compiler_rounds_after_failure\":%llu,\"first_report_after_the_refusing_call_returned\":%llu,\"hugetlb_mmaps\":%llu,\"static_arena_cases\":%llu,\"static_arena_cases_grown\":%llu", (ull)ST.vm_releases_checked, (ull)ST.reinit_compiler_rounds_after_failure, (ull)ST.first_report_after_the_refusing_call_returned, (ull)ST.hugetlb_mmaps, (ull)ST.static_arena_cases, (ull)ST.static_arena_cases_grown); o += b;
  if (ST.cont_cases_with_refused_call) {
    snprintf(b, sizeof b, ",\"cont\":{\"cases_with_refused_call\":%llu,\"calls_after_refused\":%llu,\"refused_by_kind\":{", (ull)ST.cont_cases_with_refused_call, (ull)ST.cont_calls_after_refused); o += b;
    bool f1 = true;
    for (int i = 0; i < CK_N; i++) if (ST.cont_refused_by_kind[i]) { snprintf(b, sizeof b, "%s\"%s\":%llu", f1 ? "" : ",", kContKindNames[i], (ull)ST.cont_refused_by_kind[i]); o += b; f1 = false; }
    o += "}}";
  }
  if (ST.cp_adds) {
    snprintf(b, sizeof b, ",\"constpool\":{\"adds\":%llu,\"refused\":%llu,\"refused_with_padding_pending\":%llu,\"refused_with_gaps_registered\":%llu,\"adds_after_refused\":%llu,\"retries_of_refused\":%llu,\"checks\":%llu,\"pool_resets\":%llu}",
             (ull)ST.cp_adds, (ull)ST.cp_refused, (ull)ST.cp_refused_with_padding_pending, (ull)ST.cp_refused_with_gaps_registered, (ull)ST.cp_adds_after_refused, (ull)ST.cp_retries_of_refused, (ull)ST.cp_checks, (ull)ST.cp_pool_resets); o += b;
  }
  snprintf(b, sizeof b, ",\"ctor_cases\":[%llu,%llu,%llu],\"ctor_cases_first_request\":[%llu,%llu,%llu]", (ull)ST.ctor_cases[0], (ull)ST.ctor_cases[1], (ull)ST.ctor_cases[2],
           (ull)ST.ctor_cases_first_request[0], (ull)ST.ctor_cases_first_request[1], (ull)ST.ctor_cases_first_request[2]); o += b;
  o += ",\"ctors\":{";
  {
    bool f1 = true;
    for (int i = 0; i < kCtorTab && SH->ctors[i].name[0]; i++) {
      const CtorStat& c = SH->ctors[i];
      snprintf(b, sizeof b, "%s\"%s\":{\"requests\":[%llu,%llu,%llu],\"fired\":[%llu,%llu,%llu],\"fired_first\":[%llu,%llu,%llu]}", f1 ? "" : ",", c.name,
               (ull)c.requests[0], (ull)c.requests[1], (ull)c.requests[2], (ull)c.fired[0], (ull)c.fired[1], (ull)c.fired[2], (ull)c.fired_first[0], (ull)c.fired_first[1], (ull)c.fired_first[2]);
      o += b; f1 = false;
    }
  }
  o += "}";
  o += ",\"violations\":[";
  o.append(SH->viol_buf, SH->viol_len);
  o += "],\"sites\":[";
  first = true;
  for (size_t i = 0; i < kSiteTab; i++) {
    const Site& s = g_sites[i];
    if (!s.used) continue;
    snprintf(b, sizeof b, "%s{\"c\":%d,\"f\":%d,\"n\":%llu,\"k\":%llu,\"pc\":[", first ? "" : ",", int(s.cls), int(s.failed), (ull)s.count, (ull)s.first_k); o += b; first = false;
    for (int j = 0; j < kSiteDepth; j++) { snprintf(b, sizeof b, "%s%llu", j ? "," : "", (ull)(s.pc[j] ? s.pc[j] - g_exe_base : 0)); o += b; }
    o += "]}";
  }
  o += "]}";
  puts(o.c_str());
  fflush(stdout);
  (void)args;
}

static int __attribute__((noinline)) callee_for_jit(int x) { return x * 3 + 1; }

extern "C" void __sanitizer_set_death_callback(void (*)(void));
// A sanitizer is about to kill the process: say which injected failure preceded the report.
static void on_sanitizer_death() {
  char b[256];
  int n = snprintf(b, sizeof b, "@death fired=%llu\n", (ull)F.fired);
  if (n > 0) { ssize_t w = write(2, b, size_t(n)); (void)w; }
}

static void warm_up(bool dual) {
  // process-wide lazily initialised state of asmjit is initialised before any fault is injected (documented assumption)
  (void)CpuInfo::host();
  (void)VirtMem::info();
  (void)VirtMem::hardened_runtime_info();
  (void)VirtMem::large_page_size();
  (void)callee_for_jit(1);
  if (dual) {   // anonymous-memory strategy detection (shm_open vs. TMPDIR) is cached process-wide as well
    VirtMem::DualMapping dm {};
    if (VirtMem::alloc_dual_mapping(Out(dm), 65536, VirtMem::MemoryFlags::kAccessRWX) == Error::kOk) (void)VirtMem::release_dual_mapping(dm, 65536);
  }
}

int main(int argc, char** argv) {
  Args args(argc, argv);
  init_stack_bounds();
  { long ps = sysconf(_SC_PAGESIZE); if (ps > 0) g_page = size_t(ps); }
  g_debug = args.has("debug");
  { Dl_info di; if (dladdr((void*)&main, &di) && di.dli_fbase) g_exe_base = uintptr_t(di.dli_fbase); }
  g_exe_base_early = g_exe_base;
  { void* bt[4]; (void)backtrace(bt, 4); }   // loads libgcc_s now, not inside a wrapper
  SH = static_cast<Shared*>(__real_mmap(nullptr, sizeof(Shared), PROT_READ | PROT_WRITE, MAP_SHARED | MAP_ANONYMOUS, -1, 0));
  if (SH == MAP_FAILED) { fprintf(stderr, "HARNESS: no shared memory\n"); return 3; }
  asmjit_verif_arena_fail_fn = arena_fail_hook;
  __sanitizer_set_death_callback(on_sanitizer_death);
  g_wname = args.str("workload", "W5");
  std::string cls_s = args.str("class", "arena");
  std::string mode_s = args.str("mode", "count");
  int cls = cls_s == "arena" ? CL_ARENA : cls_s == "heap" ? CL_HEAP : cls_s == "vm" ? CL_VM : -1;
  int mode = mode_s == "count" ? M_COUNT : mode_s == "single" ? M_SINGLE : mode_s == "sticky" ? M_STICKY : mode_s == "twin" ? M_TWIN : M_PATTERN;
  uint64_t seed = args.u64("seed", 1);
  F.memfd_enosys = g_wname.find("nomemfd") != std::string::npos;
  g_strip_hugetlb = g_wname.find("large") != std::string::npos && g_wname.find("largefb") == std::string::npos;
  if (!args.has("cold")) warm_up(F.memfd_enosys);

  std::unique_ptr<Workload> W(make_workload(g_wname));
  if (!W) { fprintf(stderr, "HARNESS: unknown workload %s\n", g_wname.c_str()); return 3; }
  W->P.seed = seed;

  F.cls = cls;
  bool cold = args.has("cold");
  if (cold && mode != M_COUNT) {
    // cold mode: ONE armed case runs before anything else has touched asmjit's process-wide lazily initialised state
    g_defer = true;
    F.mode = mode; F.k = args.u64("from", 1);
    run_case(*W, 0, int((F.k + seed) % 3));
  }
  // every process learns N and the failure-free output itself (one run per recover strategy: all must agree)
  F.mode = M_COUNT;
  bool ok = true;
  for (int strategy = 0; strategy < 3; strategy++) {
    Result prev = g_clean; bool had = g_have_clean;
    ok = run_case(*W, 0, strategy) && ok;
    if (had && (prev.main != g_clean.main || prev.aux != g_clean.aux)) { fprintf(stderr, "HARNESS: failure-free output of %s is not deterministic: %s\n", g_wname.c_str(), first_diff(g_clean.main, prev.main).c_str()); ok = false; }
    if (cold && mode == M_COUNT) break;
  }
  if (cold && mode != M_COUNT) {
    if (ok) for (auto& d : g_deferred) judge(d);
    emit_json(args, cls, mode, ok ? 1 : 0);
    return ok ? 0 : 3;
  }
  if (!ok) { emit_json(args, cls, mode, 0); return 3; }
  if (mode == M_COUNT) { emit_json(args, cls, mode, 1); return 0; }
  // request sites of the counting runs are kept (f=0); failing sites are added below (f=1)

  uint64_t N = g_N[cls];
  F.mode = mode;
  struct PatCase { uint64_t pat[16]; int npat, style, strat; };
  std::vector<PatCase> pats;
  uint64_t first = 1, last = 0;
  if (mode == M_SINGLE || mode == M_STICKY || mode == M_TWIN) { first = args.u64("from", 1); last = std::min<uint64_t>(args.u64("to", N), N); }
  else if (args.has("pat")) {   // replay of one explicit pattern
    PatCase pc {}; std::string ps = args.str("pat");
    for (size_t pos = 0; pos < ps.size() && pc.npat < 16; ) { pc.pat[pc.npat++] = strtoull(ps.c_str() + pos, nullptr, 10); size_t c = ps.find(',', pos); if (c == std::string::npos) break; pos = c + 1; }
    pc.style = int(args.u64("stop", 0)); pc.strat = int(args.u64("strategy", 0));
    pats.push_back(pc); first = 0; last = 0;
  }
  else {
    uint64_t ncases = args.u64("cases", 100);
    Rng r(seed * 1000003 + fnv1a(g_wname.data(), g_wname.size()) + uint64_t(cls) * 77);
    for (uint64_t i = 0; i < ncases && N; i++) {
      PatCase pc {};
      int m = int(r.range(2, 6));
      uint64_t at = r.range(1, N);
      for (int j = 0; j < m; j++) {
        pc.pat[pc.npat++] = at;
        // later failures land close behind (error paths are short) or anywhere later
        at += r.chance(1, 2) ? r.range(1, 4) : r.range(1, std::max<uint64_t>(2, N / 3));
      }
      pc.style = int(r.below(2)); pc.strat = int(r.below(3));
      pats.push_back(pc);
    }
    first = args.u64("skip", 0); last = pats.empty() ? 0 : pats.size() - 1;
    if (pats.empty()) first = 1;
  }
  auto one_case = [&](uint64_t i) {
    g_case_index = i;
    if (mode == M_SINGLE || mode == M_STICKY || mode == M_TWIN) {
      F.k = i;
      int style = (mode == M_STICKY) ? int(i & 1) : int(args.u64("stop", 0));
      run_case(*W, style, int((i + seed) % 3));
    }
    else {
      const PatCase& pc = pats[i];
      F.npat = pc.npat; memcpy(F.pat, pc.pat, sizeof F.pat); F.k = F.pat[0];
      run_case(*W, pc.style, pc.strat);
    }
  };
  bool nofork = args.has("nofork");
  for (uint64_t i = first; i <= last && last + 1 > first; ) {
    if (nofork) { for (; i <= last; i++) one_case(i); break; }
    fflush(stdout); fflush(stderr);
    SH->cur = i;
    pid_t pid = fork();
    if (pid < 0) { fprintf(stderr, "HARNESS: fork failed\n"); return 3; }
    if (pid == 0) {
      SH->done = 0;
      for (uint64_t j = i; j <= last; j++) { SH->cur = j; one_case(j); }
      SH->done = 1;
      if (getenv("VERIF_C15_SELFLEAK")) { volatile char* lost = (char*)__real_malloc(123); lost[0] = 1; lost = nullptr; }   // monitor self-test
      exit(0);    // LeakSanitizer runs here for the worker
    }
    int status = 0;
    while (waitpid(pid, &status, 0) < 0 && errno == EINTR) {}
    if (WIFEXITED(status) && WEXITSTATUS(status) == 0) break;
    if (SH->done) {   // every case completed; the exit-time leak check (or an atexit handler) failed
      char b[160]; int n = snprintf(b, sizeof b, "@worker-exit-failed first=%llu last=%llu status=%d signal=%d\n", (ull)i, (ull)last, WIFEXITED(status) ? WEXITSTATUS(status) : -1, WIFSIGNALED(status) ? WTERMSIG(status) : 0);
      if (n > 0) { ssize_t w = write(2, b, size_t(n)); (void)w; }
      break;
    }
    // the worker died in case SH->cur (the sanitizer report is on stderr behind that case's marker)
    SH->workers_killed++;
    char b[160]; int n = snprintf(b, sizeof b, "@worker-died case=%llu status=%d signal=%d\n", (ull)SH->cur, WIFEXITED(status) ? WEXITSTATUS(status) : -1, WIFSIGNALED(status) ? WTERMSIG(status) : 0);
    if (n > 0) { ssize_t w = write(2, b, size_t(n)); (void)w; }
    i = SH->cur + 1;
  }
  emit_json(args, cls, mode, 1);
  return 0;
}

// =========================================================================================================
// Registry
// =========================================================================================================

static Workload* make_workload(const std::string& n) {
  if (n == "W5") return new W5(1024);
  if (n == "W5big") return new W5(32 * 1024);
  if (n == "W5s") return new W5s();
  if (n == "W5sst") return new W5sT<1>();
  if (n == "W5c") return new W5c(1024);
  if (n == "W6") return new W6();
  if (n == "W1x64") return new W1x86<1>();
  if (n == "W1x86") return new W1x86<0>();
  if (n == "W1a64") return new W1a64();
  if (n == "W1r") return new W1r();
  if (n == "W1rst") return new W1r(1024);
  if (n == "W1cst") return new W1c<0, 2048>();
  if (n == "W1c") return new W1c<0>();
  if (n == "W2c") return new W1c<1>();
  if (n == "W3c") return new W3c();
  if (n == "W2fin") return new W2x86<0>();
  if (n == "W2ser") return new W2x86<1>();
  if (n == "W3x64") return new W3<0, 0>();
  if (n == "W3x86") return new W3<1, 0>();
  if (n == "W3a64") return new W3<2, 0>();
  if (n == "W3x64log") return new W3<0, 1>();
  if (n == "W3a64log") return new W3<2, 1>();
  if (n == "W4") return new W4<0>();
  if (n == "W4dual") return new W4<uint32_t(JitAllocatorOptions::kUseDualMapping)>();
  if (n == "W4multi") return new W4<uint32_t(JitAllocatorOptions::kUseMultiplePools | JitAllocatorOptions::kFillUnusedMemory | JitAllocatorOptions::kImmediateRelease)>();
  if (n == "W4dualfill") return new W4<uint32_t(JitAllocatorOptions::kUseDualMapping | JitAllocatorOptions::kFillUnusedMemory | JitAllocatorOptions::kUseMultiplePools)>();
  if (n == "W4nomemfd") return new W4<uint32_t(JitAllocatorOptions::kUseDualMapping)>();
  if (n == "W4large") return new W4<uint32_t(JitAllocatorOptions::kUseLargePages | JitAllocatorOptions::kAlignBlockSizeToLargePage)>();
  if (n == "W4largefill") return new W4<uint32_t(JitAllocatorOptions::kUseLargePages | JitAllocatorOptions::kAlignBlockSizeToLargePage | JitAllocatorOptions::kFillUnusedMemory | JitAllocatorOptions::kImmediateRelease)>();
  if (n == "W4largefb") return new W4<uint32_t(JitAllocatorOptions::kUseLargePages | JitAllocatorOptions::kAlignBlockSizeToLargePage)>();
  if (n == "W4far") return new W4<0, 1>();
  if (n == "W4fardual") return new W4<uint32_t(JitAllocatorOptions::kUseDualMapping | JitAllocatorOptions::kImmediateRelease), 1>();
  if (n == "W7asm") return new W7<0>();
  if (n == "W7bld") return new W7<1>();
  if (n == "W7cc") return new W7<2>();
  if (n == "W8") return new W8();
  if (n == "W9") return new W9();
  // @@REGISTRY@@
  return nullptr;
}
