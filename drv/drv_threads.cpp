// C11 driver: thread-safety of JitAllocator / JitRuntime and independence of private code generation.
//
// Harness code (not part of asmjit). The same source is built in the "tsan" flavour (ThreadSanitizer is the
// oracle for data races; its reports are parsed by vlib/props/c11.py) and in the "asan" flavour (C09-style
// content / overlap / bookkeeping oracle under concurrency, implemented below).
//
// Layout of one run:
//   1. main thread initialises the host information (the property's precondition) and produces, single-threaded,
//      the reference bytes of every (emitter kind, program variant).
//   2. P phases. In each phase n worker threads (2..16) hammer ONE JitAllocator and ONE JitRuntime; a walker
//      thread calls hook H2 on both allocators (it takes the allocator's own lock); m emitter threads generate
//      programs with private CodeHolder/Assembler/Builder/Compiler objects and compare bytes with (1).
//      In the same phase: "private" threads create, use and destroy their OWN JitAllocator / JitRuntime objects (first
//      block creation, dual mapping, destructor's hard reset happen concurrently in unrelated objects); reader threads
//      do nothing but query()/statistics() on pointers taken from lock-free rings (they never touch a harness mutex,
//      so an unlocked write in a mutator path is unordered with them whatever the timing); sentinel threads own plain
//      file descriptors and verify that nobody else closes or replaces them.
//   3. After the joins of every phase the main thread checks the quiescent state: H2, statistics against the
//      union of the live sets, contents of every live span.
//
// Process-wide resources behind the API (there is no shared mutable state "once the host information is initialised"):
// every close() that libasmjit.a issues is routed through __wrap_close (linker option --wrap=close) and must name a
// descriptor that is open and is not owned by a harness thread; in the asan flavour mmap()/munmap() are wrapped the same
// way: AsmJit may only unmap what it mapped, and nothing may stay mapped when every allocator is gone.
#include <asmjit/core.h>
#include <asmjit/x86.h>
#include <asmjit/a64.h>
#include "vcommon.h"

#include <algorithm>
#include <atomic>
#include <mutex>
#include <thread>
#include <errno.h>
#include <fcntl.h>
#include <sched.h>
#include <sys/mman.h>
#include <sys/stat.h>
#include <time.h>
#include <unistd.h>

using namespace asmjit;

extern "C" int asmjit_verif_jitallocator_check(const void* allocator, char* msg, size_t msg_size, size_t* info);

// -- operation kinds -----------------------------------------------------------------------------------------

enum OpKind : uint8_t {
  // object 0: the shared JitAllocator
  O_ALLOC, O_RELEASE, O_SHRINK, O_SHRINK0, O_QUERY, O_QUERY_FOREIGN, O_STATS, O_WRITE, O_WRITE_TRUNC, O_H2,
  // object 1: the shared JitRuntime (and its allocator)
  R_ADD, R_RELEASE, R_QUERY, R_STATS, R_H2,
  OP_COUNT
};
static const char* kOpNames[OP_COUNT] = {
  "alloc", "release", "shrink", "shrink_to_0", "query", "query_foreign", "statistics", "write", "write_trunc", "h2_walk",
  "rt_add", "rt_release", "rt_query", "rt_statistics", "rt_h2_walk"
};
static inline int op_object(int op) { return op >= R_ADD ? 1 : 0; }

struct OpRec { uint64_t t0, t1; uint8_t op; uint8_t tid; };

static inline uint64_t now_ns() {
  timespec ts;
  clock_gettime(CLOCK_MONOTONIC, &ts);
  return uint64_t(ts.tv_sec) * 1000000000ull + uint64_t(ts.tv_nsec);
}

// -- lock acquisition counter (asan flavour only; TSan needs its own interceptor of pthread_mutex_lock) -----------
#if defined(VERIF_COUNT_LOCKS)
#include <dlfcn.h>
#include <pthread.h>
static thread_local int tl_in_asmjit = 0;
static std::atomic<uint64_t> g_lock_acquisitions {0};
typedef int (*mutex_lock_fn)(pthread_mutex_t*);
static std::atomic<mutex_lock_fn> g_real_mutex_lock {nullptr};
extern "C" int pthread_mutex_lock(pthread_mutex_t* m) {
  mutex_lock_fn f = g_real_mutex_lock.load(std::memory_order_relaxed);
  if (!f) { f = (mutex_lock_fn)dlsym(RTLD_NEXT, "pthread_mutex_lock"); g_real_mutex_lock.store(f, std::memory_order_relaxed); }
  if (tl_in_asmjit) g_lock_acquisitions.fetch_add(1, std::memory_order_relaxed);
  return f(m);
}
static std::atomic<int> g_inside {0};      // threads currently inside an allocator / runtime call (relaxed: no ordering implied)
struct InAsmjit { InAsmjit() { tl_in_asmjit++; g_inside.fetch_add(1, std::memory_order_relaxed); } ~InAsmjit() { g_inside.fetch_sub(1, std::memory_order_relaxed); tl_in_asmjit--; } };
#else
static std::atomic<int> g_inside {0};
struct InAsmjit { InAsmjit() { g_inside.fetch_add(1, std::memory_order_relaxed); } ~InAsmjit() { g_inside.fetch_sub(1, std::memory_order_relaxed); } };
#endif

// -- violations ----------------------------------------------------------------------------------------------

struct Violation { std::string key, what; };
static std::mutex g_viol_mutex;
static std::vector<Violation> g_viol;
static std::atomic<bool> g_failed {false};
static std::string g_cfg_desc;

static void fail(const std::string& key, const std::string& what) {
  std::lock_guard<std::mutex> g(g_viol_mutex);
  g_failed.store(true);
  for (auto& v : g_viol) if (v.key == key) return;
  if (g_viol.size() < 40) g_viol.push_back({key, what + " cfg=" + g_cfg_desc});
}

// -- process-wide resources: file descriptors and address space ------------------------------------------------
// Linked with -Wl,--wrap=close (both flavours) and -Wl,--wrap=mmap,--wrap=munmap (asan flavour, VERIF_TRACK_MAPS): all
// references from this file and from libasmjit.a go through the wrappers; the harness calls __real_* for its own needs.

extern "C" int __real_close(int fd);
static std::atomic<bool> g_concurrent {false};         // worker threads are running
static std::atomic<uint64_t> g_closes_seen {0}, g_closes_seen_concurrent {0};
static const int kFdTrack = 8192;
static std::atomic<int> g_fd_owner[kFdTrack];          // descriptors owned by harness sentinel threads: sentinel id + 1

extern "C" int __wrap_close(int fd) {
  g_closes_seen.fetch_add(1, std::memory_order_relaxed);
  if (g_concurrent.load(std::memory_order_relaxed)) {
    g_closes_seen_concurrent.fetch_add(1, std::memory_order_relaxed);
    int saved = errno;
    int fl = fcntl(fd, F_GETFD);
    if (fl == -1 && errno == EBADF) {
      char b[300];
      snprintf(b, sizeof b, "AsmJit called close(%d) while other threads were running, but descriptor %d is not open in this process (already closed: the number can "
               "belong to any other thread by now - another allocator's anonymous memory, an unrelated file)", fd, fd);
      fail("fd-table:close-of-descriptor-not-open", b);
    }
    else if (fd >= 0 && fd < kFdTrack && g_fd_owner[fd].load(std::memory_order_acquire) != 0) {
      char b[200];
      snprintf(b, sizeof b, "AsmJit called close(%d): the descriptor was opened by harness sentinel thread %d and is still in use there", fd, g_fd_owner[fd].load() - 1);
      fail("fd-table:close-of-foreign-descriptor", b);
    }
    errno = saved;
  }
  return __real_close(fd);
}

static std::atomic<uint64_t> g_maps_made {0}, g_unmaps_made {0}, g_map_bytes_now {0};
// Fault injection (both flavours, -Wl,--wrap=mmap): while a thread has tl_refuse_maps set, every mmap() AsmJit issues from
// that thread fails with ENOMEM, exactly as the OS refuses a block it cannot map (address-space limit, overcommit, memfd
// quota). The other threads keep running their normal operations on the same allocator.
static thread_local int tl_refuse_maps = 0;
static std::atomic<uint64_t> g_refused_maps {0}, g_refused_maps_contended {0};
static inline bool refuse_this_map() {
  if (!tl_refuse_maps) return false;
  g_refused_maps.fetch_add(1, std::memory_order_relaxed);
  if (g_inside.load(std::memory_order_relaxed) >= 3) g_refused_maps_contended.fetch_add(1, std::memory_order_relaxed);   // this thread + >= 2 others
  errno = ENOMEM;
  return true;
}
extern "C" void* __real_mmap(void* addr, size_t len, int prot, int flags, int fd, off_t off);
#if !defined(VERIF_TRACK_MAPS)
extern "C" void* __wrap_mmap(void* addr, size_t len, int prot, int flags, int fd, off_t off) {
  if (refuse_this_map()) return MAP_FAILED;
  return __real_mmap(addr, len, prot, flags, fd, off);
}
#endif
#if defined(VERIF_TRACK_MAPS)
extern "C" int __real_munmap(void* addr, size_t len);
static std::mutex g_map_mutex;
static std::map<uintptr_t, size_t> g_maps;              // regions mapped through libasmjit.a and not unmapped yet

extern "C" void* __wrap_mmap(void* addr, size_t len, int prot, int flags, int fd, off_t off) {
  if (refuse_this_map()) return MAP_FAILED;
  void* p = __real_mmap(addr, len, prot, flags, fd, off);
  if (p != MAP_FAILED) {
    std::lock_guard<std::mutex> g(g_map_mutex);
    g_maps[(uintptr_t)p] = len;
    g_maps_made.fetch_add(1, std::memory_order_relaxed);
    g_map_bytes_now.fetch_add(len, std::memory_order_relaxed);
  }
  return p;
}

extern "C" int __wrap_munmap(void* addr, size_t len) {
  bool owned = false;
  {
    std::lock_guard<std::mutex> g(g_map_mutex);          // forget the region BEFORE it can be handed to another thread
    uintptr_t a = (uintptr_t)addr;
    auto it = g_maps.upper_bound(a);
    if (it != g_maps.begin()) {
      --it;
      uintptr_t lo = it->first, hi = lo + it->second;
      if (a >= lo && a + len <= hi && len) {
        owned = true;
        g_maps.erase(it);
        if (lo < a) g_maps[lo] = a - lo;
        if (a + len < hi) g_maps[a + len] = hi - (a + len);
        g_map_bytes_now.fetch_sub(len, std::memory_order_relaxed);
      }
    }
  }
  g_unmaps_made.fetch_add(1, std::memory_order_relaxed);
  if (!owned) {
    char b[240];
    snprintf(b, sizeof b, "AsmJit called munmap(%p, %zu) but no mapping it created (and has not unmapped yet) covers that range: the memory can belong to any other thread", addr, len);
    fail("address-space:unmap-of-memory-not-mapped-by-asmjit", b);
  }
  return __real_munmap(addr, len);
}
#endif

// -- global interval set (API-boundary monitor) --------------------------------------------------------------
// Updated AFTER alloc/add returned and BEFORE release is called, and lowered to the guaranteed remainder BEFORE a
// shrink is called, so that at every moment every registered interval is memory the allocator has promised to
// its owner: two registered intervals that intersect are an overlap the allocator produced.

// In the tsan flavour the set is compiled out: its mutex would order every pair of worker operations (happens-before
// through the harness), and ThreadSanitizer would then only see races that overlap within one operation.
#if defined(__SANITIZE_THREAD__)
struct Intervals {
  std::map<uintptr_t, std::pair<uintptr_t, int>> s;
  uint64_t checks = 0;
  int add(uintptr_t, uintptr_t, int, uintptr_t*, uintptr_t*) { return -1; }
  void remove(uintptr_t) {}
  void lower(uintptr_t, uintptr_t) {}
  int raise(uintptr_t, uintptr_t, int, uintptr_t*, uintptr_t*) { return -1; }
  void set_owner(uintptr_t, int) {}
};
#else
struct Intervals {
  std::mutex m;
  std::map<uintptr_t, std::pair<uintptr_t, int>> s;   // start -> (end, owner tid)
  uint64_t checks = 0;

  // returns -1 when inserted, otherwise the tid of an owner of intersecting memory (nothing inserted)
  int add(uintptr_t lo, uintptr_t hi, int tid, uintptr_t* olo, uintptr_t* ohi) {
    std::lock_guard<std::mutex> g(m);
    checks++;
    auto it = s.upper_bound(lo);
    if (it != s.begin()) {
      auto pr = std::prev(it);
      if (pr->second.first > lo) { *olo = pr->first; *ohi = pr->second.first; return pr->second.second; }
    }
    if (it != s.end() && it->first < hi) { *olo = it->first; *ohi = it->second.first; return it->second.second; }
    s[lo] = std::make_pair(hi, tid);
    return -1;
  }
  void remove(uintptr_t lo) {
    std::lock_guard<std::mutex> g(m);
    s.erase(lo);
  }
  // lower the end of an interval (before shrink)
  void lower(uintptr_t lo, uintptr_t new_hi) {
    std::lock_guard<std::mutex> g(m);
    auto it = s.find(lo);
    if (it != s.end()) it->second.first = new_hi;
  }
  // raise the end of an interval to what shrink left; returns owner tid of an intersecting interval or -1
  int raise(uintptr_t lo, uintptr_t new_hi, int tid, uintptr_t* olo, uintptr_t* ohi) {
    std::lock_guard<std::mutex> g(m);
    checks++;
    auto it = s.find(lo);
    if (it == s.end()) return -1;
    auto nx = std::next(it);
    if (nx != s.end() && nx->first < new_hi) { *olo = nx->first; *ohi = nx->second.first; return nx->second.second; }
    it->second = std::make_pair(new_hi, tid);
    return -1;
  }
  void set_owner(uintptr_t lo, int tid) {
    std::lock_guard<std::mutex> g(m);
    auto it = s.find(lo);
    if (it != s.end()) it->second.second = tid;
  }
};
#endif

static Intervals g_rx, g_rw;

// -- configuration -------------------------------------------------------------------------------------------

struct Config {
  uint32_t options = 0, granularity = 0, block_size = 0;
  uint32_t rt_options = 0;
  uint32_t fill_pattern = 0;      // used with kCustomFillPattern (0x10000000) in `options`
  int profile = 0;
  int noise = 2;
  uint64_t seed = 1;
  size_t max_live = 24, max_fn = 8;
};

struct Shared {
  Config cfg;
  JitAllocator* alloc = nullptr;
  JitRuntime* rt = nullptr;
  uint32_t gran = 64;
  uint32_t rt_gran = 64;
  bool fill = false, dual = false, rt_dual = false;
  uint32_t pattern = 0;           // the pattern that was REQUESTED (custom) or that a default allocator reports
  uint32_t block_size = 0;
  size_t pools = 1, rt_pools = 1;
  bool imm = false, rt_imm = false;
  void* anchor = nullptr;         // a function in the runtime's memory that is never released (near target for calls)
  uint32_t default_pattern = 0;   // what a default-constructed allocator reports
  uint64_t doomed_every = 0;      // 1 operation in n is preceded by a request whose block mapping is refused (0 = never)
};

static Shared S;

// -- owned memory --------------------------------------------------------------------------------------------

struct Owned {
  JitAllocator::Span span;
  uint64_t id = 0;
  std::vector<uint8_t> shadow;
};

struct OwnedFn {
  void* fn = nullptr;
  uintptr_t rx = 0, rw = 0;
  size_t span_size = 0;
  uint32_t value = 0;
  std::vector<uint8_t> code;
};

static std::mutex g_exchange_mutex;
static std::vector<Owned> g_exchange;

// recently released addresses, shared (for query_foreign); plain atomics, harness only
static std::atomic<uintptr_t> g_recent[64];
// recently allocated spans / runtime functions, published by their owners with relaxed stores and read by the reader
// threads (no harness mutex anywhere on that path)
static std::atomic<uintptr_t> g_pub[64], g_pub_fn[32];

static void stamp(std::vector<uint8_t>& buf, uint64_t id) {
  uint64_t x = id * 0x9E3779B97F4A7C15ull + 0xC11;
  size_t n = buf.size(), i = 0;
  for (; i + 8 <= n; i += 8) {
    x ^= x << 13; x ^= x >> 7; x ^= x << 17;
    memcpy(&buf[i], &x, 8);
  }
  for (; i < n; i++) { x ^= x << 13; x ^= x >> 7; x ^= x << 17; buf[i] = uint8_t(x >> 24); }
}

struct Counters {
  uint64_t ops[OP_COUNT] {};
  uint64_t bytes_verified = 0, fill_checked = 0, fn_calls = 0, exchanged = 0, yields = 0, sleeps = 0;
  uint64_t emit[12] {};
  uint64_t emit_log_compared = 0;
  uint64_t rt_near_call_adds = 0, rt_real_shrinks = 0;
  uint64_t doomed_allocs = 0, doomed_refused = 0, doomed_served = 0, doomed_adds = 0;
  uint64_t emit_validated = 0, emit_api_probes = 0, emit_with_features = 0, emit_multi_section = 0, emit_const_pool = 0, emit_jump_table = 0;
};

// -- worker --------------------------------------------------------------------------------------------------

struct Worker {
  int tid = 0;
  Rng r;
  std::vector<Owned> live;
  std::vector<OwnedFn> fns;
  std::vector<OpRec> log;
  Counters c;
  uint64_t next_id = 1;
  size_t live_bytes = 0;
  uintptr_t last_released = 0;

  explicit Worker(int t, uint64_t seed) : tid(t), r(seed) {}

  void rec(int op, uint64_t t0, uint64_t t1) {
    log.push_back({t0, t1, uint8_t(op), uint8_t(tid)});
    c.ops[op]++;
  }

  void noise() {
    int lvl = S.cfg.noise;
    if (lvl <= 0) return;
    uint64_t x = r.below(256);
    if (x < uint64_t(24 * lvl)) { sched_yield(); c.yields++; }
    else if (x < uint64_t(24 * lvl + 2 * lvl)) {
      timespec ts { 0, long(1000 + r.below(60000)) };
      nanosleep(&ts, nullptr);
      c.sleeps++;
    }
  }

  std::string who(const char* op) const { return std::string(op) + " by worker " + std::to_string(tid); }

  void verify(Owned& o, const char* when) {
    size_t n = o.span.size();
    if (n && memcmp(o.span.rx(), o.shadow.data(), n) != 0) {
      const uint8_t* p = (const uint8_t*)o.span.rx();
      size_t i = 0;
      while (p[i] == o.shadow[i]) i++;
      char b[260];
      snprintf(b, sizeof b, "span (owner stamp %llx, size %zu, rx=%p) lost its contents at offset %zu (%s): got %02x want %02x; seen by worker %d",
               (unsigned long long)o.id, n, o.span.rx(), i, when, p[i], o.shadow[i], tid);
      fail(std::string("contents-lost:") + when, b);
    }
    c.bytes_verified += n;
  }

  size_t pick_size() {
    uint32_t g = S.gran, bs = S.block_size;
    switch (S.cfg.profile) {
      case 1:  // tiny, maximal contention on few classes
        return size_t(g) * (1 + r.below(3));
      case 2:  // shrink heavy: medium sizes
        return r.chance(1, 2) ? size_t(g) * (2 + r.below(30)) : 1 + r.below(8000);
      default: break;
    }
    switch (r.below(12)) {
      case 0: case 1: case 2: return g;
      case 3: case 4: return size_t(g) * 2;
      case 5: return size_t(g) * 3 - 1;
      case 6: return 1024;
      case 7: return 4096 + 1;
      case 8: return 16384;
      case 9: return bs / 4;
      case 10: return r.chance(1, 4) ? bs / 2 + g : 512;
      default: return r.chance(1, 8) ? size_t(bs) + 1 : 1 + r.below(300);
    }
  }

  bool register_span(const JitAllocator::Span& s, const char* op) {
    uintptr_t lo, hi;
    int o = g_rx.add((uintptr_t)s.rx(), (uintptr_t)s.rx() + s.size(), tid, &lo, &hi);
    if (o >= 0) {
      char b[300];
      snprintf(b, sizeof b, "%s returned rx [%p,+%zu) to worker %d while [%p,%p) is still owned by worker %d (both live at the API boundary)",
               op, s.rx(), s.size(), tid, (void*)lo, (void*)hi, o);
      fail(std::string("concurrent-overlap-rx:") + op, b);
      return false;
    }
    if (s.rw() != s.rx()) {
      o = g_rw.add((uintptr_t)s.rw(), (uintptr_t)s.rw() + s.size(), tid, &lo, &hi);
      if (o >= 0) {
        char b[300];
        snprintf(b, sizeof b, "%s returned rw [%p,+%zu) to worker %d while [%p,%p) is still owned by worker %d", op, s.rw(), s.size(), tid, (void*)lo, (void*)hi, o);
        fail(std::string("concurrent-overlap-rw:") + op, b);
        g_rx.remove((uintptr_t)s.rx());
        return false;
      }
    }
    return true;
  }
  void unregister_span(const JitAllocator::Span& s) {
    g_rx.remove((uintptr_t)s.rx());
    if (s.rw() != s.rx()) g_rw.remove((uintptr_t)s.rw());
  }

  // ---- allocator operations
  void do_alloc() {
    size_t size = pick_size();
    JitAllocator::Span s;
    uint64_t t0 = now_ns();
    Error e;
    { InAsmjit ia; e = S.alloc->alloc(Out(s), size); }
    uint64_t t1 = now_ns();
    rec(O_ALLOC, t0, t1);
    char b[300];
    if (e != Error::kOk) { fail("alloc-failed", who("alloc") + " of " + std::to_string(size) + " bytes failed with error " + std::to_string((int)e)); return; }
    if (!s.rx() || !s.rw()) { fail("alloc-null", who("alloc") + " returned a null pointer"); return; }
    if ((uintptr_t)s.rx() % S.gran || (uintptr_t)s.rw() % S.gran) {
      snprintf(b, sizeof b, "alloc(%zu) returned rx=%p rw=%p not aligned to granularity %u", size, s.rx(), s.rw(), S.gran);
      fail("alloc-misaligned", b);
    }
    if (s.size() < size || s.size() % S.gran) {
      snprintf(b, sizeof b, "alloc(%zu) returned a span of %zu bytes (granularity %u)", size, s.size(), S.gran);
      fail("alloc-bad-size", b);
      if (s.size() < size) return;
    }
    if (S.dual == (s.rx() == s.rw())) fail("dual-mapping-mismatch", "rx/rw aliasing does not match the dual mapping option");
    if (!register_span(s, "alloc")) return;   // do not touch memory somebody else owns
    if (S.fill) {
      const uint8_t* p = (const uint8_t*)s.rx();
      uint8_t pat[4]; memcpy(pat, &S.pattern, 4);
      for (size_t i = 0; i < s.size(); i++) {
        if (p[i] != pat[((uintptr_t)p + i) & 3]) {
          snprintf(b, sizeof b, "fill enabled, but freshly allocated span [%p,+%zu) holds %02x at offset %zu (pattern %08x)", s.rx(), s.size(), p[i], i, S.pattern);
          fail("fill-pattern-missing", b);
          break;
        }
      }
      c.fill_checked++;
    }
    Owned o;
    o.span = s;
    o.id = (uint64_t(tid + 1) << 40) | next_id++;
    o.shadow.resize(s.size());
    stamp(o.shadow, o.id);
    memcpy(s.rw(), o.shadow.data(), s.size());        // owner stamp over the full size, through the rw view
    live_bytes += s.size();
    live.push_back(std::move(o));
    verify(live.back(), "after-stamp");
    g_pub[r.below(64)].store((uintptr_t)s.rx(), std::memory_order_relaxed);
  }

  // A request that needs a new block while the OS refuses to map one (fault injected into this thread's mmap calls): the call
  // must fail cleanly - error, empty span - with the other threads in the middle of their operations on the same allocator,
  // and the allocator must stay usable (everything that follows in this run checks that).
  Rng r2 {0};
  void do_doomed_alloc() {
    uint64_t refused_before = g_refused_maps.load(std::memory_order_relaxed);
    bool on_rt = S.anchor && r2.chance(1, 4);
    if (on_rt) {
      // JitRuntime::add of a function bigger than anything a block of the runtime's allocator has free
      CodeHolder code;
      code.init(S.rt->environment(), S.rt->cpu_features());
      x86::Assembler a(&code);
      a.mov(x86::eax, 7);
      a.ret();
      std::vector<uint8_t> big(size_t(S.cfg.block_size) * 40 + 4096, 0xCC);
      a.embed(big.data(), big.size());
      void* fn = nullptr;
      uint64_t t0 = now_ns();
      Error e;
      tl_refuse_maps = 1;
      { InAsmjit ia; e = S.rt->add(&fn, &code); }
      tl_refuse_maps = 0;
      uint64_t t1 = now_ns();
      rec(R_ADD, t0, t1);
      c.doomed_adds++;
      bool refused = g_refused_maps.load(std::memory_order_relaxed) > refused_before;
      if (e == Error::kOk && fn) { c.doomed_served++; if (S.rt->_release(fn) != Error::kOk) fail("rt-release-failed", "release of a big function failed"); return; }
      if (refused) c.doomed_refused++;
      if (e == Error::kOk || fn) fail("refused-block:add-reports-success", who("JitRuntime::add") + " returned Ok/non-null although the block mapping was refused");
      return;
    }
    size_t size = size_t(S.block_size) * (40 + r2.below(24)) + S.gran * r2.below(8);     // bigger than any free run the workload leaves
    JitAllocator::Span s;
    uint64_t t0 = now_ns();
    Error e;
    tl_refuse_maps = 1;
    { InAsmjit ia; e = S.alloc->alloc(Out(s), size); }
    tl_refuse_maps = 0;
    uint64_t t1 = now_ns();
    rec(O_ALLOC, t0, t1);
    c.doomed_allocs++;
    bool refused = g_refused_maps.load(std::memory_order_relaxed) > refused_before;
    if (e == Error::kOk) {
      // served from memory that was already mapped: an ordinary span
      c.doomed_served++;
      if (!s.rx() || s.size() < size) { fail("alloc-bad-size", who("alloc") + " of a large span returned a short span"); return; }
      Error er;
      { InAsmjit ia; er = S.alloc->release(s.rx()); }
      if (er != Error::kOk) fail("release-failed", who("release") + " of a large span failed");
      return;
    }
    if (refused) c.doomed_refused++;
    if (s.rx() || s.rw() || s.size()) {
      char b[200];
      snprintf(b, sizeof b, "alloc(%zu) failed with error %d (the block mapping was refused) but left rx=%p size=%zu in the span", size, int(e), s.rx(), s.size());
      fail("refused-block:span-not-empty", b);
    }
  }

  void drop(size_t i) {
    live_bytes -= live[i].span.size();
    if (i + 1 != live.size()) std::swap(live[i], live.back());
    live.pop_back();
  }

  void remember_released(uintptr_t p) {
    last_released = p;
    g_recent[r.below(64)].store(p, std::memory_order_relaxed);
  }

  void do_release(size_t i) {
    Owned& o = live[i];
    verify(o, "before-release");
    unregister_span(o.span);
    void* rx = o.span.rx();
    uint64_t t0 = now_ns();
    Error e;
    { InAsmjit ia; e = S.alloc->release(rx); }
    uint64_t t1 = now_ns();
    rec(O_RELEASE, t0, t1);
    if (e != Error::kOk) fail("release-failed", who("release") + " of a live span failed with error " + std::to_string((int)e));
    remember_released((uintptr_t)rx);
    drop(i);
  }

  void do_shrink(size_t i) {
    Owned& o = live[i];
    size_t old = o.span.size();
    if (r.chance(1, 8)) {
      verify(o, "before-shrink0");
      unregister_span(o.span);
      JitAllocator::Span s = o.span;
      uintptr_t rx = (uintptr_t)s.rx();
      uint64_t t0 = now_ns();
      Error e;
      { InAsmjit ia; e = S.alloc->shrink(s, 0); }
      uint64_t t1 = now_ns();
      rec(O_SHRINK0, t0, t1);
      if (e != Error::kOk) fail("shrink0-failed", who("shrink(span,0)") + " failed with error " + std::to_string((int)e));
      if (s.rx() != nullptr) fail("shrink0-span-not-cleared", "shrink(span,0) did not clear the span");
      remember_released(rx);
      drop(i);
      return;
    }
    size_t new_size = 1 + r.below(old);
    JitAllocator::Span s = o.span;
    g_rx.lower((uintptr_t)s.rx(), (uintptr_t)s.rx() + new_size);
    if (s.rw() != s.rx()) g_rw.lower((uintptr_t)s.rw(), (uintptr_t)s.rw() + new_size);
    uint64_t t0 = now_ns();
    Error e;
    { InAsmjit ia; e = S.alloc->shrink(s, new_size); }
    uint64_t t1 = now_ns();
    rec(O_SHRINK, t0, t1);
    after_shrink(i, s, e, old, new_size, "shrink");
  }

  void after_shrink(size_t i, JitAllocator::Span& s, Error e, size_t old, size_t new_size, const char* op) {
    Owned& o = live[i];
    char b[300];
    if (e != Error::kOk) {
      snprintf(b, sizeof b, "%s(%zu->%zu) of a live span failed with error %d (worker %d)", op, old, new_size, (int)e, tid);
      fail(std::string(op) + "-failed", b);
      // the span is in an unknown state: forget it without touching it again
      unregister_span(o.span);
      drop(i);
      return;
    }
    if (s.rx() != o.span.rx() || s.rw() != o.span.rw() || s.size() < new_size || s.size() > old || s.size() % S.gran) {
      snprintf(b, sizeof b, "%s(%zu->%zu) left the span as rx=%p rw=%p size=%zu (was rx=%p rw=%p)", op, old, new_size, s.rx(), s.rw(), s.size(), o.span.rx(), o.span.rw());
      fail(std::string(op) + "-bad-span", b);
      unregister_span(o.span);
      drop(i);
      return;
    }
    uintptr_t lo, hi;
    int ow = g_rx.raise((uintptr_t)s.rx(), (uintptr_t)s.rx() + s.size(), tid, &lo, &hi);
    if (ow >= 0) {
      snprintf(b, sizeof b, "%s(%zu->%zu) kept [%p,+%zu) for worker %d but [%p,%p) was handed to worker %d meanwhile", op, old, new_size, s.rx(), s.size(), tid, (void*)lo, (void*)hi, ow);
      fail(std::string("concurrent-overlap-rx:") + op, b);
      unregister_span(o.span);
      drop(i);
      return;
    }
    if (s.rw() != s.rx()) g_rw.raise((uintptr_t)s.rw(), (uintptr_t)s.rw() + s.size(), tid, &lo, &hi);
    if (s.size() < old) remember_released((uintptr_t)s.rx() + s.size());
    live_bytes -= old - s.size();
    o.span = s;
    o.shadow.resize(s.size());
    verify(o, op[0] == 's' ? "after-shrink" : "after-write-trunc");
  }

  void do_write_trunc(size_t i) {
    Owned& o = live[i];
    size_t old = o.span.size();
    size_t new_size = 1 + r.below(old);
    struct Ctx { size_t n; uint8_t v; } ctx { new_size, uint8_t(o.id * 7 + next_id++) };
    JitAllocator::Span s = o.span;
    g_rx.lower((uintptr_t)s.rx(), (uintptr_t)s.rx() + new_size);
    if (s.rw() != s.rx()) g_rw.lower((uintptr_t)s.rw(), (uintptr_t)s.rw() + new_size);
    uint64_t t0 = now_ns();
    Error e;
    {
      InAsmjit ia;
      e = S.alloc->write(s, [&](JitAllocator::Span& sp) noexcept -> Error {
        memset(sp.rw(), ctx.v, ctx.n);
        sp.shrink(ctx.n);
        return Error::kOk;
      });
    }
    uint64_t t1 = now_ns();
    rec(O_WRITE_TRUNC, t0, t1);
    memset(o.shadow.data(), ctx.v, new_size);
    after_shrink(i, s, e, old, new_size, "write-trunc");
  }

  void do_write(size_t i) {
    Owned& o = live[i];
    size_t n_all = o.span.size();
    size_t off = r.below(n_all);
    size_t n = 1 + r.below(std::min<size_t>(n_all - off, 2048));
    std::vector<uint8_t> data(n);
    uint64_t x = r.next();
    for (auto& d : data) { x ^= x << 13; x ^= x >> 7; x ^= x << 17; d = uint8_t(x >> 32); }
    uint64_t t0 = now_ns();
    Error e;
    { InAsmjit ia; e = S.alloc->write(o.span, off, data.data(), n); }
    uint64_t t1 = now_ns();
    rec(O_WRITE, t0, t1);
    if (e != Error::kOk) { fail("write-failed", who("write") + " inside a live span failed"); return; }
    memcpy(o.shadow.data() + off, data.data(), n);
    verify(o, "after-write");
  }

  void do_query(size_t i) {
    Owned& o = live[i];
    JitAllocator::Span q;
    uint64_t t0 = now_ns();
    Error e;
    { InAsmjit ia; e = S.alloc->query(Out(q), o.span.rx()); }
    uint64_t t1 = now_ns();
    rec(O_QUERY, t0, t1);
    char b[300];
    if (e != Error::kOk) { fail("query-live-failed", who("query") + " of a span that is live for the whole call failed with error " + std::to_string((int)e)); return; }
    if (q.rx() != o.span.rx() || q.rw() != o.span.rw() || q.size() != o.span.size()) {
      snprintf(b, sizeof b, "query(%p) returned rx=%p rw=%p size=%zu, the live span is rx=%p rw=%p size=%zu (worker %d)", o.span.rx(), q.rx(), q.rw(), q.size(), o.span.rx(), o.span.rw(), o.span.size(), tid);
      fail("query-mismatch", b);
    }
    if (o.span.size() > S.gran * 2u && r.chance(1, 3)) {
      uintptr_t rx = (uintptr_t)o.span.rx();
      uintptr_t ip = rx + S.gran * (1 + r.below(o.span.size() / S.gran - 1));
      JitAllocator::Span qi;
      uint64_t u0 = now_ns();
      Error ei;
      { InAsmjit ia; ei = S.alloc->query(Out(qi), (void*)ip); }
      uint64_t u1 = now_ns();
      rec(O_QUERY, u0, u1);
      if (ei == Error::kOk) {
        uintptr_t qs = (uintptr_t)qi.rx();
        if (qs < rx || qs + qi.size() > rx + o.span.size())
          fail("query-interior-escapes", "query of an interior pointer of a live span returned memory outside the span");
      }
    }
  }

  // Pointer that nobody is guaranteed to own: any answer is acceptable, but an OK answer must be self-consistent.
  void do_query_foreign() {
    uintptr_t p = r.chance(1, 2) ? last_released : g_recent[r.below(64)].load(std::memory_order_relaxed);
    if (!p) p = 0x1000;
    if (r.chance(1, 4)) p += S.gran * r.below(8);
    JitAllocator::Span q;
    uint64_t t0 = now_ns();
    Error e;
    { InAsmjit ia; e = S.alloc->query(Out(q), (void*)p); }
    uint64_t t1 = now_ns();
    rec(O_QUERY_FOREIGN, t0, t1);
    if (e == Error::kOk) {
      uintptr_t qs = (uintptr_t)q.rx();
      if (!(qs <= p && p < qs + q.size()) || q.size() % S.gran || q.size() > 0x80000000ull) {
        char b[200];
        snprintf(b, sizeof b, "query(%p) succeeded with rx=%p size=%zu, which does not contain the queried address", (void*)p, q.rx(), q.size());
        fail("query-inconsistent-answer", b);
      }
    }
  }

  void do_stats() {
    size_t my_count = live.size(), my_bytes = live_bytes;
    uint64_t t0 = now_ns();
    JitAllocator::Statistics st;
    { InAsmjit ia; st = S.alloc->statistics(); }
    uint64_t t1 = now_ns();
    rec(O_STATS, t0, t1);
    char b[300];
    // The caller's own spans are live during the whole call, so every linearisation point counts them.
    if (st.allocation_count() < my_count || st.used_size() < my_bytes || st.reserved_size() < st.used_size() ||
        (my_count && st.block_count() == 0) || st.allocation_count() > (size_t(1) << 40)) {
      snprintf(b, sizeof b, "statistics(): allocations=%zu used=%zu reserved=%zu blocks=%zu while worker %d alone holds %zu spans / %zu bytes", st.allocation_count(), st.used_size(), st.reserved_size(), st.block_count(), tid, my_count, my_bytes);
      fail("stats-below-own-live-set", b);
    }
  }

  // ---- runtime operations
  void rt_add() {
    CodeHolder code;
    code.init(S.rt->environment(), S.rt->cpu_features());
    x86::Assembler a(&code);
    uint32_t value = uint32_t(r.next()) | 1u;
    a.mov(x86::eax, value);
    a.ret();
    // 1 program in 3 carries (dead) calls/jumps to an absolute address inside the runtime's own memory: add() reserves an
    // address-table slot for each, relocation finds the target within +-2 GiB and drops the slots, so that add() really
    // shrinks the span it allocated by one or more granules while other threads allocate/query/release next to it.
    size_t near_calls = 0;
    if (S.anchor && r.chance(1, 3)) {
      near_calls = 9 + r.below(40);
      // (one slot per DISTINCT target address: every call gets its own)
      for (size_t i = 0; i < near_calls; i++) {
        uint64_t target = uint64_t(uintptr_t(S.anchor)) + 16 * i;
        if (r.chance(1, 2)) a.call(Imm(target)); else a.jmp(Imm(target));
      }
    }
    size_t pad = r.below(4) == 0 ? r.below(700) : r.below(40);
    std::vector<uint8_t> padding(pad);
    for (size_t i = 0; i < pad; i++) padding[i] = uint8_t(value >> ((i & 3) * 8)) ^ uint8_t(i);
    if (pad) a.embed(padding.data(), pad);
    typedef uint32_t (*Fn)();
    Fn fn = nullptr;
    uint64_t t0 = now_ns();
    Error e;
    { InAsmjit ia; e = S.rt->add(&fn, &code); }
    uint64_t t1 = now_ns();
    rec(R_ADD, t0, t1);
    if (e != Error::kOk || !fn) { fail("rt-add-failed", who("JitRuntime::add") + " failed with error " + std::to_string((int)e)); return; }
    size_t n = code.code_size();
    OwnedFn f;
    f.fn = (void*)fn;
    f.value = value;
    f.code.assign(code.text_section()->data(), code.text_section()->data() + code.text_section()->buffer_size());
    if (f.code.size() > n || (!near_calls && f.code.size() != n)) { fail("harness:rt-code-size", "text size does not fit the code size in the runtime test function"); return; }
    // size of the span comes from the allocator itself
    JitAllocator::Span q;
    uint64_t u0 = now_ns();
    Error eq;
    { InAsmjit ia; eq = S.rt->allocator().query(Out(q), (void*)fn); }
    uint64_t u1 = now_ns();
    rec(R_QUERY, u0, u1);
    char b[300];
    if (eq != Error::kOk || q.rx() != (void*)fn || q.size() < n || q.size() % S.rt_gran || q.size() - n >= S.rt_gran * 4u) {
      snprintf(b, sizeof b, "query(%p) of a function just added (code size %zu, %zu near calls) gave error=%d rx=%p size=%zu", (void*)fn, n, near_calls, (int)eq, q.rx(), q.size());
      fail("rt-query-mismatch", b);
      if (eq != Error::kOk || q.rx() != (void*)fn || q.size() < n) { S.rt->release(fn); return; }
    }
    if (near_calls) {
      c.rt_near_call_adds++;
      // what add() had to allocate before it knew that the targets are near: text + one 8-byte slot per target
      size_t estimated = ((f.code.size() + 7) & ~size_t(7)) + 8 * near_calls;
      if (n + 8 * near_calls <= estimated + 8 && q.size() + S.rt_gran <= ((estimated + S.rt_gran - 1) / S.rt_gran) * S.rt_gran) c.rt_real_shrinks++;
    }
    f.rx = (uintptr_t)q.rx(); f.rw = (uintptr_t)q.rw(); f.span_size = q.size();
    uintptr_t lo, hi;
    int o = g_rx.add(f.rx, f.rx + f.span_size, tid, &lo, &hi);
    if (o >= 0) {
      snprintf(b, sizeof b, "JitRuntime::add returned [%p,+%zu) to worker %d while [%p,%p) is still owned by worker %d", (void*)f.rx, f.span_size, tid, (void*)lo, (void*)hi, o);
      fail("concurrent-overlap-rx:rt_add", b);
      return;
    }
    if (f.rw != f.rx) g_rw.add(f.rw, f.rw + f.span_size, tid, &lo, &hi);
    g_pub_fn[r.below(32)].store(f.rx, std::memory_order_relaxed);
    fns.push_back(std::move(f));
    check_fn(fns.back(), "after-add");
  }

  void check_fn(OwnedFn& f, const char* when) {
    if (memcmp(f.fn, f.code.data(), f.code.size()) != 0) {
      char b[200];
      snprintf(b, sizeof b, "function %p added through the runtime does not hold the assembled bytes any more (%s, worker %d)", f.fn, when, tid);
      fail(std::string("rt-contents-lost:") + when, b);
      return;
    }
    c.bytes_verified += f.code.size();
    typedef uint32_t (*Fn)();
    uint32_t got = ((Fn)f.fn)();
    c.fn_calls++;
    if (got != f.value) {
      char b[200];
      snprintf(b, sizeof b, "function %p returned %08x, assembled to return %08x (%s, worker %d)", f.fn, got, f.value, when, tid);
      fail(std::string("rt-function-result:") + when, b);
    }
  }

  void rt_release(size_t i) {
    OwnedFn& f = fns[i];
    check_fn(f, "before-release");
    g_rx.remove(f.rx);
    if (f.rw != f.rx) g_rw.remove(f.rw);
    uint64_t t0 = now_ns();
    Error e;
    { InAsmjit ia; e = S.rt->_release(f.fn); }
    uint64_t t1 = now_ns();
    rec(R_RELEASE, t0, t1);
    if (e != Error::kOk) fail("rt-release-failed", who("JitRuntime::release") + " of a live function failed with error " + std::to_string((int)e));
    if (i + 1 != fns.size()) std::swap(fns[i], fns.back());
    fns.pop_back();
  }

  void rt_query_stats() {
    if (!fns.empty() && r.chance(1, 2)) {
      OwnedFn& f = fns[r.below(fns.size())];
      JitAllocator::Span q;
      uint64_t t0 = now_ns();
      Error e;
      { InAsmjit ia; e = S.rt->allocator().query(Out(q), f.fn); }
      uint64_t t1 = now_ns();
      rec(R_QUERY, t0, t1);
      if (e != Error::kOk || (uintptr_t)q.rx() != f.rx || (uintptr_t)q.rw() != f.rw || q.size() != f.span_size)
        fail("rt-query-mismatch", who("query") + " of a live runtime function disagrees with what query said right after add");
    }
    else {
      size_t mine = fns.size();
      uint64_t t0 = now_ns();
      JitAllocator::Statistics st;
      { InAsmjit ia; st = S.rt->allocator().statistics(); }
      uint64_t t1 = now_ns();
      rec(R_STATS, t0, t1);
      if (st.allocation_count() < mine || st.reserved_size() < st.used_size() || st.allocation_count() > (size_t(1) << 40)) {
        char b[200];
        snprintf(b, sizeof b, "runtime allocator statistics(): allocations=%zu used=%zu reserved=%zu while worker %d alone holds %zu functions", st.allocation_count(), st.used_size(), st.reserved_size(), tid, mine);
        fail("stats-below-own-live-set", b);
      }
    }
  }

  void do_exchange() {
    if (!live.empty() && r.chance(1, 2)) {
      size_t i = r.below(live.size());
      verify(live[i], "before-handover");
      Owned o = std::move(live[i]);
      live_bytes -= o.span.size();
      if (i + 1 != live.size()) live[i] = std::move(live.back());
      live.pop_back();
      std::lock_guard<std::mutex> g(g_exchange_mutex);
      g_exchange.push_back(std::move(o));
      c.exchanged++;
    }
    else {
      Owned o;
      {
        std::lock_guard<std::mutex> g(g_exchange_mutex);
        if (g_exchange.empty()) return;
        size_t i = r.below(g_exchange.size());
        o = std::move(g_exchange[i]);
        if (i + 1 != g_exchange.size()) g_exchange[i] = std::move(g_exchange.back());
        g_exchange.pop_back();
      }
      g_rx.set_owner((uintptr_t)o.span.rx(), tid);
      live_bytes += o.span.size();
      live.push_back(std::move(o));
      verify(live.back(), "after-handover");
      c.exchanged++;
    }
  }

  void run(size_t nops) {
    log.reserve(log.size() + nops + nops / 2);
    // cumulative weights per profile: alloc, release, shrink, query, qforeign, stats, write, wtrunc, rt_add, rt_rel, rt_qs, exchange
    static const int W[4][12] = {
      { 26, 20, 8, 9, 3, 6, 6, 6, 6, 4, 3, 3 },
      { 38, 34, 3, 6, 3, 6, 2, 2, 2, 2, 1, 1 },
      { 20, 10, 18, 10, 3, 5, 6, 16, 4, 3, 2, 3 },
      { 14, 10, 4, 6, 2, 6, 3, 4, 22, 17, 9, 3 },
    };
    const int* w = W[S.cfg.profile & 3];
    int total = 0;
    for (int k = 0; k < 12; k++) total += w[k];
    if (!r2.s) r2 = Rng(r.s ^ 0xD00D00D5ull);     // side stream: the main stream of operations stays as it was
    for (size_t n = 0; n < nops; n++) {
      noise();
      if (S.doomed_every && r2.below(S.doomed_every) == 0) do_doomed_alloc();
      int x = int(r.below(total)), k = 0;
      while (x >= w[k]) { x -= w[k]; k++; }
      size_t pick = live.empty() ? 0 : (r.chance(1, 3) ? live.size() - 1 : r.below(live.size()));
      switch (k) {
        case 0: if (live.size() < S.cfg.max_live) do_alloc(); else do_release(pick); break;
        case 1: if (!live.empty()) do_release(pick); else do_alloc(); break;
        case 2: if (!live.empty()) do_shrink(pick); else do_alloc(); break;
        case 3: if (!live.empty()) do_query(pick); else do_query_foreign(); break;
        case 4: do_query_foreign(); break;
        case 5: do_stats(); break;
        case 6: if (!live.empty()) do_write(pick); else do_alloc(); break;
        case 7: if (!live.empty()) do_write_trunc(pick); else do_alloc(); break;
        case 8: if (fns.size() < S.cfg.max_fn) rt_add(); else rt_release(r.below(fns.size())); break;
        case 9: if (!fns.empty()) rt_release(r.below(fns.size())); else rt_add(); break;
        case 10: rt_query_stats(); break;
        default: do_exchange(); break;
      }
    }
  }
};

// -- independent code generation -----------------------------------------------------------------------------

enum EmitKind { E_X64_ASM, E_X86_ASM, E_X64_BUILDER, E_X64_COMPILER, E_A64_ASM, E_A64_COMPILER, E_X86_COMPILER,
                E_A64_BUILDER, E_X86_BUILDER, E_X64_COMPILER_HOST, E_KINDS };
static const char* kEmitNames[E_KINDS] = { "x64-assembler", "x86-assembler", "x64-builder", "x64-compiler", "a64-assembler", "a64-compiler", "x86-compiler",
                                           "a64-builder", "x86-builder", "x64-compiler-host-features" };

static void gen_x86(x86::Emitter* e, uint64_t v, bool is64, bool data_section = false) {
  Rng r(0xC1100000ull + v);
  uint32_t nreg = is64 ? 16 : 8;
  auto rid = [&]() { uint32_t i; do { i = uint32_t(r.below(nreg)); } while (i == 4); return i; };   // never rsp/esp
  auto g32 = [&]() { return x86::gpd(rid()); };
  auto gz = [&]() { return is64 ? x86::gpq(rid()) : x86::gpd(rid()); };
  auto vid = [&]() { return uint32_t(r.below(is64 ? 16 : 8)); };
  auto mem = [&]() {
    int32_t disp = int32_t(r.below(3) == 0 ? r.below(0x10000) : r.below(256)) - 64;
    if (r.chance(1, 2)) return x86::dword_ptr(gz(), disp);
    return x86::dword_ptr(gz(), gz(), uint32_t(r.below(4)), disp);
  };
  Label L[4];
  bool bound[4] {};
  for (size_t j = 0; j < 4; j++) {
    if (data_section && j == 3) { char nm[32]; snprintf(nm, sizeof nm, "L_named_%u", unsigned(v)); L[j] = e->new_named_label(nm); }
    else L[j] = e->new_label();
  }
  Label data = data_section ? e->new_named_label("verif_data") : e->new_label();
  size_t n = 24 + r.below(48);
  for (size_t i = 0; i < n; i++) {
    switch (r.below(18)) {
      case 0: e->mov(g32(), g32()); break;
      case 1: e->add(gz(), int32_t(r.next())); break;
      case 2: e->mov(g32(), mem()); break;
      case 3: e->mov(mem(), g32()); break;
      case 4: e->lea(gz(), mem()); break;
      case 5: { size_t j = r.below(4); if (r.chance(1, 2)) e->jmp(L[j]); else e->jnz(L[j]); break; }
      case 6: { size_t j = r.below(4); if (!bound[j]) { e->bind(L[j]); bound[j] = true; } else e->nop(); break; }
      case 7: e->movaps(x86::xmm(vid()), x86::xmm(vid())); break;
      case 8: e->vaddps(x86::ymm(vid()), x86::ymm(vid()), x86::ymm(vid())); break;
      case 9: e->imul(g32(), g32(), int32_t(r.below(100000)) - 500); break;
      case 10: e->shl(g32(), uint32_t(r.below(32))); break;
      case 11: { x86::Gp g = gz(); e->push(g); e->pop(g); break; }
      case 12: e->align(AlignMode::kCode, 16); break;
      case 13: e->lea(gz(), x86::ptr(data)); break;
      case 14: e->k(x86::k(1 + uint32_t(r.below(7)))).vpaddd(x86::zmm(vid()), x86::zmm(vid()), x86::zmm(vid())); break;
      case 15: { x86::Gp a = g32(); e->cmp(a, g32()); e->setz(x86::gpb_lo(uint32_t(r.below(4)))); break; }
      case 16: e->movzx(g32(), x86::byte_ptr(gz(), int32_t(r.below(128)))); break;
      default: e->vfmadd231ps(x86::xmm(vid()), x86::xmm(vid()), x86::ptr(gz(), int32_t(r.below(64)) * 16)); break;
    }
  }
  for (size_t j = 0; j < 4; j++) if (!bound[j]) e->bind(L[j]);
  e->ret();
  if (data_section) {
    // the data blob lives in a second section: `lea reg, [data]` becomes a cross-section fixup resolved after flatten()
    Section* sec = nullptr;
    if (e->code()->new_section(Out(sec), ".vdata", SIZE_MAX, SectionFlags::kNone, 16, 1) == Error::kOk) e->section(sec);
  }
  e->align(AlignMode::kData, 8);
  e->bind(data);
  uint8_t blob[48];
  for (size_t i = 0; i < sizeof blob; i++) blob[i] = uint8_t(r.next());
  e->embed(blob, 8 + r.below(40));
  if (data_section) e->embed_label(L[0]);           // an absolute label address: a relocation record
}

static int verif_callee(int a, int b) { return a + b; }

static void gen_x86_compiler(x86::Compiler& cc, uint64_t v, bool extras = false, bool avx = false) {
  Rng r(0xC1200000ull + v);
  FuncNode* f = cc.add_func(FuncSignature::build<int, int, int, void*>());
  x86::Gp a = cc.new_gp32("a"), b = cc.new_gp32("b"), p = cc.new_gp_ptr("p");
  f->set_arg(0, a); f->set_arg(1, b); f->set_arg(2, p);
  size_t nv = 4 + r.below(22);            // > 14 live values forces spills
  std::vector<x86::Gp> vars;
  for (size_t i = 0; i < nv; i++) {
    x86::Gp x = cc.new_gp32("v%u", unsigned(i));
    if (r.chance(1, 2)) cc.mov(x, int32_t(r.below(1000))); else cc.lea(x, x86::ptr(a, int32_t(i * 3)));
    vars.push_back(x);
  }
  x86::Vec xv = cc.new_xmm("xv");
  cc.xorps(xv, xv);
  x86::Mem slot = cc.new_stack(16, 16);
  x86::Gp cnt = cc.new_gp32("cnt");
  cc.mov(cnt, b);
  cc.and_(cnt, 15);
  cc.inc(cnt);
  Label loop = cc.new_label();
  cc.bind(loop);
  size_t nops = 10 + r.below(40);
  for (size_t j = 0; j < nops; j++) {
    x86::Gp x = vars[r.below(nv)], y = vars[r.below(nv)];
    switch (r.below(10)) {
      case 0: cc.add(x, y); break;
      case 1: cc.sub(x, y); break;
      case 2: cc.xor_(x, y); break;
      case 3: cc.imul(x, y); break;
      case 4: cc.mov(x, x86::dword_ptr(p, int32_t(r.below(16)) * 4)); break;
      case 5: cc.mov(x86::dword_ptr(p, int32_t(r.below(16)) * 4), x); break;
      case 6: { Label skip = cc.new_label(); cc.cmp(x, y); cc.jz(skip); cc.add(x, int32_t(r.below(100))); cc.bind(skip); break; }
      case 7: cc.cvtsi2ss(xv, x); cc.movaps(slot, xv); break;
      case 8: cc.shl(x, uint32_t(r.below(8))); break;
      default: cc.or_(x, y); break;
    }
  }
  if (v % 3 == 0) {
    InvokeNode* in = nullptr;
    cc.invoke(Out(in), uint64_t(0x12345000u), FuncSignature::build<int, int, int>());
    in->set_arg(0, vars[0]);
    in->set_arg(1, vars[nv - 1]);
    in->set_ret(0, vars[0]);
  }
  Label table, case0, case1, join;
  if (extras) {
    // constants from the local and the global constant pool, vector values that live across the call / the loop (spilled
    // with SSE or AVX moves depending on the CPU features the code holder was initialised with), and a jump table with a
    // jump annotation
    Rng x(0xC1250000ull + v);
    x86::Mem c0 = cc.new_int32_const(ConstPoolScope::kLocal, int32_t(x.below(100000)));
    x86::Mem c1 = cc.new_int32_const(ConstPoolScope::kGlobal, int32_t(x.below(100000)));
    uint8_t blob[16];
    for (auto& bb : blob) bb = uint8_t(x.next());
    x86::Mem c2 = cc.new_const(ConstPoolScope::kGlobal, blob, 16);
    cc.add(vars[0], c0);
    cc.xor_(vars[nv - 1], c1);
    size_t nvec = 3 + x.below(18);
    std::vector<x86::Vec> vv;
    for (size_t i = 0; i < nvec; i++) {
      x86::Vec q = cc.new_xmm("q%u", unsigned(i));
      if (avx) { cc.vmovups(q, c2); cc.vpaddd(q, q, xv); } else { cc.movups(q, c2); cc.paddd(q, xv); }
      vv.push_back(q);
    }
    for (size_t i = 0; i < nvec; i++) { if (avx) cc.vpxor(xv, xv, vv[i]); else cc.pxor(xv, vv[i]); }
    cc.movaps(slot, xv);
    table = cc.new_label(); case0 = cc.new_label(); case1 = cc.new_label(); join = cc.new_label();
    x86::Gp off = cc.new_gp_ptr("off"), tgt = cc.new_gp_ptr("tgt"), sel = cc.new_gp_ptr("sel");
    cc.mov(sel.r32(), vars[0]);
    cc.and_(sel.r32(), 1);
    cc.lea(off, x86::ptr(table));
    if (cc.is_64bit()) cc.movsxd(tgt, x86::dword_ptr(off, sel, 2)); else cc.mov(tgt, x86::dword_ptr(off, sel, 2));
    cc.add(tgt, off);
    JumpAnnotation* ann = cc.new_jump_annotation();
    ann->add_label(case0);
    ann->add_label(case1);
    cc.jmp(tgt, ann);
    cc.bind(case0);
    cc.add(vars[0], 3);
    cc.jmp(join);
    cc.bind(case1);
    cc.sub(vars[0], 5);
    cc.bind(join);
  }
  cc.dec(cnt);
  cc.jnz(loop);
  for (size_t i = 0; i < nv; i++) cc.add(a, vars[i]);
  cc.ret(a);
  cc.end_func();
  if (extras) {
    cc.bind(table);
    cc.embed_label_delta(case0, table, 4);
    cc.embed_label_delta(case1, table, 4);
  }
  (void)verif_callee;
}

static void gen_a64(a64::Emitter* ap, uint64_t v) {
  a64::Emitter& a = *ap;
  Rng r(0xC1300000ull + v);
  auto xr = [&]() { return a64::x(uint32_t(r.below(29))); };
  auto wr = [&]() { return a64::w(uint32_t(r.below(29))); };
  Label L[3];
  bool bound[3] {};
  for (auto& l : L) l = a.new_label();
  size_t n = 20 + r.below(40);
  for (size_t i = 0; i < n; i++) {
    switch (r.below(12)) {
      case 0: a.add(xr(), xr(), xr()); break;
      case 1: a.add(wr(), wr(), uint32_t(r.below(4096))); break;
      case 2: a.sub(xr(), xr(), xr()); break;
      case 3: a.mov(xr(), uint64_t(r.next())); break;
      case 4: a.ldr(xr(), a64::ptr(xr(), int32_t(r.below(64)) * 8)); break;
      case 5: a.str(wr(), a64::ptr(xr(), int32_t(r.below(64)) * 4)); break;
      case 6: { size_t j = r.below(3); a.cmp(xr(), xr()); a.b_ne(L[j]); break; }
      case 7: { size_t j = r.below(3); a.cbz(xr(), L[j]); break; }
      case 8: { size_t j = r.below(3); if (!bound[j]) { a.bind(L[j]); bound[j] = true; } else a.nop(); break; }
      case 9: a.madd(xr(), xr(), xr(), xr()); break;
      case 10: a.lsl(xr(), xr(), uint32_t(r.below(63))); break;
      default: a.add(a64::v(uint32_t(r.below(32))).s4(), a64::v(uint32_t(r.below(32))).s4(), a64::v(uint32_t(r.below(32))).s4()); break;
    }
  }
  for (size_t j = 0; j < 3; j++) if (!bound[j]) a.bind(L[j]);
  a.ret(a64::x30);
}

static void gen_a64_compiler(a64::Compiler& cc, uint64_t v) {
  Rng r(0xC1400000ull + v);
  FuncNode* f = cc.add_func(FuncSignature::build<int, int, int, void*>());
  a64::Gp a = cc.new_gp32("a"), b = cc.new_gp32("b"), p = cc.new_gp_ptr("p");
  f->set_arg(0, a); f->set_arg(1, b); f->set_arg(2, p);
  size_t nv = 4 + r.below(36);
  std::vector<a64::Gp> vars;
  for (size_t i = 0; i < nv; i++) {
    a64::Gp x = cc.new_gp32("v%u", unsigned(i));
    cc.add(x, a, uint32_t(i * 5 + r.below(100)));
    vars.push_back(x);
  }
  size_t nops = 10 + r.below(30);
  for (size_t j = 0; j < nops; j++) {
    a64::Gp x = vars[r.below(nv)], y = vars[r.below(nv)];
    switch (r.below(6)) {
      case 0: cc.add(x, x, y); break;
      case 1: cc.sub(x, x, y); break;
      case 2: cc.eor(x, x, y); break;
      case 3: cc.mul(x, x, y); break;
      case 4: cc.ldr(x, a64::ptr(p, int32_t(r.below(16)) * 4)); break;
      default: cc.str(x, a64::ptr(p, int32_t(r.below(16)) * 4)); break;
    }
  }
  for (size_t i = 0; i < nv; i++) cc.add(a, a, vars[i]);
  cc.ret(a);
  cc.end_func();
}

struct Generated { bool ok = false; int err = 0; std::vector<uint8_t> bytes; std::string text; uint64_t api_hash = 0; };

// Stateless query API (instruction database lookups, validation, RW information, CPU features, name <-> id): the answers
// for a fixed list of instructions are folded into one hash per (architecture, variant) - a cache or scratch buffer shared
// between threads behind these functions shows up as a different hash (and as a ThreadSanitizer report in that flavour).
static uint64_t api_probe(Arch arch, uint64_t v) {
  uint64_t h = 1469598103934665603ull;
  auto mix = [&](uint64_t x) { h = fnv1a(&x, sizeof x, h); };
  Rng r(0xC1500000ull + v);
  struct Case { InstId id; Operand ops[4]; uint32_t n; };
  std::vector<Case> cases;
  if (arch == Arch::kAArch64) {
    auto xr = [&]() { return a64::x(uint32_t(r.below(29))); };
    cases.push_back({a64::Inst::kIdAdd, {xr(), xr(), xr()}, 3});
    cases.push_back({a64::Inst::kIdAdd, {a64::w(uint32_t(r.below(29))), a64::w(1), Imm(r.below(4096))}, 3});
    cases.push_back({a64::Inst::kIdLdr, {xr(), a64::ptr(xr(), int32_t(r.below(64)) * 8)}, 2});
    cases.push_back({a64::Inst::kIdStr, {a64::w(3), a64::ptr(xr(), 16)}, 2});
    cases.push_back({a64::Inst::kIdMadd, {xr(), xr(), xr(), xr()}, 4});
    cases.push_back({a64::Inst::kIdAdd_v, {a64::v(uint32_t(r.below(32))).s4(), a64::v(1).s4(), a64::v(2).s4()}, 3});
    cases.push_back({a64::Inst::kIdFmla_v, {a64::v(uint32_t(r.below(32))).d2(), a64::v(7).d2(), a64::v(9).d2()}, 3});
    cases.push_back({a64::Inst::kIdLdp, {xr(), xr(), a64::ptr(a64::sp, 32)}, 3});
    cases.push_back({a64::Inst::kIdCmp, {xr(), xr()}, 2});
    cases.push_back({a64::Inst::kIdAdd, {xr(), a64::v(1).s4(), xr()}, 3});           // invalid on purpose
    cases.push_back({a64::Inst::kIdLdr, {xr(), xr()}, 2});                            // invalid on purpose
  }
  else {
    bool is64 = arch == Arch::kX64;
    uint32_t nreg = is64 ? 16 : 8;
    auto g32 = [&]() { return x86::gpd(uint32_t(r.below(nreg))); };
    auto gz = [&]() { uint32_t i = uint32_t(r.below(nreg)); return is64 ? x86::Gp(x86::gpq(i)) : x86::Gp(x86::gpd(i)); };
    auto vid = [&]() { return uint32_t(r.below(nreg)); };
    cases.push_back({x86::Inst::kIdAdd, {g32(), g32()}, 2});
    cases.push_back({x86::Inst::kIdMov, {gz(), x86::ptr(gz(), int32_t(r.below(256)))}, 2});
    cases.push_back({x86::Inst::kIdLea, {gz(), x86::ptr(gz(), gz(), 2, 8)}, 2});
    cases.push_back({x86::Inst::kIdImul, {g32(), g32(), Imm(int32_t(r.below(1000)))}, 3});
    cases.push_back({x86::Inst::kIdMovzx, {g32(), x86::byte_ptr(gz())}, 2});
    cases.push_back({x86::Inst::kIdMovaps, {x86::xmm(vid()), x86::xmm(vid())}, 2});
    cases.push_back({x86::Inst::kIdVaddps, {x86::ymm(vid()), x86::ymm(vid()), x86::ymm(vid())}, 3});
    cases.push_back({x86::Inst::kIdVpaddd, {x86::zmm(vid()), x86::zmm(vid()), x86::zmm(vid())}, 3});
    cases.push_back({x86::Inst::kIdVfmadd231ps, {x86::xmm(vid()), x86::xmm(vid()), x86::ptr(gz(), 16)}, 3});
    cases.push_back({x86::Inst::kIdVpslldq, {x86::xmm(vid()), x86::xmm(vid()), Imm(3)}, 3});
    cases.push_back({x86::Inst::kIdXchg, {g32(), g32()}, 2});
    cases.push_back({x86::Inst::kIdCmpxchg, {x86::dword_ptr(gz()), g32(), x86::eax}, 3});
    cases.push_back({x86::Inst::kIdShl, {g32(), x86::cl}, 2});
    cases.push_back({x86::Inst::kIdDiv, {x86::edx, x86::eax, g32()}, 3});
    cases.push_back({x86::Inst::kIdPush, {gz()}, 1});
    cases.push_back({x86::Inst::kIdVgatherdps, {x86::xmm(1), x86::ptr(gz(), x86::xmm(2)), x86::xmm(3)}, 3});
    cases.push_back({x86::Inst::kIdAdc, {g32(), Imm(5)}, 2});
    cases.push_back({x86::Inst::kIdMov, {x86::xmm(1), g32()}, 2});                    // invalid on purpose
    cases.push_back({x86::Inst::kIdVaddps, {x86::ymm(1), x86::xmm(2), x86::zmm(3)}, 3}); // invalid on purpose
    if (is64) cases.push_back({x86::Inst::kIdMov, {x86::r9, Imm(int64_t(r.next()))}, 2});
    else cases.push_back({x86::Inst::kIdMov, {x86::gpq(1), x86::gpq(2)}, 2});        // 64-bit registers in 32-bit mode
  }
  for (const Case& cs : cases) {
    BaseInst inst(cs.id);
    Error ev = InstAPI::validate(arch, inst, cs.ops, cs.n, r.chance(1, 2) ? ValidationFlags::kNone : ValidationFlags::kEnableVirtRegs);
    mix(uint64_t(ev));
    InstRWInfo rw {};
    Error er = InstAPI::query_rw_info(arch, inst, cs.ops, cs.n, &rw);
    mix(uint64_t(er));
    if (er == Error::kOk) {
      mix(uint64_t(rw.inst_flags())); mix(uint64_t(rw.read_flags())); mix(uint64_t(rw.write_flags())); mix(rw.rm_feature()); mix(rw.op_count());
      for (uint32_t i = 0; i < rw.op_count() && i < 6; i++) {
        const OpRWInfo& o = rw.operand(i);
        mix(uint64_t(o.op_flags())); mix(o.phys_id()); mix(o.rm_size()); mix(o.read_byte_mask()); mix(o.write_byte_mask()); mix(o.extend_byte_mask());
        mix(o.consecutive_lead_count());
      }
      const OpRWInfo& x = rw.extra_reg();
      mix(uint64_t(x.op_flags())); mix(x.read_byte_mask()); mix(x.write_byte_mask());
    }
    CpuFeatures f {};
    Error ef = InstAPI::query_features(arch, inst, cs.ops, cs.n, &f);
    mix(uint64_t(ef));
    if (ef == Error::kOk) h = fnv1a(&f, sizeof f, h);
    String name;
    mix(uint64_t(InstAPI::inst_id_to_string(arch, cs.id, InstStringifyOptions::kNone, name)));
    h = fnv1a(name.data(), name.size(), h);
    mix(uint64_t(InstAPI::string_to_inst_id(arch, name.data(), name.size())));
  }
  static const char* const names_x86[] = { "add", "adc", "vaddps", "vpternlogd", "mov", "movabs", "lea", "cmpxchg16b", "vfmadd231ps", "kmovw", "tzcnt", "bextr", "sha256rnds2",
    "aesenc", "vpdpbusd", "prefetchw", "xsaveopt", "jmp", "jecxz", "ret", "int3", "nop", "pause", "popcnt", "crc32", "movbe", "vcvtph2ps", "vpgatherdd", "vpcompressd",
    "notaninstruction", "", "ADD", "vaddpsx", "rep", "lock", "sysenter", "tdpbssd", "vpmadd52luq", "gf2p8mulb", "pconfig", "rdpid", "wbnoinvd", "cldemote", "movdir64b",
    "enqcmd", "serialize", "xresldtrk", "uiret", "clui", "vp2intersectd" };
  static const char* const names_a64[] = { "add", "adds", "ldr", "ldp", "stp", "madd", "fmla", "sqrdmlah", "ldaddal", "casp", "b", "bl", "ret", "cbz", "tbnz", "mrs", "msr",
    "dmb", "isb", "sha256h", "aese", "pmull2", "fcvtzs", "ucvtf", "bfmmla", "smmla", "ld1", "st4", "tbl", "ext", "notaninstruction", "", "ADD", "movk", "movz", "mov",
    "csel", "cinc", "ubfx", "ror", "rev16", "crc32cx", "ldxr", "stlxr", "prfm", "hint", "autia", "pacib", "irg", "stg" };
  const char* const* names = arch == Arch::kAArch64 ? names_a64 : names_x86;
  for (size_t i = 0; i < 50; i++) {
    InstId id = InstAPI::string_to_inst_id(arch, names[i], strlen(names[i]));
    mix(uint64_t(id));
    if (id != 0) { String back; mix(uint64_t(InstAPI::inst_id_to_string(arch, id, InstStringifyOptions::kNone, back))); h = fnv1a(back.data(), back.size(), h); }
  }
  return h;
}

struct GenFlags { bool validated = false, features = false, multi_section = false, const_pool = false; };

// Everything in here is private to the calling thread.
static Generated generate(int kind, uint64_t v, GenFlags* gf = nullptr) {
  Generated g;
  bool is_a64 = kind == E_A64_ASM || kind == E_A64_COMPILER || kind == E_A64_BUILDER;
  bool is_x86_32 = kind == E_X86_ASM || kind == E_X86_COMPILER || kind == E_X86_BUILDER;
  Arch arch = is_x86_32 ? Arch::kX86 : is_a64 ? Arch::kAArch64 : Arch::kX64;
  CodeHolder code;
  StringLogger logger;
  // E_X64_COMPILER_HOST: the code holder knows the host's CPU features, so that register allocation and the emit helpers
  // take their AVX / AVX-512 paths (moves, spills, swaps) when the host has them
  bool host_features = kind == E_X64_COMPILER_HOST;
  bool avx = host_features && CpuInfo::host().features().x86().has_avx2();
  Error e = host_features ? code.init(Environment(arch), CpuInfo::host().features()) : code.init(Environment(arch));
  if (e != Error::kOk) { g.err = int(e); return g; }
  bool with_log = (v % 4) == 1;
  bool validate = (v % 4) == 2;
  bool multi_section = (v % 5) == 3 && (kind == E_X64_ASM || kind == E_X86_ASM || kind == E_X64_BUILDER || kind == E_X86_BUILDER);
  if (with_log) {
    logger.add_flags(FormatFlags::kMachineCode | FormatFlags::kHexImms);
    code.set_logger(&logger);
  }
  if (gf) { gf->validated = validate; gf->features = host_features; gf->multi_section = multi_section; gf->const_pool = host_features || (kind == E_X64_COMPILER && v % 3 == 1); }
  DiagnosticOptions diag = validate ? (DiagnosticOptions::kValidateAssembler | DiagnosticOptions::kValidateIntermediate) : DiagnosticOptions::kNone;
  switch (kind) {
    case E_X64_ASM: case E_X86_ASM: {
      x86::Assembler a(&code);
      a.add_diagnostic_options(diag);
      gen_x86(a.as<x86::Emitter>(), v, kind == E_X64_ASM, multi_section);
      break;
    }
    case E_X64_BUILDER: case E_X86_BUILDER: {
      x86::Builder cb(&code);
      cb.add_diagnostic_options(diag);
      gen_x86(cb.as<x86::Emitter>(), v, kind == E_X64_BUILDER, multi_section);
      e = cb.finalize();
      break;
    }
    case E_X64_COMPILER: case E_X86_COMPILER: case E_X64_COMPILER_HOST: {
      x86::Compiler cc(&code);
      cc.add_diagnostic_options(diag);
      if (with_log) cc.add_diagnostic_options(DiagnosticOptions::kRAAnnotate);
      gen_x86_compiler(cc, v, host_features || (kind == E_X64_COMPILER && v % 3 == 1), avx);
      e = cc.finalize();
      break;
    }
    case E_A64_ASM: {
      a64::Assembler a(&code);
      a.add_diagnostic_options(diag);
      gen_a64(a.as<a64::Emitter>(), v);
      break;
    }
    case E_A64_BUILDER: {
      a64::Builder cb(&code);
      cb.add_diagnostic_options(diag);
      gen_a64(cb.as<a64::Emitter>(), v);
      e = cb.finalize();
      break;
    }
    case E_A64_COMPILER: {
      a64::Compiler cc(&code);
      cc.add_diagnostic_options(diag);
      gen_a64_compiler(cc, v);
      e = cc.finalize();
      break;
    }
  }
  g.api_hash = api_probe(arch, v);
  if (e != Error::kOk) { g.err = int(e); return g; }
  e = code.flatten();
  if (e == Error::kOk) e = code.resolve_cross_section_fixups();
  if (e == Error::kOk && code.has_reloc_entries()) {
    // absolute addresses (embed_label, constant pool references in 32-bit mode): relocate to a fixed base so that the
    // relocation records themselves are part of what is compared
    e = code.relocate_to_base(arch == Arch::kX86 ? 0x40000000ull : 0x7F0000400000ull);
  }
  if (e != Error::kOk) { g.err = int(e); return g; }
  for (Section* sec : code.sections()) {
    uint64_t off = sec->offset();
    g.bytes.insert(g.bytes.end(), (const uint8_t*)&off, (const uint8_t*)&off + 8);
    g.bytes.insert(g.bytes.end(), sec->data(), sec->data() + sec->buffer_size());
  }
  if (with_log) g.text.assign(logger.data(), logger.data_size());
  g.ok = true;
  return g;
}

static std::vector<Generated> g_reference[E_KINDS];
static size_t g_variants = 24;

struct Emitter {
  int tid;
  Rng r;
  Counters c;
  explicit Emitter(int t, uint64_t seed) : tid(t), r(seed) {}

  void run(size_t iters) {
    for (size_t i = 0; i < iters; i++) {
      int kind = int(r.below(E_KINDS));
      uint64_t v = r.below(g_variants);
      GenFlags gf;
      Generated g = generate(kind, v, &gf);
      const Generated& ref = g_reference[kind][v];
      c.emit[kind]++;
      c.emit_validated += gf.validated; c.emit_with_features += gf.features; c.emit_multi_section += gf.multi_section; c.emit_const_pool += gf.const_pool;
      c.emit_api_probes++;
      if (g.api_hash != ref.api_hash) {
        char b[240];
        snprintf(b, sizeof b, "%s variant %llu: InstAPI validate/query_rw_info/query_features/name lookups answered differently in thread %d than single-threaded (hash %016llx vs %016llx)",
                 kEmitNames[kind], (unsigned long long)v, tid, (unsigned long long)g.api_hash, (unsigned long long)ref.api_hash);
        fail(std::string("emit-differs:inst-api:") + (kind == E_A64_ASM || kind == E_A64_COMPILER || kind == E_A64_BUILDER ? "a64" : "x86"), b);
      }
      if (g.ok != ref.ok || g.err != ref.err) {
        char b[200];
        snprintf(b, sizeof b, "%s variant %llu: generation ended with ok=%d err=%d in thread %d but ok=%d err=%d single-threaded", kEmitNames[kind], (unsigned long long)v, g.ok, g.err, tid, ref.ok, ref.err);
        fail(std::string("emit-differs:") + kEmitNames[kind] + ":error", b);
        continue;
      }
      if (g.bytes != ref.bytes) {
        size_t k = 0;
        while (k < g.bytes.size() && k < ref.bytes.size() && g.bytes[k] == ref.bytes[k]) k++;
        size_t from = k > 8 ? k - 8 : 0;
        std::string w = std::string(kEmitNames[kind]) + " variant " + std::to_string(v) + ": bytes produced in thread " + std::to_string(tid) + " differ from the single-threaded result at offset " + std::to_string(k) +
                        " (sizes " + std::to_string(g.bytes.size()) + " vs " + std::to_string(ref.bytes.size()) + "): got .." +
                        hexstr(g.bytes.data() + from, std::min<size_t>(24, g.bytes.size() - from)) + " want .." + hexstr(ref.bytes.data() + from, std::min<size_t>(24, ref.bytes.size() - from));
        fail(std::string("emit-differs:") + kEmitNames[kind] + ":bytes", w);
      }
      if (!ref.text.empty() || !g.text.empty()) {
        c.emit_log_compared++;
        if (g.text != ref.text) {
          fail(std::string("emit-differs:") + kEmitNames[kind] + ":log", std::string(kEmitNames[kind]) + " variant " + std::to_string(v) + ": logger text produced in thread " + std::to_string(tid) + " differs from the single-threaded text");
        }
      }
      if ((i & 3) == 0) sched_yield();
    }
  }
};

// -- reader threads: nothing but query() / statistics(), no harness mutex ---------------------------------------------

struct Reader {
  int tid;
  Rng r;
  std::vector<OpRec> log;
  uint64_t queries = 0, query_hits = 0, stats = 0;
  explicit Reader(int t, uint64_t seed) : tid(t), r(seed) {}

  void rec(int op, uint64_t t0, uint64_t t1) { if (log.size() < 200000) log.push_back({t0, t1, uint8_t(op), uint8_t(tid)}); }

  void run(std::atomic<bool>& stop) {
    while (!stop.load(std::memory_order_relaxed)) {
      bool on_rt = r.chance(1, 3);
      const JitAllocator* al = on_rt ? &S.rt->allocator() : S.alloc;
      uint32_t gran = on_rt ? S.rt_gran : S.gran;
      if (r.chance(1, 4)) {
        uint64_t t0 = now_ns();
        JitAllocator::Statistics st = al->statistics();
        uint64_t t1 = now_ns();
        rec(on_rt ? R_STATS : O_STATS, t0, t1);
        stats++;
        if (st.reserved_size() < st.used_size() || st.allocation_count() > (size_t(1) << 40) || (st.allocation_count() && !st.block_count()) ||
            st.used_size() < st.allocation_count() * size_t(gran)) {
          char b[240];
          snprintf(b, sizeof b, "statistics() seen by a reader thread: allocations=%zu used=%zu reserved=%zu blocks=%zu (granularity %u)", st.allocation_count(), st.used_size(), st.reserved_size(), st.block_count(), gran);
          fail("reader:statistics-inconsistent", b);
        }
      }
      else {
        uintptr_t p = on_rt ? g_pub_fn[r.below(32)].load(std::memory_order_relaxed)
                            : (r.chance(1, 3) ? g_recent[r.below(64)].load(std::memory_order_relaxed) : g_pub[r.below(64)].load(std::memory_order_relaxed));
        if (!p) { sched_yield(); continue; }
        if (r.chance(1, 5)) p += gran * r.below(4);
        JitAllocator::Span q;
        uint64_t t0 = now_ns();
        Error e = al->query(Out(q), (void*)p);
        uint64_t t1 = now_ns();
        rec(on_rt ? R_QUERY : O_QUERY_FOREIGN, t0, t1);
        queries++;
        if (e == Error::kOk) {
          query_hits++;
          uintptr_t qs = (uintptr_t)q.rx();
          if (!(qs <= p && p < qs + q.size()) || q.size() % gran || q.size() > 0x80000000ull || !q.rw()) {
            char b[200];
            snprintf(b, sizeof b, "query(%p) in a reader thread succeeded with rx=%p rw=%p size=%zu, which does not describe a span containing the address", (void*)p, q.rx(), q.rw(), q.size());
            fail("query-inconsistent-answer", b);
          }
        }
      }
      if (((queries + stats) & 3) == 0) { timespec ts { 0, long(5000 + r.below(60000)) }; nanosleep(&ts, nullptr); }
    }
  }
};

// -- private threads: their own JitAllocator / JitRuntime, created, used and destroyed inside the thread ----------------

static void gen_tiny_compiled(x86::Compiler& cc, int32_t k) {
  FuncNode* f = cc.add_func(FuncSignature::build<int, int, int>());
  x86::Gp a = cc.new_gp32("a"), b = cc.new_gp32("b");
  f->set_arg(0, a); f->set_arg(1, b);
  cc.imul(b, b, k);
  cc.add(a, b);
  cc.ret(a);
  cc.end_func();
}

struct Private {
  int tid;
  Rng r;
  uint64_t allocators = 0, runtimes = 0, allocs = 0, dual_allocs = 0, blocks_cycled = 0, adds_compared = 0, compiled_calls = 0, bytes_verified = 0;
  explicit Private(int t, uint64_t seed) : tid(t), r(seed) {}

  std::string who() const { return " (private thread " + std::to_string(tid) + ")"; }

  void use_allocator() {
    static const uint32_t kOpts[] = { 1 | 8, 1 | 4, 1, 8, 0, 1 | 2, 4 | 0x10000000u, 1 | 8 | 4, 1 | 8 };   // DUAL|IMM first and last: every allocation maps a block
    uint32_t opt = kOpts[r.below(sizeof(kOpts) / sizeof(kOpts[0]))];
    JitAllocator::CreateParams p;
    p.options = JitAllocatorOptions(opt);
    p.fill_pattern = 0x9A8B7C6Du ^ uint32_t(tid);
    uint32_t want_pattern = (opt & 0x10000000u) ? p.fill_pattern : S.default_pattern;
    JitAllocator al(&p);
    allocators++;
    if (!al.is_initialized()) { fail("private-allocator:not-initialized", "a JitAllocator constructed inside a thread is not initialised" + who()); return; }
    bool dual = (opt & 1) != 0, fill = (opt & 4) != 0, imm = (opt & 8) != 0;
    uint32_t gran = al.granularity();
    struct Mine { JitAllocator::Span span; std::vector<uint8_t> shadow; };
    std::vector<Mine> mine;
    size_t rounds = 2 + r.below(10);
    char b[320];
    for (size_t k = 0; k < rounds; k++) {
      if (mine.size() < 3 && (mine.empty() || r.chance(2, 3))) {
        size_t size = r.chance(1, 4) ? 4096 + r.below(20000) : 1 + r.below(700);
        JitAllocator::Span s;
        Error e = al.alloc(Out(s), size);
        allocs++; dual_allocs += dual;
        if (e != Error::kOk) {
          snprintf(b, sizeof b, "alloc(%zu) on a PRIVATE allocator (options %#x) failed with error %d (%s)", size, opt, int(e), DebugUtils::error_as_string(e));
          fail("private-allocator:alloc-failed", b + who());
          break;
        }
        if (!s.rx() || !s.rw() || (uintptr_t)s.rx() % gran || s.size() < size || dual == (s.rx() == s.rw())) {
          snprintf(b, sizeof b, "alloc(%zu) on a private allocator (options %#x) returned rx=%p rw=%p size=%zu", size, opt, s.rx(), s.rw(), s.size());
          fail("private-allocator:bad-span", b + who());
          break;
        }
        if (fill) {
          const uint8_t* m = (const uint8_t*)s.rx();
          uint8_t pat[4]; memcpy(pat, &want_pattern, 4);
          for (size_t i = 0; i < s.size(); i++) if (m[i] != pat[((uintptr_t)m + i) & 3]) {
            snprintf(b, sizeof b, "fresh span of a private allocator (options %#x) holds %02x at offset %zu, requested pattern %08x", opt, m[i], i, want_pattern);
            fail("private-allocator:fill-pattern-missing", b + who());
            break;
          }
        }
        Mine m;
        m.span = s;
        m.shadow.resize(s.size());
        stamp(m.shadow, (uint64_t(tid) << 48) ^ r.next());
        Error we = al.write(s, 0, m.shadow.data(), s.size());
        if (we != Error::kOk) { fail("private-allocator:write-failed", "write() into a span of a private allocator failed" + who()); break; }
        mine.push_back(std::move(m));
        if (imm && mine.size() == 1) blocks_cycled++;
      }
      else {
        size_t i = r.below(mine.size());
        if (!check(al, mine[i], opt, "before-release")) break;
        Error e = al.release(mine[i].span.rx());
        if (e != Error::kOk) { fail("private-allocator:release-failed", "release() on a private allocator failed" + who()); break; }
        mine.erase(mine.begin() + i);
      }
      if (r.chance(1, 3)) sched_yield();
      // nobody else can write into the memory of a private allocator: look again after other threads had a chance to run
      bool ok = true;
      for (auto& m : mine) ok = ok && check(al, m, opt, "after-yield");
      if (!ok) break;
    }
    JitAllocator::Statistics st = al.statistics();
    if (!g_failed.load() && st.allocation_count() != mine.size()) {
      snprintf(b, sizeof b, "private allocator (options %#x) counts %zu allocations, its thread holds %zu", opt, st.allocation_count(), mine.size());
      fail("private-allocator:allocation-count", b + who());
    }
    char msg[300]; size_t info[20];
    int rc = asmjit_verif_jitallocator_check(&al, msg, sizeof msg, info);
    if (rc && !g_failed.load()) fail("h2-invariant-" + std::to_string(rc) + ":private", std::string("bookkeeping of a private allocator inconsistent: ") + msg + who());
    // the destructor (hard reset) gives back what is left
  }

  template<typename M>
  bool check(JitAllocator& al, M& m, uint32_t opt, const char* when) {
    size_t n = m.span.size();
    bytes_verified += n;
    if (memcmp(m.span.rx(), m.shadow.data(), n) != 0) {
      size_t i = 0; const uint8_t* q = (const uint8_t*)m.span.rx();
      while (q[i] == m.shadow[i]) i++;
      char b[300];
      snprintf(b, sizeof b, "the executable view of a span of a PRIVATE allocator (options %#x, rx=%p rw=%p size=%zu) does not hold what its only owner wrote: offset %zu has %02x, written %02x (%s)",
               opt, m.span.rx(), m.span.rw(), n, i, q[i], m.shadow[i], when);
      fail(std::string("private-allocator:contents-lost:") + when, b + who());
      return false;
    }
    JitAllocator::Span q;
    if (al.query(Out(q), m.span.rx()) != Error::kOk || q.rx() != m.span.rx() || q.rw() != m.span.rw() || q.size() != m.span.size()) {
      fail("private-allocator:query-mismatch", "query() of a live span of a private allocator disagrees with alloc()" + who());
      return false;
    }
    return true;
  }

  void use_runtime() {
    static const uint32_t kOpts[] = { 0, 1 | 4, 1 | 8, 1, 8 | 4, 1 | 2 };
    uint32_t opt = kOpts[r.below(sizeof(kOpts) / sizeof(kOpts[0]))];
    JitAllocator::CreateParams p;
    p.options = JitAllocatorOptions(opt);
    JitRuntime rt(&p);
    runtimes++;
    char b[320];
    size_t n = 1 + r.below(4);
    std::vector<void*> held;
    for (size_t k = 0; k < n && !g_failed.load(); k++) {
      if (r.chance(2, 3)) {
        // a reference program of the x64 assembler (no absolute relocation, one section): the image at the function's address
        // must be the bytes the main thread got single-threaded
        uint64_t v;
        do { v = r.below(g_variants); } while (v % 5 == 3);
        const Generated& ref = g_reference[E_X64_ASM][v];
        if (!ref.ok || ref.bytes.size() <= 8) continue;
        CodeHolder code;
        code.init(rt.environment(), rt.cpu_features());
        x86::Assembler a(&code);
        gen_x86(a.as<x86::Emitter>(), v, true, false);
        void* fn = nullptr;
        Error e = rt.add(&fn, &code);
        if (e != Error::kOk || !fn) {
          snprintf(b, sizeof b, "JitRuntime::add on a PRIVATE runtime (allocator options %#x) failed with error %d (%s)", opt, int(e), DebugUtils::error_as_string(e));
          fail("private-runtime:add-failed", b + who());
          break;
        }
        held.push_back(fn);
        size_t len = ref.bytes.size() - 8;
        adds_compared++;
        bytes_verified += len;
        if (code.code_size() != len || memcmp(fn, ref.bytes.data() + 8, len) != 0) {
          size_t i = 0; const uint8_t* q = (const uint8_t*)fn;
          while (i < len && i < code.code_size() && q[i] == ref.bytes[8 + i]) i++;
          snprintf(b, sizeof b, "x64-assembler variant %llu added to a private runtime (allocator options %#x): code size %zu vs %zu single-threaded, image differs at offset %zu",
                   (unsigned long long)v, opt, code.code_size(), len, i);
          fail("private-runtime:code-differs", b + who());
          break;
        }
      }
      else {
        int32_t kmul = int32_t(r.below(1000)) + 2;
        CodeHolder code;
        code.init(rt.environment(), rt.cpu_features());
        x86::Compiler cc(&code);
        gen_tiny_compiled(cc, kmul);
        Error e = cc.finalize();
        typedef int (*Fn)(int, int);
        Fn fn = nullptr;
        if (e == Error::kOk) e = rt.add(&fn, &code);
        if (e != Error::kOk || !fn) {
          snprintf(b, sizeof b, "compiling and adding a function to a PRIVATE runtime (allocator options %#x) failed with error %d (%s)", opt, int(e), DebugUtils::error_as_string(e));
          fail("private-runtime:add-failed", b + who());
          break;
        }
        held.push_back((void*)fn);
        int x = int(r.below(10000)), y = int(r.below(10000));
        int got = fn(x, y);
        compiled_calls++;
        if (got != x + y * kmul) {
          snprintf(b, sizeof b, "a function compiled and added inside a thread returned %d for (%d,%d), expected %d", got, x, y, x + y * kmul);
          fail("private-runtime:function-result", b + who());
          break;
        }
      }
      if (r.chance(1, 2)) sched_yield();
      if (!held.empty() && r.chance(1, 2)) {
        if (rt.release(held.back()) != Error::kOk) { fail("private-runtime:release-failed", "release() on a private runtime failed" + who()); break; }
        held.pop_back();
      }
    }
    // ~JitRuntime releases the rest
  }

  void run(size_t iters) {
    for (size_t i = 0; i < iters && !g_failed.load(); i++) {
      if (r.chance(3, 5)) use_allocator(); else use_runtime();
    }
  }
};

// -- sentinel threads: plain file descriptors that belong to the harness ------------------------------------------------

struct Sentinel {
  int id;
  uint64_t rounds = 0;
  explicit Sentinel(int i) : id(i) {}
  void run(std::atomic<bool>& stop) {
    struct stat ref {};
    if (stat("/dev/null", &ref) != 0) return;
    while (!stop.load(std::memory_order_relaxed)) {
      int fd = open("/dev/null", O_RDONLY | O_CLOEXEC);
      if (fd < 0) { fail("harness:sentinel-open", "a sentinel thread cannot open /dev/null"); return; }
      if (fd < kFdTrack) g_fd_owner[fd].store(id + 1, std::memory_order_release);
      for (int spin = 0; spin < 6; spin++) { timespec ts { 0, 15000 }; nanosleep(&ts, nullptr); }
      struct stat st {};
      int rc = fstat(fd, &st);
      if (rc != 0 || !S_ISCHR(st.st_mode) || st.st_rdev != ref.st_rdev) {
        char b[240];
        snprintf(b, sizeof b, "descriptor %d, opened on /dev/null by a harness thread that never closed it, %s while AsmJit threads were running", fd,
                 rc != 0 ? "is not open any more" : "refers to another file now");
        fail("fd-table:foreign-descriptor-lost", b);
        if (fd < kFdTrack) g_fd_owner[fd].store(0, std::memory_order_release);
        return;
      }
      if (fd < kFdTrack) g_fd_owner[fd].store(0, std::memory_order_release);
      __real_close(fd);
      rounds++;
    }
  }
};

// -- quiescent checks (main thread, after joins) -------------------------------------------------------------

static uint64_t g_h2_walks = 0, g_h2_walks_concurrent = 0, g_quiescent_checks = 0;
static uint64_t g_max_blocks = 0, g_max_live = 0, g_empty_policy_checks = 0;

static void quiescent_check(std::vector<Worker*>& workers, const char* when) {
  size_t live = 0, live_bytes = 0, fns = 0;
  for (Worker* w : workers) {
    live += w->live.size();
    for (auto& o : w->live) { live_bytes += o.span.size(); w->verify(o, "quiescent"); }
    fns += w->fns.size();
    for (auto& f : w->fns) w->check_fn(f, "quiescent");
  }
  for (auto& o : g_exchange) { live++; live_bytes += o.span.size(); workers[0]->verify(o, "quiescent"); }
  g_max_live = std::max<uint64_t>(g_max_live, live);
  char msg[400];
  size_t info[20];
  int rc = asmjit_verif_jitallocator_check(S.alloc, msg, sizeof msg, info);
  g_h2_walks++;
  g_quiescent_checks++;
  if (rc) { fail("h2-invariant-" + std::to_string(rc) + ":quiescent", std::string("allocator bookkeeping inconsistent after all threads were joined (") + when + "): " + msg); return; }
  g_max_blocks = std::max<uint64_t>(g_max_blocks, info[0]);
  JitAllocator::Statistics st = S.alloc->statistics();
  char b[400];
  if (st.allocation_count() != live || info[3] != live) {
    snprintf(b, sizeof b, "after joining all threads (%s): statistics().allocation_count()=%zu, stop bits delimit %zu allocations, the threads hold %zu live spans", when, st.allocation_count(), info[3], live);
    fail("quiescent:allocation-count", b);
  }
  if (st.used_size() != live_bytes + info[6] || st.used_size() != info[4]) {
    snprintf(b, sizeof b, "after joining all threads (%s): statistics().used_size()=%zu, used bits say %zu, the threads hold %zu bytes + %zu padding", when, st.used_size(), info[4], live_bytes, info[6]);
    fail("quiescent:used-size", b);
  }
  if (st.reserved_size() < st.used_size() || st.reserved_size() != info[5] || st.block_count() != info[0]) {
    snprintf(b, sizeof b, "after joining all threads (%s): reserved=%zu used=%zu blocks=%zu vs walk reserved=%zu blocks=%zu", when, st.reserved_size(), st.used_size(), st.block_count(), info[5], info[0]);
    fail("quiescent:reserved-or-blocks", b);
  }
  rc = asmjit_verif_jitallocator_check(&S.rt->allocator(), msg, sizeof msg, info);
  g_h2_walks++;
  if (rc) { fail("h2-invariant-" + std::to_string(rc) + ":quiescent", std::string("runtime allocator bookkeeping inconsistent after all threads were joined (") + when + "): " + msg); return; }
  JitAllocator::Statistics rs = S.rt->allocator().statistics();
  size_t fns_all = fns + (S.anchor ? 1 : 0);
  if (rs.allocation_count() != fns_all || info[3] != fns_all) {
    snprintf(b, sizeof b, "after joining all threads (%s): runtime allocator counts %zu allocations (stop bits: %zu), the threads hold %zu functions", when, rs.allocation_count(), info[3], fns_all);
    fail("quiescent:rt-allocation-count", b);
  }
  // empty-block policy (C09 clause, under concurrency): when nothing is live no more than one empty block per pool is
  // retained, none with kImmediateRelease
  if (live == 0) {
    size_t allowed = S.imm ? 0 : S.pools;
    g_empty_policy_checks++;
    if (st.block_count() > allowed) {
      snprintf(b, sizeof b, "after joining all threads (%s): nothing is live but the allocator retains %zu blocks (policy allows %zu)", when, st.block_count(), allowed);
      fail("quiescent:empty-blocks-retained", b);
    }
  }
  if (fns_all == 0) {
    size_t allowed = S.rt_imm ? 0 : S.rt_pools;
    g_empty_policy_checks++;
    if (rs.block_count() > allowed) {
      snprintf(b, sizeof b, "after joining all threads (%s): no function is live but the runtime's allocator retains %zu blocks (policy allows %zu)", when, rs.block_count(), allowed);
      fail("quiescent:empty-blocks-retained", b);
    }
  }
}

// -- overlap statistics from the per-thread logs -------------------------------------------------------------

static std::map<std::pair<int, int>, uint64_t> g_pairs;
static uint64_t g_overlap_events = 0;

static void merge_logs(std::vector<OpRec>& all) {
  std::sort(all.begin(), all.end(), [](const OpRec& a, const OpRec& b) { return a.t0 < b.t0; });
  std::vector<OpRec> active;
  for (const OpRec& x : all) {
    size_t k = 0;
    for (size_t i = 0; i < active.size(); i++) if (active[i].t1 > x.t0) active[k++] = active[i];
    active.resize(k);
    for (const OpRec& y : active) {
      if (y.tid == x.tid || op_object(y.op) != op_object(x.op)) continue;
      int a = std::min<int>(x.op, y.op), b = std::max<int>(x.op, y.op);
      g_pairs[std::make_pair(a, b)]++;
      g_overlap_events++;
    }
    active.push_back(x);
  }
}

// -- main ----------------------------------------------------------------------------------------------------

static std::vector<int> parse_list(const std::string& s) {
  std::vector<int> out;
  size_t i = 0;
  while (i < s.size()) {
    size_t j = s.find(',', i);
    if (j == std::string::npos) j = s.size();
    out.push_back(atoi(s.substr(i, j - i).c_str()));
    i = j + 1;
  }
  return out;
}

int main(int argc, char** argv) {
  Args args(argc, argv);
  Config cfg;
  cfg.seed = args.u64("seed", 1);
  cfg.options = (uint32_t)args.u64("options", 0);
  cfg.rt_options = (uint32_t)args.u64("rt-options", 0);
  cfg.granularity = (uint32_t)args.u64("granularity", 0);
  cfg.block_size = (uint32_t)args.u64("block-size", 65536);
  cfg.profile = (int)args.u64("profile", 0);
  cfg.noise = (int)args.u64("noise", 2);
  cfg.max_live = args.u64("max-live", 24);
  cfg.max_fn = args.u64("max-fn", 8);
  std::vector<int> phases = parse_list(args.str("threads", "2,8,16"));
  size_t ops = args.u64("ops", 2000);
  size_t emit_threads = args.u64("emit-threads", 3);
  size_t emit_iters = args.u64("emit-iters", 60);
  size_t private_threads = args.u64("private-threads", 3);
  size_t private_iters = args.u64("private-iters", 40);
  size_t reader_threads = args.u64("reader-threads", 2);
  size_t sentinel_threads = args.u64("sentinel-threads", 2);
  cfg.fill_pattern = (uint32_t)args.u64("fill-pattern", 0);
  S.doomed_every = args.u64("doomed-every", 120);
  g_variants = args.u64("variants", 24);
  bool no_warmup = args.has("no-warmup");   // debugging aid only: shows what the precondition protects against

  {
    char b[200];
    snprintf(b, sizeof b, "{\"options\":%u,\"rt_options\":%u,\"granularity\":%u,\"block_size\":%u,\"profile\":%d,\"seed\":%llu}", cfg.options, cfg.rt_options, cfg.granularity, cfg.block_size, cfg.profile, (unsigned long long)cfg.seed);
    g_cfg_desc = b;
  }

  // 1. the property's precondition: host information is initialised before any thread is started
  uint64_t warm = 0;
  if (!no_warmup) {
    const CpuInfo& ci = CpuInfo::host();
    warm += ci.hw_thread_count();
    VirtMem::Info vi = VirtMem::info();
    warm += vi.page_size;
    warm += VirtMem::large_page_size();
    warm += uint64_t(VirtMem::hardened_runtime_info().flags);
    warm += uint64_t(Environment::host().arch());
    {
      JitAllocator plain;
      JitAllocator::Span s;
      S.default_pattern = plain.fill_pattern();
      if (plain.alloc(Out(s), 100) == Error::kOk) { warm += s.size(); plain.release(s.rx()); }
    }
    {
      JitAllocator::CreateParams p;
      p.options = JitAllocatorOptions::kUseDualMapping | JitAllocatorOptions::kFillUnusedMemory;
      JitAllocator dual(&p);
      JitAllocator::Span s;
      if (dual.alloc(Out(s), 100) == Error::kOk) { warm += s.size(); dual.release(s.rx()); }
    }
    {
      JitAllocator::CreateParams p;
      p.options = JitAllocatorOptions::kUseLargePages;
      JitAllocator large(&p);
      JitAllocator::Span s;
      if (large.alloc(Out(s), 100) == Error::kOk) { warm += s.size(); large.release(s.rx()); }
    }
  }

  // 2. single-threaded reference of every program
  size_t ref_ok = 0;
  for (int k = 0; k < E_KINDS; k++) {
    g_reference[k].resize(g_variants);
    for (uint64_t v = 0; v < g_variants; v++) {
      g_reference[k][v] = generate(k, v);
      ref_ok += g_reference[k][v].ok;
      // generation itself must be a function of (kind, variant): do it twice
      Generated again = generate(k, v);
      if (again.bytes != g_reference[k][v].bytes || again.text != g_reference[k][v].text) {
        fail(std::string("harness:reference-not-deterministic:") + kEmitNames[k], "two single-threaded generations of the same program differ");
      }
    }
  }

  // 3. shared objects
  JitAllocator::CreateParams ap;
  ap.options = JitAllocatorOptions(cfg.options);
  ap.granularity = cfg.granularity;
  ap.block_size = cfg.block_size;
  ap.fill_pattern = cfg.fill_pattern;
  JitAllocator::CreateParams rp;
  rp.options = JitAllocatorOptions(cfg.rt_options);
  rp.block_size = cfg.block_size;
  S.cfg = cfg;
  S.alloc = new JitAllocator(&ap);
  S.rt = new JitRuntime(&rp);
  S.gran = S.alloc->granularity();
  S.rt_gran = S.rt->allocator().granularity();
  S.block_size = S.alloc->block_size();
  S.fill = S.alloc->has_option(JitAllocatorOptions::kFillUnusedMemory);
  S.dual = S.alloc->has_option(JitAllocatorOptions::kUseDualMapping);
  S.imm = S.alloc->has_option(JitAllocatorOptions::kImmediateRelease);
  S.rt_imm = S.rt->allocator().has_option(JitAllocatorOptions::kImmediateRelease);
  S.pools = S.alloc->has_option(JitAllocatorOptions::kUseMultiplePools) ? 3 : 1;
  S.rt_pools = S.rt->allocator().has_option(JitAllocatorOptions::kUseMultiplePools) ? 3 : 1;
  // the pattern memory is compared with is the REQUESTED one, not the one the accessor reports
  if (no_warmup) { JitAllocator d; S.default_pattern = d.fill_pattern(); }
  S.pattern = (cfg.options & 0x10000000u) ? cfg.fill_pattern : S.default_pattern;
  if (S.alloc->fill_pattern() != S.pattern) {
    char b[160];
    snprintf(b, sizeof b, "fill_pattern() reports %08x, requested %08x (options %#x)", S.alloc->fill_pattern(), S.pattern, cfg.options);
    fail((cfg.options & 0x10000000u) ? "fill-pattern-accessor:custom-not-honoured" : "fill-pattern-accessor:not-default", b);
  }
  {
    // anchor: a function in the runtime's memory that stays for the whole run
    CodeHolder code;
    code.init(S.rt->environment(), S.rt->cpu_features());
    x86::Assembler a(&code);
    a.mov(x86::eax, 1);
    a.ret();
    if (S.rt->add(&S.anchor, &code) != Error::kOk) S.anchor = nullptr;
  }

  int max_threads = 0;
  for (int n : phases) max_threads = std::max(max_threads, n);
  std::vector<Worker*> workers;
  Rng seeder(cfg.seed * 0x9E3779B97F4A7C15ull + 11);
  for (int t = 0; t < max_threads; t++) workers.push_back(new Worker(t, seeder.next()));
  std::vector<Emitter*> emitters;
  for (size_t t = 0; t < emit_threads; t++) emitters.push_back(new Emitter(int(100 + t), seeder.next()));
  std::vector<Private*> privates;
  for (size_t t = 0; t < private_threads; t++) privates.push_back(new Private(int(150 + t), seeder.next()));
  std::vector<Reader*> readers;
  for (size_t t = 0; t < reader_threads; t++) readers.push_back(new Reader(int(200 + t), seeder.next()));
  std::vector<Sentinel*> sentinels;
  for (size_t t = 0; t < sentinel_threads; t++) sentinels.push_back(new Sentinel(int(t)));
  std::vector<OpRec> walker_log;
  Counters walker_c;

  std::string phase_json;
  for (size_t ph = 0; ph < phases.size() && !g_failed.load(); ph++) {
    int n = std::max(2, std::min(phases[ph], 64));
    std::atomic<int> ready {0};
    std::atomic<bool> go {false}, stop {false};
    std::vector<std::thread> th;
    uint64_t pt0 = now_ns();
    for (int t = 0; t < n; t++) {
      th.emplace_back([&, t]() {
        ready.fetch_add(1);
        while (!go.load()) sched_yield();
        workers[t]->run(ops);
      });
    }
    std::vector<std::thread> eth;
    for (size_t t = 0; t < emitters.size(); t++) {
      eth.emplace_back([&, t]() {
        while (!go.load()) sched_yield();
        emitters[t]->run(emit_iters);
      });
    }
    std::vector<std::thread> pth, rth, sth;
    for (size_t t = 0; t < privates.size(); t++) pth.emplace_back([&, t]() { while (!go.load()) sched_yield(); privates[t]->run(private_iters); });
    for (size_t t = 0; t < readers.size(); t++) rth.emplace_back([&, t]() { while (!go.load()) sched_yield(); readers[t]->run(stop); });
    for (size_t t = 0; t < sentinels.size(); t++) sth.emplace_back([&, t]() { while (!go.load()) sched_yield(); sentinels[t]->run(stop); });
    std::thread walker([&]() {
      Rng wr(cfg.seed + ph);
      while (!go.load()) sched_yield();
      while (!stop.load()) {
        char msg[400];
        size_t info[20];
        for (int which = 0; which < 2; which++) {
          uint64_t t0 = now_ns();
          int rc;
          { InAsmjit ia; rc = asmjit_verif_jitallocator_check(which ? (const void*)&S.rt->allocator() : (const void*)S.alloc, msg, sizeof msg, info); }
          uint64_t t1 = now_ns();
          walker_log.push_back({t0, t1, uint8_t(which ? R_H2 : O_H2), 255});
          walker_c.ops[which ? R_H2 : O_H2]++;
          g_h2_walks_concurrent++;
          if (rc) fail("h2-invariant-" + std::to_string(rc) + ":concurrent", std::string(which ? "runtime allocator" : "allocator") + " bookkeeping inconsistent while threads were running (walk done under the allocator's lock): " + msg);
        }
        timespec ts { 0, long(100000 + wr.below(900000)) };
        nanosleep(&ts, nullptr);
      }
    });
    while (ready.load() < n) sched_yield();
    g_concurrent.store(true);
    go.store(true);
    for (auto& t : th) t.join();
    for (auto& t : pth) t.join();          // readers, sentinels and the walker keep running while the private threads finish
    stop.store(true);
    walker.join();
    for (auto& t : rth) t.join();
    for (auto& t : sth) t.join();
    for (auto& t : eth) t.join();
    g_concurrent.store(false);
    uint64_t pt1 = now_ns();
    quiescent_check(workers, ("phase " + std::to_string(ph) + " with " + std::to_string(n) + " threads").c_str());
    {
      // overlap statistics of this phase (logs are thread-local buffers, merged after the joins)
      std::vector<OpRec> all;
      for (Worker* w : workers) { all.insert(all.end(), w->log.begin(), w->log.end()); w->log.clear(); }
      for (Reader* rd : readers) { all.insert(all.end(), rd->log.begin(), rd->log.end()); rd->log.clear(); }
      all.insert(all.end(), walker_log.begin(), walker_log.end());
      walker_log.clear();
      merge_logs(all);
    }
    char b[160];
    snprintf(b, sizeof b, "%s{\"threads\":%d,\"emit_threads\":%zu,\"ops_per_thread\":%zu,\"wall_ms\":%.1f}", ph ? "," : "", n, emitters.size(), ops, double(pt1 - pt0) / 1e6);
    phase_json += b;
  }

  // 4. drain: the owners give everything back (single-threaded), then nothing may be left
  if (!g_failed.load()) {
    for (Worker* w : workers) {
      while (!w->live.empty()) w->do_release(w->live.size() - 1);
      while (!w->fns.empty()) w->rt_release(w->fns.size() - 1);
    }
    while (!g_exchange.empty()) {
      workers[0]->live.push_back(std::move(g_exchange.back()));
      workers[0]->live_bytes += workers[0]->live.back().span.size();
      g_exchange.pop_back();
      workers[0]->do_release(workers[0]->live.size() - 1);
    }
    if (S.anchor) { if (S.rt->_release(S.anchor) != Error::kOk) fail("rt-release-failed", "release of the anchor function failed"); S.anchor = nullptr; }
    quiescent_check(workers, "after drain");
    if (!g_rx.s.empty() || !g_rw.s.empty()) fail("harness:interval-set-not-empty", "the harness interval set is not empty after the drain");
  }

  // 5. every allocator is destroyed: nothing AsmJit mapped may still be mapped
  for (Worker* w : workers) { w->live.clear(); w->fns.clear(); }
  delete S.rt; S.rt = nullptr;
  delete S.alloc; S.alloc = nullptr;
  uint64_t leaked_regions = 0, leaked_bytes = 0;
  int maps_tracked = 0;
#if defined(VERIF_TRACK_MAPS)
  maps_tracked = 1;
  {
    std::lock_guard<std::mutex> g(g_map_mutex);
    for (auto& kv : g_maps) { leaked_regions++; leaked_bytes += kv.second; }
  }
  if (leaked_regions && !g_failed.load()) {
    char b[240];
    snprintf(b, sizeof b, "every JitAllocator / JitRuntime of the process is destroyed, but %llu region(s) with %llu bytes that AsmJit mapped were never unmapped",
             (unsigned long long)leaked_regions, (unsigned long long)leaked_bytes);
    fail("address-space:mappings-leaked", b);
  }
#endif

  // 6. summary
  Counters tot;
  for (Worker* w : workers) {
    for (int k = 0; k < OP_COUNT; k++) tot.ops[k] += w->c.ops[k];
    tot.bytes_verified += w->c.bytes_verified; tot.fill_checked += w->c.fill_checked; tot.fn_calls += w->c.fn_calls;
    tot.exchanged += w->c.exchanged; tot.yields += w->c.yields; tot.sleeps += w->c.sleeps;
    tot.rt_near_call_adds += w->c.rt_near_call_adds; tot.rt_real_shrinks += w->c.rt_real_shrinks;
    tot.doomed_allocs += w->c.doomed_allocs; tot.doomed_refused += w->c.doomed_refused; tot.doomed_served += w->c.doomed_served; tot.doomed_adds += w->c.doomed_adds;
  }
  for (int k = 0; k < OP_COUNT; k++) tot.ops[k] += walker_c.ops[k];
  for (Emitter* e : emitters) {
    for (int k = 0; k < E_KINDS; k++) tot.emit[k] += e->c.emit[k];
    tot.emit_log_compared += e->c.emit_log_compared;
    tot.emit_validated += e->c.emit_validated; tot.emit_api_probes += e->c.emit_api_probes; tot.emit_with_features += e->c.emit_with_features;
    tot.emit_multi_section += e->c.emit_multi_section; tot.emit_const_pool += e->c.emit_const_pool;
  }
  uint64_t pv[8] {}, rd[3] {}, sentinel_rounds = 0;
  for (Private* x : privates) { pv[0] += x->allocators; pv[1] += x->runtimes; pv[2] += x->allocs; pv[3] += x->dual_allocs; pv[4] += x->blocks_cycled; pv[5] += x->adds_compared; pv[6] += x->compiled_calls; pv[7] += x->bytes_verified; }
  for (Reader* x : readers) { rd[0] += x->queries; rd[1] += x->query_hits; rd[2] += x->stats; }
  for (Sentinel* x : sentinels) sentinel_rounds += x->rounds;

  uint64_t lock_acq = 0;
  int lock_counted = 0;
#if defined(VERIF_COUNT_LOCKS)
  lock_acq = g_lock_acquisitions.load();
  lock_counted = 1;
#endif

  std::string out = "{\"violations\":[";
  for (size_t i = 0; i < g_viol.size(); i++) {
    out += (i ? "," : "");
    out += "{\"key\":" + jstr(g_viol[i].key) + ",\"what\":" + jstr(g_viol[i].what) + "}";
  }
  out += "],\"phases\":[" + phase_json + "],\"ops\":{";
  for (int k = 0; k < OP_COUNT; k++) { out += (k ? "," : ""); out += "\"" + std::string(kOpNames[k]) + "\":" + std::to_string(tot.ops[k]); }
  out += "},\"emit\":{";
  for (int k = 0; k < E_KINDS; k++) { out += (k ? "," : ""); out += "\"" + std::string(kEmitNames[k]) + "\":" + std::to_string(tot.emit[k]); }
  out += "},\"pairs\":{";
  { bool first = true; for (auto& kv : g_pairs) { out += first ? "" : ","; first = false; out += "\"" + std::string(kOpNames[kv.first.first]) + "|" + kOpNames[kv.first.second] + "\":" + std::to_string(kv.second); } }
  out += "}";
  auto num = [&](const char* k, uint64_t v) { out += ",\"" + std::string(k) + "\":" + std::to_string(v); };
  num("overlap_events", g_overlap_events);
  num("emit_log_compared", tot.emit_log_compared);
  num("reference_programs", uint64_t(E_KINDS) * g_variants);
  num("reference_programs_ok", ref_ok);
  num("bytes_verified", tot.bytes_verified);
  num("fill_checked", tot.fill_checked);
  num("fn_calls", tot.fn_calls);
  num("handovers", tot.exchanged);
  num("yields", tot.yields);
  num("sleeps", tot.sleeps);
  num("h2_walks_quiescent", g_h2_walks);
  num("h2_walks_concurrent", g_h2_walks_concurrent);
  num("quiescent_checks", g_quiescent_checks);
  num("interval_checks", g_rx.checks + g_rw.checks);
  num("max_blocks", g_max_blocks);
  num("max_live", g_max_live);
  num("lock_acquisitions", lock_acq);
  num("lock_counted", lock_counted);
  num("warm", warm != 0);
  num("private_allocators", pv[0]); num("private_runtimes", pv[1]); num("private_allocs", pv[2]); num("private_dual_allocs", pv[3]);
  num("private_blocks_cycled", pv[4]); num("private_adds_compared", pv[5]); num("private_compiled_calls", pv[6]); num("private_bytes_verified", pv[7]);
  num("reader_queries", rd[0]); num("reader_query_hits", rd[1]); num("reader_statistics", rd[2]);
  num("sentinel_rounds", sentinel_rounds);
  num("closes_seen", g_closes_seen.load()); num("closes_seen_concurrent", g_closes_seen_concurrent.load());
  num("maps_tracked", maps_tracked); num("maps_made", g_maps_made.load()); num("unmaps_made", g_unmaps_made.load());
  num("rt_near_call_adds", tot.rt_near_call_adds); num("rt_real_shrinks", tot.rt_real_shrinks);
  num("emit_validated", tot.emit_validated); num("emit_api_probes", tot.emit_api_probes); num("emit_with_host_features", tot.emit_with_features);
  num("emit_multi_section", tot.emit_multi_section); num("emit_const_pool", tot.emit_const_pool);
  num("empty_policy_checks", g_empty_policy_checks);
  num("doomed_allocs", tot.doomed_allocs); num("doomed_adds", tot.doomed_adds); num("doomed_calls_refused", tot.doomed_refused); num("doomed_served_from_mapped_memory", tot.doomed_served);
  num("refused_block_mappings", g_refused_maps.load()); num("refused_block_mappings_with_2_other_threads_inside", g_refused_maps_contended.load());
  num("custom_pattern", (cfg.options & 0x10000000u) ? 1 : 0);
  num("intervals_enabled",
#if defined(__SANITIZE_THREAD__)
      0
#else
      1
#endif
  );
  out += "}";
  printf("%s\n", out.c_str());
  fflush(stdout);

  for (Worker* w : workers) delete w;
  for (Emitter* e : emitters) delete e;
  for (Private* x : privates) delete x;
  for (Reader* x : readers) delete x;
  for (Sentinel* x : sentinels) delete x;
  return 0;
}
