// C14 driver: arbitrary (instruction id, options, extra register, operands) tuples handed to an x86 emitter through
// the public API; records for every call what changed. Probe programs are emitted between batches and compared
// with a fresh emitter at the end.
//
// case line: <id> <arch> <inst-name|#id> <opts-hex> <extra|-> <nops> <op>...
// operand tokens: R:<rtype>:<id>  Rn:<regtype-number>:<id>  I:<int>  L:0 (bound here) L:1 (new, unbound) Lraw:<id>  N (none)
//                 M:size:basetype:baseid:indextype:indexid:shift:disp:seg:bcst:addr[:home]   basetype may be label|labelraw|none|<rtype>|#<n>
//                 (home = 1: Mem::set_reg_home(), the base names the home slot of a virtual register)
// register ids >= 256 are virtual-range ids: the Compiler job creates kRealVirt real virtual registers first (ids 256..), every other
// virtual-range id names no register.
//
// options: --emitter asm|builder|compiler  --handler return|throw|none  --handler-on holder|emitter  --validate 1|0 (asm only)
//          --reattach N   every N cases the emitter leaves its CodeHolder (detach / reset / destruction in turn), is asked to emit while
//                         detached (must refuse with kNotInitialized and tell its own handler) and is attached to a fresh holder
//          --pass2 1      Builder/Compiler: a second emitter gets ONLY the lines that failed, then the probe, and is finalized: its code
//                         must equal a fresh emitter's (failed calls leave nothing that changes later output)
//          --settings N   "settings events after attach": right after every attach, and at random points of the call stream (one case in N,
//                         side random stream --settings-seed), a burst of set_logger(on/off) on the CodeHolder and on the emitter,
//                         set_error_handler on the CodeHolder (off/on, or a foreign handler when the emitter owns one), and
//                         clear_diagnostic_options + add_diagnostic_options (with other events in between) in random order; the state the
//                         oracles rely on (handler in charge, validation) is the same before and after a burst
//          --iso N        Builder/Compiler, x86-32: an accepted line that asks for a REX prefix runs alone, finalize must refuse it;  Compiler: up to N accepted lines that mention a virtual-range id run alone in a fresh function that is
//                         finalized; a non-existent virtual id must make finalize fail and report exactly once
#include <asmjit/core.h>
#include <asmjit/x86.h>
#include "vcommon.h"
#include <iostream>
#include <sstream>
#include <fstream>
#include <memory>

using namespace asmjit;

struct Handler : public ErrorHandler {
  int calls = 0;
  Error last = Error::kOk;
  bool do_throw = false;
  void handle_error(Error err, const char*, BaseEmitter*) override {
    calls++; last = err;
    if (do_throw) throw int(err);
  }
};

static RegType reg_type_of(const std::string& s) {
  if (!s.empty() && s[0] == '#') return RegType(strtoul(s.c_str() + 1, nullptr, 0) & 31);
  if (s == "gp8lo") return RegType::kGp8Lo;
  if (s == "gp8hi") return RegType::kGp8Hi;
  if (s == "gp16") return RegType::kGp16;
  if (s == "gp32") return RegType::kGp32;
  if (s == "gp64") return RegType::kGp64;
  if (s == "xmm") return RegType::kVec128;
  if (s == "ymm") return RegType::kVec256;
  if (s == "zmm") return RegType::kVec512;
  if (s == "mm") return RegType::kX86_Mm;
  if (s == "k") return RegType::kMask;
  if (s == "sreg") return RegType::kSegment;
  if (s == "creg") return RegType::kControl;
  if (s == "dreg") return RegType::kDebug;
  if (s == "st") return RegType::kX86_St;
  if (s == "bnd") return RegType::kX86_Bnd;
  if (s == "tmm") return RegType::kTile;
  if (s == "rip") return RegType::kPC;
  return RegType::kNone;
}

static std::vector<std::string> split(const std::string& s, char c) {
  std::vector<std::string> o; std::string cur;
  for (char ch : s) { if (ch == c) { o.push_back(cur); cur.clear(); } else cur += ch; }
  o.push_back(cur);
  return o;
}

static size_t count_nodes(BaseBuilder* b) {
  size_t n = 0;
  for (BaseNode* node = b->first_node(); node; node = node->next()) n++;
  return n;
}

// A fixed valid program; returns its bytes (assembler) - used to see whether failures left residue.
template<typename E>
static void emit_probe(E& e) {
  e.mov(x86::eax, 1);
  e.add(x86::eax, x86::ecx);
  e.vaddps(x86::xmm1, x86::xmm2, x86::xmm3);
  Label l = e.new_label();
  e.bind(l);
  e.dec(x86::ecx);
  e.jnz(l);
  e.lea(x86::edx, x86::ptr(x86::eax, x86::ecx, 2, 16));
  e.ret();
}

static const uint32_t kRealVirt = 4;     // gp32, gp64, xmm, k (vlib/props/c14.py: REAL_VIRT)

// One emitter with its CodeHolder and handler.
struct Ctx {
  Environment env;
  std::string emitter, handler;
  bool own = false, validate = true;
  std::unique_ptr<CodeHolder> code;
  Handler eh;
  x86::Assembler a;
  x86::Builder b;
  x86::Compiler c;
  BaseEmitter* e = nullptr;
  BaseBuilder* bb = nullptr;
  uint32_t real_virt[kRealVirt] = {};
  uint32_t real_virt_count = 0;
  StringLogger hlog, elog;
  Handler foreign;                         // a handler that is never in charge (set on the holder while the emitter owns one)
  size_t settings_events = 0, settings_bursts = 0;
  bool holder_logger_on = false, emitter_logger_on = false;

  Ctx(const Environment& env_, const std::string& emitter_, const std::string& handler_, bool own_, bool validate_)
    : env(env_), emitter(emitter_), handler(handler_), own(own_), validate(validate_) {
    eh.do_throw = handler == "throw";
    e = emitter == "asm" ? (BaseEmitter*)&a : emitter == "builder" ? (BaseEmitter*)&b : (BaseEmitter*)&c;
    bb = emitter == "asm" ? nullptr : static_cast<BaseBuilder*>(e);
    if (own && handler != "none") e->set_error_handler(&eh);
    attach_fresh();
  }

  // a fresh CodeHolder; the emitter must be detached
  void attach_fresh() {
    code.reset(new CodeHolder());
    code->init(env);
    holder_logger_on = false;
    if (!own && handler != "none") code->set_error_handler(&eh);
    code->attach(e);
    if (emitter == "asm") { if (validate) a.add_diagnostic_options(DiagnosticOptions::kValidateAssembler); }
    else e->add_diagnostic_options(DiagnosticOptions::kValidateIntermediate);
    real_virt_count = 0;
    if (emitter == "compiler") {
      c.add_func(FuncSignature::build<void>());
      x86::Gp v0 = c.new_gp32("v0"), v1 = c.new_gp_ptr("v1"); x86::Vec v2 = c.new_xmm("v2"); x86::KReg v3 = c.new_kq("v3");
      real_virt[0] = v0.id(); real_virt[1] = v1.id(); real_virt[2] = v2.id(); real_virt[3] = v3.id();
      real_virt_count = kRealVirt;
    }
    eh.calls = 0;
  }

  DiagnosticOptions diag() const {
    if (emitter == "asm") return validate ? DiagnosticOptions::kValidateAssembler : DiagnosticOptions::kNone;
    return DiagnosticOptions::kValidateIntermediate;
  }

  // A burst of settings events on the attached emitter. Every event ends in CodeHolder / BaseEmitter recomputing what it caches
  // (BaseEmitter::on_settings_updated, the forced instruction options); handler in charge and validation are restored at the end.
  void settings_burst(Rng& r) {
    settings_bursts++;
    size_t n = 2 + r.below(5);
    bool diag_off = false;
    for (size_t i = 0; i < n; i++) {
      settings_events++;
      switch (r.below(diag_off ? 5 : 4)) {
        case 0: holder_logger_on = r.below(3) == 0; code->set_logger(holder_logger_on ? &hlog : nullptr); break;
        case 1: emitter_logger_on = r.below(3) == 0; e->set_logger(emitter_logger_on ? &elog : nullptr); break;
        case 2:
          if (own || handler == "none") code->set_error_handler(r.below(2) ? &foreign : nullptr);     // never in charge: the emitter owns one / nobody listens
          else { code->set_error_handler(nullptr); code->set_error_handler(&eh); }
          break;
        case 3:
          if (!diag_off) { e->clear_diagnostic_options(diag()); diag_off = uint32_t(diag()) != 0; if (!diag_off) e->add_diagnostic_options(diag()); }
          else { e->add_diagnostic_options(diag()); diag_off = false; }
          break;
        default: e->add_diagnostic_options(diag()); diag_off = false; break;
      }
    }
    if (diag_off) e->add_diagnostic_options(diag());
    if (handler == "none" && !own) code->set_error_handler(nullptr);
    hlog.clear(); elog.clear();
  }

  bool is_real_virt(uint32_t id) const { for (uint32_t i = 0; i < real_virt_count; i++) if (real_virt[i] == id) return true; return false; }
};

struct Case {
  std::string id, name;
  InstId inst_id = 0;
  Operand ops[6];
  int nops = 0;
  uint32_t opts = 0;
  bool has_extra = false; Reg extra;
  bool bad = false;
  bool virt = false, ghost_virt = false;     // mentions a virtual-range id / one that names no virtual register
  // ... in an operand the validator looks at: a register / address register of a defined type, not behind a gap in the operand list
  bool lead_ghost = false, lead_invalid_id = false;
  bool gap = false;
  bool rex32 = false;                        // x86-32 and the options ask for a REX prefix (rex() or one of REX.B/X/R/W): never encodable
};

static void note_id(Ctx& X, Case& C, uint32_t id, bool defined_type = false) {
  if (id >= Operand::kVirtIdMin) {
    C.virt = true;
    if (!X.is_real_virt(id)) {
      C.ghost_virt = true;
      if (defined_type && !C.gap) { C.lead_ghost = true; if (id == Globals::kInvalidId) C.lead_invalid_id = true; }
    }
  }
}

// parses the case line; label operands create (and bind) labels on X's emitter
static void parse_case(Ctx& X, const std::string& line, Case& C) {
  std::istringstream ss(line);
  std::string arch_tok, opts_s, extra_s;
  ss >> C.id >> arch_tok >> C.name >> opts_s >> extra_s >> C.nops;
  BaseEmitter* e = X.e;
  if (C.name[0] == '#') C.inst_id = (InstId)strtoul(C.name.c_str() + 1, nullptr, 0);
  else C.inst_id = InstAPI::string_to_inst_id(X.env.arch(), C.name.c_str(), C.name.size());
  Label self_label;
  for (int i = 0; i < C.nops && i < 6; i++) {
    std::string tok; ss >> tok;
    std::vector<std::string> p = split(tok, ':');
    if (p[0] == "R") { uint32_t id = (uint32_t)strtoul(p[2].c_str(), nullptr, 0); note_id(X, C, id, true); C.ops[i] = Reg::from_type_and_id(reg_type_of(p[1]), id); }
    else if (p[0] == "Rn") { uint32_t id = (uint32_t)strtoul(p[2].c_str(), nullptr, 0); note_id(X, C, id); C.gap = true; C.ops[i] = Reg::from_type_and_id(RegType(strtoul(p[1].c_str(), nullptr, 0) & 31), id); }
    else if (p[0] == "I") C.ops[i] = Imm((int64_t)strtoll(p[1].c_str(), nullptr, 0));
    else if (p[0] == "N") { C.ops[i] = Operand(); C.gap = true; }
    else if (p[0] == "Lraw") C.ops[i] = Label((uint32_t)strtoul(p[1].c_str(), nullptr, 0));
    else if (p[0] == "L") {
      if (atoi(p[1].c_str()) == 0) { if (!self_label.is_valid()) { self_label = e->new_label(); e->bind(self_label); } C.ops[i] = self_label; }
      else C.ops[i] = e->new_label();
    }
    else if (p[0] == "M" && p.size() >= 11) {
      uint32_t size = (uint32_t)strtoul(p[1].c_str(), nullptr, 0);
      std::string bt = p[2]; uint32_t bid = (uint32_t)strtoul(p[3].c_str(), nullptr, 0);
      std::string it = p[4]; uint32_t iid = (uint32_t)strtoul(p[5].c_str(), nullptr, 0);
      uint32_t shift = (uint32_t)strtoul(p[6].c_str(), nullptr, 0) & 3;
      int64_t disp = strtoll(p[7].c_str(), nullptr, 0);
      uint32_t seg = (uint32_t)strtoul(p[8].c_str(), nullptr, 0) & 7;
      uint32_t bcst = (uint32_t)strtoul(p[9].c_str(), nullptr, 0) & 7;
      std::string addr = p[10];
      bool home = p.size() >= 12 && p[11] == "1";
      x86::Mem m;
      bool has_index = it != "none";
      Reg idx = has_index ? Reg::from_type_and_id(reg_type_of(it), iid) : Reg();
      if (has_index) note_id(X, C, iid, it[0] != '#');
      if (bt == "none") m = has_index ? x86::Mem(uint64_t(disp), idx, shift, size) : x86::Mem(uint64_t(disp), size);
      else if (bt == "label" || bt == "labelraw") {
        Label l;
        if (bt == "labelraw") l = Label(bid);
        else { if (!self_label.is_valid()) { self_label = e->new_label(); e->bind(self_label); } l = self_label; }
        m = has_index ? x86::Mem(l, idx, shift, int32_t(disp), size) : x86::Mem(l, int32_t(disp), size);
      }
      else {
        note_id(X, C, bid, bt[0] != '#');
        Reg base = Reg::from_type_and_id(reg_type_of(bt), bid);
        m = has_index ? x86::Mem(base, idx, shift, int32_t(disp), size) : x86::Mem(base, int32_t(disp), size);
      }
      if (seg) m.set_segment(seg);
      if (bcst) m.set_broadcast(x86::Mem::Broadcast(bcst));
      if (addr == "abs") m.set_addr_abs(); else if (addr == "rel") m.set_addr_rel();
      if (home) m.set_reg_home();
      C.ops[i] = m;
    }
    else C.bad = true;
  }
  C.opts = (uint32_t)strtoul(opts_s.c_str(), nullptr, 16);
  C.rex32 = X.env.arch() == Arch::kX86 && (C.opts & 0x4F000000u) != 0;
  if (extra_s != "-") {
    std::vector<std::string> p = split(extra_s, ':');
    uint32_t id = (uint32_t)strtoul(p[1].c_str(), nullptr, 0);
    note_id(X, C, id);
    C.extra = Reg::from_type_and_id(reg_type_of(p[0]), id); C.has_extra = true;
  }
}

static void arm_oneshot(Ctx& X, const Case& C, size_t ncase) {
  if (C.has_extra) X.e->set_extra_reg(C.extra);
  X.e->set_inst_options(InstOptions(C.opts));
  if (ncase % 7 == 3) X.e->set_inline_comment("c14");
}

static Error guarded_emit(Ctx& X, const Case& C, bool& threw) {
  threw = false;
  if (C.bad) return Error::kInvalidArgument;
  try { return X.e->emit_op_array(C.inst_id, C.ops, (size_t)C.nops); }
  catch (int ex) { threw = true; return Error(ex); }
}

static bool clear_oneshot(BaseEmitter* e) {
  bool left = uint32_t(e->inst_options()) != 0 || e->extra_reg().is_reg() || e->inline_comment() != nullptr;
  if (left) { e->reset_inst_options(); e->reset_extra_reg(); e->reset_inline_comment(); }
  return left;
}

template<typename F> static Error guarded_call(F&& f, bool& threw) {
  threw = false;
  try { return f(); } catch (int ex) { threw = true; return Error(ex); }
}

static std::string text_hex(CodeHolder& code) {
  Section* text = code.text_section();
  return hexstr(text->data(), text->buffer_size());
}

int main(int argc, char** argv) {
  Args args(argc, argv);
  std::string in = args.str("cases", "-");
  std::string emitter = args.str("emitter", "asm");
  std::string handler = args.str("handler", "return");
  std::string arch_s = args.str("arch", "x64");
  Arch arch = arch_s == "x64" ? Arch::kX64 : Arch::kX86;
  size_t probe_every = args.u64("probe-every", 256);
  bool own = args.str("handler-on", "holder") == "emitter";
  bool validate = args.u64("validate", 1) != 0;
  size_t reattach = args.u64("reattach", 0);
  bool pass2 = args.u64("pass2", 0) != 0;
  size_t iso_max = args.u64("iso", 0);
  size_t settings = args.u64("settings", 0);
  Rng srng(args.u64("settings-seed", 1) * 0x9E3779B97F4A7C15ull + 77);

  Environment env(arch);
  Ctx X(env, emitter, handler, own, validate);
  if (settings) X.settings_burst(srng);
  BaseEmitter* e = X.e;
  BaseBuilder* bb = X.bb;
  x86::Assembler& a = X.a;

  std::istream* is = &std::cin;
  std::ifstream f;
  if (in != "-") { f.open(in); is = &f; }
  std::string line;
  std::string out;
  size_t ncase = 0;
  std::vector<std::string> probe_bytes;   // probes emitted on the used assembler (asm mode only)
  std::vector<std::pair<size_t, std::string>> failed_lines, iso_lines;      // (case number, line)
  size_t reattaches = 0, detached_calls = 0;
  std::vector<std::string> detached_viol;

  while (std::getline(*is, line)) {
    if (line.empty()) continue;
    if (settings && srng.below(settings) == 0) X.settings_burst(srng);
    CodeHolder& code = *X.code;
    Case C;
    parse_case(X, line, C);
    arm_oneshot(X, C, ncase);
    if (X.hlog.data_size() > (1u << 20)) X.hlog.clear();
    if (X.elog.data_size() > (1u << 20)) X.elog.clear();

    size_t off0 = bb ? 0 : a.offset();
    uint64_t hash0 = bb ? 0 : fnv1a(a.buffer_data(), a.offset());
    size_t labels0 = code.label_count();
    size_t fix0 = code.unresolved_fixup_count();
    size_t rel0 = code.reloc_entries().size();
    size_t sec0 = code.section_count();
    size_t nodes0 = bb ? count_nodes(bb) : 0;
    BaseNode* cursor0 = bb ? bb->cursor() : nullptr;
    X.eh.calls = 0;
    bool threw = false;
    Error err = guarded_emit(X, C, threw);
    size_t off1 = bb ? 0 : a.offset();
    bool prefix_changed = !bb && err != Error::kOk && fnv1a(a.buffer_data(), off0) != hash0;
    bool oneshot_left = clear_oneshot(e);
    bool cursor_moved = bb && err != Error::kOk && bb->cursor() != cursor0;

    char head[480];
    snprintf(head, sizeof head, "{\"id\":%s,\"err\":%u,\"h\":%d,\"threw\":%d,\"oneshot\":%d,\"db\":%ld,\"dl\":%ld,\"df\":%ld,\"dr\":%ld,\"ds\":%ld,\"dn\":%ld,\"pc\":%d,\"cur\":%d,\"virt\":%d,\"ev\":%zu,\"fh\":%d,\"bytes\":\"",
             C.id.c_str(), unsigned(err), X.eh.calls, int(threw), int(oneshot_left), long(off1) - long(off0),
             long(code.label_count()) - long(labels0), long(code.unresolved_fixup_count()) - long(fix0),
             long(code.reloc_entries().size()) - long(rel0), long(code.section_count()) - long(sec0),
             bb ? long(count_nodes(bb)) - long(nodes0) : 0L, int(prefix_changed), int(cursor_moved), C.ghost_virt ? 2 : C.virt ? 1 : 0, X.settings_events, X.foreign.calls);
    X.foreign.calls = 0;
    out += head;
    if (!bb && off1 > off0) out += hexstr(a.buffer_data() + off0, off1 - off0);
    out += "\"}\n";
    if (err != Error::kOk && !C.bad && failed_lines.size() < 6000) failed_lines.push_back({ncase, line});
    if (err == Error::kOk && bb && ((C.virt && emitter == "compiler") || C.rex32) && iso_lines.size() < iso_max) iso_lines.push_back({ncase, line});
    ncase++;

    if (!bb && ncase % probe_every == 0) {
      size_t p0 = a.offset();
      emit_probe(a);
      probe_bytes.push_back(hexstr(a.buffer_data() + p0, a.offset() - p0));
    }

    if (reattach && ncase % reattach == 0) {
      // the emitter leaves its holder (three ways in turn), is used while detached, and goes on with a fresh holder
      switch (reattaches % 3) {
        case 0: X.code->detach(e); break;
        case 1: X.code->reset(ResetPolicy::kHard); break;
        default: X.code.reset(); break;
      }
      reattaches++;
      X.eh.calls = 0;
      bool t2 = false;
      Error de = guarded_call([&] { return e->emit(x86::Inst::kIdMov, x86::eax, x86::ebx); }, t2);
      detached_calls++;
      int want = (own && handler != "none") ? 1 : 0;
      char db[200];
      if (de != Error::kNotInitialized) { snprintf(db, sizeof db, "emit on the detached emitter returned %u (expected kNotInitialized)", unsigned(de)); detached_viol.push_back(std::string("detached-call-result|") + db); }
      if (X.eh.calls != want && (emitter == "asm" || X.eh.calls > want)) {
        snprintf(db, sizeof db, "emit on the detached emitter (error %u) called the %s handler %d times, expected %d", unsigned(de), own ? "emitter's own" : "former holder's", X.eh.calls, want);
        detached_viol.push_back(std::string(X.eh.calls > want ? "detached-call-stale-handler|" : "detached-call-handler-not-called|") + db);
      }
      if (want && handler == "throw" && X.eh.calls && !t2) detached_viol.push_back("detached-call-exception-swallowed|the own handler threw but emit returned normally");
      X.attach_fresh();
      if (settings) X.settings_burst(srng);
    }
    if (out.size() > (1 << 20)) { fwrite(out.data(), 1, out.size(), stdout); out.clear(); }
  }
  fwrite(out.data(), 1, out.size(), stdout);

  // final probe: used emitter vs a fresh one
  std::string used, fresh;
  Error fin = Error::kOk;
  if (!bb) {
    size_t p0 = a.offset();
    emit_probe(a);
    used = hexstr(a.buffer_data() + p0, a.offset() - p0);
  }
  else {
    // Builder/Compiler: the probe is appended and everything is finalized; only the tail is compared.
    if (emitter == "compiler") { emit_probe(X.c); X.c.end_func(); try { fin = X.c.finalize(); } catch (int ex) { fin = Error(ex); } }
    else { emit_probe(X.b); try { fin = X.b.finalize(); } catch (int ex) { fin = Error(ex); } }
  }
  {
    CodeHolder code2; code2.init(env);
    x86::Assembler a2(&code2);
    a2.add_diagnostic_options(DiagnosticOptions::kValidateAssembler);
    emit_probe(a2);
    fresh = hexstr(a2.buffer_data(), a2.offset());
  }
  bool mid_ok = true;
  for (auto& pb : probe_bytes) if (pb != fresh) mid_ok = false;
  std::string tail;
  if (bb && fin == Error::kOk) {
    Section* text = X.code->text_section();
    size_t n = text->buffer_size();
    size_t fl = fresh.size() / 2;
    if (n >= fl) tail = hexstr(text->data() + (n - fl), fl);
  }

  // ---- pass 2 (Builder / Compiler): only the lines that failed, then the probe, finalized; vs a fresh emitter of the same kind
  std::string p2_used, p2_fresh;
  size_t p2_lines = 0, p2_accepted = 0, p2_nodes_left = 0;
  int p2_fin = -1, p2_fresh_fin = -1;
  if (bb && pass2) {
    Ctx Y(env, emitter, handler, own, validate);
    auto other_nodes = [&]() { size_t n = 0; for (BaseNode* nd = Y.bb->first_node(); nd; nd = nd->next()) if (!nd->is_label()) n++; return n; };
    size_t base_nodes = other_nodes();      // (the harness' own label nodes - L:0 binds a label before the call - are not residue)
    for (auto& fl : failed_lines) {
      Case C; parse_case(Y, fl.second, C);
      arm_oneshot(Y, C, fl.first);
      size_t n0 = count_nodes(Y.bb);
      bool t = false;
      Error err = guarded_emit(Y, C, t);
      clear_oneshot(Y.e);
      p2_lines++;
      if (err == Error::kOk) { p2_accepted++; if (count_nodes(Y.bb) == n0 + 1) Y.bb->remove_node(Y.bb->cursor()); }
    }
    p2_nodes_left = other_nodes() - base_nodes;
    bool t = false;
    if (emitter == "compiler") { emit_probe(Y.c); Y.c.end_func(); p2_fin = int(guarded_call([&] { return Y.c.finalize(); }, t)); }
    else { emit_probe(Y.b); p2_fin = int(guarded_call([&] { return Y.b.finalize(); }, t)); }
    if (p2_fin == 0) p2_used = text_hex(*Y.code);
    Ctx Z(env, emitter, "return", false, validate);
    if (emitter == "compiler") { emit_probe(Z.c); Z.c.end_func(); p2_fresh_fin = int(Z.c.finalize()); }
    else { emit_probe(Z.b); p2_fresh_fin = int(Z.b.finalize()); }
    if (p2_fresh_fin == 0) p2_fresh = text_hex(*Z.code);
  }

  // ---- isolated finalize (Builder / Compiler): one accepted line alone in a fresh emitter that is finalized.
  //      Compiler, virtual-range id: a non-existent id must make finalize fail.  x86-32, REX request: finalize either refuses it or the
  //      request is dropped - the code must then equal that of a twin that got the same line WITHOUT the REX option bits.
  std::string iso_json = "[";
  size_t iso_runs = 0, iso_ghost = 0, iso_refused = 0;
  size_t iso_rex32 = 0, iso_rex32_refused = 0, iso_rex32_dropped = 0;
  auto iso_run = [&](const std::pair<size_t, std::string>& il, uint32_t drop_opts, bool with_events, Case& C, Error& err, Error& fe, bool& t, int& calls, std::string& text) {
    Ctx Y(env, emitter, handler, own, validate);
    if (with_events) Y.settings_burst(srng);
    if (emitter == "compiler") Y.c.mov(x86::Gp::make_r32(Y.real_virt[0]), 1);
    else Y.b.mov(x86::eax, 1);
    parse_case(Y, il.second, C);
    C.opts &= ~drop_opts;
    arm_oneshot(Y, C, il.first);
    err = guarded_emit(Y, C, t);
    clear_oneshot(Y.e);
    if (err != Error::kOk) return;                  // (context dependent: not accepted this time)
    if (emitter == "compiler") { Y.c.add(x86::Gp::make_r32(Y.real_virt[0]), x86::Gp::make_r32(Y.real_virt[0])); Y.c.end_func(); }
    else Y.b.add(x86::eax, x86::eax);
    Y.eh.calls = 0;
    fe = guarded_call([&] { return Y.e->finalize(); }, t);
    calls = Y.eh.calls;
    if (fe == Error::kOk) text = text_hex(*Y.code);
  };
  for (auto& il : iso_lines) {
    Case C; Error err = Error::kOk, fe = Error::kOk; bool t = false; int calls = 0; std::string text;
    iso_run(il, 0, settings && srng.below(2), C, err, fe, t, calls, text);
    if (err != Error::kOk) continue;
    iso_runs++;
    if (C.lead_ghost) iso_ghost++;
    if (fe != Error::kOk) iso_refused++;
    const char* problem = nullptr;
    if (C.rex32) {
      iso_rex32++;
      if (fe != Error::kOk) iso_rex32_refused++;
      else {
        Case C2; Error err2 = Error::kOk, fe2 = Error::kOk; bool t2 = false; int calls2 = 0; std::string text2;
        iso_run(il, 0x4F000000u, false, C2, err2, fe2, t2, calls2, text2);
        if (err2 == Error::kOk && fe2 == Error::kOk && text2 != text) problem = "never-refused:rex-in-32-bit-mode";
        else iso_rex32_dropped++;
      }
    }
    if (problem) {}
    else if (C.lead_ghost && fe == Error::kOk) problem = C.lead_invalid_id ? "never-refused:id-0xffffffff" : "never-refused:virtual-id";
    else if (fe != Error::kOk && handler != "none" && calls == 0) problem = "finalize-handler-not-called";
    else if (fe != Error::kOk && handler != "none" && calls != 1) problem = "finalize-handler-called-more-than-once";
    else if (fe != Error::kOk && handler == "throw" && !t) problem = "finalize-exception-swallowed";
    if (problem) {
      char b2[200]; snprintf(b2, sizeof b2, "%s{\"case\":%zu,\"problem\":\"%s\",\"fin\":%u,\"h\":%d,\"ghost\":%d}", iso_json.size() > 1 ? "," : "", il.first, problem, unsigned(fe), calls, int(C.lead_ghost));
      iso_json += b2;
    }
  }
  iso_json += "]";

  std::string dv = "[";
  for (size_t i = 0; i < detached_viol.size() && i < 8; i++) { if (i) dv += ","; dv += jstr(detached_viol[i]); }
  dv += "]";

  printf("{\"final\":1,\"used\":%s,\"fresh\":%s,\"mid_probes\":%zu,\"mid_ok\":%d,\"finalize\":%u,\"tail\":%s,"
         "\"reattaches\":%zu,\"detached_calls\":%zu,\"detached_viol\":%s,"
         "\"p2_lines\":%zu,\"p2_accepted\":%zu,\"p2_nodes_left\":%zu,\"p2_fin\":%d,\"p2_fresh_fin\":%d,\"p2_used\":%s,\"p2_fresh\":%s,"
         "\"iso_runs\":%zu,\"iso_ghost\":%zu,\"iso_rex32\":%zu,\"iso_rex32_refused\":%zu,\"iso_rex32_dropped\":%zu,\"iso_refused\":%zu,\"settings_events\":%zu,\"settings_bursts\":%zu,\"iso_viol\":%s}\n",
         jstr(used).c_str(), jstr(fresh).c_str(), probe_bytes.size(), int(mid_ok), unsigned(fin), jstr(tail).c_str(),
         reattaches, detached_calls, dv.c_str(),
         p2_lines, p2_accepted, p2_nodes_left, p2_fin, p2_fresh_fin, jstr(p2_used).c_str(), jstr(p2_fresh).c_str(),
         iso_runs, iso_ghost, iso_rex32, iso_rex32_refused, iso_rex32_dropped, iso_refused, X.settings_events, X.settings_bursts, iso_json.c_str());
  return 0;
}
