// C14 driver: arbitrary (instruction id, options, extra register, operands) tuples handed to an x86 emitter through
// the public API; records for every call what changed. Probe programs are emitted between batches and compared
// with a fresh emitter at the end.
//
// case line: <id> <arch> <inst-name|#id> <opts-hex> <extra|-> <nops> <op>...
// operand tokens: R:<rtype>:<id>  Rn:<regtype-number>:<id>  I:<int>  L:0 (bound here) L:1 (new, unbound) Lraw:<id>  N (none)
//                 M:size:basetype:baseid:indextype:indexid:shift:disp:seg:bcst:addr   basetype may be label|labelraw|none|<rtype>|#<n>
#include <asmjit/core.h>
#include <asmjit/x86.h>
#include "vcommon.h"
#include <iostream>
#include <sstream>
#include <fstream>

using namespace asmjit;

struct Handler : public ErrorHandler {
  int calls = 0;
  Error last = Error::kOk;
  bool do_throw = false;
  void handle_error(Error err, const char*, BaseEmitter*) override {
    calls++; last = err;
    if (do_throw) throw int(err);
  }
};

static RegType reg_type_of(const std::string& s) {
  if (!s.empty() && s[0] == '#') return RegType(strtoul(s.c_str() + 1, nullptr, 0) & 31);
  if (s == "gp8lo") return RegType::kGp8Lo;
  if (s == "gp8hi") return RegType::kGp8Hi;
  if (s == "gp16") return RegType::kGp16;
  if (s == "gp32") return RegType::kGp32;
  if (s == "gp64") return RegType::kGp64;
  if (s == "xmm") return RegType::kVec128;
  if (s == "ymm") return RegType::kVec256;
  if (s == "zmm") return RegType::kVec512;
  if (s == "mm") return RegType::kX86_Mm;
  if (s == "k") return RegType::kMask;
  if (s == "sreg") return RegType::kSegment;
  if (s == "creg") return RegType::kControl;
  if (s == "dreg") return RegType::kDebug;
  if (s == "st") return RegType::kX86_St;
  if (s == "bnd") return RegType::kX86_Bnd;
  if (s == "tmm") return RegType::kTile;
  if (s == "rip") return RegType::kPC;
  return RegType::kNone;
}

static std::vector<std::string> split(const std::string& s, char c) {
  std::vector<std::string> o; std::string cur;
  for (char ch : s) { if (ch == c) { o.push_back(cur); cur.clear(); } else cur += ch; }
  o.push_back(cur);
  return o;
}

static size_t count_nodes(BaseBuilder* b) {
  size_t n = 0;
  for (BaseNode* node = b->first_node(); node; node = node->next()) n++;
  return n;
}

// A fixed valid program; returns its bytes (assembler) - used to see whether failures left residue.
template<typename E>
static void emit_probe(E& e) {
  e.mov(x86::eax, 1);
  e.add(x86::eax, x86::ecx);
  e.vaddps(x86::xmm1, x86::xmm2, x86::xmm3);
  Label l = e.new_label();
  e.bind(l);
  e.dec(x86::ecx);
  e.jnz(l);
  e.lea(x86::edx, x86::ptr(x86::eax, x86::ecx, 2, 16));
  e.ret();
}

int main(int argc, char** argv) {
  Args args(argc, argv);
  std::string in = args.str("cases", "-");
  std::string emitter = args.str("emitter", "asm");
  std::string handler = args.str("handler", "return");
  std::string arch_s = args.str("arch", "x64");
  Arch arch = arch_s == "x64" ? Arch::kX64 : Arch::kX86;
  size_t probe_every = args.u64("probe-every", 256);

  Environment env(arch);
  CodeHolder code;
  Handler eh;
  eh.do_throw = handler == "throw";
  code.init(env);
  if (handler != "none") code.set_error_handler(&eh);

  x86::Assembler a;
  x86::Builder b;
  x86::Compiler c;
  BaseEmitter* e = nullptr;
  if (emitter == "asm") { code.attach(&a); a.add_diagnostic_options(DiagnosticOptions::kValidateAssembler); e = &a; }
  else if (emitter == "builder") { code.attach(&b); b.add_diagnostic_options(DiagnosticOptions::kValidateIntermediate); e = &b; }
  else { code.attach(&c); c.add_diagnostic_options(DiagnosticOptions::kValidateIntermediate); e = &c; c.add_func(FuncSignature::build<void>()); }
  BaseBuilder* bb = emitter == "asm" ? nullptr : static_cast<BaseBuilder*>(e);

  std::istream* is = &std::cin;
  std::ifstream f;
  if (in != "-") { f.open(in); is = &f; }
  std::string line;
  std::string out;
  size_t ncase = 0;
  std::vector<std::string> probe_bytes;   // probes emitted on the used assembler (asm mode only)

  while (std::getline(*is, line)) {
    if (line.empty()) continue;
    std::istringstream ss(line);
    std::string id, arch_tok, name, opts_s, extra_s; int nops = 0;
    ss >> id >> arch_tok >> name >> opts_s >> extra_s >> nops;

    InstId inst_id;
    if (name[0] == '#') inst_id = (InstId)strtoul(name.c_str() + 1, nullptr, 0);
    else inst_id = InstAPI::string_to_inst_id(arch, name.c_str(), name.size());

    Operand ops[6];
    Label self_label;
    bool bad = false;
    for (int i = 0; i < nops && i < 6; i++) {
      std::string tok; ss >> tok;
      std::vector<std::string> p = split(tok, ':');
      if (p[0] == "R") ops[i] = Reg::from_type_and_id(reg_type_of(p[1]), (uint32_t)strtoul(p[2].c_str(), nullptr, 0));
      else if (p[0] == "Rn") ops[i] = Reg::from_type_and_id(RegType(strtoul(p[1].c_str(), nullptr, 0) & 31), (uint32_t)strtoul(p[2].c_str(), nullptr, 0));
      else if (p[0] == "I") ops[i] = Imm((int64_t)strtoll(p[1].c_str(), nullptr, 0));
      else if (p[0] == "N") ops[i] = Operand();
      else if (p[0] == "Lraw") ops[i] = Label((uint32_t)strtoul(p[1].c_str(), nullptr, 0));
      else if (p[0] == "L") {
        if (atoi(p[1].c_str()) == 0) { if (!self_label.is_valid()) { self_label = e->new_label(); e->bind(self_label); } ops[i] = self_label; }
        else ops[i] = e->new_label();
      }
      else if (p[0] == "M") {
        uint32_t size = (uint32_t)strtoul(p[1].c_str(), nullptr, 0);
        std::string bt = p[2]; uint32_t bid = (uint32_t)strtoul(p[3].c_str(), nullptr, 0);
        std::string it = p[4]; uint32_t iid = (uint32_t)strtoul(p[5].c_str(), nullptr, 0);
        uint32_t shift = (uint32_t)strtoul(p[6].c_str(), nullptr, 0) & 3;
        int64_t disp = strtoll(p[7].c_str(), nullptr, 0);
        uint32_t seg = (uint32_t)strtoul(p[8].c_str(), nullptr, 0) & 7;
        uint32_t bcst = (uint32_t)strtoul(p[9].c_str(), nullptr, 0) & 7;
        std::string addr = p[10];
        x86::Mem m;
        bool has_index = it != "none";
        Reg idx = has_index ? Reg::from_type_and_id(reg_type_of(it), iid) : Reg();
        if (bt == "none") m = has_index ? x86::Mem(uint64_t(disp), idx, shift, size) : x86::Mem(uint64_t(disp), size);
        else if (bt == "label" || bt == "labelraw") {
          Label l;
          if (bt == "labelraw") l = Label(bid);
          else { if (!self_label.is_valid()) { self_label = e->new_label(); e->bind(self_label); } l = self_label; }
          m = has_index ? x86::Mem(l, idx, shift, int32_t(disp), size) : x86::Mem(l, int32_t(disp), size);
        }
        else {
          Reg base = Reg::from_type_and_id(reg_type_of(bt), bid);
          m = has_index ? x86::Mem(base, idx, shift, int32_t(disp), size) : x86::Mem(base, int32_t(disp), size);
        }
        if (seg) m.set_segment(seg);
        if (bcst) m.set_broadcast(x86::Mem::Broadcast(bcst));
        if (addr == "abs") m.set_addr_abs(); else if (addr == "rel") m.set_addr_rel();
        ops[i] = m;
      }
      else bad = true;
    }

    uint32_t opts = (uint32_t)strtoul(opts_s.c_str(), nullptr, 16);
    if (extra_s != "-") {
      std::vector<std::string> p = split(extra_s, ':');
      e->set_extra_reg(Reg::from_type_and_id(reg_type_of(p[0]), (uint32_t)strtoul(p[1].c_str(), nullptr, 0)));
    }
    e->set_inst_options(InstOptions(opts));
    if (ncase % 7 == 3) e->set_inline_comment("c14");

    size_t off0 = bb ? 0 : a.offset();
    uint64_t hash0 = bb ? 0 : fnv1a(a.buffer_data(), a.offset());
    size_t labels0 = code.label_count();
    size_t fix0 = code.unresolved_fixup_count();
    size_t rel0 = code.reloc_entries().size();
    size_t sec0 = code.section_count();
    size_t nodes0 = bb ? count_nodes(bb) : 0;
    eh.calls = 0;
    Error err = Error::kOk;
    bool threw = false;
    if (bad) err = Error::kInvalidArgument;
    else {
      try { err = e->emit_op_array(inst_id, ops, (size_t)nops); }
      catch (int ex) { threw = true; err = Error(ex); }
    }
    size_t off1 = bb ? 0 : a.offset();
    bool prefix_changed = !bb && err != Error::kOk && fnv1a(a.buffer_data(), off0) != hash0;
    bool oneshot_left = uint32_t(e->inst_options()) != 0 || e->extra_reg().is_reg() || e->inline_comment() != nullptr;
    if (oneshot_left) { e->reset_inst_options(); e->reset_extra_reg(); e->reset_inline_comment(); }

    char head[320];
    snprintf(head, sizeof head, "{\"id\":%s,\"err\":%u,\"h\":%d,\"threw\":%d,\"oneshot\":%d,\"db\":%ld,\"dl\":%ld,\"df\":%ld,\"dr\":%ld,\"ds\":%ld,\"dn\":%ld,\"pc\":%d,\"bytes\":\"",
             id.c_str(), unsigned(err), eh.calls, int(threw), int(oneshot_left), long(off1) - long(off0),
             long(code.label_count()) - long(labels0), long(code.unresolved_fixup_count()) - long(fix0),
             long(code.reloc_entries().size()) - long(rel0), long(code.section_count()) - long(sec0),
             bb ? long(count_nodes(bb)) - long(nodes0) : 0L, int(prefix_changed));
    out += head;
    if (!bb && off1 > off0) out += hexstr(a.buffer_data() + off0, off1 - off0);
    out += "\"}\n";
    ncase++;

    if (!bb && ncase % probe_every == 0) {
      size_t p0 = a.offset();
      emit_probe(a);
      probe_bytes.push_back(hexstr(a.buffer_data() + p0, a.offset() - p0));
    }
    if (out.size() > (1 << 20)) { fwrite(out.data(), 1, out.size(), stdout); out.clear(); }
  }
  fwrite(out.data(), 1, out.size(), stdout);

  // final probe: used emitter vs a fresh one
  std::string used, fresh;
  Error fin = Error::kOk;
  if (!bb) {
    size_t p0 = a.offset();
    emit_probe(a);
    used = hexstr(a.buffer_data() + p0, a.offset() - p0);
  }
  else {
    // Builder/Compiler: the probe is appended and everything is finalized; only the tail is compared.
    if (emitter == "compiler") { emit_probe(c); c.end_func(); try { fin = c.finalize(); } catch (int ex) { fin = Error(ex); } }
    else { emit_probe(b); try { fin = b.finalize(); } catch (int ex) { fin = Error(ex); } }
  }
  {
    CodeHolder code2; code2.init(env);
    x86::Assembler a2(&code2);
    a2.add_diagnostic_options(DiagnosticOptions::kValidateAssembler);
    emit_probe(a2);
    fresh = hexstr(a2.buffer_data(), a2.offset());
  }
  bool mid_ok = true;
  for (auto& pb : probe_bytes) if (pb != fresh) mid_ok = false;
  std::string tail;
  if (bb && fin == Error::kOk) {
    Section* text = code.text_section();
    size_t n = text->buffer_size();
    size_t fl = fresh.size() / 2;
    if (n >= fl + (emitter == "compiler" ? 0 : 0)) tail = hexstr(text->data() + (n - fl), fl);
  }
  printf("{\"final\":1,\"used\":%s,\"fresh\":%s,\"mid_probes\":%zu,\"mid_ok\":%d,\"finalize\":%u,\"tail\":%s}\n",
         jstr(used).c_str(), jstr(fresh).c_str(), probe_bytes.size(), int(mid_ok), unsigned(fin), jstr(tail).c_str());
  return 0;
}
