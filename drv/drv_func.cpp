// C06 driver: function signatures, calling conventions, argument shuffling (harness code, not part of asmjit).
//
//   --mode classify   reads "<env> <conv> <va|-> <ret> <arg>..." lines on stdin, prints FuncDetail's answer per line
//   --mode shuffle    random FuncArgsAssignment cases: emit_prolog + emit_args_assignment (+ body + epilog),
//                     --arch x64 runs them natively with a machine image; x86/a64 only assemble (Python checks the bytes)
//   --mode interop    JIT callers (x86::Compiler invoke) <-> gcc-compiled C callees / C callers <-> JIT functions on the host
//   --mode invoke     call sites for every target (x86-64, x86-32, AArch64 incl. Apple): a Compiler function of convention A that
//                     loads values, invokes a callee of convention B and stores the results; compile-only, prints the bytes and
//                     the invoke's FuncDetail (Python executes the bytes symbolically up to the call, over it, and to the return)
//
// Every mode prints JSON lines; the last one is the summary {"summary":1,...}.
#include "vcommon.h"

#include <asmjit/x86.h>
#include <asmjit/a64.h>

#include <setjmp.h>
#include <signal.h>
#include <sys/mman.h>
#include <sys/time.h>
#include <dlfcn.h>
#include <unistd.h>
#include <utility>
#include <type_traits>
#include <algorithm>

using namespace asmjit;

// ------------------------------------------------------------------------------------------------
// Type / environment / convention names
// ------------------------------------------------------------------------------------------------

struct TypeName { std::string name; TypeId id; };
static std::vector<TypeName> g_types;

static void init_types() {
  const char* sc[] = {"i8", "u8", "i16", "u16", "i32", "u32", "i64", "u64"};
  for (int i = 0; i < 8; i++) g_types.push_back({sc[i], TypeId(uint32_t(TypeId::kInt8) + i)});
  g_types.push_back({"f32", TypeId::kFloat32});
  g_types.push_back({"f64", TypeId::kFloat64});
  g_types.push_back({"f80", TypeId::kFloat80});
  g_types.push_back({"k8", TypeId::kMask8});
  g_types.push_back({"k16", TypeId::kMask16});
  g_types.push_back({"k32", TypeId::kMask32});
  g_types.push_back({"k64", TypeId::kMask64});
  g_types.push_back({"mmx32", TypeId::kMmx32});
  g_types.push_back({"mmx64", TypeId::kMmx64});
  const char* el[] = {"i8", "u8", "i16", "u16", "i32", "u32", "i64", "u64", "f32", "f64"};
  const int elsz[] = {1, 1, 2, 2, 4, 4, 8, 8, 4, 8};
  const int starts[] = {51, 61, 71, 81, 91};
  const int totals[] = {4, 8, 16, 32, 64};
  for (int v = 0; v < 5; v++)
    for (int e = 0; e < 10; e++) {
      if (totals[v] < elsz[e]) continue;
      char b[32];
      snprintf(b, sizeof b, "%sx%d", el[e], totals[v] / elsz[e]);
      g_types.push_back({b, TypeId(starts[v] + e)});
    }
}

static TypeId type_by_name(const std::string& s) {
  if (s == "void") return TypeId::kVoid;
  for (auto& t : g_types) if (t.name == s) return t.id;
  fprintf(stderr, "unknown type %s\n", s.c_str());
  exit(3);
}

static std::string type_name(TypeId id) {
  if (id == TypeId::kVoid) return "void";
  for (auto& t : g_types) if (t.id == id) return t.name;
  char b[16];
  snprintf(b, sizeof b, "t%u", unsigned(id));
  return b;
}

static Environment env_by_name(const std::string& s) {
  if (s == "x64-linux") return Environment(Arch::kX64, SubArch::kUnknown, Vendor::kUnknown, Platform::kLinux, PlatformABI::kGNU);
  if (s == "x64-win") return Environment(Arch::kX64, SubArch::kUnknown, Vendor::kUnknown, Platform::kWindows, PlatformABI::kMSVC);
  if (s == "x86-linux") return Environment(Arch::kX86, SubArch::kUnknown, Vendor::kUnknown, Platform::kLinux, PlatformABI::kGNU);
  if (s == "x86-win") return Environment(Arch::kX86, SubArch::kUnknown, Vendor::kUnknown, Platform::kWindows, PlatformABI::kMSVC);
  if (s == "a64-linux") return Environment(Arch::kAArch64, SubArch::kUnknown, Vendor::kUnknown, Platform::kLinux, PlatformABI::kGNU);
  if (s == "a64-apple") return Environment(Arch::kAArch64, SubArch::kUnknown, Vendor::kUnknown, Platform::kOSX, PlatformABI::kDarwin);
  fprintf(stderr, "unknown env %s\n", s.c_str());
  exit(3);
}

static CallConvId conv_by_name(const std::string& s) {
  static const std::pair<const char*, CallConvId> t[] = {
    {"cdecl", CallConvId::kCDecl}, {"stdcall", CallConvId::kStdCall}, {"fastcall", CallConvId::kFastCall},
    {"vectorcall", CallConvId::kVectorCall}, {"thiscall", CallConvId::kThisCall}, {"regparm1", CallConvId::kRegParm1},
    {"regparm2", CallConvId::kRegParm2}, {"regparm3", CallConvId::kRegParm3}, {"lightcall2", CallConvId::kLightCall2},
    {"lightcall3", CallConvId::kLightCall3}, {"lightcall4", CallConvId::kLightCall4}, {"sysv64", CallConvId::kX64SystemV},
    {"win64", CallConvId::kX64Windows}};
  for (auto& e : t) if (s == e.first) return e.second;
  fprintf(stderr, "unknown conv %s\n", s.c_str());
  exit(3);
}

static const char* group_name(RegType rt) {
  switch (rt) {
    case RegType::kGp8Lo: case RegType::kGp8Hi: case RegType::kGp16: case RegType::kGp32: case RegType::kGp64: return "gp";
    case RegType::kVec8: case RegType::kVec16: case RegType::kVec32: case RegType::kVec64: case RegType::kVec128:
    case RegType::kVec256: case RegType::kVec512: return "vec";
    case RegType::kMask: return "k";
    case RegType::kX86_Mm: return "mm";
    case RegType::kX86_St: return "st";
    default: return "?";
  }
}

static std::string regtype_name(RegType rt) {
  switch (rt) {
    case RegType::kGp8Lo: return "gp8";
    case RegType::kGp16: return "gp16";
    case RegType::kGp32: return "gp32";
    case RegType::kGp64: return "gp64";
    case RegType::kVec32: return "vec32";
    case RegType::kVec64: return "vec64";
    case RegType::kVec128: return "vec128";
    case RegType::kVec256: return "vec256";
    case RegType::kVec512: return "vec512";
    case RegType::kMask: return "k";
    case RegType::kX86_Mm: return "mm";
    case RegType::kX86_St: return "st";
    default: { char b[16]; snprintf(b, sizeof b, "rt%u", unsigned(rt)); return b; }
  }
}

static std::string value_json(const FuncValue& v) {
  std::string o = "{\"t\":" + jstr(type_name(v.type_id()));
  char b[96];
  if (v.is_reg()) {
    snprintf(b, sizeof b, ",\"k\":\"reg\",\"rt\":\"%s\",\"g\":\"%s\",\"id\":%u", regtype_name(v.reg_type()).c_str(), group_name(v.reg_type()), v.reg_id());
    o += b;
  }
  else if (v.is_stack()) {
    snprintf(b, sizeof b, ",\"k\":\"stack\",\"off\":%d", v.stack_offset());
    o += b;
  }
  else {
    o += ",\"k\":\"none\"";
  }
  if (v.is_indirect()) o += ",\"ind\":1";
  return o + "}";
}

static std::vector<std::string> split_ws(const std::string& s) {
  std::vector<std::string> o;
  size_t i = 0;
  while (i < s.size()) {
    while (i < s.size() && isspace((unsigned char)s[i])) i++;
    size_t j = i;
    while (j < s.size() && !isspace((unsigned char)s[j])) j++;
    if (j > i) o.push_back(s.substr(i, j - i));
    i = j;
  }
  return o;
}

// ------------------------------------------------------------------------------------------------
// Mode: classify
// ------------------------------------------------------------------------------------------------

static int mode_classify() {
  char* line = nullptr;
  size_t cap = 0;
  ssize_t n;
  uint64_t count = 0, errors = 0;
  while ((n = getline(&line, &cap, stdin)) > 0) {
    std::vector<std::string> tok = split_ws(line);
    if (tok.size() < 4) continue;
    Environment env = env_by_name(tok[0]);
    FuncSignature sig(conv_by_name(tok[1]));
    if (tok[2] != "-") sig.set_va_index(uint32_t(atoi(tok[2].c_str())));
    sig.set_ret(type_by_name(tok[3]));
    for (size_t i = 4; i < tok.size(); i++) sig.add_arg(type_by_name(tok[i]));

    FuncDetail fd;
    Error err = fd.init(sig, env);
    count++;
    std::string o = "{\"err\":" + std::to_string(uint32_t(err));
    if (err != Error::kOk) {
      errors++;
      o += "}";
      puts(o.c_str());
      fflush(stdout);
      continue;
    }
    o += ",\"args\":[";
    for (uint32_t a = 0; a < fd.arg_count(); a++) {
      if (a) o += ",";
      o += "[";
      const FuncValuePack& p = fd.arg_pack(a);
      bool first = true;
      for (uint32_t v = 0; v < Globals::kMaxValuePack; v++) {
        if (!p[v]) break;
        if (!first) o += ",";
        first = false;
        o += value_json(p[v]);
      }
      o += "]";
    }
    o += "],\"rets\":[";
    for (uint32_t v = 0; v < Globals::kMaxValuePack; v++) {
      if (!fd.ret(v)) break;
      if (v) o += ",";
      o += value_json(fd.ret(v));
    }
    char b[512];
    const CallConv& cc = fd.call_conv();
    snprintf(b, sizeof b, "],\"stack\":%u,\"pops\":%d,\"red\":%u,\"spill\":%u,\"nsa\":%u,\"ccid\":%u,\"strategy\":%u,\"flags\":%u,"
             "\"pres\":[%u,%u,%u,%u],\"passed\":[%u,%u,%u,%u],\"va\":%u}",
             fd.arg_stack_size(), int(fd.has_flag(CallConvFlags::kCalleePopsStack)), fd.red_zone_size(), fd.spill_zone_size(),
             fd.natural_stack_alignment(), unsigned(cc.id()), unsigned(cc.strategy()), unsigned(cc.flags()),
             cc.preserved_regs(RegGroup::kGp), cc.preserved_regs(RegGroup::kVec), cc.preserved_regs(RegGroup::kMask), cc.preserved_regs(RegGroup::kExtra),
             cc.passed_regs(RegGroup::kGp), cc.passed_regs(RegGroup::kVec), cc.passed_regs(RegGroup::kMask), cc.passed_regs(RegGroup::kExtra),
             fd.va_index());
    o += b;
    puts(o.c_str());
    fflush(stdout);
  }
  free(line);
  printf("{\"summary\":1,\"mode\":\"classify\",\"count\":%llu,\"errors\":%llu,\"violations\":[]}\n", (unsigned long long)count, (unsigned long long)errors);
  return 0;
}

// ------------------------------------------------------------------------------------------------
// Native sandbox (x86-64 host): machine image in low memory, trampoline, crash guard
// ------------------------------------------------------------------------------------------------

struct Image {
  uint64_t gp[16];
  uint8_t vec[16][64];
  uint64_t k[8];
  uint64_t mm[8];
};

struct Sandbox {
  Image in;              // loaded before the call
  Image out;             // dumped by the body of the function under test
  uint8_t out_stack[32 * 64];   // destination stack slots copied by the body
  uint64_t target;       // function under test
  uint64_t new_sp;       // stack pointer at the call instruction (== address of the argument area)
  uint64_t saved_sp;
  uint64_t scratch[8];
  Image after;           // register file right after the function under test returned (gp: all but sp, vec: low 128 bits)
  uint64_t after_sp;     // stack pointer right after the return
  uint64_t gate_esp;     // 32-bit runs: stack pointer of the 64->32 gate while the function under test runs
  uint32_t far_off;      // m16:32 far pointer to the 32-bit stub (selector 0x23 = the kernel's 32-bit user code segment)
  uint16_t far_sel;
};

static Sandbox* g_sb = nullptr;       // lives below 2 GiB so that absolute [disp32] addressing reaches it
static uint8_t* g_stack = nullptr;    // 256 KiB test stack (also below 2 GiB, not required)
static const size_t kStackSize = 256 * 1024;
static bool g_has_avx = false, g_has_avx512 = false;
static JitRuntime* g_rt = nullptr;
typedef void (*TrampFn)(void);
static TrampFn g_tramp = nullptr;

static sigjmp_buf g_jmp;
static volatile sig_atomic_t g_guard = 0;
static volatile int g_last_sig = 0;

static void crash_handler(int sig, siginfo_t*, void*) {
  if (g_guard) {
    g_last_sig = sig;
    g_guard = 0;
    siglongjmp(g_jmp, 1);
  }
  signal(sig, SIG_DFL);
  raise(sig);
}

static void install_handlers() {
  static uint8_t altstack[64 * 1024];
  stack_t ss;
  ss.ss_sp = altstack;
  ss.ss_size = sizeof altstack;
  ss.ss_flags = 0;
  sigaltstack(&ss, nullptr);
  struct sigaction sa;
  memset(&sa, 0, sizeof sa);
  sa.sa_sigaction = crash_handler;
  sa.sa_flags = SA_SIGINFO | SA_ONSTACK | SA_NODEFER;
  sigemptyset(&sa.sa_mask);
  for (int s : {SIGSEGV, SIGBUS, SIGILL, SIGFPE, SIGTRAP}) sigaction(s, &sa, nullptr);
}

static x86::Mem abs_mem(const void* p, uint32_t size = 0) { return x86::ptr_abs(uint64_t(uintptr_t(p)), size); }

static bool init_sandbox() {
  void* p = mmap(nullptr, 1 << 20, PROT_READ | PROT_WRITE, MAP_PRIVATE | MAP_ANONYMOUS | MAP_32BIT, -1, 0);
  if (p == MAP_FAILED || uintptr_t(p) + (1 << 20) >= 0x7FFF0000ull) { fprintf(stderr, "sandbox mmap: %p\n", p); return false; }
  g_sb = (Sandbox*)p;
  g_stack = (uint8_t*)p + (1 << 20) - kStackSize;
  const CpuInfo& ci = CpuInfo::host();
  g_has_avx = ci.features().x86().has_avx() && ci.features().x86().has_avx2();
  g_has_avx512 = ci.features().x86().has_avx512_f() && ci.features().x86().has_avx512_bw() && ci.features().x86().has_avx512_dq();
  g_rt = new JitRuntime();

  CodeHolder code;
  code.init(g_rt->environment(), g_rt->cpu_features());
  x86::Assembler a(&code);
  struct EH : public ErrorHandler { void handle_error(Error err, const char* msg, BaseEmitter*) override { fprintf(stderr, "trampoline emit: %s\n", msg); } } eh;
  a.set_error_handler(&eh);
  using namespace x86;
  a.push(rbx); a.push(rbp); a.push(r12); a.push(r13); a.push(r14); a.push(r15);
  a.mov(abs_mem(&g_sb->saved_sp, 8), rsp);
  for (uint32_t i = 0; i < 16; i++) {
    if (g_has_avx512) a.vmovups(zmm(i), abs_mem(g_sb->in.vec[i], 64));
    else if (g_has_avx) a.vmovups(ymm(i), abs_mem(g_sb->in.vec[i], 32));
    else a.movups(xmm(i), abs_mem(g_sb->in.vec[i], 16));
  }
  if (g_has_avx512)
    for (uint32_t i = 0; i < 8; i++) a.kmovq(k(i), abs_mem(&g_sb->in.k[i], 8));
  for (uint32_t i = 0; i < 8; i++) a.movq(mm(i), abs_mem(&g_sb->in.mm[i], 8));
  a.mov(rsp, abs_mem(&g_sb->new_sp, 8));
  for (uint32_t i = 0; i < 16; i++)
    if (i != Gp::kIdSp) a.mov(gpq(i), abs_mem(&g_sb->in.gp[i], 8));
  a.call(abs_mem(&g_sb->target, 8));
  // what the caller of the function under test sees after the return: stack pointer and the whole register file
  // (judged against the preserved-register set of the convention; the sentinels are the `in` image itself)
  a.mov(abs_mem(&g_sb->after_sp, 8), rsp);
  a.mov(rsp, abs_mem(&g_sb->saved_sp, 8));
  for (uint32_t i = 0; i < 16; i++)
    if (i != Gp::kIdSp) a.mov(abs_mem(&g_sb->after.gp[i], 8), gpq(i));
  for (uint32_t i = 0; i < 16; i++) {
    if (g_has_avx) a.vmovups(abs_mem(g_sb->after.vec[i], 16), xmm(i));
    else a.movups(abs_mem(g_sb->after.vec[i], 16), xmm(i));
  }
  a.emms();
  if (g_has_avx) a.vzeroupper();
  a.pop(r15); a.pop(r14); a.pop(r13); a.pop(r12); a.pop(rbp); a.pop(rbx);
  a.ret();
  Error terr = g_rt->add(&g_tramp, &code);
  if (terr != Error::kOk) { fprintf(stderr, "trampoline: %s\n", DebugUtils::error_as_string(terr)); return false; }
  install_handlers();
  return true;
}

// ---- i386 execution: the 64-bit process far-calls into a 32-bit code segment (everything involved lives below 4 GiB) ----
static uint8_t* g_code32 = nullptr;            // RWX, MAP_32BIT: [0,4K) 64-bit gate, [4K,64K) 32-bit stub, [64K,..) function under test
static const size_t kCode32Size = 1 << 20, kFn32Offset = 65536;
static uint8_t* g_gate_stack = nullptr;

static bool place_code(CodeHolder& code, uint8_t* dst, size_t cap) {
  if (code.flatten() != Error::kOk || code.resolve_cross_section_fixups() != Error::kOk) return false;
  if (code.relocate_to_base(uint64_t(uintptr_t(dst))) != Error::kOk) return false;
  size_t n = code.code_size();
  if (n > cap) return false;
  return code.copy_flattened_data(dst, n, CopySectionFlags::kPadSectionBuffer) == Error::kOk;
}

static bool init_sandbox32() {
  using namespace x86;
  g_code32 = (uint8_t*)mmap(nullptr, kCode32Size, PROT_READ | PROT_WRITE | PROT_EXEC, MAP_PRIVATE | MAP_ANONYMOUS | MAP_32BIT, -1, 0);
  g_gate_stack = (uint8_t*)mmap(nullptr, 65536, PROT_READ | PROT_WRITE, MAP_PRIVATE | MAP_ANONYMOUS | MAP_32BIT, -1, 0);
  if (g_code32 == MAP_FAILED || g_gate_stack == MAP_FAILED || uintptr_t(g_code32) + kCode32Size >= 0x7FFF0000ull || uintptr_t(g_gate_stack) + 65536 >= 0x7FFF0000ull) return false;
  struct EH : public ErrorHandler { void handle_error(Error err, const char* msg, BaseEmitter*) override { fprintf(stderr, "gate emit: %s\n", msg); } } eh;
  {
    // 64-bit side: switch to a stack below 4 GiB, load flat data segments, far call, come back
    CodeHolder code;
    code.init(g_rt->environment(), g_rt->cpu_features());
    Assembler a(&code);
    a.set_error_handler(&eh);
    a.push(rbx); a.push(rbp); a.push(r12); a.push(r13); a.push(r14); a.push(r15);
    a.mov(abs_mem(&g_sb->saved_sp, 8), rsp);
    a.mov(rsp, imm(uint64_t(uintptr_t(g_gate_stack + 65536 - 256))));
    a.mov(eax, 0x2b);
    a.embed("\x8E\xD8\x8E\xC0", 4);                       // mov ds, eax ; mov es, eax
    uint32_t fp = uint32_t(uintptr_t(&g_sb->far_off));
    uint8_t lcall[7] = {0xFF, 0x1C, 0x25, uint8_t(fp), uint8_t(fp >> 8), uint8_t(fp >> 16), uint8_t(fp >> 24)};   // call far m16:32 [abs]
    a.embed(lcall, 7);
    a.xor_(eax, eax);
    a.embed("\x8E\xD8\x8E\xC0", 4);
    a.mov(rsp, abs_mem(&g_sb->saved_sp, 8));
    a.cld();
    a.pop(r15); a.pop(r14); a.pop(r13); a.pop(r12); a.pop(rbp); a.pop(rbx);
    a.ret();
    if (!place_code(code, g_code32, 4096)) return false;
  }
  {
    // 32-bit side: the same job the 64-bit trampoline does
    CodeHolder code;
    code.init(Environment(Arch::kX86, SubArch::kUnknown, Vendor::kUnknown, Platform::kLinux, PlatformABI::kGNU));
    Assembler a(&code);
    a.set_error_handler(&eh);
    a.mov(abs_mem(&g_sb->gate_esp, 4), esp);
    for (uint32_t i = 0; i < 8; i++) {
      if (g_has_avx512) a.vmovups(zmm(i), abs_mem(g_sb->in.vec[i], 64));
      else if (g_has_avx) a.vmovups(ymm(i), abs_mem(g_sb->in.vec[i], 32));
      else a.movups(xmm(i), abs_mem(g_sb->in.vec[i], 16));
    }
    if (g_has_avx512)
      for (uint32_t i = 0; i < 8; i++) a.kmovq(k(i), abs_mem(&g_sb->in.k[i], 8));
    for (uint32_t i = 0; i < 8; i++) a.movq(mm(i), abs_mem(&g_sb->in.mm[i], 8));
    for (uint32_t i = 0; i < 8; i++)
      if (i != Gp::kIdSp) a.mov(gpd(i), abs_mem(&g_sb->in.gp[i], 4));
    a.mov(esp, abs_mem(&g_sb->new_sp, 4));
    a.call(abs_mem(&g_sb->target, 4));
    a.mov(abs_mem(&g_sb->after_sp, 4), esp);
    a.mov(esp, abs_mem(&g_sb->gate_esp, 4));
    for (uint32_t i = 0; i < 8; i++)
      if (i != Gp::kIdSp) a.mov(abs_mem(&g_sb->after.gp[i], 4), gpd(i));
    for (uint32_t i = 0; i < 8; i++) {
      if (g_has_avx) a.vmovups(abs_mem(g_sb->after.vec[i], 16), xmm(i));
      else a.movups(abs_mem(g_sb->after.vec[i], 16), xmm(i));
    }
    a.emms();
    if (g_has_avx) a.vzeroupper();
    a.retf();
    if (!place_code(code, g_code32 + 4096, kFn32Offset - 4096)) return false;
  }
  g_sb->far_off = uint32_t(uintptr_t(g_code32 + 4096));
  g_sb->far_sel = 0x23;
  g_tramp = (TrampFn)(void*)g_code32;
  return true;
}

// Emits the body that dumps the whole register file into g_sb->out (absolute addressing only).
static void emit_dump32(x86::Assembler& a) {
  using namespace x86;
  for (uint32_t i = 0; i < 8; i++)
    if (i != Gp::kIdSp) a.mov(abs_mem(&g_sb->out.gp[i], 4), gpd(i));
  for (uint32_t i = 0; i < 8; i++) {
    if (g_has_avx512) a.vmovups(abs_mem(g_sb->out.vec[i], 64), zmm(i));
    else if (g_has_avx) a.vmovups(abs_mem(g_sb->out.vec[i], 32), ymm(i));
    else a.movups(abs_mem(g_sb->out.vec[i], 16), xmm(i));
  }
  if (g_has_avx512)
    for (uint32_t i = 0; i < 8; i++) a.kmovq(abs_mem(&g_sb->out.k[i], 8), k(i));
  for (uint32_t i = 0; i < 8; i++) a.movq(abs_mem(&g_sb->out.mm[i], 8), mm(i));
}

static void emit_dump(x86::Assembler& a) {
  using namespace x86;
  for (uint32_t i = 0; i < 16; i++)
    if (i != Gp::kIdSp) a.mov(abs_mem(&g_sb->out.gp[i], 8), gpq(i));
  for (uint32_t i = 0; i < 16; i++) {
    if (g_has_avx512) a.vmovups(abs_mem(g_sb->out.vec[i], 64), zmm(i));
    else if (g_has_avx) a.vmovups(abs_mem(g_sb->out.vec[i], 32), ymm(i));
    else a.movups(abs_mem(g_sb->out.vec[i], 16), xmm(i));
  }
  if (g_has_avx512)
    for (uint32_t i = 0; i < 8; i++) a.kmovq(abs_mem(&g_sb->out.k[i], 8), k(i));
  for (uint32_t i = 0; i < 8; i++) a.movq(abs_mem(&g_sb->out.mm[i], 8), mm(i));
}

// returns 0 = ran, otherwise the signal number
static int run_guarded(void (*fn)(void*), void* arg) {
  g_last_sig = 0;
  if (sigsetjmp(g_jmp, 1) == 0) {
    g_guard = 1;
    fn(arg);
    g_guard = 0;
    return 0;
  }
  return g_last_sig ? g_last_sig : -1;
}

static void call_tramp(void*) { g_tramp(); }

// ------------------------------------------------------------------------------------------------
// Mode: shuffle
// ------------------------------------------------------------------------------------------------

struct Val {
  uint32_t arg, vi;
  FuncValue src;          // from FuncDetail
  bool has_dst = false;
  FuncValue dst;          // reg or stack, with type
  bool convert = false;   // float <-> double conversion requested
  TypeId eff_dst_type = TypeId::kVoid;   // declared destination type, or the register's default type when none was declared
  std::string role;       // self / swap / cycleN / chain / free (register-to-register moves inside one group)
  uint8_t bytes[64];      // unique value of the source type
};

static bool is_signed_int(TypeId t) { return t == TypeId::kInt8 || t == TypeId::kInt16 || t == TypeId::kInt32 || t == TypeId::kInt64; }

static RegGroup natural_group(TypeId t) {
  if (TypeUtils::is_int(t)) return RegGroup::kGp;
  if (TypeUtils::is_mask(t)) return RegGroup::kMask;
  if (TypeUtils::is_mmx(t)) return RegGroup::kX86_MM;
  return RegGroup::kVec;
}

static RegType dst_reg_type(Arch arch, TypeId t) {
  uint32_t sz = TypeUtils::size_of(t);
  if (TypeUtils::is_int(t)) return sz <= 4 ? RegType::kGp32 : RegType::kGp64;
  if (TypeUtils::is_mask(t)) return RegType::kMask;
  if (TypeUtils::is_mmx(t)) return RegType::kX86_Mm;
  if (arch == Arch::kAArch64) return sz <= 4 ? RegType::kVec32 : sz <= 8 ? RegType::kVec64 : RegType::kVec128;
  return sz <= 16 ? RegType::kVec128 : sz <= 32 ? RegType::kVec256 : RegType::kVec512;
}

static const char* err_name(Error e) { return DebugUtils::error_as_string(e); }

struct ShuffleStats {
  uint64_t cases = 0, emitted = 0, executed = 0, rejected_detail = 0, rejected_update = 0, rejected_emit = 0, crashed = 0;
  std::map<std::string, uint64_t> rejects;
  std::vector<std::string> violations;  // JSON objects
  std::set<std::string> vkeys;
};

static std::string loc_json(const FuncValue& v) { return value_json(v); }

static void add_violation(ShuffleStats& st, const std::string& key, const std::string& what, uint64_t idx) {
  if (st.vkeys.count(key)) return;
  st.vkeys.insert(key);
  st.violations.push_back("{\"key\":" + jstr(key) + ",\"what\":" + jstr(what) + ",\"case\":" + std::to_string(idx) + "}");
}

static sigjmp_buf g_wd_jmp;
static volatile sig_atomic_t g_wd_armed = 0;
static void wd_handler(int) {
  if (g_wd_armed) { g_wd_armed = 0; siglongjmp(g_wd_jmp, 1); }
}
static void wd_arm(unsigned ms) {
  struct sigaction sa;
  memset(&sa, 0, sizeof sa);
  sa.sa_handler = wd_handler;
  sa.sa_flags = SA_NODEFER;
  sigemptyset(&sa.sa_mask);
  sigaction(SIGALRM, &sa, nullptr);
  struct itimerval it;
  memset(&it, 0, sizeof it);
  it.it_value.tv_sec = ms / 1000;
  it.it_value.tv_usec = (ms % 1000) * 1000;
  g_wd_armed = 1;
  setitimer(ITIMER_REAL, &it, nullptr);
}
static void wd_disarm() {
  struct itimerval it;
  memset(&it, 0, sizeof it);
  g_wd_armed = 0;
  setitimer(ITIMER_REAL, &it, nullptr);
}

static void emit_line(const std::string& s) { fputs(s.c_str(), stdout); fputc('\n', stdout); fflush(stdout); }

static int mode_shuffle(const Args& args) {
  std::string arch_s = args.str("arch", "x64");
  uint64_t seed = args.u64("seed", 1);
  uint64_t count = args.u64("count", 100);
  uint64_t first = args.u64("first", 0);
  int64_t only = args.has("only") ? int64_t(args.u64("only", 0)) : -1;
  bool exec = (arch_s == "x64" && args.u64("exec", 1) != 0) || (arch_s == "x86" && args.u64("exec", 0) != 0);
  bool exec32 = exec && arch_s == "x86";
  uint64_t convert_mode = args.u64("convert", 0);   // 0: never request f32<->f64 conversion, 1: request it often
  // 1: enumerated frame/assignment variants for signatures with stack-passed arguments: the stack-argument base register is
  //    {default, every callee-saved GP register of the convention, a caller-saved scratch register} x {dynamic alignment} x
  //    {preserved frame pointer}; on x86-32 additionally conventions whose scratch registers all hold incoming arguments
  uint64_t savar = args.u64("savar", 0);
  Arch arch = arch_s == "x64" ? Arch::kX64 : arch_s == "x86" ? Arch::kX86 : Arch::kAArch64;
  bool is_x86 = arch != Arch::kAArch64;

  if (exec && (!init_sandbox() || (exec32 && !init_sandbox32()))) {
    printf("{\"summary\":1,\"mode\":\"shuffle\",\"fatal\":\"sandbox init failed\",\"violations\":[]}\n");
    return 4;
  }

  ShuffleStats st;
  Rng master(seed * 0x9E3779B97F4A7C15ull + 0xC06);

  struct ConvChoice { const char* env; const char* conv; };
  std::vector<ConvChoice> convs;
  if (arch == Arch::kX64) convs = {{"x64-linux", "sysv64"}, {"x64-linux", "sysv64"}, {"x64-linux", "win64"}, {"x64-win", "vectorcall"},
                                   {"x64-linux", "lightcall2"}, {"x64-linux", "lightcall3"}, {"x64-linux", "lightcall4"}};
  else if (arch == Arch::kX86) convs = {{"x86-linux", "cdecl"}, {"x86-linux", "stdcall"}, {"x86-linux", "fastcall"}, {"x86-win", "vectorcall"},
                                        {"x86-win", "thiscall"}, {"x86-linux", "regparm1"}, {"x86-linux", "regparm2"}, {"x86-linux", "regparm3"},
                                        {"x86-linux", "lightcall2"}, {"x86-linux", "lightcall3"}, {"x86-linux", "lightcall4"}};
  else convs = {{"a64-linux", "cdecl"}, {"a64-apple", "cdecl"}};
  std::vector<ConvChoice> convs_abi;     // conventions with a platform ABI (the variant enumeration walks these in order)
  for (auto& c : convs) {
    bool dup = false;
    for (auto& d : convs_abi) if (!strcmp(c.env, d.env) && !strcmp(c.conv, d.conv)) dup = true;
    if (!dup && strncmp(c.conv, "lightcall", 9) != 0) convs_abi.push_back(c);
  }
  static const ConvChoice exhaust_convs[8] = {{"x86-linux", "regparm3"}, {"x86-linux", "regparm2"}, {"x86-linux", "regparm1"}, {"x86-linux", "fastcall"},
                                              {"x86-linux", "regparm3"}, {"x86-win", "thiscall"}, {"x86-win", "fastcall"}, {"x86-linux", "regparm3"}};
  const uint32_t kVarBase = 64, kVarCount = kVarBase + (arch == Arch::kX86 ? 8u : 0u);

  for (uint64_t idx = first; idx < first + count; idx++) {
    Rng rng = Rng(master.s ^ (idx * 0xD1B54A32D192ED03ull)).fork(idx);
    if (only >= 0 && int64_t(idx) != only) continue;
    st.cases++;

    ConvChoice cv = convs[rng.below(convs.size())];
    // ---- variant enumeration (--savar 1) ----
    uint32_t var_i = uint32_t(idx % kVarCount);
    bool exhaust_scratch = savar && var_i >= kVarBase;
    int var_sa = int(var_i % 16);                    // index into {default, preserved GP registers..., scratch}
    bool var_da = ((var_i >> 4) & 1) != 0, var_fp = ((var_i >> 5) & 1) != 0;
    if (savar) cv = exhaust_scratch ? exhaust_convs[var_i - kVarBase] : convs_abi[(idx / kVarCount) % convs_abi.size()];
    if (exhaust_scratch) { var_da = true; var_fp = false; var_sa = 0; }
    bool light = strncmp(cv.conv, "lightcall", 9) == 0;
    Environment env = env_by_name(cv.env);
    bool want_avx = is_x86 && (!exec || g_has_avx) && rng.chance(1, 3);
    bool want_avx512 = want_avx && (!exec || g_has_avx512) && rng.chance(1, 3);

    // ---- signature ----
    uint32_t nargs;
    switch (rng.below(5)) {
      case 0: case 1: nargs = uint32_t(rng.range(1, 6)); break;
      case 2: case 3: nargs = uint32_t(rng.range(4, 14)); break;
      default: nargs = uint32_t(rng.range(10, 32)); break;
    }
    std::vector<TypeId> pool = {TypeId::kInt8, TypeId::kUInt8, TypeId::kInt16, TypeId::kUInt16, TypeId::kInt32, TypeId::kUInt32,
                                TypeId::kInt32, TypeId::kUInt32, TypeId::kInt64, TypeId::kUInt64, TypeId::kInt64,
                                TypeId::kFloat32, TypeId::kFloat64, TypeId::kFloat32, TypeId::kFloat64,
                                TypeId::kInt32x4, TypeId::kFloat32x4, TypeId::kFloat64x2, TypeId::kInt8x16};
    if (is_x86 && want_avx) { pool.push_back(TypeId::kFloat32x8); pool.push_back(TypeId::kInt32x8); }
    if (is_x86 && want_avx512) { pool.push_back(TypeId::kFloat32x16); pool.push_back(TypeId::kInt64x8); }
    if (light) {
      pool.push_back(TypeId::kMmx64);
      pool.push_back(TypeId::kMmx64);
      if (!exec || g_has_avx512) { pool.push_back(TypeId::kMask8); pool.push_back(TypeId::kMask16); pool.push_back(TypeId::kMask32); pool.push_back(TypeId::kMask64); }
    }
    // flavour: all kinds / int heavy / vec heavy
    uint32_t flavour = uint32_t(rng.below(4));
    FuncSignature sig(conv_by_name(cv.conv));
    sig.set_ret(TypeId::kVoid);
    if (savar) {
      nargs = arch == Arch::kX64 ? uint32_t(rng.range(4, 14)) : arch == Arch::kX86 ? uint32_t(rng.range(1, 9)) : uint32_t(rng.range(6, 14));
      flavour = uint32_t(rng.below(2));
    }
    static const TypeId narrow_pool[] = {TypeId::kInt32, TypeId::kUInt32, TypeId::kInt16, TypeId::kUInt16, TypeId::kInt32, TypeId::kUInt32};
    if (exhaust_scratch) {
      // every register the convention passes integers in holds an argument, 1..3 more follow on the stack
      FuncDetail probe;
      FuncSignature ps(conv_by_name(cv.conv));
      ps.set_ret(TypeId::kVoid);
      uint32_t npassed = probe.init(ps, env) == Error::kOk ? Support::popcnt(probe.call_conv().passed_regs(RegGroup::kGp)) : 3;
      nargs = npassed + uint32_t(rng.range(1, 3));
      for (uint32_t i = 0; i < nargs; i++) sig.add_arg(narrow_pool[rng.below(6)]);
    }
    else
    for (uint32_t i = 0; i < nargs; i++) {
      TypeId t;
      for (;;) {
        t = pool[rng.below(pool.size())];
        if (flavour == 1 && !TypeUtils::is_int(t) && rng.chance(3, 4)) continue;
        if (flavour == 2 && TypeUtils::is_int(t) && rng.chance(3, 4)) continue;
        break;
      }
      sig.add_arg(t);
    }

    FuncDetail fd;
    Error err = fd.init(sig, env);
    if (savar && !exhaust_scratch) {
      // the variants are about the stack-argument base register: make sure something is passed on the stack (by value)
      auto has_stack_value = [&]() {
        for (uint32_t a = 0; a < fd.arg_count(); a++)
          for (uint32_t v = 0; v < Globals::kMaxValuePack; v++) {
            const FuncValue& fv = fd.arg(a, v);
            if (!fv) break;
            if (fv.is_assigned() && fv.is_stack() && !fv.is_indirect()) return true;
          }
        return false;
      };
      while (err == Error::kOk && !has_stack_value() && sig.arg_count() < 30) {
        sig.add_arg(rng.chance(1, 4) && arch != Arch::kX86 ? TypeId::kInt64 : narrow_pool[rng.below(6)]);
        nargs = sig.arg_count();
        err = fd.init(sig, env);
      }
    }
    if (err != Error::kOk) {
      st.rejected_detail++;
      st.rejects[std::string("detail:") + err_name(err)]++;
      printf("{\"i\":%llu,\"err\":\"detail:%s\"}\n", (unsigned long long)idx, err_name(err));
      fflush(stdout);
      continue;
    }

    // ---- values ----
    std::vector<Val> vals;
    for (uint32_t a = 0; a < fd.arg_count(); a++)
      for (uint32_t v = 0; v < Globals::kMaxValuePack; v++) {
        const FuncValue& fv = fd.arg(a, v);
        if (!fv) break;
        if (!fv.is_assigned()) continue;
        Val x;
        x.arg = a; x.vi = v; x.src = fv;
        for (auto& b : x.bytes) b = uint8_t(rng.next());
        // make the top bit of narrow integers interesting (sign extension matters)
        uint32_t sz = TypeUtils::size_of(fv.type_id());
        if (TypeUtils::is_int(fv.type_id()) && sz && rng.chance(1, 2)) x.bytes[sz - 1] |= 0x80;
        if (fv.type_id() == TypeId::kFloat32) { float f = float(int32_t(rng.next() % 200001) - 100000) / 64.0f; memcpy(x.bytes, &f, 4); }
        if (fv.type_id() == TypeId::kFloat64) { double d = double(int64_t(rng.next() % 20000001) - 10000000) / 1024.0; memcpy(x.bytes, &d, 8); }
        vals.push_back(x);
      }

    // ---- frame options ----
    bool preserved_fp = rng.chance(3, 10);
    if (savar) preserved_fp = var_fp;
    uint32_t gp_count = arch == Arch::kX64 ? 16 : arch == Arch::kX86 ? 8 : 32;
    uint32_t vec_count = arch == Arch::kX64 ? 16 : arch == Arch::kX86 ? 8 : 32;
    RegMask allowed[4];
    if (is_x86) {
      allowed[0] = Support::lsb_mask<RegMask>(gp_count) & ~Support::bit_mask<RegMask>(4u);
      if (preserved_fp) allowed[0] &= ~Support::bit_mask<RegMask>(5u);
      allowed[1] = Support::lsb_mask<RegMask>(vec_count);
      allowed[2] = 0xFF;
      allowed[3] = 0xFF;
    }
    else {
      allowed[0] = 0xFFFFFFFFu & ~Support::bit_mask<RegMask>(18u, 31u);
      if (preserved_fp) allowed[0] &= ~Support::bit_mask<RegMask>(29u);
      allowed[0] &= ~Support::bit_mask<RegMask>(30u);
      allowed[1] = 0xFFFFFFFFu;
      allowed[2] = 0;
      allowed[3] = 0;
    }

    // ---- destinations ----
    uint32_t shape = uint32_t(rng.below(5));   // 0 perm, 1 scatter, 2 tostack, 3 exhaust, 4 mixed, 5 scratch-exhaust (variants only)
    static const char* shape_names[] = {"perm", "scatter", "tostack", "exhaust", "mixed", "scratch-exhaust"};
    if (exhaust_scratch) shape = 5;
    RegMask used_dst[4] = {0, 0, 0, 0};
    // the preserved GP set the platform ABI prescribes (not read from the library): SysV x86-64, Microsoft x64, i386, AAPCS64
    RegMask abi_pres_gp = 0, abi_pres_vec = 0;
    bool abi_known = !light;
    if (arch == Arch::kX64) {
      bool win = strcmp(cv.conv, "sysv64") != 0;
      abi_pres_gp = win ? 0xF0E8u : 0xF028u;
      abi_pres_vec = win ? 0xFFC0u : 0u;
    }
    else if (arch == Arch::kX86) abi_pres_gp = 0xE8u;
    else { abi_pres_gp = 0x3FF80000u; abi_pres_vec = 0xFF00u; }
    if (light) { abi_pres_gp = fd.call_conv().preserved_regs(RegGroup::kGp) & ~Support::bit_mask<RegMask>(arch == Arch::kAArch64 ? 31u : 4u); abi_pres_vec = fd.call_conv().preserved_regs(RegGroup::kVec); }
    RegMask src_gp = 0;
    for (auto& x : vals)
      if (x.src.is_reg() && !x.src.is_indirect() && RegUtils::group_of(x.src.reg_type()) == RegGroup::kGp) src_gp |= 1u << x.src.reg_id();
    // variants: which register addresses the stack arguments, and through which API it is requested
    int var_sa_reg = -1;
    const char* var_sa_kind = "default";
    bool var_via_frame = false;
    if (savar && !exhaust_scratch) {
      std::vector<int> choices = {-1};
      for (uint32_t i = 0; i < 32; i++) if ((abi_pres_gp & allowed[0]) & (1u << i)) choices.push_back(int(i));
      choices.push_back(-2);
      int c = choices[size_t(var_sa) % choices.size()];
      if (c >= 0) { var_sa_reg = c; var_sa_kind = "callee-saved"; }
      else if (c == -2) {
        RegMask avail = allowed[0] & ~abi_pres_gp & ~src_gp;
        if (!avail || rng.chance(1, 3)) avail = allowed[0] & ~abi_pres_gp;
        if (avail) {
          uint32_t nb = Support::popcnt(avail), k = uint32_t(rng.below(nb));
          for (uint32_t i = 0; i < 32; i++) if (avail & (1u << i)) { if (!k) { var_sa_reg = int(i); break; } k--; }
          var_sa_kind = "caller-saved";
        }
      }
      if (var_sa_reg >= 0) {
        used_dst[0] |= 1u << var_sa_reg;                          // no argument may be assigned to it
        var_via_frame = !(src_gp & (1u << var_sa_reg)) && rng.chance(1, 4);   // FuncFrame::set_sa_reg_id() instead of FuncArgsAssignment's
      }
    }
    uint32_t max_int_size = arch == Arch::kX86 ? 4 : 8;

    auto pick_dst_type = [&](const Val& x, bool to_stack) -> std::pair<TypeId, bool> {
      TypeId st_ = x.src.type_id();
      if (TypeUtils::is_int(st_)) {
        uint32_t sz = TypeUtils::size_of(st_);
        uint32_t r = uint32_t(rng.below(20));
        bool sg = is_signed_int(st_);
        if (r < 7 && sz < max_int_size) {       // widen, same signedness
          uint32_t nsz = sz;
          do { nsz *= 2; } while (nsz < max_int_size && rng.chance(1, 2));
          TypeId t = nsz == 2 ? (sg ? TypeId::kInt16 : TypeId::kUInt16) : nsz == 4 ? (sg ? TypeId::kInt32 : TypeId::kUInt32) : (sg ? TypeId::kInt64 : TypeId::kUInt64);
          return {t, false};
        }
        if (r < 9 && sz > 1 && !to_stack) {     // narrow
          uint32_t nsz = sz / 2;
          TypeId t = nsz == 1 ? (sg ? TypeId::kInt8 : TypeId::kUInt8) : nsz == 2 ? (sg ? TypeId::kInt16 : TypeId::kUInt16) : (sg ? TypeId::kInt32 : TypeId::kUInt32);
          return {t, false};
        }
        if (r < 12 && !to_stack && (sz == 4 || sz == 8)) return {TypeId::kVoid, false};
        return {st_, false};
      }
      if (convert_mode && is_x86 && !to_stack && (st_ == TypeId::kFloat32 || st_ == TypeId::kFloat64) && rng.chance(1, 2))
        return {st_ == TypeId::kFloat32 ? TypeId::kFloat64x1 : TypeId::kFloat32x1, true};
      if (to_stack) return {st_, false};
      // register destinations: the types the Compiler's virtual registers have (f32x1/f64x1 or a generic vector), or none
      if (st_ == TypeId::kFloat32) { uint32_t r = uint32_t(rng.below(4)); return {r == 0 ? TypeId::kVoid : r == 1 ? TypeId::kInt32x4 : TypeId::kFloat32x1, false}; }
      if (st_ == TypeId::kFloat64) { uint32_t r = uint32_t(rng.below(4)); return {r == 0 ? TypeId::kVoid : r == 1 ? TypeId::kInt32x4 : TypeId::kFloat64x1, false}; }
      if (TypeUtils::is_vec(st_) && TypeUtils::size_of(st_) >= 16 && rng.chance(1, 4)) return {TypeId::kVoid, false};
      return {st_, false};
    };

    auto take_reg = [&](uint32_t g, RegMask prefer) -> int {
      RegMask avail = allowed[g] & ~used_dst[g];
      if (!avail) return -1;
      RegMask p = avail & prefer;
      if (p && rng.chance(3, 4)) avail = p;
      uint32_t nbits = Support::popcnt(avail);
      uint32_t k = uint32_t(rng.below(nbits));
      for (uint32_t i = 0; i < 32; i++)
        if (avail & (1u << i)) { if (!k) { used_dst[g] |= 1u << i; return int(i); } k--; }
      return -1;
    };

    // source registers per group
    RegMask src_regs[4] = {0, 0, 0, 0};
    for (auto& x : vals)
      if (x.src.is_reg() && !x.src.is_indirect()) {
        RegGroup g = RegUtils::group_of(x.src.reg_type());
        if (uint32_t(g) < 4) src_regs[uint32_t(g)] |= 1u << x.src.reg_id();
      }

    uint32_t stack_cursor = 0;
    uint32_t max_slot_align = 1;
    struct Slot { uint32_t off, size; };
    std::vector<Slot> slots;
    auto take_slot = [&](uint32_t size) -> uint32_t {
      uint32_t al = size >= 64 ? 64 : size >= 32 ? 32 : size >= 16 ? 16 : size >= 8 ? 8 : 4;
      if (arch != Arch::kX86 && al < 8) al = 8;
      stack_cursor = (stack_cursor + al - 1) & ~(al - 1);
      uint32_t off = stack_cursor;
      stack_cursor += std::max(size, al);
      max_slot_align = std::max(max_slot_align, al);
      return off;
    };

    // permutations: for "perm"/"exhaust"/"mixed" build a random permutation of the source registers per group
    std::map<std::pair<uint32_t, uint32_t>, uint32_t> perm_target;   // (group, src id) -> dst id
    if (shape == 0 || shape == 3 || (shape == 4 && rng.chance(1, 2))) {
      for (uint32_t g = 0; g < 4; g++) {
        std::vector<uint32_t> ids;
        for (uint32_t i = 0; i < 32; i++) if ((src_regs[g] & allowed[g]) & (1u << i)) ids.push_back(i);
        if (shape == 3) {
          // exhaust: extend the pool with every other allowed register so that all of them become destinations of something
          for (uint32_t i = 0; i < 32; i++) if ((allowed[g] & ~src_regs[g]) & (1u << i)) ids.push_back(i);
        }
        else if (rng.chance(1, 3)) {
          for (uint32_t i = 0; i < 32; i++) if ((allowed[g] & ~src_regs[g]) & (1u << i)) if (rng.chance(1, 4)) ids.push_back(i);
        }
        if (ids.size() < 2) continue;
        std::vector<uint32_t> tgt = ids;
        if (rng.chance(1, 2)) {
          uint32_t r = uint32_t(rng.range(1, ids.size() - 1));
          std::rotate(tgt.begin(), tgt.begin() + r, tgt.end());    // one cycle of full length
        }
        else {
          for (size_t i = tgt.size() - 1; i > 0; i--) std::swap(tgt[i], tgt[rng.below(i + 1)]);
        }
        for (size_t i = 0; i < ids.size(); i++) perm_target[{g, ids[i]}] = tgt[i];
      }
    }

    // exhaust shape: stack-sourced values take the registers of the permutation pool that no register source maps to
    Rng side(master.s ^ (idx * 0xA24BAED4963EE407ull) ^ 0x6D6B);
    for (auto& x : vals) {
      TypeId st_ = x.src.type_id();
      if (x.src.is_indirect()) continue;                       // not supported by the API (documented)
      if (shape == 5) break;                                   // assigned below
      if (shape != 3 && !(savar && x.src.is_stack()) && rng.chance(1, 10)) continue;           // leave some arguments unassigned
      bool src_is_reg = x.src.is_reg();
      uint32_t g = uint32_t(natural_group(st_));
      if (src_is_reg) g = uint32_t(RegUtils::group_of(x.src.reg_type()));
      bool to_stack = (shape == 2 && rng.chance(1, 2)) || (shape == 4 && rng.chance(1, 5));
      if (g >= 2 && to_stack && !src_is_reg) to_stack = false;
      if (savar && !var_da && to_stack) {
        // "dynamic alignment off": only slots the natural stack alignment of the convention already guarantees
        uint32_t sz = TypeUtils::size_of(st_);
        uint32_t al = sz >= 64 ? 64 : sz >= 32 ? 32 : sz >= 16 ? 16 : sz >= 8 ? 8 : 4;
        if (arch != Arch::kX86 && al < 8) al = 8;
        if (al > fd.call_conv().natural_stack_alignment()) to_stack = false;
      }
      auto dt = pick_dst_type(x, to_stack);
      TypeId dtype = dt.first;
      if (to_stack) {
        uint32_t sz = std::max(TypeUtils::size_of(dtype), TypeUtils::size_of(st_));
        uint32_t off = take_slot(sz);
        x.dst.init_stack(int32_t(off), dtype);
        x.has_dst = true;
        slots.push_back({off, sz});
        continue;
      }
      // cross-group destination for stack sources (int <-> vec), x86 only
      if (!src_is_reg && is_x86 && !dt.second && rng.chance(1, 6)) {
        uint32_t sz = TypeUtils::size_of(st_);
        if (TypeUtils::is_int(st_) && (sz == 4 || sz == 8)) { g = 1; dtype = sz == 4 ? TypeId::kInt32x1 : TypeId::kInt64x1; }
        else if (st_ == TypeId::kFloat32) { g = 0; dtype = TypeId::kUInt32; }
        else if (st_ == TypeId::kFloat64 && arch == Arch::kX64) { g = 0; dtype = TypeId::kUInt64; }
      }
      // stack sources loaded into mask (kmovb/w/d/q k, [mem]) and MMX (movd/movq mm, [mem]) registers; FuncDetail never produces such
      // sources, so these are the only way the destinations are reached (decided on a side stream: the other cases stay what they were)
      else if (!src_is_reg && is_x86 && !dt.second && side.chance(1, 7)) {
        uint32_t sz = TypeUtils::size_of(st_);
        bool to_mask = side.chance(1, 2);
        if (to_mask && TypeUtils::is_int(st_) && (!exec || g_has_avx512)) {
          g = 2; dtype = sz == 1 ? TypeId::kMask8 : sz == 2 ? TypeId::kMask16 : sz == 4 ? TypeId::kMask32 : TypeId::kMask64;
        }
        else if (!to_mask && (sz == 4 || sz == 8) && !TypeUtils::is_vec(st_)) {
          g = 3; dtype = sz == 4 ? TypeId::kMmx32 : TypeId::kMmx64;
        }
      }
      int id = -1;
      if (src_is_reg) {
        auto it = perm_target.find({g, x.src.reg_id()});
        if (it != perm_target.end() && !(used_dst[g] & (1u << it->second))) { id = int(it->second); used_dst[g] |= 1u << id; }
      }
      if (id < 0) {
        RegMask prefer = 0;
        if (shape == 1 || shape == 4) prefer = src_regs[g];                  // collide with other sources -> chains
        if (shape == 3) prefer = allowed[g];
        if (src_is_reg && rng.chance(1, 6) && !(used_dst[g] & (1u << x.src.reg_id())) && (allowed[g] & (1u << x.src.reg_id()))) {
          id = int(x.src.reg_id());                                         // self move (may need extension)
          used_dst[g] |= 1u << id;
        }
        else id = take_reg(g, prefer);
      }
      if (id < 0) continue;
      {
        TypeId rt_from = dtype == TypeId::kVoid ? st_ : dtype;
        x.dst.init_reg(dst_reg_type(arch, rt_from), uint32_t(id), dtype);
      }
      x.has_dst = true;
      x.convert = dt.second;
    }

    if (shape == 5) {
      // register arguments rotate inside the set of argument registers (no other register becomes a destination), stack
      // arguments are copied to the function's own (dynamically aligned) stack: the shuffler needs a register for the copy and
      // one to address the stack arguments while every caller-saved register of the convention may hold an argument
      std::vector<Val*> rv;
      for (auto& x : vals) if (x.src.is_reg() && RegUtils::group_of(x.src.reg_type()) == RegGroup::kGp) rv.push_back(&x);
      uint32_t rot = rv.size() > 1 ? uint32_t(rng.range(1, rv.size() - 1)) : 0;
      bool keep = (var_i - kVarBase) == 7;        // last sub-variant: arguments stay where they are
      for (size_t i = 0; i < rv.size(); i++) {
        Val& x = *rv[i];
        uint32_t id = keep ? x.src.reg_id() : rv[(i + rot) % rv.size()]->src.reg_id();
        x.dst.init_reg(RegType::kGp32, id, x.src.type_id());
        x.has_dst = true;
        used_dst[0] |= 1u << id;
      }
      for (auto& x : vals) {
        if (!x.src.is_stack()) continue;
        uint32_t off = take_slot(4);
        x.dst.init_stack(int32_t(off), x.src.type_id());
        x.has_dst = true;
        slots.push_back({off, 4});
      }
    }

    // ---- effective destination types and roles ----
    for (auto& x : vals) {
      if (!x.has_dst) continue;
      x.eff_dst_type = x.dst.type_id();
      if (x.eff_dst_type == TypeId::kVoid) x.eff_dst_type = x.dst.is_reg() ? RegUtils::type_id_of(x.dst.reg_type()) : x.src.type_id();
      if (!(x.src.is_reg() && x.dst.is_reg())) continue;
      RegGroup g = RegUtils::group_of(x.src.reg_type());
      if (g != RegUtils::group_of(x.dst.reg_type())) continue;
      auto occupant = [&](uint32_t id) -> const Val* {
        for (auto& y : vals) if (y.src.is_reg() && !y.src.is_indirect() && RegUtils::group_of(y.src.reg_type()) == g && y.src.reg_id() == id) return &y;
        return nullptr;
      };
      if (x.dst.reg_id() == x.src.reg_id()) { x.role = "self"; continue; }
      const Val* y = occupant(x.dst.reg_id());
      if (!y) { x.role = "free"; continue; }
      uint32_t len = 1;
      bool cyc = false;
      while (y && y->has_dst && y->dst.is_reg() && RegUtils::group_of(y->dst.reg_type()) == g && len < 40) {
        len++;
        if (y->dst.reg_id() == x.src.reg_id()) { cyc = true; break; }
        if (y->dst.reg_id() == y->src.reg_id()) break;
        y = occupant(y->dst.reg_id());
      }
      if (cyc) x.role = len == 2 ? "swap" : "cycle" + std::to_string(len);
      else x.role = "chain";
    }

    // ---- FuncFrame ----
    FuncFrame frame;
    frame.init(fd);
    if (preserved_fp) frame.set_preserved_fp();
    if (want_avx) frame.set_avx_enabled();
    if (want_avx512) frame.set_avx512_enabled();
    uint32_t extra_align = 0;
    if (rng.chance(1, 4)) extra_align = uint32_t(16u << rng.below(3));
    if (savar) extra_align = var_da ? uint32_t(32u << rng.below(2)) : 0;
    if (exhaust_scratch) extra_align = 16;      // i386: the natural alignment is 4
    uint32_t local_align = std::max(max_slot_align, extra_align);
    if (stack_cursor || extra_align) {
      frame.set_local_stack_size(std::max<uint32_t>(stack_cursor, 16));
      frame.set_local_stack_alignment(local_align);
    }
    if (rng.chance(1, 4))
      frame.add_dirty_regs(RegGroup::kGp, uint32_t(rng.next()) & allowed[0]);
    if (rng.chance(1, 6))
      frame.add_dirty_regs(RegGroup::kVec, uint32_t(rng.next()) & allowed[1]);

    FuncArgsAssignment asg(&fd);
    for (auto& x : vals)
      if (x.has_dst) {
        if (x.dst.is_reg()) asg.assign_reg_in_pack(x.arg, x.vi, x.dst.reg_type(), x.dst.reg_id(), x.dst.type_id());
        else asg.assign_stack_in_pack(x.arg, x.vi, x.dst.stack_offset(), x.dst.type_id());
      }
    int sa_out = -1;
    int sa_preset = -1;
    if (savar) {
      if (var_sa_reg >= 0 && !var_via_frame) { sa_out = var_sa_reg; asg.set_sa_reg_id(uint32_t(sa_out)); }
      if (var_sa_reg >= 0 && var_via_frame) { sa_preset = var_sa_reg; frame.set_sa_reg_id(uint32_t(sa_preset)); }
    }
    else if (rng.chance(1, 5)) {
      RegMask avail = allowed[0] & ~used_dst[0];
      if (avail) {
        uint32_t nb = Support::popcnt(avail), k = uint32_t(rng.below(nb));
        for (uint32_t i = 0; i < 32; i++) if (avail & (1u << i)) { if (!k) { sa_out = int(i); break; } k--; }
        asg.set_sa_reg_id(uint32_t(sa_out));
      }
    }
    if (!savar && rng.chance(1, 8)) {
      // a caller-chosen register that holds the stack-argument base; must not be an argument source
      RegMask avail = allowed[0] & ~src_regs[0];
      if (avail) {
        uint32_t nb = Support::popcnt(avail), k = uint32_t(rng.below(nb));
        for (uint32_t i = 0; i < 32; i++) if (avail & (1u << i)) { if (!k) { sa_preset = int(i); break; } k--; }
        frame.set_sa_reg_id(uint32_t(sa_preset));
      }
    }

    err = asg.update_func_frame(frame);
    if (err == Error::kOk) err = frame.finalize();
    std::string head;
    {
      char b[256];
      snprintf(b, sizeof b, "{\"i\":%llu,\"arch\":\"%s\",\"env\":\"%s\",\"conv\":\"%s\",\"shape\":\"%s\",\"fp\":%d,\"avx\":%d,\"avx512\":%d,\"align\":%u,\"sa_out\":%d,\"sa_preset\":%d",
               (unsigned long long)idx, arch_s.c_str(), cv.env, cv.conv, shape_names[shape], int(preserved_fp), int(want_avx), int(want_avx512), local_align, sa_out, sa_preset);
      head = b;
      if (savar) {
        snprintf(b, sizeof b, ",\"var\":{\"sa\":\"%s\",\"reg\":%d,\"via\":\"%s\",\"da\":%d,\"fp\":%d}", var_sa_kind, var_sa_reg, var_via_frame ? "frame" : "args", int(var_da), int(var_fp));
        head += b;
      }
      snprintf(b, sizeof b, ",\"abi\":%d,\"apres\":[%u,%u]", int(abi_known), abi_pres_gp, abi_pres_vec);
      head += b;
      head += ",\"sig\":[";
      for (uint32_t i = 0; i < nargs; i++) { if (i) head += ","; head += jstr(type_name(sig.arg(i))); }
      head += "],\"vals\":[";
      bool f1 = true;
      for (auto& x : vals) {
        if (!f1) head += ",";
        f1 = false;
        head += "{\"a\":" + std::to_string(x.arg) + ",\"v\":" + std::to_string(x.vi) + ",\"src\":" + loc_json(x.src);
        if (x.has_dst) head += ",\"dst\":" + loc_json(x.dst);
        if (x.has_dst) head += ",\"eff\":" + jstr(type_name(x.eff_dst_type));
        if (!x.role.empty()) head += ",\"role\":" + jstr(x.role);
        if (x.convert) head += ",\"cvt\":1";
        head += ",\"bytes\":\"" + hexstr(x.bytes, TypeUtils::size_of(x.src.type_id())) + "\"}";
      }
      head += "]";
    }
    if (only >= 0) emit_line(head + ",\"plan\":1}");
    if (err != Error::kOk) {
      st.rejected_update++;
      st.rejects[std::string("update:") + err_name(err)]++;
      emit_line((head + ",\"err\":" + jstr(std::string("update:") + err_name(err)) + "}")); 
      continue;
    }

    // ---- emit ----
    CodeHolder* code_ptr = new CodeHolder();
    CodeHolder& code = *code_ptr;
    struct CodeGuard { CodeHolder* p; bool keep; ~CodeGuard() { if (!keep) delete p; } } code_guard{code_ptr, false};
    bool hung = false;
    if (exec && !exec32) code.init(g_rt->environment(), g_rt->cpu_features());
    else code.init(env);
    size_t off_prolog = 0, off_assign = 0;
    Error e1 = Error::kOk;
    FileLogger dbg_logger(stderr);
    if (args.has("log")) code.set_logger(&dbg_logger);
    if (sigsetjmp(g_wd_jmp, 1) != 0) {
      hung = true;   // emit_* did not return within the watchdog period; everything it allocated is abandoned
    }
    else if (is_x86) {
      wd_arm(400);
      x86::Assembler a(&code);
      e1 = a.emit_prolog(frame);
      off_prolog = a.offset();
      if (e1 == Error::kOk) e1 = a.emit_args_assignment(frame, asg);
      off_assign = a.offset();
      if (e1 == Error::kOk && exec32) {
        emit_dump32(a);
        uint32_t o = 0;
        for (auto& s : slots) {
          for (uint32_t b = 0; b < s.size; b += 4) {
            a.mov(x86::eax, x86::ptr(x86::esp, int32_t(s.off + b), 4));
            a.mov(abs_mem(g_sb->out_stack + o + b, 4), x86::eax);
          }
          o += 64;
        }
      }
      else if (e1 == Error::kOk && exec) {
        emit_dump(a);
        // destination stack slots -> out_stack (8 bytes at a time through rax)
        uint32_t o = 0;
        for (auto& s : slots) {
          for (uint32_t b = 0; b < s.size; b += 8) {
            if (s.size - b >= 8) {
              a.mov(x86::rax, x86::ptr(x86::rsp, int32_t(s.off + b), 8));
              a.mov(abs_mem(g_sb->out_stack + o + b, 8), x86::rax);
            }
            else {
              a.mov(x86::eax, x86::ptr(x86::rsp, int32_t(s.off + b), 4));
              a.mov(abs_mem(g_sb->out_stack + o + b, 4), x86::eax);
            }
          }
          o += 64;
        }
      }
      if (e1 == Error::kOk) e1 = a.emit_epilog(frame);
      wd_disarm();
    }
    else {
      wd_arm(400);
      a64::Assembler a(&code);
      e1 = a.emit_prolog(frame);
      off_prolog = a.offset();
      if (e1 == Error::kOk) e1 = a.emit_args_assignment(frame, asg);
      off_assign = a.offset();
      if (e1 == Error::kOk) e1 = a.emit_epilog(frame);
      wd_disarm();
    }
    if (hung) {
      code_guard.keep = true;
      st.rejects["hang"]++;
      emit_line(head + ",\"err\":\"hang\"}");
#if defined(__SANITIZE_ADDRESS__)
      fflush(stdout);
      _exit(98);     // abandoned allocations would only produce leak reports; the caller restarts after this case
#endif
      continue;
    }
    {
      char b[256];
      snprintf(b, sizeof b, ",\"plen\":%zu,\"alen\":%zu,\"sa_off_sa\":%u,\"sa_off_sp\":%u,\"sa_reg\":%u,\"da\":%d,\"lso\":%u,\"pops\":%u",
               off_prolog, off_assign, frame.sa_offset_from_sa(), frame.sa_offset_from_sp(), frame.sa_reg_id(), int(frame.has_dynamic_alignment()),
               frame.local_stack_offset(), frame.callee_stack_cleanup());
      head += b;
      // the frame's own view: which registers the prolog/epilog save and restore, and what the convention (as the library sees it) preserves
      snprintf(b, sizeof b, ",\"saved\":[%u,%u],\"fpres\":[%u,%u],\"dirty\":[%u,%u]",
               frame.saved_regs(RegGroup::kGp), frame.saved_regs(RegGroup::kVec), frame.preserved_regs(RegGroup::kGp), frame.preserved_regs(RegGroup::kVec),
               frame.dirty_regs(RegGroup::kGp), frame.dirty_regs(RegGroup::kVec));
      head += b;
    }
    if (e1 != Error::kOk) {
      st.rejected_emit++;
      st.rejects[std::string("emit:") + err_name(e1)]++;
      emit_line((head + ",\"err\":" + jstr(std::string("emit:") + err_name(e1)) + "}")); 
      continue;
    }
    st.emitted++;
    const CodeBuffer& cb = code.text_section()->buffer();
    head += ",\"code\":\"" + hexstr(cb.data(), off_assign) + "\"";

    // ---- native execution ----
    if (exec) {
      void* fn = nullptr;
      Error e2 = Error::kOk;
      if (exec32) {
        fn = g_code32 + kFn32Offset;
        if (!place_code(code, (uint8_t*)fn, kCode32Size - kFn32Offset)) e2 = Error::kInvalidState;
      }
      else e2 = g_rt->_add(&fn, &code);
      if (e2 != Error::kOk) {
        st.rejects[std::string("jit:") + err_name(e2)]++;
        emit_line((head + ",\"err\":" + jstr(std::string("jit:") + err_name(e2)) + "}").c_str());
        continue;
      }
      Sandbox& sb = *g_sb;
      Rng junk = rng.fork(77);
      for (auto& g : sb.in.gp) g = junk.next();
      for (auto& v : sb.in.vec) for (auto& b : v) b = uint8_t(junk.next());
      for (auto& k : sb.in.k) k = junk.next();
      for (auto& m : sb.in.mm) m = junk.next();
      memset(&sb.out, 0xEE, sizeof sb.out);
      memset(&sb.after, 0xEE, sizeof sb.after);
      sb.after_sp = 0;
      memset(sb.out_stack, 0xEE, sizeof sb.out_stack);
      // argument area at the top of the test stack, 64-byte aligned
      uint32_t asz = (fd.arg_stack_size() + 63u) & ~63u;
      uint8_t* area = g_stack + kStackSize - 4096 - asz;
      area = (uint8_t*)(uintptr_t(area) & ~uintptr_t(63));
      for (uint32_t i = 0; i < asz + 64; i++) area[i] = uint8_t(junk.next());
      // the frame of the function under test is built below `area`: make sure it does not start out as zeros
      {
        uint64_t* q = (uint64_t*)(area - 16384);
        for (uint32_t i = 0; i < 16384 / 8; i++) q[i] = junk.next();
      }
      for (auto& x : vals) {
        uint32_t sz = TypeUtils::size_of(x.src.type_id());
        if (x.src.is_indirect()) continue;   // passed by reference: the shuffler does not support it, nothing to place
        if (x.src.is_reg()) {
          RegGroup g = RegUtils::group_of(x.src.reg_type());
          uint32_t id = x.src.reg_id();
          if (g == RegGroup::kGp) memcpy(&sb.in.gp[id], x.bytes, std::min(sz, 8u));
          else if (g == RegGroup::kVec) memcpy(sb.in.vec[id], x.bytes, sz);
          else if (g == RegGroup::kMask) memcpy(&sb.in.k[id], x.bytes, std::min(sz, 8u));
          else if (g == RegGroup::kX86_MM) memcpy(&sb.in.mm[id], x.bytes, std::min(sz, 8u));
        }
        else if (x.src.is_stack()) {
          memcpy(area + x.src.stack_offset(), x.bytes, sz);
        }
      }
      sb.target = uint64_t(uintptr_t(fn));
      sb.new_sp = uint64_t(uintptr_t(area));
      int sig_no = run_guarded(call_tramp, nullptr);
      st.executed++;
      std::string verdict = "ok", nat;
      bool sa_bad = false;
      if (sig_no) {
        st.crashed++;
        verdict = "crash:signal" + std::to_string(sig_no);
      }
      else {
        uint32_t slot_i = 0;
        for (auto& x : vals) {
          if (!x.has_dst) continue;
          TypeId st_ = x.src.type_id(), dt_ = x.eff_dst_type;
          uint32_t ssz = TypeUtils::size_of(st_), dsz = TypeUtils::size_of(dt_);
          uint8_t got[64];
          memset(got, 0, sizeof got);
          if (x.dst.is_reg()) {
            RegGroup g = RegUtils::group_of(x.dst.reg_type());
            uint32_t id = x.dst.reg_id();
            if (g == RegGroup::kGp) memcpy(got, &sb.out.gp[id], 8);
            else if (g == RegGroup::kVec) memcpy(got, sb.out.vec[id], 64);
            else if (g == RegGroup::kMask) memcpy(got, &sb.out.k[id], 8);
            else memcpy(got, &sb.out.mm[id], 8);
          }
          else {
            memcpy(got, sb.out_stack + 64 * slot_i, 64);
            slot_i++;
          }
          uint8_t exp[64];
          memset(exp, 0, sizeof exp);
          uint32_t cmp = std::min(ssz, dsz);
          memcpy(exp, x.bytes, cmp);
          std::string kind = "move";
          if (x.convert) {
            kind = "convert";
            if (TypeUtils::scalar_of(dt_) == TypeId::kFloat64) { float f; memcpy(&f, x.bytes, 4); double d = double(f); memcpy(exp, &d, 8); cmp = 8; }
            else { double d; memcpy(&d, x.bytes, 8); float f = float(d); memcpy(exp, &f, 4); cmp = 4; }
          }
          else if (TypeUtils::is_int(st_) && TypeUtils::is_int(dt_) && dsz > ssz) {
            kind = is_signed_int(st_) ? "sext" : "zext";
            uint8_t fill = (is_signed_int(st_) && (x.bytes[ssz - 1] & 0x80)) ? 0xFF : 0x00;
            for (uint32_t b = ssz; b < dsz; b++) exp[b] = fill;
            cmp = dsz;
          }
          if (memcmp(got, exp, cmp) != 0) {
            if (!nat.empty()) nat += ",";
            nat += "[" + std::to_string(&x - &vals[0]) + "," + jstr(kind) + "," + jstr(hexstr(exp, cmp)) + "," + jstr(hexstr(got, cmp)) + "]";
            if (verdict == "ok") verdict = "mismatch";
          }
        }
        if (sa_out >= 0) {
          // [sa + sa_offset_from_sa] is the first stack argument; the call pushed the return address just below `area`
          uint64_t got = (exec32 ? (sb.out.gp[sa_out] & 0xFFFFFFFFull) : sb.out.gp[sa_out]) + frame.sa_offset_from_sa();
          uint64_t first_arg = uint64_t(uintptr_t(area));
          if (got != first_arg) {
            sa_bad = true;
            if (verdict == "ok") verdict = "mismatch";
          }
        }
      }
      // ---- what the caller sees after the return: preserved registers hold their sentinels, the stack pointer is back ----
      std::string pres_bad;
      if (!sig_no) {
        const uint32_t nregs = exec32 ? 8 : 16;
        const uint64_t gp_mask = exec32 ? 0xFFFFFFFFull : ~0ull;
        for (uint32_t i = 0; i < nregs; i++) {
          if (i == x86::Gp::kIdSp || !((abi_pres_gp >> i) & 1)) continue;
          if ((sb.after.gp[i] & gp_mask) != (sb.in.gp[i] & gp_mask)) {
            char b[160];
            snprintf(b, sizeof b, "%s[\"gp\",%u,\"%0*llx\",\"%0*llx\"]", pres_bad.empty() ? "" : ",", i, exec32 ? 8 : 16, (unsigned long long)(sb.in.gp[i] & gp_mask), exec32 ? 8 : 16, (unsigned long long)(sb.after.gp[i] & gp_mask));
            pres_bad += b;
          }
        }
        for (uint32_t i = 0; i < nregs; i++) {
          if (!((abi_pres_vec >> i) & 1)) continue;
          if (memcmp(sb.after.vec[i], sb.in.vec[i], 16) != 0)
            pres_bad += std::string(pres_bad.empty() ? "" : ",") + "[\"vec\"," + std::to_string(i) + "," + jstr(hexstr(sb.in.vec[i], 16)) + "," + jstr(hexstr(sb.after.vec[i], 16)) + "]";
        }
        head += ",\"pres_checked\":" + std::to_string(Support::popcnt(abi_pres_gp & ~0x10u) + Support::popcnt(abi_pres_vec)) + ",\"pres_bad\":[" + pres_bad + "]";
        // the callee removes its stack arguments only where the platform convention says so (i386 stdcall/fastcall/thiscall/vectorcall)
        uint64_t abi_pops = 0;
        if (exec32) {
          if (light) abi_pops = frame.callee_stack_cleanup();
          else if (!strcmp(cv.conv, "stdcall") || !strcmp(cv.conv, "fastcall") || !strcmp(cv.conv, "vectorcall") || (!strcmp(cv.conv, "thiscall") && !strcmp(cv.env, "x86-win"))) abi_pops = fd.arg_stack_size();
        }
        uint64_t sp_after = exec32 ? (sb.after_sp & 0xFFFFFFFFull) : sb.after_sp;
        if (sp_after != sb.new_sp + abi_pops) {
          char b[96];
          snprintf(b, sizeof b, ",\"sp_bad\":%lld", (long long)(sp_after - (sb.new_sp + abi_pops)));
          head += b;
        }
      }
      if (!exec32) g_rt->_release(fn);
      head += ",\"native\":" + jstr(verdict) + ",\"nat\":[" + nat + "]" + (sa_bad ? ",\"sa_bad\":1" : "");
    }
    emit_line((head + "}").c_str());
  }

  std::string o = "{\"summary\":1,\"mode\":\"shuffle\",\"arch\":" + jstr(arch_s) + ",\"cases\":" + std::to_string(st.cases) +
                  ",\"emitted\":" + std::to_string(st.emitted) + ",\"executed\":" + std::to_string(st.executed) +
                  ",\"rejected_detail\":" + std::to_string(st.rejected_detail) + ",\"rejected_update\":" + std::to_string(st.rejected_update) +
                  ",\"rejected_emit\":" + std::to_string(st.rejected_emit) + ",\"crashed\":" + std::to_string(st.crashed) + ",\"rejects\":{";
  bool f = true;
  for (auto& kv : st.rejects) { if (!f) o += ","; f = false; o += jstr(kv.first) + ":" + std::to_string(kv.second); }
  o += "},\"violations\":[";
  for (size_t i = 0; i < st.violations.size(); i++) { if (i) o += ","; o += st.violations[i]; }
  o += "]}";
  emit_line(o);
  return 0;
}

int mode_interop(const Args& args);
int mode_invoke(const Args& args);

int main(int argc, char** argv) {
  Args args(argc, argv);
  init_types();
  std::string mode = args.str("mode", "classify");
  if (mode == "classify") return mode_classify();
  if (mode == "shuffle") return mode_shuffle(args);
  if (mode == "interop") return mode_interop(args);
  if (mode == "invoke") return mode_invoke(args);
  fprintf(stderr, "unknown mode\n");
  return 3;
}

// ------------------------------------------------------------------------------------------------
// Mode: interop (x86-64 host): x86::Compiler invoke -> C callee, C caller -> x86::Compiler function
// ------------------------------------------------------------------------------------------------

typedef float  cv4f  __attribute__((vector_size(16)));
typedef int    cv4i  __attribute__((vector_size(16)));
typedef double cv2d  __attribute__((vector_size(16)));
#ifdef __AVX__
typedef float  cv8f  __attribute__((vector_size(32)));
typedef int    cv8i  __attribute__((vector_size(32)));
#endif
#ifdef __AVX512F__
typedef float  cv16f __attribute__((vector_size(64)));
#endif

template<typename T> struct TI;
#define VERIF_TI(T, ID) template<> struct TI<T> { static TypeId id() { return ID; } }
VERIF_TI(signed char, TypeId::kInt8); VERIF_TI(unsigned char, TypeId::kUInt8); VERIF_TI(short, TypeId::kInt16);
VERIF_TI(unsigned short, TypeId::kUInt16); VERIF_TI(int, TypeId::kInt32); VERIF_TI(unsigned int, TypeId::kUInt32);
VERIF_TI(long long, TypeId::kInt64); VERIF_TI(unsigned long long, TypeId::kUInt64); VERIF_TI(float, TypeId::kFloat32);
VERIF_TI(double, TypeId::kFloat64); VERIF_TI(cv4f, TypeId::kFloat32x4); VERIF_TI(cv4i, TypeId::kInt32x4); VERIF_TI(cv2d, TypeId::kFloat64x2);
#ifdef __AVX__
VERIF_TI(cv8f, TypeId::kFloat32x8); VERIF_TI(cv8i, TypeId::kInt32x8);
#endif
#ifdef __AVX512F__
VERIF_TI(cv16f, TypeId::kFloat32x16);
#endif
template<> struct TI<void> { static TypeId id() { return TypeId::kVoid; } };

struct RecBuf { uint32_t n; uint32_t size[32]; alignas(64) uint8_t data[32][64]; };
static RecBuf g_cal;                         // what a C callee received
alignas(64) static uint8_t g_in[32][64];     // values handed to the callee (by whoever calls)
alignas(64) static uint8_t g_jit_rec[32][64];// what a JIT callee received
alignas(64) static uint8_t g_retval[64];     // the value the callee must return
alignas(64) static uint8_t g_retout[64];     // the value the caller saw

alignas(64) static uint8_t g_live[32][64];    // argument values a JIT caller stores again after the call (they are live across it)
static volatile uint32_t g_helper_calls = 0;  // how often a clobber helper ran

// Helpers a JIT callee invokes in the middle of its body: they change every register their own convention lets a callee change.
extern "C" __attribute__((sysv_abi, noinline)) void c06_clobber_sysv(void) {
  g_helper_calls = g_helper_calls + 1;
  __asm__ volatile(
    "movabs $0x5A5AC06C065A5A5A, %%rax\n\tmov %%rax, %%rcx\n\tmov %%rax, %%rdx\n\tmov %%rax, %%rsi\n\tmov %%rax, %%rdi\n\t"
    "mov %%rax, %%r8\n\tmov %%rax, %%r9\n\tmov %%rax, %%r10\n\tmov %%rax, %%r11\n\t"
    "movq %%rax, %%xmm0\n\tpunpcklqdq %%xmm0, %%xmm0\n\t"
    "movdqa %%xmm0, %%xmm1\n\tmovdqa %%xmm0, %%xmm2\n\tmovdqa %%xmm0, %%xmm3\n\tmovdqa %%xmm0, %%xmm4\n\tmovdqa %%xmm0, %%xmm5\n\t"
    "movdqa %%xmm0, %%xmm6\n\tmovdqa %%xmm0, %%xmm7\n\tmovdqa %%xmm0, %%xmm8\n\tmovdqa %%xmm0, %%xmm9\n\tmovdqa %%xmm0, %%xmm10\n\t"
    "movdqa %%xmm0, %%xmm11\n\tmovdqa %%xmm0, %%xmm12\n\tmovdqa %%xmm0, %%xmm13\n\tmovdqa %%xmm0, %%xmm14\n\tmovdqa %%xmm0, %%xmm15\n\t"
    : : : "rax", "rcx", "rdx", "rsi", "rdi", "r8", "r9", "r10", "r11", "xmm0", "xmm1", "xmm2", "xmm3", "xmm4", "xmm5", "xmm6", "xmm7",
          "xmm8", "xmm9", "xmm10", "xmm11", "xmm12", "xmm13", "xmm14", "xmm15", "memory", "cc");
}
extern "C" __attribute__((ms_abi, noinline)) void c06_clobber_ms(void) {
  g_helper_calls = g_helper_calls + 1;
  __asm__ volatile(
    "movabs $0x3C3CC06C063C3C3C, %%rax\n\tmov %%rax, %%rcx\n\tmov %%rax, %%rdx\n\tmov %%rax, %%r8\n\tmov %%rax, %%r9\n\tmov %%rax, %%r10\n\tmov %%rax, %%r11\n\t"
    "movq %%rax, %%xmm0\n\tpunpcklqdq %%xmm0, %%xmm0\n\t"
    "movdqa %%xmm0, %%xmm1\n\tmovdqa %%xmm0, %%xmm2\n\tmovdqa %%xmm0, %%xmm3\n\tmovdqa %%xmm0, %%xmm4\n\tmovdqa %%xmm0, %%xmm5\n\t"
    : : : "rax", "rcx", "rdx", "r8", "r9", "r10", "r11", "xmm0", "xmm1", "xmm2", "xmm3", "xmm4", "xmm5", "memory", "cc");
}

template<typename T> static inline void rec_one(const T& v) {
  if (g_cal.n < 32) { memcpy(g_cal.data[g_cal.n], &v, sizeof(T)); g_cal.size[g_cal.n] = sizeof(T); }
  g_cal.n++;
}
template<typename T> static inline T load_val(const uint8_t* p) { T v; memcpy(&v, p, sizeof(T)); return v; }

template<typename R, typename... A> struct CCallee {
  static __attribute__((sysv_abi, noinline)) R sysv(A... a) {
    g_cal.n = 0;
    (rec_one<A>(a), ...);
    if constexpr (!std::is_void<R>::value) return load_val<R>(g_retval);
  }
  static __attribute__((ms_abi, noinline)) R ms(A... a) {
    g_cal.n = 0;
    (rec_one<A>(a), ...);
    if constexpr (!std::is_void<R>::value) return load_val<R>(g_retval);
  }
};

template<typename R, typename... A> struct CCaller {
  template<size_t... I> static void sysv_(void* fn, std::index_sequence<I...>) {
    typedef R (__attribute__((sysv_abi)) *F)(A...);
    if constexpr (std::is_void<R>::value) ((F)fn)(load_val<A>(g_in[I])...);
    else { R r = ((F)fn)(load_val<A>(g_in[I])...); memcpy(g_retout, &r, sizeof(R)); }
  }
  template<size_t... I> static void ms_(void* fn, std::index_sequence<I...>) {
    typedef R (__attribute__((ms_abi)) *F)(A...);
    if constexpr (std::is_void<R>::value) ((F)fn)(load_val<A>(g_in[I])...);
    else { R r = ((F)fn)(load_val<A>(g_in[I])...); memcpy(g_retout, &r, sizeof(R)); }
  }
  static void sysv(void* fn) { sysv_(fn, std::index_sequence_for<A...>{}); }
  static void ms(void* fn) { ms_(fn, std::index_sequence_for<A...>{}); }
};

struct SigEntry {
  TypeId ret;
  std::vector<TypeId> args;
  void* c_callee[2];
  void (*c_caller[2])(void*);
  int va = -1;          // index of the first variadic argument, -1: not variadic
  int expect_al = -1;   // SysV: what gcc and clang (agreeing) load into AL for the same call, -1: no verdict
};

// AL observer for variadic SysV calls: the invoke target is this thunk, which stores EAX and tail-jumps to the real callee
static uint32_t g_al_seen = 0;
static void* g_thunk_target = nullptr;
static void* g_al_thunk = nullptr;

static bool build_al_thunk(JitRuntime& rt) {
  CodeHolder code;
  code.init(rt.environment(), rt.cpu_features());
  x86::Assembler a(&code);
  a.mov(x86::r11, imm(uint64_t(uintptr_t(&g_al_seen))));
  a.mov(x86::dword_ptr(x86::r11), x86::eax);
  a.mov(x86::r11, imm(uint64_t(uintptr_t(&g_thunk_target))));
  a.jmp(x86::qword_ptr(x86::r11));
  return rt._add(&g_al_thunk, &code) == Error::kOk;
}
static std::vector<SigEntry> g_sigs;

// Preserved-register guard: every JIT function the interop mode runs is entered through this thunk, whether the caller is a
// gcc-compiled C function or the driver itself. The thunk is transparent for arguments and return values (it touches no
// argument/return register and leaves the stack exactly as its caller set it up: the return address is popped into memory and
// the target is re-`call`ed, so stack arguments stay at [rsp+8]); it loads every callee-saved register of the target's
// convention with a sentinel, calls, records what the registers and rsp hold after the return, and puts its caller's values back.
struct GuardState {
  uint64_t target, ret_addr, sp_before, sp_after, entered;
  uint64_t saved_gp[16], seen_gp[16], sent_gp[16];
  alignas(16) uint8_t saved_vec[16][16];
  alignas(16) uint8_t seen_vec[16][16];
  alignas(16) uint8_t sent_vec[16][16];
};
static GuardState* g_gs = nullptr;        // below 2 GiB: the thunk has no free register to address it with
static void* g_guard_thunk[2] = {nullptr, nullptr};     // [0] SysV set, [1] Microsoft x64 set
static const uint32_t kGuardGp[2] = {0xF028u, 0xF0E8u};  // rbx rbp r12-r15 | + rsi rdi
static const uint32_t kGuardVec[2] = {0u, 0xFFC0u};      // - | xmm6-xmm15
static const char* kGpNames64[16] = {"rax", "rcx", "rdx", "rbx", "rsp", "rbp", "rsi", "rdi", "r8", "r9", "r10", "r11", "r12", "r13", "r14", "r15"};

static bool build_guard_thunks(JitRuntime& rt) {
  void* p = mmap(nullptr, 65536, PROT_READ | PROT_WRITE, MAP_PRIVATE | MAP_ANONYMOUS | MAP_32BIT, -1, 0);
  if (p == MAP_FAILED || uintptr_t(p) + 65536 >= 0x7FFF0000ull) return false;
  g_gs = (GuardState*)p;
  for (int w = 0; w < 2; w++) {
    using namespace x86;
    CodeHolder code;
    code.init(rt.environment(), rt.cpu_features());
    Assembler a(&code);
    a.pop(abs_mem(&g_gs->ret_addr, 8));
    a.mov(abs_mem(&g_gs->sp_before, 8), rsp);
    for (uint32_t r = 0; r < 16; r++) if ((kGuardGp[w] >> r) & 1) a.mov(abs_mem(&g_gs->saved_gp[r], 8), gpq(r));
    for (uint32_t v = 0; v < 16; v++) if ((kGuardVec[w] >> v) & 1) a.movups(abs_mem(g_gs->saved_vec[v], 16), xmm(v));
    for (uint32_t r = 0; r < 16; r++) if ((kGuardGp[w] >> r) & 1) a.mov(gpq(r), abs_mem(&g_gs->sent_gp[r], 8));
    for (uint32_t v = 0; v < 16; v++) if ((kGuardVec[w] >> v) & 1) a.movups(xmm(v), abs_mem(g_gs->sent_vec[v], 16));
    a.inc(abs_mem(&g_gs->entered, 8));
    a.call(abs_mem(&g_gs->target, 8));
    a.mov(abs_mem(&g_gs->sp_after, 8), rsp);
    a.mov(rsp, abs_mem(&g_gs->sp_before, 8));
    for (uint32_t r = 0; r < 16; r++) if ((kGuardGp[w] >> r) & 1) { a.mov(abs_mem(&g_gs->seen_gp[r], 8), gpq(r)); a.mov(gpq(r), abs_mem(&g_gs->saved_gp[r], 8)); }
    for (uint32_t v = 0; v < 16; v++) if ((kGuardVec[w] >> v) & 1) { a.movups(abs_mem(g_gs->seen_vec[v], 16), xmm(v)); a.movups(xmm(v), abs_mem(g_gs->saved_vec[v], 16)); }
    a.jmp(abs_mem(&g_gs->ret_addr, 8));
    if (rt._add(&g_guard_thunk[w], &code) != Error::kOk) return false;
  }
  return true;
}

template<typename R, typename... A> static void reg_sig() {
  SigEntry e;
  e.ret = TI<R>::id();
  e.args = {TI<A>::id()...};
  e.c_callee[0] = (void*)&CCallee<R, A...>::sysv;
  e.c_callee[1] = (void*)&CCallee<R, A...>::ms;
  e.c_caller[0] = &CCaller<R, A...>::sysv;
  e.c_caller[1] = &CCaller<R, A...>::ms;
  g_sigs.push_back(e);
}

static void register_sigs() {
  typedef signed char i8; typedef unsigned char u8; typedef short i16; typedef unsigned short u16;
  typedef unsigned int u32; typedef long long i64; typedef unsigned long long u64;
  reg_sig<void>();
  reg_sig<int, int>();
  reg_sig<i64, i64, i64>();
  reg_sig<int, int, int, int, int, int, int>();
  reg_sig<int, int, int, int, int, int, int, int, int, int>();                       // 3 on the stack (SysV), 5 (Win64)
  reg_sig<i64, i8, u8, i16, u16, int, u32, i64, u64>();
  reg_sig<i8, i8, i8, i8, i8, i8, i8, i8, i8, i8>();
  reg_sig<u16, u16, i16, u8, i8, u16, i16, u8, i8, u16, i16>();
  reg_sig<float, float>();
  reg_sig<double, double, double>();
  reg_sig<double, float, double, float, double, float, double, float, double, float, double>();   // > 8 vector registers
  reg_sig<float, int, float, int, double, i64, float, u8, double>();
  reg_sig<double, double, int, double, int, double, int, double, int, double, int, double, int>();
  reg_sig<u64, int, int, int, int, int, int, i64, double, double, double, double, double, double, double, double, double, i8>();
  reg_sig<void, int, double, i64, float, u16, double, i8, float, u32, double, i16, float, u64, double, u8, float, int, double>();
  reg_sig<cv4f, cv4f>();
  reg_sig<cv4i, cv4i, cv4f, cv2d>();
  reg_sig<cv2d, int, cv4f, double, cv4i, float>();
  reg_sig<cv4f, cv4f, cv4f, cv4f, cv4f, cv4f, cv4f, cv4f, cv4f>();                    // 8 in registers
  reg_sig<void, cv4f, cv4f, cv4f, cv4f, cv4f, cv4f, cv4f, cv4f, cv4f, cv4f>();        // 2 on the stack, both 16-aligned
  reg_sig<int, int, int, int, int, int, int, int, cv4f, cv4f, cv4f, cv4f, cv4f, cv4f, cv4f, cv4f, cv4f>();  // vector after an odd stack slot
  reg_sig<void, double, double, double, double, double, double, double, double, double, cv4i>();
  reg_sig<i64, cv4f, i64, cv4i, i64, cv2d, i64, cv4f, i64, cv4i, i64, cv2d, i64, cv4f, i64, cv4f, i64, cv4f, cv4f>();
#ifdef __AVX__
  reg_sig<cv8f, cv8f>();
  reg_sig<cv8f, int, cv8f, cv4f, double, cv8i>();
  reg_sig<void, cv8f, cv8f, cv8f, cv8f, cv8f, cv8f, cv8f, cv8f, cv8f, int>();
  reg_sig<int, i64, i64, i64, i64, i64, i64, i64, cv8f, cv8f, cv8f, cv8f, cv8f, cv8f, cv8f, cv8f, cv8f, cv8f>();
#endif
#ifdef __AVX512F__
  reg_sig<cv16f, cv16f>();
  reg_sig<cv16f, int, cv16f, cv4f, cv8f, double>();
  reg_sig<void, cv16f, cv16f, cv16f, cv16f, cv16f, cv16f, cv16f, cv16f, cv16f, i64, i64, i64, i64, i64, i64, i64, i8>();
#endif
  reg_sig<float, float, float, float, float, float, float, float, float, float, float>();
  reg_sig<u8, u8>();
  reg_sig<i16, i16, i16>();
  reg_sig<u32, u32, u64, u32, u64, u32, u64, u32, u64>();
  reg_sig<i64, double, i64, double, i64, double, i64, double, i64, double, i64, double, i64, double, i64, double, i64, double, i64>();
}

struct IoStats {
  uint64_t calls = 0, built = 0, rejected = 0;
  uint64_t guard_calls = 0, guard_regs = 0, guard_funcs = 0;
  uint64_t cross_calls = 0, live_values = 0, helper_runs = 0;
  std::map<std::string, uint64_t> built_by;
  std::map<std::string, uint64_t> rejects;
  std::vector<std::string> violations;
  std::set<std::string> vkeys;
  std::vector<std::string> samples;
};

static void io_violation(IoStats& st, const std::string& key, const std::string& what) {
  if (st.vkeys.count(key)) return;
  st.vkeys.insert(key);
  st.violations.push_back("{\"key\":" + jstr(key) + ",\"what\":" + jstr(what) + "}");
}

static std::string cls_of(TypeId t) {
  if (TypeUtils::is_int(t)) return "int";
  if (t == TypeId::kFloat32) return "f32";
  if (t == TypeId::kFloat64) return "f64";
  if (TypeUtils::is_mask(t)) return "mask";
  if (TypeUtils::is_mmx(t)) return "mmx";
  return "v" + std::to_string(TypeUtils::size_of(t) * 8);
}

static bool sig_needs_avx(const FuncSignature& sig) {
  for (uint32_t i = 0; i < sig.arg_count(); i++) if (TypeUtils::size_of(sig.arg(i)) > 16) return true;
  return TypeUtils::size_of(sig.ret()) > 16;
}

static Reg new_reg_for(x86::Compiler& cc, TypeId t) {
  uint32_t sz = TypeUtils::size_of(t);
  if (TypeUtils::is_int(t)) return sz <= 4 ? Reg(cc.new_gp32()) : Reg(cc.new_gp64());
  if (t == TypeId::kFloat32) return cc.new_xmm_ss();
  if (t == TypeId::kFloat64) return cc.new_xmm_sd();
  if (TypeUtils::is_mmx(t)) return cc.new_mm();
  if (TypeUtils::is_mask(t)) return cc.new_reg<x86::KReg>(t);
  if (sz <= 16) return cc.new_xmm();
  if (sz <= 32) return cc.new_ymm();
  return cc.new_zmm();
}

// reg <- [base + off] with the value extended the way a C caller would hold it
static void emit_load(x86::Compiler& cc, const Reg& r, TypeId t, const x86::Gp& base, int32_t off, bool avx) {
  uint32_t sz = TypeUtils::size_of(t);
  x86::Mem m = x86::ptr(base, off, sz);
  if (TypeUtils::is_int(t)) {
    x86::Gp g = r.as<x86::Gp>();
    bool sg = is_signed_int(t);
    if (sz == 1 || sz == 2) { if (sg) cc.movsx(g.r32(), m); else cc.movzx(g.r32(), m); }
    else if (sz == 4) cc.mov(g.r32(), m);
    else cc.mov(g.r64(), m);
    return;
  }
  x86::Vec v = r.as<x86::Vec>();
  if (TypeUtils::is_mmx(t)) { cc.movq(r.as<x86::Mm>(), m); return; }
  if (TypeUtils::is_mask(t)) { cc.emit(sz == 1 ? x86::Inst::kIdKmovb : sz == 2 ? x86::Inst::kIdKmovw : sz == 4 ? x86::Inst::kIdKmovd : x86::Inst::kIdKmovq, r, m); return; }
  if (t == TypeId::kFloat32) { if (avx) cc.vmovss(v.xmm(), m); else cc.movss(v.xmm(), m); return; }
  if (t == TypeId::kFloat64) { if (avx) cc.vmovsd(v.xmm(), m); else cc.movsd(v.xmm(), m); return; }
  if (sz <= 16) { if (avx) cc.vmovups(v.xmm(), m); else cc.movups(v.xmm(), m); return; }
  if (sz <= 32) { cc.vmovups(v.ymm(), m); return; }
  cc.vmovups(v.zmm(), m);
}

static void emit_store(x86::Compiler& cc, const Reg& r, TypeId t, const x86::Gp& base, int32_t off, bool avx) {
  uint32_t sz = TypeUtils::size_of(t);
  x86::Mem m = x86::ptr(base, off, sz);
  if (TypeUtils::is_int(t)) {
    x86::Gp g = r.as<x86::Gp>();
    if (sz == 1) cc.mov(m, g.r8());
    else if (sz == 2) cc.mov(m, g.r16());
    else if (sz == 4) cc.mov(m, g.r32());
    else cc.mov(m, g.r64());
    return;
  }
  if (TypeUtils::is_mmx(t)) { cc.movq(m, r.as<x86::Mm>()); return; }
  if (TypeUtils::is_mask(t)) { cc.emit(sz == 1 ? x86::Inst::kIdKmovb : sz == 2 ? x86::Inst::kIdKmovw : sz == 4 ? x86::Inst::kIdKmovd : x86::Inst::kIdKmovq, m, r); return; }
  x86::Vec v = r.as<x86::Vec>();
  if (t == TypeId::kFloat32) { if (avx) cc.vmovss(m, v.xmm()); else cc.movss(m, v.xmm()); return; }
  if (t == TypeId::kFloat64) { if (avx) cc.vmovsd(m, v.xmm()); else cc.movsd(m, v.xmm()); return; }
  if (sz <= 16) { if (avx) cc.vmovups(m, v.xmm()); else cc.movups(m, v.xmm()); return; }
  if (sz <= 32) { cc.vmovups(m, v.ymm()); return; }
  cc.vmovups(m, v.zmm());
}

// A function with signature `sig` that stores every argument to g_jit_rec[i] and returns g_retval.
// unchecked[i] is set for arguments the public API cannot bind (passed by reference).
// helper: 0 none, 1 invoke c06_clobber_sysv (SysV), 2 invoke c06_clobber_ms (Microsoft x64) between the stores of the arguments:
// the function then contains a call of another convention; what that call may change and the function's own convention preserves
// must be saved by the function's frame, and the arguments not stored yet are live across the call.
static FuncNode* emit_callee(x86::Compiler& cc, FuncNode* fn, const FuncSignature& sig, std::vector<bool>& unchecked, int helper = 0) {
  bool avx = sig_needs_avx(sig);
  cc.add_func(fn);
  if (avx) { fn->frame().set_avx_enabled(); if (g_has_avx512) fn->frame().set_avx512_enabled(); }
  std::vector<Reg> regs;
  unchecked.assign(sig.arg_count(), false);
  for (uint32_t i = 0; i < sig.arg_count(); i++) {
    if (fn->detail().arg(i).is_indirect()) { unchecked[i] = true; regs.push_back(Reg()); continue; }
    Reg r = new_reg_for(cc, sig.arg(i));
    regs.push_back(r);
    fn->set_arg(i, r);
  }
  x86::Gp base = cc.new_gp_ptr("base");
  cc.mov(base, imm(uint64_t(uintptr_t(g_jit_rec))));
  uint32_t split = helper ? sig.arg_count() / 2 : sig.arg_count();
  for (uint32_t i = 0; i < split; i++)
    if (!unchecked[i]) emit_store(cc, regs[i], sig.arg(i), base, int32_t(64 * i), avx);
  if (helper) {
    InvokeNode* hinv = nullptr;
    FuncSignature hs(helper == 1 ? CallConvId::kX64SystemV : CallConvId::kX64Windows);
    hs.set_ret(TypeId::kVoid);
    cc.invoke_(Out(hinv), imm(uint64_t(uintptr_t(helper == 1 ? (void*)&c06_clobber_sysv : (void*)&c06_clobber_ms))), hs);
  }
  for (uint32_t i = split; i < sig.arg_count(); i++)
    if (!unchecked[i]) emit_store(cc, regs[i], sig.arg(i), base, int32_t(64 * i), avx);
  if (sig.ret() != TypeId::kVoid) {
    Reg r = new_reg_for(cc, sig.ret());
    cc.mov(base, imm(uint64_t(uintptr_t(g_retval))));
    emit_load(cc, r, sig.ret(), base, 0, avx);
    cc.ret(r);
  }
  else cc.ret();
  cc.end_func();
  return fn;
}

// void caller(void): loads g_in[i], invokes `target` with `sig`, stores the return value to g_retout.
// live_after: every argument register is stored to g_live[i] after the call (so it is live across the call: the allocator has to keep
// it where the callee's convention leaves it alone, or spill it), through the pointer that was loaded before the call
static FuncNode* emit_caller(x86::Compiler& cc, const FuncSignature& sig, const Operand& target_, bool live_after = false, bool target_in_reg = false) {
  bool avx = sig_needs_avx(sig);
  FuncNode* fn = cc.add_func(FuncSignature::build<void>());
  if (avx) { fn->frame().set_avx_enabled(); if (g_has_avx512) fn->frame().set_avx512_enabled(); }
  x86::Gp base = cc.new_gp_ptr("base");
  cc.mov(base, imm(uint64_t(uintptr_t(g_in))));
  std::vector<Reg> regs;
  for (uint32_t i = 0; i < sig.arg_count(); i++) {
    Reg r = new_reg_for(cc, sig.arg(i));
    emit_load(cc, r, sig.arg(i), base, int32_t(64 * i), avx);
    regs.push_back(r);
  }
  InvokeNode* inv = nullptr;
  Operand target = target_;
  if (target_in_reg && target_.is_imm()) {
    x86::Gp t = cc.new_gp_ptr("target");
    cc.mov(t, target_.as<Imm>());
    target = t;
  }
  cc.invoke_(Out(inv), target, sig);
  if (inv) {
    for (uint32_t i = 0; i < sig.arg_count(); i++) inv->set_arg(i, regs[i]);
    if (sig.ret() != TypeId::kVoid) {
      Reg r = new_reg_for(cc, sig.ret());
      inv->set_ret(0, r);
      x86::Gp b2 = cc.new_gp_ptr("b2");
      cc.mov(b2, imm(uint64_t(uintptr_t(g_retout))));
      emit_store(cc, r, sig.ret(), b2, 0, avx);
    }
    if (live_after) {
      int64_t delta = int64_t(uintptr_t(g_live)) - int64_t(uintptr_t(g_in));
      for (uint32_t i = 0; i < sig.arg_count(); i++) emit_store(cc, regs[i], sig.arg(i), base, int32_t(delta + 64 * i), avx);
    }
  }
  cc.ret();
  cc.end_func();
  return fn;
}

static std::string sig_text(const FuncSignature& sig) {
  std::string o = type_name(sig.ret()) + "(";
  for (uint32_t i = 0; i < sig.arg_count(); i++) { if (i) o += ","; o += type_name(sig.arg(i)); }
  return o + ")";
}

static void fill_values(Rng& rng, const FuncSignature& sig) {
  for (auto& row : g_in) for (auto& b : row) b = uint8_t(rng.next());
  for (auto& b : g_retval) b = uint8_t(rng.next());
  for (uint32_t i = 0; i < sig.arg_count(); i++)
    if (TypeUtils::is_int(sig.arg(i)) && rng.chance(1, 2)) g_in[i][TypeUtils::size_of(sig.arg(i)) - 1] |= 0x80;
  memset(g_retout, 0xEE, sizeof g_retout);
  memset(g_jit_rec, 0xEE, sizeof g_jit_rec);
  memset(g_live, 0xEE, sizeof g_live);
  memset(&g_cal, 0xEE, sizeof g_cal);
  g_cal.n = 0xFFFFFFFFu;
}

// arm the guard for one call of `target` whose convention preserves set `w`; returns the address to call instead
static Rng g_guard_rng(0xC06C06);
static void* guard_arm(void* target, int w) {
  GuardState& gs = *g_gs;
  gs.target = uint64_t(uintptr_t(target));
  gs.entered = 0;
  gs.sp_after = 0;
  for (uint32_t r = 0; r < 16; r++) { gs.sent_gp[r] = (g_guard_rng.next() & 0x0000FFFFFFFF0000ull) | 0x5E00000000000000ull | (uint64_t(r) << 52) | 0xC06u; gs.seen_gp[r] = 0; }
  for (uint32_t v = 0; v < 16; v++) { for (auto& b : gs.sent_vec[v]) b = uint8_t(g_guard_rng.next()); gs.sent_vec[v][15] = uint8_t(0xA0 + v); memset(gs.seen_vec[v], 0, 16); }
  return g_guard_thunk[w];
}

// judge what the guard saw; `who` = jit-caller / jit-callee / lightcall part of the key, `cc` the convention part
static void guard_judge(IoStats& st, int w, const std::string& key_prefix, const std::string& text) {
  GuardState& gs = *g_gs;
  st.guard_calls++;
  if (gs.entered != 1) { io_violation(st, key_prefix + ":guard-not-entered-once", text + ": the preserved-register guard ran " + std::to_string(gs.entered) + " times"); return; }
  for (uint32_t r = 0; r < 16; r++) {
    if (!((kGuardGp[w] >> r) & 1)) continue;
    st.guard_regs++;
    if (gs.seen_gp[r] != gs.sent_gp[r]) {
      char b[200];
      snprintf(b, sizeof b, ": callee-saved %s held 0x%016llx at the call and 0x%016llx after the return", kGpNames64[r], (unsigned long long)gs.sent_gp[r], (unsigned long long)gs.seen_gp[r]);
      io_violation(st, key_prefix + ":callee-saved-clobbered:" + kGpNames64[r], text + b);
    }
  }
  for (uint32_t v = 0; v < 16; v++) {
    if (!((kGuardVec[w] >> v) & 1)) continue;
    st.guard_regs++;
    if (memcmp(gs.seen_vec[v], gs.sent_vec[v], 16) != 0)
      io_violation(st, key_prefix + ":callee-saved-clobbered:xmm" + std::to_string(v), text + ": callee-saved xmm" + std::to_string(v) + " held " + hexstr(gs.sent_vec[v], 16) + " at the call and " + hexstr(gs.seen_vec[v], 16) + " after the return");
  }
  if (gs.sp_after != gs.sp_before)
    io_violation(st, key_prefix + ":stack-pointer-not-restored", text + ": rsp after the return differs from rsp before the call by " + std::to_string((long long)(gs.sp_after - gs.sp_before)));
}

// A refused function (Compiler::finalize() error) is keyed by what in the signature explains it
static std::string refusal_feature(const FuncSignature& sig, const Environment& env) {
  FuncDetail fd;
  if (fd.init(sig, env) != Error::kOk) return "signature-rejected";
  std::string ind_stack, ind_reg;
  for (uint32_t a = 0; a < fd.arg_count(); a++)
    for (uint32_t v = 0; v < Globals::kMaxValuePack; v++) {
      const FuncValue& fv = fd.arg(a, v);
      if (!fv) break;
      if (!fv.is_assigned()) return "unassigned-argument:" + cls_of(sig.arg(a));
      if (fv.is_indirect() && fv.is_stack()) ind_stack = "by-reference-vector-on-stack";
      else if (fv.is_indirect()) ind_reg = "by-reference-vector-in-register";
    }
  if (!ind_stack.empty()) return ind_stack;
  if (!ind_reg.empty()) return ind_reg;
  if (sig.has_var_args()) return "variadic";
  return "plain-signature";
}

static void io_refused(IoStats& st, const std::string& who, const std::string& conv, const FuncSignature& sig, const Environment& env, Error err, const std::string& text) {
  st.rejected++;
  std::string feat = refusal_feature(sig, env);
  st.rejects[who + ":" + conv + ":" + err_name(err) + ":" + feat]++;
  if (st.samples.size() < 10) st.samples.push_back("rejected " + who + " " + text + ": " + err_name(err));
  io_violation(st, "interop:" + conv + ":" + who + ":refused:" + feat,
               "Compiler::finalize() returned " + std::string(err_name(err)) + " for a " + who + " of the valid signature " + text + " (what in the signature explains it: " + feat + ")");
}

static void judge_live(IoStats& st, const FuncSignature& sig, const std::string& key_prefix, const std::string& text) {
  for (uint32_t i = 0; i < sig.arg_count(); i++) {
    uint32_t sz = TypeUtils::size_of(sig.arg(i));
    st.live_values++;
    if (memcmp(g_live[i], g_in[i], sz) != 0) {
      io_violation(st, key_prefix + ":value-live-across-call-lost:" + cls_of(sig.arg(i)),
                   text + ": argument " + std::to_string(i) + " (" + type_name(sig.arg(i)) + ") is used again after the call; it was " + hexstr(g_in[i], sz) + " before and " + hexstr(g_live[i], sz) + " after the call");
      break;
    }
  }
}

struct CallCtx { void (*fn)(void*); void* arg; };
static void call_ctx(void* p) { CallCtx* c = (CallCtx*)p; c->fn(c->arg); }
static void call_void_fn(void* p) { ((void (*)(void))p)(); }

int mode_interop(const Args& args) {
  uint64_t seed = args.u64("seed", 1);
  uint64_t reps = args.u64("reps", 3);
  uint64_t nlight = args.u64("light", 100);
  const CpuInfo& ci = CpuInfo::host();
  g_has_avx = ci.features().x86().has_avx() && ci.features().x86().has_avx2();
  g_has_avx512 = ci.features().x86().has_avx512_f();
  install_handlers();
  if (args.u64("fixed", 1)) register_sigs();
  // generated callees/callers: shared objects produced by vlib/props/c06.py for this run's signatures (gcc, -mavx512f as available)
  {
    struct GenEntry { const char* ret; const char* args[16]; int nargs; int va; int al; void* callee[2]; void (*caller[2])(void*); };
    std::string libs = args.str("callees", "");
    size_t pos = 0;
    while (pos < libs.size()) {
      size_t e = libs.find(',', pos);
      if (e == std::string::npos) e = libs.size();
      std::string path = libs.substr(pos, e - pos);
      pos = e + 1;
      if (path.empty()) continue;
      void* h = dlopen(path.c_str(), RTLD_NOW | RTLD_LOCAL);
      if (!h) { fprintf(stderr, "dlopen %s: %s\n", path.c_str(), dlerror()); return 5; }
      typedef void (*BindFn)(void*, void*, void*, void*);
      BindFn bind = (BindFn)dlsym(h, "c06_gen_bind");
      int* count = (int*)dlsym(h, "c06_gen_count");
      GenEntry* table = (GenEntry*)dlsym(h, "c06_gen_table");
      if (!bind || !count || !table) { fprintf(stderr, "%s: missing symbols\n", path.c_str()); return 5; }
      bind(&g_cal, g_in, g_retval, g_retout);
      for (int i = 0; i < *count; i++) {
        SigEntry se;
        se.ret = type_by_name(table[i].ret);
        for (int k = 0; k < table[i].nargs; k++) se.args.push_back(type_by_name(table[i].args[k]));
        se.c_callee[0] = table[i].callee[0]; se.c_callee[1] = table[i].callee[1];
        se.c_caller[0] = table[i].caller[0]; se.c_caller[1] = table[i].caller[1];
        se.va = table[i].va;
        se.expect_al = table[i].al;
        g_sigs.push_back(se);
      }
    }
  }
  JitRuntime rt;
  IoStats st;
  build_al_thunk(rt);
  if (!build_guard_thunks(rt)) { fprintf(stderr, "guard thunk: cannot build\n"); return 5; }
  Rng rng(seed * 0x2545F4914F6CDD1Dull + 6);
  static const char* conv_names[2] = {"sysv64", "win64"};
  static const CallConvId conv_ids[2] = {CallConvId::kX64SystemV, CallConvId::kX64Windows};

  for (size_t si = 0; si < g_sigs.size(); si++) {
    const SigEntry& e = g_sigs[si];
    for (int cv = 0; cv < 2; cv++) {
      FuncSignature sig(conv_ids[cv]);
      sig.set_ret(e.ret);
      for (TypeId t : e.args) sig.add_arg(t);
      if (e.va >= 0) sig.set_va_index(uint32_t(e.va));
      if (!e.c_callee[cv]) continue;      // e.g. no ms_abi variadic callee for vectors (gcc's ms va_arg reads them by value)
      const bool is_va = e.va >= 0;
      const std::string vk = is_va ? ":va" : "";
      std::string text = std::string(conv_names[cv]) + " " + sig_text(sig) + (is_va ? " [variadic from argument " + std::to_string(e.va) + "]" : "");
      // gcc (hidden pointer) and clang (ymm0/zmm0) disagree on how ms_abi returns 256/512-bit vectors: no oracle
      if (cv == 1 && TypeUtils::size_of(e.ret) > 16) continue;

      // ---- direction A: JIT caller -> C callee ----
      {
        CodeHolder code;
        code.init(rt.environment(), rt.cpu_features());
        x86::Compiler cc(&code);
        const bool watch_al = is_va && cv == 0 && g_al_thunk;
        // variants of the caller: argument values used again after the call; the call target held in a register
        const bool live = ((si + cv) & 1) != 0, treg = ((si + cv) & 2) != 0;
        emit_caller(cc, sig, imm(uint64_t(uintptr_t(watch_al ? g_al_thunk : e.c_callee[cv]))), live, treg);
        Error err = cc.finalize();
        void* fn = nullptr;
        if (err == Error::kOk) err = rt._add(&fn, &code);
        if (err != Error::kOk) io_refused(st, "jit-caller", conv_names[cv] + vk, sig, rt.environment(), err, text);
        else {
          st.built++;
          st.built_by[std::string("jit-caller:") + conv_names[cv] + vk + (live ? ":live" : "") + (treg ? ":target-in-register" : "")]++;
          for (uint64_t r = 0; r < reps; r++) {
            fill_values(rng, sig);
            g_thunk_target = e.c_callee[cv];
            g_al_seen = 0xFFFFFFFFu;
            // the JIT caller itself is a SysV `void f(void)`: entered through the guard with the SysV preserved set
            CallCtx ctx{call_void_fn, guard_arm(fn, 0)};
            int sg = run_guarded(call_ctx, &ctx);
            st.calls++;
            if (!sg) guard_judge(st, 0, std::string("interop:") + conv_names[cv] + vk + ":jit-caller", "JIT function (SysV, void(void)) that invokes C callee " + text);
            if (watch_al && !sg) {
              uint32_t al = g_al_seen & 0xFFu;
              if (g_al_seen == 0xFFFFFFFFu) io_violation(st, "interop:sysv64:va:thunk-not-reached", "variadic call " + text + " never reached the call target");
              else if (al > 8) io_violation(st, "interop:sysv64:va:al-out-of-range", "variadic call " + text + ": AL = " + std::to_string(al) + " at the call (the ABI allows 0..8)");
              else if (e.expect_al >= 0 && int(al) < e.expect_al)
                io_violation(st, "interop:sysv64:va:al-too-small", "variadic call " + text + ": AL = " + std::to_string(al) + " at the call, gcc and clang both load " + std::to_string(e.expect_al) +
                             " (AL must be an upper bound of the number of vector registers used; a callee that trusts it does not save the others)");
              else if (e.expect_al >= 0 && int(al) > e.expect_al) st.rejects["note:al-larger-than-compilers"]++;
            }
            if (sg) { io_violation(st, std::string("interop:") + conv_names[cv] + vk + ":jit-caller:crash" + (treg ? ":target-in-register" : ""), "JIT caller of C callee " + text + (treg ? " (call target held in a register)" : "") + " crashed with signal " + std::to_string(sg)); break; }
            if (g_cal.n != sig.arg_count()) { io_violation(st, std::string("interop:") + conv_names[cv] + vk + ":jit-caller:callee-not-reached", "C callee " + text + " was not entered"); break; }
            for (uint32_t i = 0; i < sig.arg_count(); i++) {
              uint32_t sz = TypeUtils::size_of(sig.arg(i));
              if (memcmp(g_cal.data[i], g_in[i], sz) != 0) {
                io_violation(st, std::string("interop:") + conv_names[cv] + vk + ":jit-caller:arg:" + cls_of(sig.arg(i)),
                             "JIT caller -> C callee " + text + ": argument " + std::to_string(i) + " (" + type_name(sig.arg(i)) + ") passed " + hexstr(g_in[i], sz) + ", callee received " + hexstr(g_cal.data[i], sz));
                break;
              }
            }
            if (sig.ret() != TypeId::kVoid) {
              uint32_t sz = TypeUtils::size_of(sig.ret());
              if (memcmp(g_retout, g_retval, sz) != 0)
                io_violation(st, std::string("interop:") + conv_names[cv] + vk + ":jit-caller:ret:" + cls_of(sig.ret()),
                             "JIT caller -> C callee " + text + ": callee returned " + hexstr(g_retval, sz) + ", caller saw " + hexstr(g_retout, sz));
            }
            if (live) judge_live(st, sig, std::string("interop:") + conv_names[cv] + vk + ":jit-caller", "JIT caller -> C callee " + text);
          }
          rt._release(fn);
        }
      }

      // ---- direction B: C caller -> JIT callee ---- (a JIT function cannot read its own variadic arguments)
      if (!is_va && e.c_caller[cv]) {
        CodeHolder code;
        code.init(rt.environment(), rt.cpu_features());
        x86::Compiler cc(&code);
        std::vector<bool> unchecked;
        FuncNode* node = nullptr;
        Error err = cc.new_func_node(Out(node), sig);
        // every other function calls, in the middle of its body, a helper of the *other* convention that changes every register that
        // convention lets it change: a Microsoft x64 function calling a SysV function must save rsi, rdi and xmm6-xmm15 itself
        const int helper = (si & 1) ? 0 : (cv == 1 ? 1 : 2);
        if (err == Error::kOk) emit_callee(cc, node, sig, unchecked, helper);
        if (err == Error::kOk) err = cc.finalize();
        void* fn = nullptr;
        if (err == Error::kOk) err = rt._add(&fn, &code);
        if (err != Error::kOk) io_refused(st, "jit-callee", conv_names[cv], sig, rt.environment(), err, text);
        else {
          st.built++;
          st.built_by[std::string("jit-callee:") + conv_names[cv] + (helper == 1 ? ":calls-sysv" : helper == 2 ? ":calls-win64" : "")]++;
          for (uint64_t r = 0; r < reps; r++) {
            fill_values(rng, sig);
            uint32_t helper_before = g_helper_calls;
            // gcc-compiled caller -> guard (same convention as the callee) -> JIT function
            CallCtx ctx{e.c_caller[cv], guard_arm(fn, cv)};
            int sg = run_guarded(call_ctx, &ctx);
            st.calls++;
            if (!sg) guard_judge(st, cv, std::string("interop:") + conv_names[cv] + ":jit-callee" + (helper == 1 ? ":calls-sysv" : ""), "C caller -> JIT function " + std::string(helper ? "(that itself calls a function of the other convention) " : "") + text);
            if (!sg && helper) {
              st.cross_calls++;
              if (g_helper_calls != helper_before + 1) io_violation(st, std::string("interop:") + conv_names[cv] + ":jit-callee:helper-not-called-once", "JIT function " + text + ": the helper it invokes ran " + std::to_string(g_helper_calls - helper_before) + " times");
              else st.helper_runs++;
            }
            if (sg) { io_violation(st, std::string("interop:") + conv_names[cv] + ":jit-callee:crash", "C caller of JIT function " + text + " crashed with signal " + std::to_string(sg)); break; }
            for (uint32_t i = 0; i < sig.arg_count(); i++) {
              if (unchecked[i]) continue;
              uint32_t sz = TypeUtils::size_of(sig.arg(i));
              if (memcmp(g_jit_rec[i], g_in[i], sz) != 0) {
                io_violation(st, std::string("interop:") + conv_names[cv] + ":jit-callee:arg:" + cls_of(sig.arg(i)),
                             "C caller -> JIT function " + text + ": argument " + std::to_string(i) + " (" + type_name(sig.arg(i)) + ") passed " + hexstr(g_in[i], sz) + ", function received " + hexstr(g_jit_rec[i], sz));
                break;
              }
            }
            if (sig.ret() != TypeId::kVoid) {
              uint32_t sz = TypeUtils::size_of(sig.ret());
              if (memcmp(g_retout, g_retval, sz) != 0)
                io_violation(st, std::string("interop:") + conv_names[cv] + ":jit-callee:ret:" + cls_of(sig.ret()),
                             "C caller -> JIT function " + text + ": function returned " + hexstr(g_retval, sz) + ", caller saw " + hexstr(g_retout, sz));
            }
          }
          rt._release(fn);
        }
      }
    }
  }

  // ---- light-call conventions: JIT caller -> JIT callee, both from the same FuncSignature ----
  uint64_t light_calls = 0;
  for (uint64_t li = 0; li < nlight; li++) {
    Rng r2 = rng.fork(li + 1000);
    CallConvId id = CallConvId(uint32_t(CallConvId::kLightCall2) + uint32_t(r2.below(3)));
    FuncSignature sig(id);
    static const TypeId pool[] = {TypeId::kInt8, TypeId::kUInt8, TypeId::kInt16, TypeId::kUInt16, TypeId::kInt32, TypeId::kUInt32, TypeId::kInt64, TypeId::kUInt64,
                                  TypeId::kFloat32, TypeId::kFloat64, TypeId::kFloat32x4, TypeId::kInt32x4, TypeId::kFloat64x2, TypeId::kInt32, TypeId::kInt64,
                                  TypeId::kFloat32x8, TypeId::kMmx64};
    uint32_t n = uint32_t(r2.range(1, 20));
    // MMX arguments get no location from FuncDetail (recorded finding), such pairs are refused: one signature in five may contain them
    uint32_t npool = g_has_avx ? ((li % 5) == 0 ? 17 : 16) : 15;
    for (uint32_t i = 0; i < n; i++) sig.add_arg(pool[r2.below(npool)]);
    static const TypeId rets[] = {TypeId::kVoid, TypeId::kInt32, TypeId::kInt64, TypeId::kFloat32, TypeId::kFloat64, TypeId::kFloat32x4};
    sig.set_ret(rets[r2.below(6)]);
    std::string text = "lightcall" + std::to_string(uint32_t(id) - uint32_t(CallConvId::kLightCall2) + 2) + " " + sig_text(sig);

    CodeHolder code;
    code.init(rt.environment(), rt.cpu_features());
    x86::Compiler cc(&code);
    FuncNode* callee = nullptr;
    Error err = cc.new_func_node(Out(callee), sig);
    std::vector<bool> unchecked;
    FuncNode* caller = nullptr;
    // the caller uses its argument values again after the call (they stay in registers the light-call convention preserves), the callee
    // calls a SysV helper that changes every SysV-volatile register: the callee's frame must save what its own convention preserves
    const bool live = (li % 2) == 0;
    const int helper = (li % 3) != 2 ? 1 : 0;
    if (err == Error::kOk) {
      caller = emit_caller(cc, sig, callee->label(), live);
      emit_callee(cc, callee, sig, unchecked, helper);
      err = cc.finalize();
    }
    void* base = nullptr;
    if (err == Error::kOk) err = rt._add(&base, &code);
    if (err != Error::kOk) {
      io_refused(st, "pair", "lightcall", sig, rt.environment(), err, text);
      continue;
    }
    st.built++;
    st.built_by[std::string("lightcall") + (live ? ":live" : "") + (helper ? ":calls-sysv" : "")]++;
    void* fn = (uint8_t*)base + code.label_offset_from_base(caller->label());
    fill_values(r2, sig);
    uint32_t helper_before = g_helper_calls;
    CallCtx ctx{call_void_fn, guard_arm(fn, 0)};
    int sg = run_guarded(call_ctx, &ctx);
    st.calls++;
    light_calls++;
    if (!sg) guard_judge(st, 0, "interop:lightcall:jit-caller", "JIT function (SysV, void(void)) that invokes light-call function " + text);
    if (sg) io_violation(st, "interop:lightcall:crash", "light-call caller/callee pair " + text + " crashed with signal " + std::to_string(sg));
    else {
      for (uint32_t i = 0; i < sig.arg_count(); i++) {
        if (unchecked[i]) continue;
        uint32_t sz = TypeUtils::size_of(sig.arg(i));
        if (memcmp(g_jit_rec[i], g_in[i], sz) != 0) {
          io_violation(st, "interop:lightcall:arg:" + cls_of(sig.arg(i)), "light-call " + text + ": argument " + std::to_string(i) + " passed " + hexstr(g_in[i], sz) + ", callee received " + hexstr(g_jit_rec[i], sz));
          break;
        }
      }
      if (sig.ret() != TypeId::kVoid) {
        uint32_t sz = TypeUtils::size_of(sig.ret());
        if (memcmp(g_retout, g_retval, sz) != 0)
          io_violation(st, "interop:lightcall:ret:" + cls_of(sig.ret()), "light-call " + text + ": callee returned " + hexstr(g_retval, sz) + ", caller saw " + hexstr(g_retout, sz));
      }
      if (live) judge_live(st, sig, std::string("interop:lightcall") + (helper ? ":callee-calls-sysv" : ""), "light-call " + text + (helper ? " (the callee calls a SysV function that changes every volatile register)" : ""));
      if (helper) {
        st.cross_calls++;
        if (g_helper_calls == helper_before + 1) st.helper_runs++;
        else io_violation(st, "interop:lightcall:helper-not-called-once", "light-call " + text + ": the helper the callee invokes ran " + std::to_string(g_helper_calls - helper_before) + " times");
      }
    }
    rt._release(base);
  }

  std::string o = "{\"summary\":1,\"mode\":\"interop\",\"signatures\":" + std::to_string(g_sigs.size()) + ",\"calls\":" + std::to_string(st.calls) +
                  ",\"light_calls\":" + std::to_string(light_calls) + ",\"built\":" + std::to_string(st.built) + ",\"rejected\":" + std::to_string(st.rejected) +
                  ",\"guard_calls\":" + std::to_string(st.guard_calls) + ",\"guard_regs\":" + std::to_string(st.guard_regs) +
                  ",\"cross_calls\":" + std::to_string(st.cross_calls) + ",\"helper_runs\":" + std::to_string(st.helper_runs) + ",\"live_values\":" + std::to_string(st.live_values) + ",\"built_by\":{";
  {
    bool f0 = true;
    for (auto& kv : st.built_by) { if (!f0) o += ","; f0 = false; o += jstr(kv.first) + ":" + std::to_string(kv.second); }
  }
  o += "},\"rejects\":{";
  bool f = true;
  for (auto& kv : st.rejects) { if (!f) o += ","; f = false; o += jstr(kv.first) + ":" + std::to_string(kv.second); }
  o += "},\"samples\":[";
  for (size_t i = 0; i < st.samples.size(); i++) { if (i) o += ","; o += jstr(st.samples[i]); }
  o += "],\"violations\":[";
  for (size_t i = 0; i < st.violations.size(); i++) { if (i) o += ","; o += st.violations[i]; }
  o += "]}";
  emit_line(o);
  return 0;
}

// ------------------------------------------------------------------------------------------------
// Mode: invoke (all targets, compile-only): call-site marshalling, return-value binding, values live across the call
// ------------------------------------------------------------------------------------------------
//
//   void caller(uintptr in, uintptr out)           [convention A of the target]
//     v(i,k) = load in[64*i + byte offset of pack value k]      (or an immediate operand)
//     r(k)   = invoke target(v...)                 [convention B, signature under test]
//     store r(k) -> out[byte offset of k];  store some v(i,k) -> out[64 + 64*i + ...]   (those are live across the call)
//
// The driver prints the bytes of the whole function, the invoke's FuncDetail as it is after finalize() (by-reference vectors
// extend its stack area), the caller's own argument locations and its frame facts. Nothing is executed here.

struct InvVal {
  uint32_t arg, vi, off;      // argument index, pack index, byte offset inside the argument
  TypeId t;                   // type of the pack value (FuncDetail's)
  bool is_imm = false;
  uint64_t imm = 0;
  bool live = false;          // stored again after the call
  Reg reg;
};

struct X86Inv {
  typedef x86::Compiler CC;
  typedef x86::Gp GpT;
  static GpT new_ptr(CC& cc) { return cc.new_gp_ptr(); }
  static Reg new_val(CC& cc, TypeId t) { return new_reg_for(cc, t); }
  static void load(CC& cc, const Reg& r, TypeId t, const GpT& base, int32_t off, bool avx) { emit_load(cc, r, t, base, off, avx); }
  static void store(CC& cc, const Reg& r, TypeId t, const GpT& base, int32_t off, bool avx) { emit_store(cc, r, t, base, off, avx); }
  static void load_ptr(CC& cc, const GpT& d, const GpT& base, int32_t off) { cc.mov(d, x86::ptr(base, off, cc.register_size())); }
};

struct A64Inv {
  typedef a64::Compiler CC;
  typedef a64::Gp GpT;
  static GpT new_ptr(CC& cc) { return cc.new_gp_ptr(); }
  static Reg new_val(CC& cc, TypeId t) {
    uint32_t sz = TypeUtils::size_of(t);
    if (TypeUtils::is_int(t)) return sz <= 4 ? Reg(cc.new_gp32()) : Reg(cc.new_gp64());
    if (sz <= 4) return cc.new_vec_s();
    if (sz <= 8) return cc.new_vec_d();
    return cc.new_vec_q();
  }
  static void load(CC& cc, const Reg& r, TypeId t, const GpT& base, int32_t off, bool) {
    uint32_t sz = TypeUtils::size_of(t);
    a64::Mem m = a64::ptr(base, off);
    if (TypeUtils::is_int(t)) {
      a64::Gp g = r.as<a64::Gp>();
      bool sg = is_signed_int(t);
      if (sz == 1) { if (sg) cc.ldrsb(g.w(), m); else cc.ldrb(g.w(), m); }
      else if (sz == 2) { if (sg) cc.ldrsh(g.w(), m); else cc.ldrh(g.w(), m); }
      else if (sz == 4) cc.ldr(g.w(), m);
      else cc.ldr(g.x(), m);
      return;
    }
    a64::Vec v = r.as<a64::Vec>();
    if (sz <= 4) cc.ldr(v.s(), m);
    else if (sz <= 8) cc.ldr(v.d(), m);
    else cc.ldr(v.q(), m);
  }
  static void store(CC& cc, const Reg& r, TypeId t, const GpT& base, int32_t off, bool) {
    uint32_t sz = TypeUtils::size_of(t);
    a64::Mem m = a64::ptr(base, off);
    if (TypeUtils::is_int(t)) {
      a64::Gp g = r.as<a64::Gp>();
      if (sz == 1) cc.strb(g.w(), m);
      else if (sz == 2) cc.strh(g.w(), m);
      else if (sz == 4) cc.str(g.w(), m);
      else cc.str(g.x(), m);
      return;
    }
    a64::Vec v = r.as<a64::Vec>();
    if (sz <= 4) cc.str(v.s(), m);
    else if (sz <= 8) cc.str(v.d(), m);
    else cc.str(v.q(), m);
  }
  static void load_ptr(CC& cc, const GpT& d, const GpT& base, int32_t off) { cc.ldr(d, a64::ptr(base, off)); }
};

struct InvPlan {
  const char* env; const char* conv; const char* cconv;
  FuncSignature sig;
  std::vector<InvVal> vals;          // argument values in order
  std::vector<InvVal> rets;          // return pack values
  bool target_reg = false;
  bool avx = false, avx512 = false;
  TypeId cret = TypeId::kVoid;       // what the caller function itself returns: a value loaded before the call (in[3072..]) and handed to ret()
};

struct InvOut {
  Error err = Error::kOk;
  std::string stage;
  std::string json;                  // facts after finalize()
};

static std::string pack_json(const FuncValuePack& p) {
  std::string o = "[";
  for (uint32_t v = 0; v < Globals::kMaxValuePack; v++) {
    if (!p[v]) break;
    if (v) o += ",";
    o += value_json(p[v]);
  }
  return o + "]";
}

template<typename T>
static InvOut build_invoke(InvPlan& P, const Environment& env) {
  InvOut R;
  CodeHolder code;
  code.init(env);
  typename T::CC cc(&code);
  FuncSignature csig(conv_by_name(P.cconv));
  csig.set_ret(P.cret);
  csig.add_arg(TypeId::kUIntPtr);
  csig.add_arg(TypeId::kUIntPtr);
  FuncNode* fn = nullptr;
  R.err = cc.add_func_node(Out(fn), csig);
  if (R.err != Error::kOk) { R.stage = "caller"; return R; }
  std::vector<InvVal> crets;
  {
    uint32_t off = 0;
    for (uint32_t v = 0; v < Globals::kMaxValuePack; v++) {
      const FuncValue& fv = fn->detail().ret(v);
      if (!fv) break;
      InvVal x;
      x.arg = 0; x.vi = v; x.off = off;
      // the value has the declared width (a return value narrower than 32 bits is reported as a 32-bit integer by FuncDetail)
      x.t = v == 0 && TypeUtils::size_of(P.cret) < 4 ? P.cret : fv.type_id();
      crets.push_back(x);
      off += TypeUtils::size_of(fv.type_id());
    }
  }
  if (P.avx) fn->frame().set_avx_enabled();
  if (P.avx512) fn->frame().set_avx512_enabled();
  typename T::GpT in = T::new_ptr(cc), out = T::new_ptr(cc);
  fn->set_arg(0, in);
  fn->set_arg(1, out);
  for (auto& v : P.vals) {
    if (v.is_imm) continue;
    v.reg = T::new_val(cc, v.t);
    T::load(cc, v.reg, v.t, in, int32_t(64 * v.arg + v.off), P.avx);
  }
  for (auto& r : crets) {
    r.reg = T::new_val(cc, r.t);
    T::load(cc, r.reg, r.t, in, int32_t(3072 + r.off), P.avx);
  }
  Operand target = Imm(uint64_t(0x10203040));
  if (P.target_reg) {
    typename T::GpT tr = T::new_ptr(cc);
    T::load_ptr(cc, tr, in, 4000);
    target = tr;
  }
  InvokeNode* inv = nullptr;
  R.err = cc.invoke_(Out(inv), target, P.sig);
  if (R.err != Error::kOk || !inv) { R.stage = "invoke"; if (R.err == Error::kOk) R.err = Error::kInvalidState; return R; }
  for (auto& v : P.vals) {
    if (v.is_imm) inv->set_arg(v.arg, v.vi, Imm(int64_t(v.imm)));
    else inv->set_arg(v.arg, v.vi, v.reg);
  }
  for (auto& r : P.rets) {
    r.reg = T::new_val(cc, r.t);
    inv->set_ret(r.vi, r.reg);
  }
  for (auto& r : P.rets) T::store(cc, r.reg, r.t, out, int32_t(r.off), P.avx);
  for (auto& v : P.vals)
    if (v.live && !v.is_imm) T::store(cc, v.reg, v.t, out, int32_t(64 + 64 * v.arg + v.off), P.avx);
  if (crets.size() == 2) cc.ret(crets[0].reg, crets[1].reg);
  else if (crets.size() == 1) cc.ret(crets[0].reg);
  else cc.ret();
  cc.end_func();
  R.err = cc.finalize();
  if (R.err != Error::kOk) { R.stage = "finalize"; return R; }

  const FuncDetail& fd = inv->detail();
  const FuncFrame& fr = fn->frame();
  std::string o = ",\"args\":[";
  for (uint32_t a = 0; a < fd.arg_count(); a++) { if (a) o += ","; o += pack_json(fd.arg_pack(a)); }
  o += "],\"rets\":" + pack_json(fd.ret_pack());
  o += ",\"cargs\":[" + pack_json(fn->detail().arg_pack(0)) + "," + pack_json(fn->detail().arg_pack(1)) + "]";
  o += ",\"crets\":" + pack_json(fn->detail().ret_pack()) + ",\"crvals\":[";
  for (size_t i = 0; i < crets.size(); i++) {
    char b2[96];
    snprintf(b2, sizeof b2, "%s{\"v\":%u,\"off\":%u,\"t\":%s}", i ? "," : "", crets[i].vi, crets[i].off, jstr(type_name(crets[i].t)).c_str());
    o += b2;
  }
  o += "]";
  char b[512];
  snprintf(b, sizeof b, ",\"stack\":%u,\"pops\":%d,\"cstack\":%u,\"cpops\":%u,\"call_stack\":%u,\"call_align\":%u,\"final_align\":%u,\"da\":%d,"
           "\"saved\":[%u,%u],\"pres\":[%u,%u,%u,%u],\"cpres\":[%u,%u],\"nsa\":%u,\"lso\":%u",
           fd.arg_stack_size(), int(fd.has_flag(CallConvFlags::kCalleePopsStack)), fn->detail().arg_stack_size(), fr.callee_stack_cleanup(),
           fr.call_stack_size(), fr.call_stack_alignment(), fr.final_stack_alignment(), int(fr.has_dynamic_alignment()),
           fr.saved_regs(RegGroup::kGp), fr.saved_regs(RegGroup::kVec),
           fd.call_conv().preserved_regs(RegGroup::kGp), fd.call_conv().preserved_regs(RegGroup::kVec), fd.call_conv().preserved_regs(RegGroup::kMask), fd.call_conv().preserved_regs(RegGroup::kExtra),
           fn->detail().call_conv().preserved_regs(RegGroup::kGp), fn->detail().call_conv().preserved_regs(RegGroup::kVec), fd.call_conv().natural_stack_alignment(), fr.local_stack_offset());
  o += b;
  const CodeBuffer& cb = code.text_section()->buffer();
  o += ",\"code\":\"" + hexstr(cb.data(), cb.size()) + "\"";
  R.json = o;
  return R;
}

int mode_invoke(const Args& args) {
  std::string arch_s = args.str("arch", "a64");
  uint64_t seed = args.u64("seed", 1);
  uint64_t count = args.u64("count", 100);
  uint64_t first = args.u64("first", 0);
  int64_t only = args.has("only") ? int64_t(args.u64("only", 0)) : -1;
  Arch arch = arch_s == "x64" ? Arch::kX64 : arch_s == "x86" ? Arch::kX86 : Arch::kAArch64;
  bool is_x86 = arch != Arch::kAArch64;

  struct Pair { const char* env; const char* conv; bool va_ok; };
  std::vector<Pair> callees, callers;
  if (arch == Arch::kX64) {
    callees = {{"x64-linux", "sysv64", true}, {"x64-linux", "win64", true}, {"x64-win", "vectorcall", false}, {"x64-win", "cdecl", true},
               {"x64-win", "sysv64", true}, {"x64-linux", "lightcall2", false}, {"x64-linux", "lightcall3", false}, {"x64-linux", "lightcall4", false}};
    callers = {{"x64-linux", "sysv64", false}, {"x64-linux", "win64", false}, {"x64-win", "cdecl", false}, {"x64-win", "sysv64", false}, {"x64-win", "vectorcall", false}};
  }
  else if (arch == Arch::kX86) {
    callees = {{"x86-linux", "cdecl", true}, {"x86-linux", "stdcall", false}, {"x86-linux", "fastcall", false}, {"x86-linux", "regparm1", false},
               {"x86-linux", "regparm2", false}, {"x86-linux", "regparm3", false}, {"x86-win", "cdecl", true}, {"x86-win", "stdcall", false},
               {"x86-win", "fastcall", false}, {"x86-win", "thiscall", false}, {"x86-win", "vectorcall", false},
               {"x86-linux", "lightcall2", false}, {"x86-linux", "lightcall3", false}, {"x86-linux", "lightcall4", false}};
    callers = {{"x86-linux", "cdecl", false}, {"x86-linux", "stdcall", false}, {"x86-linux", "fastcall", false}, {"x86-linux", "regparm3", false},
               {"x86-win", "cdecl", false}, {"x86-win", "stdcall", false}, {"x86-win", "fastcall", false}, {"x86-win", "thiscall", false}};
  }
  else {
    callees = {{"a64-linux", "cdecl", true}, {"a64-apple", "cdecl", true}, {"a64-linux", "lightcall2", false}, {"a64-apple", "lightcall2", false}};
    callers = {{"a64-linux", "cdecl", false}, {"a64-apple", "cdecl", false}};
  }

  uint64_t cases = 0, built = 0, rejected = 0;
  std::map<std::string, uint64_t> rejects;
  Rng master(seed * 0x9E3779B97F4A7C15ull + 0x1C06);
  for (uint64_t idx = first; idx < first + count; idx++) {
    Rng rng = Rng(master.s ^ (idx * 0xD1B54A32D192ED03ull)).fork(idx);
    if (only >= 0 && int64_t(idx) != only) continue;
    cases++;
    // the callee's convention walks the list (every convention is met whatever the count), the caller's is drawn among those of the same environment
    Pair ce = callees[idx % callees.size()];
    std::vector<Pair> same;
    for (auto& c : callers) if (!strcmp(c.env, ce.env)) same.push_back(c);
    Pair cr = same[rng.below(same.size())];
    Environment env = env_by_name(ce.env);
    bool light = strncmp(ce.conv, "lightcall", 9) == 0;

    InvPlan P;
    P.env = ce.env; P.conv = ce.conv; P.cconv = cr.conv;
    P.avx = is_x86 && rng.chance(1, 3);
    P.avx512 = P.avx && rng.chance(1, 3);
    // AArch64: a64::Compiler::invoke() lowers every target operand to `blr`, which takes a register only (Imm/Label/Mem targets are refused)
    P.target_reg = rng.chance(1, 3) || !is_x86;

    std::vector<TypeId> pool = {TypeId::kInt8, TypeId::kUInt8, TypeId::kInt16, TypeId::kUInt16, TypeId::kInt32, TypeId::kUInt32,
                                TypeId::kInt32, TypeId::kInt64, TypeId::kUInt64, TypeId::kInt64,
                                TypeId::kFloat32, TypeId::kFloat64, TypeId::kFloat32, TypeId::kFloat64,
                                TypeId::kInt32x4, TypeId::kFloat32x4, TypeId::kFloat64x2};
    if (P.avx) { pool.push_back(TypeId::kFloat32x8); pool.push_back(TypeId::kInt32x8); }
    if (P.avx512) { pool.push_back(TypeId::kFloat32x16); }
    if (!is_x86) { pool.push_back(TypeId::kFloat32x2); pool.push_back(TypeId::kInt8x8); }
    uint32_t nargs;
    switch (rng.below(6)) {
      case 0: nargs = uint32_t(rng.range(0, 3)); break;
      case 1: case 2: nargs = uint32_t(rng.range(3, 9)); break;
      case 3: case 4: nargs = uint32_t(rng.range(8, 14)); break;
      default: nargs = uint32_t(rng.range(12, 20)); break;
    }
    uint32_t flavour = uint32_t(rng.below(5));     // 0,1 all kinds / 2 int heavy / 3 vec heavy / 4 narrow integers (packing on Apple)
    FuncSignature sig(conv_by_name(ce.conv));
    int va = -1;
    if (ce.va_ok && nargs >= 2 && rng.chance(1, 5)) va = int(rng.range(1, std::min<uint32_t>(nargs - 1, 4)));
    for (uint32_t i = 0; i < nargs; i++) {
      TypeId t;
      for (;;) {
        t = pool[rng.below(pool.size())];
        if (flavour == 2 && !TypeUtils::is_int(t) && rng.chance(3, 4)) continue;
        if (flavour == 3 && TypeUtils::is_int(t) && rng.chance(3, 4)) continue;
        if (flavour == 4 && !(TypeUtils::is_int(t) && TypeUtils::size_of(t) <= 4) && rng.chance(4, 5)) continue;
        break;
      }
      if (va >= 0 && int(i) >= va) {
        // default argument promotions of C
        if (TypeUtils::is_int(t) && TypeUtils::size_of(t) < 4) t = is_signed_int(t) ? TypeId::kInt32 : TypeId::kUInt32;
        if (t == TypeId::kFloat32) t = TypeId::kFloat64;
        if (TypeUtils::size_of(t) > 16 || (!is_x86 && TypeUtils::is_vec(t) && TypeUtils::size_of(t) < 16)) t = TypeId::kFloat64;
      }
      sig.add_arg(t);
    }
    if (va >= 0) sig.set_va_index(uint32_t(va));
    {
      std::vector<TypeId> rets = {TypeId::kVoid, TypeId::kVoid, TypeId::kInt8, TypeId::kUInt8, TypeId::kInt16, TypeId::kUInt16, TypeId::kInt32, TypeId::kUInt32,
                                  TypeId::kInt64, TypeId::kUInt64, TypeId::kInt64, TypeId::kFloat32, TypeId::kFloat64, TypeId::kFloat32x4, TypeId::kInt32x4};
      if (P.avx) rets.push_back(TypeId::kFloat32x8);
      if (!is_x86) rets.push_back(TypeId::kFloat32x2);
      sig.set_ret(rets[rng.below(rets.size())]);
    }
    P.sig = sig;
    {
      static const TypeId crs[] = {TypeId::kVoid, TypeId::kVoid, TypeId::kInt32, TypeId::kUInt8, TypeId::kInt16, TypeId::kInt64, TypeId::kUInt64, TypeId::kFloat32, TypeId::kFloat64, TypeId::kFloat32x4};
      P.cret = crs[rng.below(10)];
    }

    std::string head;
    {
      char b[512];
      snprintf(b, sizeof b, "{\"i\":%llu,\"arch\":\"%s\",\"env\":\"%s\",\"conv\":\"%s\",\"cconv\":\"%s\",\"light\":%d,\"avx\":%d,\"avx512\":%d,\"treg\":%d,\"va\":%d,\"ret\":%s,\"cret\":%s,\"sig\":[",
               (unsigned long long)idx, arch_s.c_str(), ce.env, ce.conv, cr.conv, int(light), int(P.avx), int(P.avx512), int(P.target_reg), va, jstr(type_name(sig.ret())).c_str(), jstr(type_name(P.cret)).c_str());
      head = b;
      for (uint32_t i = 0; i < nargs; i++) { if (i) head += ","; head += jstr(type_name(sig.arg(i))); }
      head += "]";
    }

    FuncDetail fd;
    Error err = fd.init(sig, env);
    if (err != Error::kOk) {
      rejected++;
      rejects[std::string("detail:") + err_name(err)]++;
      emit_line(head + ",\"err\":" + jstr(std::string("detail:") + err_name(err)) + "}");
      continue;
    }
    // values: one per pack element FuncDetail produced (a 64-bit integer is two 32-bit values on x86-32)
    bool unassigned = false;
    for (uint32_t a = 0; a < fd.arg_count(); a++) {
      uint32_t off = 0;
      for (uint32_t v = 0; v < Globals::kMaxValuePack; v++) {
        const FuncValue& fv = fd.arg(a, v);
        if (!fv) break;
        if (!fv.is_assigned()) unassigned = true;
        InvVal x;
        x.arg = a; x.vi = v; x.off = off; x.t = fv.type_id();
        uint32_t sz = TypeUtils::size_of(x.t);
        if (TypeUtils::is_int(x.t) && rng.chance(1, 8)) {
          x.is_imm = true;
          x.imm = rng.next();
          switch (rng.below(4)) { case 0: x.imm &= 0xFF; break; case 1: x.imm = uint64_t(-int64_t(x.imm & 0xFFFF)); break; case 2: x.imm &= 0xFFFFFFFFull; break; default: break; }
          // the immediate is written in the argument's type: what does not fit is not part of the value
          if (sz == 1) x.imm = is_signed_int(x.t) ? uint64_t(int64_t(int8_t(x.imm))) : (x.imm & 0xFF);
          else if (sz == 2) x.imm = is_signed_int(x.t) ? uint64_t(int64_t(int16_t(x.imm))) : (x.imm & 0xFFFF);
          else if (sz == 4) x.imm = is_signed_int(x.t) ? uint64_t(int64_t(int32_t(x.imm))) : (x.imm & 0xFFFFFFFFull);
        }
        x.live = rng.chance(1, 3);
        P.vals.push_back(x);
        off += sz;
      }
    }
    {
      uint32_t off = 0;
      for (uint32_t v = 0; v < Globals::kMaxValuePack; v++) {
        const FuncValue& fv = fd.ret(v);
        if (!fv) break;
        InvVal x;
        x.arg = 0; x.vi = v; x.off = off; x.t = fv.type_id();
        P.rets.push_back(x);
        off += TypeUtils::size_of(x.t);
      }
    }
    head += ",\"vals\":[";
    for (size_t i = 0; i < P.vals.size(); i++) {
      const InvVal& x = P.vals[i];
      char b[160];
      snprintf(b, sizeof b, "%s{\"a\":%u,\"v\":%u,\"off\":%u,\"t\":%s,\"live\":%d", i ? "," : "", x.arg, x.vi, x.off, jstr(type_name(x.t)).c_str(), int(x.live && !x.is_imm));
      head += b;
      if (x.is_imm) { snprintf(b, sizeof b, ",\"imm\":\"%016llx\"", (unsigned long long)x.imm); head += b; }
      head += "}";
    }
    head += "],\"rvals\":[";
    for (size_t i = 0; i < P.rets.size(); i++) {
      char b[96];
      snprintf(b, sizeof b, "%s{\"v\":%u,\"off\":%u,\"t\":%s}", i ? "," : "", P.rets[i].vi, P.rets[i].off, jstr(type_name(P.rets[i].t)).c_str());
      head += b;
    }
    head += "],\"unassigned\":" + std::to_string(int(unassigned));

    InvOut R = is_x86 ? build_invoke<X86Inv>(P, env) : build_invoke<A64Inv>(P, env);
    if (R.err != Error::kOk) {
      rejected++;
      std::string e = R.stage + ":" + err_name(R.err);
      rejects[e]++;
      // what FuncDetail says about the signature goes with the refusal (Python keys refusals by feature)
      std::string o = ",\"args\":[";
      for (uint32_t a = 0; a < fd.arg_count(); a++) { if (a) o += ","; o += pack_json(fd.arg_pack(a)); }
      o += "],\"rets\":" + pack_json(fd.ret_pack());
      emit_line(head + o + ",\"err\":" + jstr(e) + "}");
      continue;
    }
    built++;
    emit_line(head + R.json + "}");
  }
  std::string o = "{\"summary\":1,\"mode\":\"invoke\",\"arch\":" + jstr(arch_s) + ",\"cases\":" + std::to_string(cases) + ",\"built\":" + std::to_string(built) +
                  ",\"rejected\":" + std::to_string(rejected) + ",\"rejects\":{";
  bool f = true;
  for (auto& kv : rejects) { if (!f) o += ","; f = false; o += jstr(kv.first) + ":" + std::to_string(kv.second); }
  o += "},\"violations\":[]}";
  emit_line(o);
  return 0;
}
