// C12 driver: read/write information of instructions vs. what the CPU really does.
//
// modes
//   --mode host                      host CPU features (asmjit CpuInfo::host(), used only to decide what to run), feature names, XSAVE layout
//   --mode table --cases F           query only (no execution): one JSON record per case with the API's answers (T, C, F-superset checks in Python)
//   --mode rmopt --cases F           query only: every operand reported kRegMem/rm_size (with {sae}/{er}/{k}/{z} options too) is replaced by
//                                    memory and handed to validate() + Assembler (M check, encodability half, Python judges)
//   --mode run   --cases F ...       native-execution sandbox: W (write coverage), R (read coverage), M (reg -> mem replacement), F (SIGILL) checks
//   --mode a64c  --cases F           AArch64 register-list queries (C check)
//
// case line (x86gen.case_line format + meta tokens):
//   <id> <arch> <inst-name> <opts-hex> <extra|-> <nops> <op>... [key=value ...]
//   meta: sig=<stable operand signature>  uf=<hex CpuRWFlags undefined per database>  fx=<letters>  vs=<32|64 vsib lane bits>
//         mb=<free gp id usable as base of the M-form>  bo=<bits> (bit-offset operand 1 is reduced modulo bits)
//   fx letters: n = non-deterministic result (W only), x = x87 (W on non-x87 state only), m = MMX register image, d = div/idiv image,
//               c = ecx in {0,1}, p = probe (run only if every reported feature is on the host), M = no M check,
//               w = width variant: one GP register operand has another width than the database form; run only if validate() and the
//                   assembler accept it
//               u = uniqueness probe: two register operands share one register on purpose; a #UD is the expected outcome when the
//                   answer flags one of them kUnique (or reports both as read), and a finding otherwise
//
// The oracle is harness code: the machine image before/after executing the instruction assembled by x86::Assembler.
#include <asmjit/core.h>
#include <asmjit/x86.h>
#include <asmjit/a64.h>
#include "vcommon.h"
#include <iostream>
#include <sstream>
#include <fstream>
#include <signal.h>
#include <setjmp.h>
#include <sys/mman.h>
#include <cpuid.h>
#include <unistd.h>

using namespace asmjit;

// ---------------------------------------------------------------------------------------------------------------------
// small helpers

static std::vector<std::string> split(const std::string& s, char c) {
  std::vector<std::string> o; std::string cur;
  for (char ch : s) { if (ch == c) { o.push_back(cur); cur.clear(); } else cur += ch; }
  o.push_back(cur);
  return o;
}

static RegType reg_type_of(const std::string& s) {
  if (s == "gp8lo") return RegType::kGp8Lo;
  if (s == "gp8hi") return RegType::kGp8Hi;
  if (s == "gp16") return RegType::kGp16;
  if (s == "gp32") return RegType::kGp32;
  if (s == "gp64") return RegType::kGp64;
  if (s == "xmm") return RegType::kVec128;
  if (s == "ymm") return RegType::kVec256;
  if (s == "zmm") return RegType::kVec512;
  if (s == "mm") return RegType::kX86_Mm;
  if (s == "k") return RegType::kMask;
  if (s == "sreg") return RegType::kSegment;
  if (s == "creg") return RegType::kControl;
  if (s == "dreg") return RegType::kDebug;
  if (s == "st") return RegType::kX86_St;
  if (s == "bnd") return RegType::kX86_Bnd;
  if (s == "tmm") return RegType::kTile;
  if (s == "rip") return RegType::kPC;
  return RegType::kNone;
}

static std::string feature_name(Arch arch, uint32_t id) {
  String s;
  Formatter::format_feature(s, arch, id);
  return std::string(s.data(), s.size());
}

static std::string hex64(uint64_t v) { char b[32]; snprintf(b, sizeof b, "%llx", (unsigned long long)v); return b; }

// ---------------------------------------------------------------------------------------------------------------------
// parsed case

struct POp {
  char kind = 0;            // R M I L
  std::string rtype; uint32_t rid = 0;
  uint32_t msize = 0; std::string bt, it; uint32_t bid = 0, iid = 0, shift = 0; int64_t disp = 0; uint32_t seg = 0, bcst = 0; std::string addr;
  int64_t imm = 0; bool imm_u = false; uint64_t immu = 0;
};

struct Case {
  std::string id, arch, name, sig, fx, extra_s, line;
  uint32_t opts = 0;
  int nops = 0;
  POp ops[6];
  uint32_t uf = 0;
  int vs = 0, mb = -1, bo = 0;
  bool has(char c) const { return fx.find(c) != std::string::npos; }
};

static bool parse_case(const std::string& line, Case& c) {
  std::istringstream ss(line);
  std::string opts_s;
  c.line = line;
  if (!(ss >> c.id >> c.arch >> c.name >> opts_s >> c.extra_s >> c.nops)) return false;
  c.opts = (uint32_t)strtoul(opts_s.c_str(), nullptr, 16);
  if (c.nops > 6) return false;
  for (int i = 0; i < c.nops; i++) {
    std::string tok; ss >> tok;
    std::vector<std::string> p = split(tok, ':');
    POp& o = c.ops[i];
    if (p[0] == "R" && p.size() >= 3) { o.kind = 'R'; o.rtype = p[1]; o.rid = (uint32_t)strtoul(p[2].c_str(), nullptr, 0); }
    else if (p[0] == "I" && p.size() >= 2) {
      o.kind = 'I'; o.imm = strtoll(p[1].c_str(), nullptr, 0);
      if (p[1].size() > 18 && p[1][0] != '-') { o.imm_u = true; o.immu = strtoull(p[1].c_str(), nullptr, 0); }
    }
    else if (p[0] == "L") { o.kind = 'L'; }
    else if (p[0] == "M" && p.size() >= 11) {
      o.kind = 'M';
      o.msize = (uint32_t)strtoul(p[1].c_str(), nullptr, 0);
      o.bt = p[2]; o.bid = (uint32_t)strtoul(p[3].c_str(), nullptr, 0);
      o.it = p[4]; o.iid = (uint32_t)strtoul(p[5].c_str(), nullptr, 0);
      o.shift = (uint32_t)strtoul(p[6].c_str(), nullptr, 0);
      o.disp = strtoll(p[7].c_str(), nullptr, 0);
      o.seg = (uint32_t)strtoul(p[8].c_str(), nullptr, 0);
      o.bcst = (uint32_t)strtoul(p[9].c_str(), nullptr, 0);
      o.addr = p[10];
    }
    else return false;
  }
  std::string kv;
  while (ss >> kv) {
    size_t eq = kv.find('=');
    if (eq == std::string::npos) continue;
    std::string k = kv.substr(0, eq), v = kv.substr(eq + 1);
    if (k == "sig") c.sig = v;
    else if (k == "uf") c.uf = (uint32_t)strtoul(v.c_str(), nullptr, 16);
    else if (k == "fx") c.fx = v;
    else if (k == "vs") c.vs = atoi(v.c_str());
    else if (k == "mb") c.mb = atoi(v.c_str());
    else if (k == "bo") c.bo = atoi(v.c_str());
  }
  if (c.sig.empty()) c.sig = "?";
  return true;
}

// Builds the Operand array. `ea` is the effective address every memory operand must resolve to (absolute operands get it
// as their displacement; base/index forms get it through register values of the image).
static const uint64_t EA_STRIDE = 512;   // the k-th memory operand of a case resolves to ea + k * EA_STRIDE
static bool build_ops(const Case& c, Operand* ops, uint64_t ea0) {
  int kmem = 0;
  for (int i = 0; i < c.nops; i++) {
    const POp& o = c.ops[i];
    uint64_t ea = ea0 + EA_STRIDE * uint64_t(o.kind == 'M' ? kmem++ : 0);
    if (o.kind == 'R') {
      RegType t = reg_type_of(o.rtype);
      if (t == RegType::kNone) return false;
      ops[i] = Reg::from_type_and_id(t, o.rid);
    }
    else if (o.kind == 'I') ops[i] = o.imm_u ? Imm(o.immu) : Imm(o.imm);
    else if (o.kind == 'M') {
      x86::Mem m;
      bool has_index = o.it != "none";
      Reg idx = has_index ? Reg::from_type_and_id(reg_type_of(o.it), o.iid) : Reg();
      if (o.bt == "none") {
        m = has_index ? x86::Mem(uint64_t(ea), idx, o.shift, o.msize) : x86::Mem(uint64_t(ea), o.msize);
      }
      else {
        Reg base = Reg::from_type_and_id(reg_type_of(o.bt), o.bid);
        m = has_index ? x86::Mem(base, idx, o.shift, int32_t(o.disp), o.msize) : x86::Mem(base, int32_t(o.disp), o.msize);
      }
      if (o.seg) m.set_segment(o.seg);
      if (o.bcst) m.set_broadcast(x86::Mem::Broadcast(o.bcst));
      if (o.addr == "abs") m.set_addr_abs();
      else if (o.addr == "rel") m.set_addr_rel();
      ops[i] = m;
    }
    else return false;
  }
  return true;
}

static const char* enc_class(const uint8_t* p, size_t n) {
  size_t i = 0;
  while (i < n && (p[i] == 0x66 || p[i] == 0xF2 || p[i] == 0xF3 || p[i] == 0x67 || p[i] == 0x2E || p[i] == 0x36 || p[i] == 0x3E ||
                   p[i] == 0x26 || p[i] == 0x64 || p[i] == 0x65 || p[i] == 0xF0)) i++;
  if (i >= n) return "none";
  if (p[i] == 0x62) return "evex";
  if (p[i] == 0xC4 || p[i] == 0xC5) return "vex";
  if (p[i] == 0x8F && i + 1 < n && (p[i + 1] & 0x1F) >= 8) return "xop";
  if (p[i] == 0xD5) return "rex2";
  return "legacy";
}

struct NullHandler : public ErrorHandler {
  void handle_error(Error, const char*, BaseEmitter*) override {}
};

static std::string rw_json(const InstRWInfo& rw, int nops) {
  std::string s = "[";
  for (int i = 0; i <= nops; i++) {
    const OpRWInfo& o = i < nops ? rw.operand(size_t(i)) : rw.extra_reg();
    char b[256];
    snprintf(b, sizeof b, "%s[%u,\"%llx\",\"%llx\",\"%llx\",%u,%u,%u]", i ? "," : "", unsigned(o.op_flags()),
             (unsigned long long)o.read_byte_mask(), (unsigned long long)o.write_byte_mask(), (unsigned long long)o.extend_byte_mask(),
             o.rm_size(), o.consecutive_lead_count(), o.phys_id());
    s += b;
  }
  return s + "]";
}

// the answer must be a function of the query alone: the same query into an object that holds other content (what a caller
// that reuses one InstRWInfo, or passes an uninitialised one as the register allocator does, hands in) must report the same
static std::string rw_fingerprint(const InstRWInfo& rw, int nops) {
  char b[96];
  snprintf(b, sizeof b, "|if=%u oc=%u rm=%u rf=%u wf=%u", unsigned(rw.inst_flags()), unsigned(rw.op_count()), unsigned(rw.rm_feature()), unsigned(rw.read_flags()), unsigned(rw.write_flags()));
  return rw_json(rw, nops) + b;
}

static std::string stale_state_diff(Arch arch, const BaseInst& bi, const Operand* ops, int nops, const InstRWInfo& clean, Error e_clean) {
  static const uint8_t fills[2] = { 0xFF, 0xA5 };
  for (uint8_t fill : fills) {
    InstRWInfo dirty; memset((void*)&dirty, fill, sizeof dirty);
    Error e = InstAPI::query_rw_info(arch, bi, ops, size_t(nops), &dirty);
    if (e != e_clean) return "error code " + std::to_string(unsigned(e)) + " vs " + std::to_string(unsigned(e_clean));
    if (e != Error::kOk) continue;
    std::string a = rw_fingerprint(clean, nops), b = rw_fingerprint(dirty, nops);
    if (a != b) return "into a zeroed object: " + a + " ; into an object pre-filled with 0x" + hexstr(&fill, 1) + ": " + b;
  }
  return std::string();
}

// --- fixed / implicit registers (kRegPhysId, kMemPhysId, phys_id) -------------------------------------------------------
// What the flag means to a consumer (the register allocator): a flagged operand MUST be the register phys_id; an operand that
// is not flagged may be ANY register of its class. Both halves are tried against the real assembler:
//   ["p", phys, err]   flagged, and phys_id differs from the register of the case: err = emit error with the operand := phys_id
//   ["a", alt, err]    not flagged: err = 0 when the instruction with the operand := another register (up to 3 tried) is emitted
// Only allocatable groups (GP, vector, mask, MMX) and base registers of memory operands are probed.
static bool phys_group(const Reg& r) {
  return r.is_gp() || r.is_vec() || r.reg_type() == RegType::kMask || r.reg_type() == RegType::kX86_Mm;
}

template<typename EmitFn>
static std::string phys_probes(Arch A, const Operand* ops, int nops, const InstRWInfo& rw, bool has_extra, const Reg& extra, EmitFn&& emit) {
  std::string s = "[";
  auto used = [&](const Reg& like, uint32_t id, int skip, bool skip_base) -> bool {
    for (int j = 0; j < nops; j++) {
      if (ops[j].is_reg() && j != skip) { const Reg& r = ops[j].as<Reg>(); if (r.reg_group() == like.reg_group() && r.id() == id) return true; }
      if (ops[j].is_mem()) {
        const x86::Mem& m = ops[j].as<x86::Mem>();
        if (like.is_gp() && m.has_base_reg() && !(skip_base && j == skip) && m.base_id() == id) return true;
        if (m.has_index_reg() && Reg::from_type_and_id(m.index_type(), m.index_id()).reg_group() == like.reg_group() && m.index_id() == id) return true;
      }
    }
    if (has_extra && extra.reg_group() == like.reg_group() && extra.id() == id) return true;
    return false;
  };
  auto add = [&](int i, const char* kind, uint32_t id, Error e) {
    char b[64]; snprintf(b, sizeof b, "%s[%d,\"%s\",%u,%u]", s.size() > 1 ? "," : "", i, kind, id, unsigned(e)); s += b;
  };
  for (int i = 0; i < nops; i++) {
    const OpRWInfo& o = rw.operand(size_t(i));
    Operand ops2[6];
    for (int j = 0; j < nops; j++) ops2[j] = ops[j];
    if (ops[i].is_reg()) {
      const Reg& r = ops[i].as<Reg>();
      if (!phys_group(r)) continue;
      if (o.has_op_flag(OpRWFlags::kRegPhysId)) {
        if (o.phys_id() == r.id()) continue;
        ops2[i] = Reg::from_type_and_id(r.reg_type(), o.phys_id());
        add(i, "p", o.phys_id(), emit(ops2));
      }
      else {
        uint32_t top = r.reg_type() == RegType::kGp8Hi || (r.reg_type() == RegType::kGp8Lo && A == Arch::kX86) ? 4u : 8u;
        Error last = Error::kOk; uint32_t alt = 0; int tried = 0;
        for (uint32_t k = 1; k <= top && tried < 3; k++) {
          uint32_t id = k % top;
          if (id == r.id() || (r.is_gp() && id == 4 && top == 8) || (r.reg_type() == RegType::kMask && id == 0) || used(r, id, i, false)) continue;
          ops2[i] = Reg::from_type_and_id(r.reg_type(), id);
          last = emit(ops2); alt = id; tried++;
          if (last == Error::kOk) break;
        }
        if (tried) add(i, "a", alt, last);
      }
    }
    else if (ops[i].is_mem()) {
      const x86::Mem& m = ops[i].as<x86::Mem>();
      if (!m.has_base_reg()) continue;
      Reg br = Reg::from_type_and_id(m.base_type(), m.base_id());
      if (!br.is_gp()) continue;
      if (o.has_op_flag(OpRWFlags::kMemPhysId)) {
        if (o.phys_id() == br.id()) continue;
        x86::Mem m2 = m; m2.set_base_id(o.phys_id()); ops2[i] = m2;
        add(i, "P", o.phys_id(), emit(ops2));
      }
      else {
        Error last = Error::kOk; uint32_t alt = 0; int tried = 0;
        for (uint32_t id : { 3u, 1u, 2u, 6u, 7u, 0u }) {
          if (tried >= 3) break;
          if (id == br.id() || used(br, id, i, true)) continue;
          x86::Mem m2 = m; m2.set_base_id(id); ops2[i] = m2;
          last = emit(ops2); alt = id; tried++;
          if (last == Error::kOk) break;
        }
        if (tried) add(i, "A", alt, last);
      }
    }
  }
  return s + "]";
}

static std::string feat_json(Arch arch, const CpuFeatures& f) {
  std::string s = "[";
  bool first = true;
  CpuFeatures::Iterator it = f.iterator();
  while (it.has_next()) {
    uint32_t id = uint32_t(it.next());
    if (!first) s += ",";
    first = false;
    s += jstr(feature_name(arch, id));
  }
  return s + "]";
}

// ---------------------------------------------------------------------------------------------------------------------
// mode host

static uint64_t xgetbv0() { uint32_t a, d; __asm__ volatile("xgetbv" : "=a"(a), "=d"(d) : "c"(0)); return (uint64_t(d) << 32) | a; }

static int mode_host() {
  const CpuInfo& ci = CpuInfo::host();
  std::string s = "{\"features\":" + feat_json(Arch::kX64, ci.features()) + ",\"all\":[";
  for (uint32_t id = 1; id <= uint32_t(CpuFeatures::X86::kMaxValue); id++) {
    if (id > 1) s += ",";
    s += jstr(feature_name(Arch::kX64, id));
  }
  char b[256];
  snprintf(b, sizeof b, "],\"xcr0\":\"%llx\",\"vendor\":%s,\"brand\":%s}", (unsigned long long)xgetbv0(), jstr(ci.vendor()).c_str(), jstr(ci.brand()).c_str());
  s += b;
  puts(s.c_str());
  return 0;
}

// ---------------------------------------------------------------------------------------------------------------------
// mode table

static int mode_table(const Args& args) {
  std::ifstream f(args.str("cases"));
  std::string line, out;
  NullHandler nh;
  Environment envs[2] = { Environment(Arch::kX86), Environment(Arch::kX64) };
  CodeHolder code;
  x86::Assembler a;
  int since = 100000;
  Arch cur = Arch::kUnknown;
  while (std::getline(f, line)) {
    if (line.empty()) continue;
    Case c;
    if (!parse_case(line, c)) { out += "{\"id\":-1,\"bad\":" + jstr(line) + "}\n"; continue; }
    Arch A = c.arch == "x64" ? Arch::kX64 : Arch::kX86;
    if (A != cur || ++since > 1000) {
      code.reset(ResetPolicy::kHard); code.init(envs[A == Arch::kX64]); code.set_error_handler(&nh); code.attach(&a);
      cur = A; since = 0;
    }
    Operand ops[6];
    bool ok = build_ops(c, ops, 0x10000);
    InstId inst_id = InstAPI::string_to_inst_id(A, c.name.c_str(), c.name.size());
    Reg extra;
    BaseInst bi(inst_id, InstOptions(c.opts));
    if (c.extra_s != "-") {
      std::vector<std::string> p = split(c.extra_s, ':');
      extra = Reg::from_type_and_id(reg_type_of(p[0]), (uint32_t)strtoul(p[1].c_str(), nullptr, 0));
      bi = BaseInst(inst_id, InstOptions(c.opts), extra);
    }
    InstRWInfo rw; memset(&rw, 0, sizeof rw);
    CpuFeatures feat;
    Error e_rw = Error::kInvalidArgument, e_f = Error::kInvalidArgument, e_v = Error::kInvalidArgument, e_e = Error::kInvalidArgument;
    std::string enc = "none", bytes, stale, pa = "[]";
    if (ok && inst_id) {
      e_v = InstAPI::validate(A, bi, ops, size_t(c.nops));
      e_rw = InstAPI::query_rw_info(A, bi, ops, size_t(c.nops), &rw);
      stale = stale_state_diff(A, bi, ops, c.nops, rw, e_rw);
      e_f = InstAPI::query_features(A, bi, ops, size_t(c.nops), &feat);
      size_t off0 = a.offset();
      if (c.extra_s != "-") a.set_extra_reg(extra);
      a.set_inst_options(InstOptions(c.opts));
      e_e = a.emit_op_array(inst_id, ops, size_t(c.nops));
      a.reset_inst_options(); a.reset_extra_reg();
      if (e_e == Error::kOk && a.offset() > off0) { enc = enc_class(a.buffer_data() + off0, a.offset() - off0); bytes = hexstr(a.buffer_data() + off0, a.offset() - off0); }
      if (e_e == Error::kOk && e_rw == Error::kOk)
        pa = phys_probes(A, ops, c.nops, rw, c.extra_s != "-", extra, [&](const Operand* o2) -> Error {
          if (c.extra_s != "-") a.set_extra_reg(extra);
          a.set_inst_options(InstOptions(c.opts));
          Error e = a.emit_op_array(inst_id, o2, size_t(c.nops));
          a.reset_inst_options(); a.reset_extra_reg();
          return e;
        });
    }
    char b[512];
    snprintf(b, sizeof b, "{\"id\":%s,\"iid\":%u,\"v\":%u,\"rw\":%u,\"f\":%u,\"e\":%u,\"enc\":\"%s\",\"rf\":%u,\"wf\":%u,\"rmf\":%s,\"if\":%u,\"bytes\":\"%s\",\"ops\":",
             c.id.c_str(), unsigned(inst_id), unsigned(e_v), unsigned(e_rw), unsigned(e_f), unsigned(e_e), enc.c_str(),
             unsigned(rw.read_flags()), unsigned(rw.write_flags()),
             jstr(rw.rm_feature() ? feature_name(A, rw.rm_feature()) : std::string()).c_str(), unsigned(rw.inst_flags()), bytes.c_str());
    out += b;
    out += rw_json(rw, c.nops);
    if (!stale.empty()) out += ",\"stale\":" + jstr(stale);
    out += ",\"pa\":" + pa;
    out += ",\"feat\":" + feat_json(A, feat) + "}\n";
    if (out.size() > (1 << 20)) { fwrite(out.data(), 1, out.size(), stdout); out.clear(); }
  }
  fwrite(out.data(), 1, out.size(), stdout);
  return 0;
}

// ---------------------------------------------------------------------------------------------------------------------
// mode rmopt: "reported reg/mem replaceability is real", with instruction options (nothing executed)
//   For every case (register form + BaseInst options {sae}/{er} + optional {k}/{z} extra register): query_rw_info; for every register
//   operand the answer flags kRegMem with rm_size = N the same instruction (same options, same extra register) is rebuilt with that
//   operand replaced by [base] of size N and handed to InstAPI::validate() and to x86::Assembler of the same arch mode.
//   record: {"id","iid","v","rw","e","bytes","rmflag0":<kRegMem operands with rm_size 0>,"claims":[[op,N,validate-error,emit-error,"bytes",validate-error-is-kInvalidImmediate,
//            query_features-error of the memory form,[features of the memory form]],..],"ops":[..],"rmf":<rm_feature name>,"ff":<query_features error>,"feat":[features of the register form]}
//   (rm_feature: the features the memory form needs beyond those of the register form must be announced by rm_feature - Python judges)

static int mode_rmopt(const Args& args) {
  std::ifstream f(args.str("cases"));
  std::string line, out;
  NullHandler nh;
  Environment envs[2] = { Environment(Arch::kX86), Environment(Arch::kX64) };
  CodeHolder code;
  x86::Assembler a;
  int since = 100000;
  Arch cur = Arch::kUnknown;
  while (std::getline(f, line)) {
    if (line.empty()) continue;
    Case c;
    if (!parse_case(line, c)) { out += "{\"id\":-1,\"bad\":" + jstr(line) + "}\n"; continue; }
    Arch A = c.arch == "x64" ? Arch::kX64 : Arch::kX86;
    if (A != cur || ++since > 1000) {
      code.reset(ResetPolicy::kHard); code.init(envs[A == Arch::kX64]); code.set_error_handler(&nh); code.attach(&a);
      cur = A; since = 0;
    }
    Operand ops[6];
    bool ok = build_ops(c, ops, 0x10000);
    InstId inst_id = InstAPI::string_to_inst_id(A, c.name.c_str(), c.name.size());
    Reg extra;
    bool has_extra = c.extra_s != "-";
    BaseInst bi(inst_id, InstOptions(c.opts));
    if (has_extra) {
      std::vector<std::string> p = split(c.extra_s, ':');
      extra = Reg::from_type_and_id(reg_type_of(p[0]), (uint32_t)strtoul(p[1].c_str(), nullptr, 0));
      bi = BaseInst(inst_id, InstOptions(c.opts), extra);
    }
    auto emit = [&](const Operand* o, std::string* bytes) -> Error {
      size_t off0 = a.offset();
      if (has_extra) a.set_extra_reg(extra);
      a.set_inst_options(InstOptions(c.opts));
      Error e = a.emit_op_array(inst_id, o, size_t(c.nops));
      a.reset_inst_options(); a.reset_extra_reg();
      if (e == Error::kOk && a.offset() > off0) *bytes = hexstr(a.buffer_data() + off0, a.offset() - off0);
      return e;
    };
    InstRWInfo rw; memset(&rw, 0, sizeof rw);
    Error e_rw = Error::kInvalidArgument, e_v = Error::kInvalidArgument, e_e = Error::kInvalidArgument;
    std::string bytes, claims = "[";
    unsigned rmflag0 = 0;
    if (ok && inst_id) {
      e_v = InstAPI::validate(A, bi, ops, size_t(c.nops));
      e_rw = InstAPI::query_rw_info(A, bi, ops, size_t(c.nops), &rw);
      e_e = emit(ops, &bytes);
      if (e_rw == Error::kOk) {
        // base register of the replacement: a low GP id no register operand of the case uses
        uint32_t mb = 3;
        for (uint32_t cand : { 3u, 6u, 7u, 1u, 2u, 0u }) {
          bool used = false;
          for (int j = 0; j < c.nops; j++) if (ops[j].is_reg() && ops[j].as<Reg>().is_gp() && ops[j].as<Reg>().id() == cand) used = true;
          if (!used) { mb = cand; break; }
        }
        for (int i = 0; i < c.nops; i++) {
          const OpRWInfo& o = rw.operand(size_t(i));
          if (!ops[i].is_reg() || !o.is_rm()) continue;
          if (o.rm_size() == 0) { rmflag0++; continue; }
          Operand ops2[6];
          for (int j = 0; j < c.nops; j++) ops2[j] = ops[j];
          ops2[i] = A == Arch::kX64 ? x86::Mem(x86::gpq(mb), 0, o.rm_size()) : x86::Mem(x86::gpd(mb), 0, o.rm_size());
          Error ev = InstAPI::validate(A, bi, ops2, size_t(c.nops));
          std::string mbytes;
          Error ee = emit(ops2, &mbytes);
          CpuFeatures mfeat;
          Error ef = InstAPI::query_features(A, bi, ops2, size_t(c.nops), &mfeat);
          char b[160];
          snprintf(b, sizeof b, "%s[%d,%u,%u,%u,\"%s\",%d,%u,", claims.size() > 1 ? "," : "", i, o.rm_size(), unsigned(ev), unsigned(ee), mbytes.c_str(), ev == Error::kInvalidImmediate ? 1 : 0, unsigned(ef));
          claims += b;
          claims += feat_json(A, mfeat) + "]";
        }
      }
    }
    claims += "]";
    char b[384];
    snprintf(b, sizeof b, "{\"id\":%s,\"iid\":%u,\"v\":%u,\"rw\":%u,\"e\":%u,\"bytes\":\"%s\",\"rmflag0\":%u,\"claims\":", c.id.c_str(), unsigned(inst_id), unsigned(e_v), unsigned(e_rw), unsigned(e_e), bytes.c_str(), rmflag0);
    out += b;
    out += claims;
    {
      CpuFeatures rfeat;
      Error ef = (ok && inst_id) ? InstAPI::query_features(A, bi, ops, size_t(c.nops), &rfeat) : Error::kInvalidArgument;
      out += ",\"rmf\":" + jstr(rw.rm_feature() ? feature_name(A, rw.rm_feature()) : std::string()) + ",\"ff\":" + std::to_string(unsigned(ef)) + ",\"feat\":" + feat_json(A, rfeat);
    }
    out += ",\"ops\":" + rw_json(rw, c.nops) + "}\n";
    if (out.size() > (1 << 20)) { fwrite(out.data(), 1, out.size(), stdout); out.clear(); }
  }
  fwrite(out.data(), 1, out.size(), stdout);
  return 0;
}

// ---------------------------------------------------------------------------------------------------------------------
// mode a64c: register-list queries
//   line: <id> <name> <n> <shape> <first-reg>
//   shape: L:<8b|16b|4h|8h|2s|4s|1d|2d>[:o|pr|pi]   list of n vectors + memory operand
//          E:<b|h|s|d>:<idx>[:o|pr|pi]              list of n vector elements + memory operand
//          T:<8b|16b>                               Vd, list of n x .16b, Vm
//          P:<w|x>                                  casp-like: pair, pair, [mem]

static a64::Vec arr_vec(uint32_t id, const std::string& arr) {
  a64::Vec v = a64::Vec::make_v128(id & 31);
  if (arr == "8b") return v.b8();
  if (arr == "16b") return v.b16();
  if (arr == "4h") return v.h4();
  if (arr == "8h") return v.h8();
  if (arr == "2s") return v.s2();
  if (arr == "4s") return v.s4();
  if (arr == "1d") return a64::Vec::make_v64_with_element_type(a64::VecElementType::kD, id & 31);
  return v.d2();
}

static int mode_a64c(const Args& args) {
  std::ifstream f(args.str("cases"));
  std::string line, out;
  NullHandler nh;
  CodeHolder code;
  a64::Assembler a;
  code.init(Environment(Arch::kAArch64)); code.set_error_handler(&nh); code.attach(&a);
  while (std::getline(f, line)) {
    if (line.empty()) continue;
    std::istringstream ss(line);
    std::string id, name, shape; int n = 0; uint32_t first = 0;
    ss >> id >> name >> n >> shape >> first;
    std::vector<std::string> p = split(shape, ':');
    Operand ops[6]; int nops = 0;
    int list_at = 0;
    a64::Gp base = a64::x(5), idxr = a64::x(7);
    auto mem_of = [&](const std::string& m, int bytes) -> a64::Mem {
      if (m == "pr") return a64::ptr_post(base, idxr);
      if (m == "pi") return a64::ptr_post(base, bytes);
      return a64::ptr(base);
    };
    if (p[0] == "L") {
      for (int i = 0; i < n; i++) ops[nops++] = arr_vec(first + i, p[1]);
      int vb = (p[1] == "8b" || p[1] == "4h" || p[1] == "2s" || p[1] == "1d") ? 8 : 16;
      int bytes = vb * n;
      if (name.size() == 4 && name[3] == 'r') { bytes = n * (p[1].back() == 'b' ? 1 : p[1].back() == 'h' ? 2 : p[1].back() == 's' ? 4 : 8); }
      ops[nops++] = mem_of(p.size() > 2 ? p[2] : "o", bytes);
    }
    else if (p[0] == "E") {
      uint32_t ei = (uint32_t)atoi(p[2].c_str());
      int es = p[1] == "b" ? 1 : p[1] == "h" ? 2 : p[1] == "s" ? 4 : 8;
      for (int i = 0; i < n; i++) {
        a64::Vec v = a64::Vec::make_v128((first + i) & 31);
        ops[nops++] = p[1] == "b" ? v.b(ei) : p[1] == "h" ? v.h(ei) : p[1] == "s" ? v.s(ei) : v.d(ei);
      }
      ops[nops++] = mem_of(p.size() > 3 ? p[3] : "o", es * n);
    }
    else if (p[0] == "T") {
      ops[nops++] = arr_vec(first + 9, p[1]);
      list_at = 1;
      for (int i = 0; i < n; i++) ops[nops++] = arr_vec(first + i, "16b");
      ops[nops++] = arr_vec(first + 13, p[1]);
    }
    else if (p[0] == "P") {
      bool w = p[1] == "w";
      uint32_t r0 = (first & 14) % 28, r1 = (r0 + 4) % 28;
      ops[nops++] = w ? a64::Gp(a64::w(r0)) : a64::Gp(a64::x(r0));
      ops[nops++] = w ? a64::Gp(a64::w(r0 + 1)) : a64::Gp(a64::x(r0 + 1));
      ops[nops++] = w ? a64::Gp(a64::w(r1)) : a64::Gp(a64::x(r1));
      ops[nops++] = w ? a64::Gp(a64::w(r1 + 1)) : a64::Gp(a64::x(r1 + 1));
      ops[nops++] = a64::ptr(base);
    }
    InstId inst_id = InstAPI::string_to_inst_id(Arch::kAArch64, name.c_str(), name.size());
    BaseInst bi(inst_id);
    InstRWInfo rw; memset(&rw, 0, sizeof rw);
    Error e_v = InstAPI::validate(Arch::kAArch64, bi, ops, size_t(nops));
    Error e_rw = inst_id ? InstAPI::query_rw_info(Arch::kAArch64, bi, ops, size_t(nops), &rw) : Error::kInvalidInstruction;
    size_t off0 = a.offset();
    Error e_e = inst_id ? a.emit_op_array(inst_id, ops, size_t(nops)) : Error::kInvalidInstruction;
    std::string bytes = e_e == Error::kOk ? hexstr(a.buffer_data() + off0, a.offset() - off0) : std::string();
    char b[256];
    snprintf(b, sizeof b, "{\"id\":%s,\"iid\":%u,\"v\":%u,\"rw\":%u,\"e\":%u,\"nops\":%d,\"list_at\":%d,\"bytes\":\"%s\",\"ops\":", id.c_str(), unsigned(inst_id), unsigned(e_v), unsigned(e_rw), unsigned(e_e), nops, list_at, bytes.c_str());
    out += b;
    out += rw_json(rw, nops);
    out += "}\n";
  }
  fwrite(out.data(), 1, out.size(), stdout);
  return 0;
}

// ---------------------------------------------------------------------------------------------------------------------
// native-execution sandbox

static const size_t ARENA = 4096;
static const size_t EA_OFF = 2048;      // memory operands resolve to arena + EA_OFF
static const size_t EA_M_OFF = 1024;    // memory of the M-form (reg replaced by mem)

// flat diffable state: bytes
enum : size_t { F_GP = 0, F_VEC = 128, F_K = F_VEC + 32 * 64, F_MM = F_K + 64, F_MEM = F_MM + 64, F_SIZE = F_MEM + ARENA };

struct State {
  uint8_t b[F_SIZE];
  uint32_t fl;          // CpuRWFlags encoded: CF PF AF ZF SF OF DF + C0..C3
  // not diffed (not modelled by the RW API): x87 control/status/tag, exponent halves of ST registers, MXCSR
  uint16_t fcw, fsw_other;
  uint8_t ftw;
  uint32_t mxcsr;
  uint8_t st_hi[8][2];
  uint64_t& gp(int i) { return *reinterpret_cast<uint64_t*>(b + F_GP + 8 * i); }
  const uint64_t& gp(int i) const { return *reinterpret_cast<const uint64_t*>(b + F_GP + 8 * i); }
  uint8_t* vec(int i) { return b + F_VEC + 64 * i; }
  uint64_t& k(int i) { return *reinterpret_cast<uint64_t*>(b + F_K + 8 * i); }
  uint8_t* mm(int i) { return b + F_MM + 8 * i; }
  uint8_t* mem() { return b + F_MEM; }
};

static const uint32_t FL_STATUS = 0x1 | 0x2 | 0x4 | 0x8 | 0x100 | 0x200;                 // OF CF ZF SF AF PF
static const uint32_t FL_DF = 0x400;
static const uint32_t FL_FPU = 0x10000 | 0x20000 | 0x40000 | 0x80000;                    // C0 C1 C2 C3

static uint32_t fl_from(uint64_t rflags, uint16_t fsw) {
  uint32_t f = 0;
  if (rflags & (1u << 0)) f |= 0x2;
  if (rflags & (1u << 2)) f |= 0x200;
  if (rflags & (1u << 4)) f |= 0x100;
  if (rflags & (1u << 6)) f |= 0x4;
  if (rflags & (1u << 7)) f |= 0x8;
  if (rflags & (1u << 10)) f |= 0x400;
  if (rflags & (1u << 11)) f |= 0x1;
  if (fsw & (1u << 8)) f |= 0x10000;
  if (fsw & (1u << 9)) f |= 0x20000;
  if (fsw & (1u << 10)) f |= 0x40000;
  if (fsw & (1u << 14)) f |= 0x80000;
  return f;
}
static uint64_t rflags_from(uint32_t f) {
  uint64_t r = 0x202;
  if (f & 0x2) r |= 1u << 0;
  if (f & 0x200) r |= 1u << 2;
  if (f & 0x100) r |= 1u << 4;
  if (f & 0x4) r |= 1u << 6;
  if (f & 0x8) r |= 1u << 7;
  if (f & 0x400) r |= 1u << 10;
  if (f & 0x1) r |= 1u << 11;
  return r;
}
static uint16_t fsw_from(uint32_t f, uint16_t other) {
  uint16_t s = other & ~uint16_t((1u << 8) | (1u << 9) | (1u << 10) | (1u << 14));
  if (f & 0x10000) s |= 1u << 8;
  if (f & 0x20000) s |= 1u << 9;
  if (f & 0x40000) s |= 1u << 10;
  if (f & 0x80000) s |= 1u << 14;
  return s;
}
static const char* fl_name(uint32_t bit) {
  switch (bit) {
    case 0x1: return "OF"; case 0x2: return "CF"; case 0x4: return "ZF"; case 0x8: return "SF"; case 0x100: return "AF"; case 0x200: return "PF";
    case 0x400: return "DF"; case 0x10000: return "C0"; case 0x20000: return "C1"; case 0x40000: return "C2"; case 0x80000: return "C3";
  }
  return "?";
}
static std::string fl_names(uint32_t m) {
  std::string s;
  for (uint32_t b = 1; b; b <<= 1) if (m & b) { if (!s.empty()) s += "|"; s += fl_name(b); }
  return s.empty() ? "-" : s;
}

static const char* GPN[16] = { "rax", "rcx", "rdx", "rbx", "rsp", "rbp", "rsi", "rdi", "r8", "r9", "r10", "r11", "r12", "r13", "r14", "r15" };

static std::string loc_reg(size_t idx) {   // register name of a flat index (without byte)
  char b[32];
  if (idx < F_VEC) return GPN[idx / 8];
  if (idx < F_K) { snprintf(b, sizeof b, "zmm%zu", (idx - F_VEC) / 64); return b; }
  if (idx < F_MM) { snprintf(b, sizeof b, "k%zu", (idx - F_K) / 8); return b; }
  if (idx < F_MEM) { snprintf(b, sizeof b, "mm%zu", (idx - F_MM) / 8); return b; }
  return "mem";
}
static std::string loc_name(size_t idx) {
  char b[48];
  if (idx < F_VEC) snprintf(b, sizeof b, "%s.b%zu", GPN[idx / 8], idx % 8);
  else if (idx < F_K) snprintf(b, sizeof b, "zmm%zu.b%zu", (idx - F_VEC) / 64, (idx - F_VEC) % 64);
  else if (idx < F_MM) snprintf(b, sizeof b, "k%zu.b%zu", (idx - F_K) / 8, (idx - F_K) % 8);
  else if (idx < F_MEM) snprintf(b, sizeof b, "mm%zu.b%zu", (idx - F_MM) / 8, (idx - F_MM) % 8);
  else snprintf(b, sizeof b, "mem[ea%+d]", int(idx - F_MEM) - int(EA_OFF));
  return b;
}

// context block in the low 2 GB so that the trampoline can use absolute [disp32] addressing with every register live
struct Ctx {
  uint64_t host_rsp;
  uint32_t mxcsr_default;
  uint32_t pad0;
  uint64_t gp_in[16];
  uint64_t flags_in;
  uint64_t gp_out[16];
  uint64_t flags_out;
  uint64_t gate_host_rsp, gate_stack;      // 64 -> 32 bit gate
  uint32_t far_off; uint16_t far_sel, far_pad;
  uint8_t pad1[4096 - 8 * 36 - 24];
  uint8_t xs_in[4096];
  uint8_t xs_out[4096];
};

static Ctx* CTX;
static uint8_t* ARENA_P;      // arena (guard pages around)
static uint8_t* STACK_MID;    // scratch stack pointer for the code under test
static uint8_t* STACK32_MID;  // same below 4 GB (32-bit mode)
static uint8_t* CODE;         // RWX buffer
static uint8_t* CODE32;       // RWX buffer below 4 GB: 32-bit trampolines, entered through rw_gate32

// 64 -> 32 bit gate: a far call to the 32-bit user code segment (selector 0x23) runs the asmjit-assembled 32-bit trampoline in
// compatibility mode on a stack below 4 GB; the trampoline ends with retf. The gate itself is 64-bit code that must live below 4 GB
// too (the far call pushes a 32-bit return address), so it is assembled into CODE32's neighbourhood at start-up.
typedef void (*Fn)();
static Fn GATE32;
static const size_t SLOT = 2048, NSLOT = 8;
static uint64_t XMASK;
static uint32_t X_YMM = 576, X_K = 1088, X_ZHI = 1152, X_H16 = 1664;
static bool HAVE_AVX = false, HAVE_512 = false;
static sigjmp_buf JB;
static volatile sig_atomic_t IN_SANDBOX = 0;
static volatile uint64_t FAULT_ADDR = 0;

static void on_signal(int sig, siginfo_t* si, void*) {
  if (!IN_SANDBOX) {
    static const char msg[] = "drv_rw: signal outside the sandbox\n";
    ssize_t r = write(2, msg, sizeof msg - 1); (void)r;
    _exit(97);
  }
  FAULT_ADDR = (uint64_t)si->si_addr;
  siglongjmp(JB, sig);
}

static void* map32(size_t size, int prot) {
  void* p = mmap(nullptr, size, prot, MAP_PRIVATE | MAP_ANONYMOUS | MAP_32BIT, -1, 0);
  return p == MAP_FAILED ? nullptr : p;
}

static bool sandbox_init() {
  uint32_t a, b, c, d;
  uint64_t xcr0 = xgetbv0();
  XMASK = xcr0 & 0xE7;
  HAVE_AVX = (xcr0 & 0x6) == 0x6;
  HAVE_512 = (xcr0 & 0xE6) == 0xE6;
  if (HAVE_AVX) { __cpuid_count(0xD, 2, a, b, c, d); X_YMM = b; }
  if (HAVE_512) {
    __cpuid_count(0xD, 5, a, b, c, d); X_K = b;
    __cpuid_count(0xD, 6, a, b, c, d); X_ZHI = b;
    __cpuid_count(0xD, 7, a, b, c, d); X_H16 = b;
    if (X_H16 + 1024 > 4096) return false;
  }
  CTX = (Ctx*)map32(sizeof(Ctx), PROT_READ | PROT_WRITE);
  uint8_t* ar = (uint8_t*)map32(ARENA + 2 * 4096, PROT_NONE);
  if (!CTX || !ar) return false;
  if (mprotect(ar + 4096, ARENA, PROT_READ | PROT_WRITE) != 0) return false;
  ARENA_P = ar + 4096;
  uint8_t* st = (uint8_t*)mmap(nullptr, 4096 * 18, PROT_NONE, MAP_PRIVATE | MAP_ANONYMOUS, -1, 0);
  if (st == MAP_FAILED) return false;
  mprotect(st + 4096, 4096 * 16, PROT_READ | PROT_WRITE);
  STACK_MID = st + 4096 * 9;
  CODE = (uint8_t*)mmap(nullptr, SLOT * NSLOT, PROT_READ | PROT_WRITE | PROT_EXEC, MAP_PRIVATE | MAP_ANONYMOUS, -1, 0);
  if (CODE == MAP_FAILED) return false;
  {
    uint8_t* st32 = (uint8_t*)map32(4096 * 18, PROT_NONE);
    uint8_t* gs32 = (uint8_t*)map32(65536, PROT_READ | PROT_WRITE);
    CODE32 = (uint8_t*)map32(SLOT * NSLOT, PROT_READ | PROT_WRITE | PROT_EXEC);
    if (!st32 || !gs32 || !CODE32) return false;
    mprotect(st32 + 4096, 4096 * 16, PROT_READ | PROT_WRITE);
    STACK32_MID = st32 + 4096 * 9;
    uint8_t* gate = (uint8_t*)map32(4096, PROT_READ | PROT_WRITE | PROT_EXEC);
    if (!gate) return false;
    memset(CTX, 0, sizeof(Ctx));
    CTX->gate_stack = uint64_t(uintptr_t(gs32 + 65536 - 256));
    CTX->far_sel = 0x23;
    CodeHolder code;
    code.init(Environment(Arch::kX64));
    x86::Assembler a(&code);
    using namespace x86;
    auto abs = [](const void* p, uint32_t size) { x86::Mem m(uint64_t(uintptr_t(p)), size); m.set_addr_abs(); return m; };
    a.push(rbx); a.push(rbp); a.push(r12); a.push(r13); a.push(r14); a.push(r15);
    a.pushfq();
    a.mov(abs(&CTX->gate_host_rsp, 8), rsp);
    a.mov(rsp, abs(&CTX->gate_stack, 8));
    a.mov(eax, 0x2b);
    static const uint8_t seg_set[] = { 0x8E, 0xD8, 0x8E, 0xC0 };             // mov ds, eax ; mov es, eax
    a.embed(seg_set, sizeof seg_set);
    uint32_t far_at = uint32_t(uintptr_t(&CTX->far_off));
    uint8_t lcall[7] = { 0xFF, 0x1C, 0x25, uint8_t(far_at), uint8_t(far_at >> 8), uint8_t(far_at >> 16), uint8_t(far_at >> 24) };   // call far m16:32 [abs]
    a.embed(lcall, sizeof lcall);
    a.xor_(eax, eax);
    a.embed(seg_set, sizeof seg_set);
    a.mov(rsp, abs(&CTX->gate_host_rsp, 8));
    a.popfq();
    a.pop(r15); a.pop(r14); a.pop(r13); a.pop(r12); a.pop(rbp); a.pop(rbx);
    a.ret();
    if (a.offset() > 4096) return false;
    memcpy(gate, a.buffer_data(), a.offset());
    GATE32 = (Fn)gate;
  }
  CTX->mxcsr_default = 0x1F80;
  // alternate signal stack + handlers
  static uint8_t altstack[1 << 16];
  stack_t ss; ss.ss_sp = altstack; ss.ss_size = sizeof altstack; ss.ss_flags = 0;
  sigaltstack(&ss, nullptr);
  struct sigaction sa; memset(&sa, 0, sizeof sa);
  sa.sa_sigaction = on_signal;
  sa.sa_flags = SA_SIGINFO | SA_ONSTACK | SA_NODEFER;
  sigemptyset(&sa.sa_mask);
  int sigs[] = { SIGILL, SIGSEGV, SIGFPE, SIGBUS, SIGTRAP };
  for (int s : sigs) sigaction(s, &sa, nullptr);
  return true;
}

static void to_xsave(const State& s, uint8_t* xs) {
  memset(xs, 0, 4096);
  uint16_t fsw = fsw_from(s.fl, s.fsw_other);
  memcpy(xs + 0, &s.fcw, 2);
  memcpy(xs + 2, &fsw, 2);
  xs[4] = s.ftw;
  memcpy(xs + 24, &s.mxcsr, 4);
  for (int i = 0; i < 8; i++) {
    memcpy(xs + 32 + 16 * i, s.b + F_MM + 8 * i, 8);
    memcpy(xs + 32 + 16 * i + 8, s.st_hi[i], 2);
  }
  for (int i = 0; i < 16; i++) {
    const uint8_t* v = s.b + F_VEC + 64 * i;
    memcpy(xs + 160 + 16 * i, v, 16);
    if (HAVE_AVX) memcpy(xs + X_YMM + 16 * i, v + 16, 16);
    if (HAVE_512) memcpy(xs + X_ZHI + 32 * i, v + 32, 32);
  }
  if (HAVE_512) {
    for (int i = 0; i < 16; i++) memcpy(xs + X_H16 + 64 * i, s.b + F_VEC + 64 * (16 + i), 64);
    memcpy(xs + X_K, s.b + F_K, 64);
  }
  uint64_t bv = XMASK;
  memcpy(xs + 512, &bv, 8);
}

static void from_xsave(const uint8_t* xs, State& s) {
  uint64_t bv; memcpy(&bv, xs + 512, 8);
  uint16_t fsw = 0;
  if (bv & 1) {
    memcpy(&s.fcw, xs + 0, 2); memcpy(&fsw, xs + 2, 2); s.ftw = xs[4];
    for (int i = 0; i < 8; i++) { memcpy(s.b + F_MM + 8 * i, xs + 32 + 16 * i, 8); memcpy(s.st_hi[i], xs + 32 + 16 * i + 8, 2); }
  }
  else { s.fcw = 0x37F; s.ftw = 0; memset(s.b + F_MM, 0, 64); memset(s.st_hi, 0, sizeof s.st_hi); }
  s.fsw_other = fsw;
  memcpy(&s.mxcsr, xs + 24, 4);
  for (int i = 0; i < 16; i++) {
    uint8_t* v = s.b + F_VEC + 64 * i;
    if (bv & 2) memcpy(v, xs + 160 + 16 * i, 16); else memset(v, 0, 16);
    if (HAVE_AVX && (bv & 4)) memcpy(v + 16, xs + X_YMM + 16 * i, 16); else memset(v + 16, 0, 16);
    if (HAVE_512 && (bv & 0x40)) memcpy(v + 32, xs + X_ZHI + 32 * i, 32); else memset(v + 32, 0, 32);
  }
  for (int i = 0; i < 16; i++) {
    if (HAVE_512 && (bv & 0x80)) memcpy(s.b + F_VEC + 64 * (16 + i), xs + X_H16 + 64 * i, 64); else memset(s.b + F_VEC + 64 * (16 + i), 0, 64);
  }
  if (HAVE_512 && (bv & 0x20)) memcpy(s.b + F_K, xs + X_K, 64); else memset(s.b + F_K, 0, 64);
  // fl is completed by the caller (needs rflags)
  s.fl = fl_from(0, fsw);
}

static inline void sanitize_fp() {
  uint32_t mx = 0x1F80;
  __asm__ volatile("fninit\n\tldmxcsr %0" : : "m"(mx));
  if (HAVE_AVX) __asm__ volatile("vzeroupper");
}

enum { RES_OK = 0, RES_ILL, RES_SEGV, RES_FPE, RES_BUS, RES_TRAP };


// Runs one image. Never lets a fault of the code under test escape.
static int run_image(const State& in, State& out, Fn fn, bool is32 = false) {
  memcpy(ARENA_P, in.b + F_MEM, ARENA);
  for (int i = 0; i < 16; i++) CTX->gp_in[i] = in.gp(i);
  CTX->flags_in = rflags_from(in.fl);
  to_xsave(in, CTX->xs_in);
  memcpy(CTX->xs_out, CTX->xs_in, 4096);
  memset(CTX->gp_out, 0, sizeof CTX->gp_out);
  CTX->flags_out = 0;
  int sig = sigsetjmp(JB, 0);
  if (sig == 0) {
    IN_SANDBOX = 1;
    if (is32) { CTX->far_off = uint32_t(uintptr_t(fn)); GATE32(); }
    else fn();
    IN_SANDBOX = 0;
  }
  else {
    IN_SANDBOX = 0;
    sanitize_fp();
    return sig == SIGILL ? RES_ILL : sig == SIGSEGV ? RES_SEGV : sig == SIGFPE ? RES_FPE : sig == SIGBUS ? RES_BUS : RES_TRAP;
  }
  out = in;   // carries the non-diffed fields' defaults
  from_xsave(CTX->xs_out, out);
  for (int i = 0; i < 16; i++) out.gp(i) = CTX->gp_out[i];
  if (is32) {
    // compatibility mode sees eax..edi, xmm/ymm/zmm0-7, k0-7, mm0-7: everything else is no part of the experiment
    for (int i = 0; i < 8; i++) out.gp(i) = (in.gp(i) & 0xFFFFFFFF00000000ull) | (CTX->gp_out[i] & 0xFFFFFFFFull);
    for (int i = 8; i < 16; i++) out.gp(i) = in.gp(i);
    memcpy(out.b + F_VEC + 64 * 8, in.b + F_VEC + 64 * 8, 64 * 24);
  }
  out.fl |= fl_from(CTX->flags_out, 0);
  memcpy(out.b + F_MEM, ARENA_P, ARENA);
  return RES_OK;
}

// Emits prologue + instruction + epilogue into `slot`. Returns an error string or empty.
static std::string make_code32(int slot, InstId inst_id, uint32_t opts, bool has_extra, const Reg& extra, const Operand* ops, int nops, std::string* inst_bytes, Error* emit_err) {
  static NullHandler nh;
  CodeHolder code;
  code.init(Environment(Arch::kX86));
  code.set_error_handler(&nh);
  x86::Assembler a(&code);
  auto abs = [](const void* p, uint32_t size) { return x86::Mem(uint64_t(uintptr_t(p)), size); };
  using namespace x86;
  a.mov(abs(&CTX->host_rsp, 4), esp);
  a.mov(eax, uint32_t(XMASK)); a.xor_(edx, edx);
  a.xrstor(abs(CTX->xs_in, 0));
  a.push(abs(&CTX->flags_in, 4));
  a.popfd();
  for (uint32_t i = 0; i < 8; i++) a.mov(gpd(i), abs(&CTX->gp_in[i], 4));
  size_t off0 = a.offset();
  if (has_extra) a.set_extra_reg(extra);
  a.set_inst_options(InstOptions(opts));
  Error e = a.emit_op_array(inst_id, ops, size_t(nops));
  a.reset_inst_options(); a.reset_extra_reg();
  *emit_err = e;
  if (e != Error::kOk) return "assembler refused the instruction";
  size_t off1 = a.offset();
  if (inst_bytes) *inst_bytes = hexstr(a.buffer_data() + off0, off1 - off0);
  for (uint32_t i = 0; i < 8; i++) a.mov(abs(&CTX->gp_out[i], 4), gpd(i));
  a.mov(esp, abs(&CTX->host_rsp, 4));
  a.pushfd();
  a.pop(abs(&CTX->flags_out, 4));
  a.mov(eax, uint32_t(XMASK)); a.xor_(edx, edx);
  a.xsave(abs(CTX->xs_out, 0));
  a.fninit();
  a.ldmxcsr(abs(&CTX->mxcsr_default, 4));
  if (HAVE_AVX) a.vzeroupper();
  a.retf();
  if (a.offset() > SLOT) return "trampoline too large";
  memcpy(CODE32 + SLOT * slot, a.buffer_data(), a.offset());
  return std::string();
}

static std::string make_code(int slot, InstId inst_id, uint32_t opts, bool has_extra, const Reg& extra, const Operand* ops, int nops, std::string* inst_bytes, Error* emit_err, bool is32 = false) {
  if (is32) return make_code32(slot, inst_id, opts, has_extra, extra, ops, nops, inst_bytes, emit_err);
  static NullHandler nh;
  CodeHolder code;
  code.init(Environment(Arch::kX64));
  code.set_error_handler(&nh);
  x86::Assembler a(&code);
  auto abs = [](const void* p, uint32_t size) { x86::Mem m(uint64_t(uintptr_t(p)), size); m.set_addr_abs(); return m; };
  using namespace x86;
  a.push(rbx); a.push(rbp); a.push(r12); a.push(r13); a.push(r14); a.push(r15);
  a.pushfq();
  a.mov(abs(&CTX->host_rsp, 8), rsp);
  a.mov(eax, uint32_t(XMASK)); a.xor_(edx, edx);
  a.xrstor64(abs(CTX->xs_in, 0));
  a.push(abs(&CTX->flags_in, 8));
  a.popfq();
  for (uint32_t i = 0; i < 16; i++) a.mov(gpq(i), abs(&CTX->gp_in[i], 8));
  size_t off0 = a.offset();
  if (has_extra) a.set_extra_reg(extra);
  a.set_inst_options(InstOptions(opts));
  Error e = a.emit_op_array(inst_id, ops, size_t(nops));
  a.reset_inst_options(); a.reset_extra_reg();
  *emit_err = e;
  if (e != Error::kOk) return "assembler refused the instruction";
  size_t off1 = a.offset();
  if (inst_bytes) *inst_bytes = hexstr(a.buffer_data() + off0, off1 - off0);
  for (uint32_t i = 0; i < 16; i++) a.mov(abs(&CTX->gp_out[i], 8), gpq(i));
  a.mov(rsp, abs(&CTX->host_rsp, 8));
  a.pushfq();
  a.pop(abs(&CTX->flags_out, 8));
  a.mov(eax, uint32_t(XMASK)); a.xor_(edx, edx);
  a.xsave64(abs(CTX->xs_out, 0));
  a.fninit();
  a.ldmxcsr(abs(&CTX->mxcsr_default, 4));
  if (HAVE_AVX) a.vzeroupper();
  a.popfq();
  a.pop(r15); a.pop(r14); a.pop(r13); a.pop(r12); a.pop(rbp); a.pop(rbx);
  a.ret();
  if (a.offset() > SLOT) return "trampoline too large";
  memcpy(CODE + SLOT * slot, a.buffer_data(), a.offset());
  return std::string();
}

// --- images ---------------------------------------------------------------------------------------------------------

static uint64_t rnd_val(Rng& r) {
  switch (r.below(12)) {
    case 0: return 0;
    case 1: return ~0ull;
    case 2: return r.below(256);
    case 3: return 1ull << r.below(64);
    case 4: return r.next() & 0xFFFFFFFFull;
    case 5: return (uint64_t)(int64_t)(int32_t)r.next();
    case 6: return r.below(64);
    default: return r.next();
  }
}

static uint32_t rnd_f32(Rng& r) {
  switch (r.below(16)) {
    case 0: return 0; case 1: return 0x80000000u; case 2: return 0x7F800000u; case 3: return 0x7FC00000u | uint32_t(r.below(1 << 20));
    case 4: return uint32_t(r.below(1 << 23)); // denormal
    case 5: return 0x3F800000u;
    default: return (uint32_t(r.below(2)) << 31) | (uint32_t(110 + r.below(40)) << 23) | uint32_t(r.below(1 << 23));
  }
}
static uint64_t rnd_f64(Rng& r) {
  switch (r.below(16)) {
    case 0: return 0; case 1: return 0x8000000000000000ull; case 2: return 0x7FF0000000000000ull; case 3: return 0x7FF8000000000000ull | r.below(1 << 20);
    case 4: return r.below(1ull << 52);
    case 5: return 0x3FF0000000000000ull;
    default: return (r.below(2) << 63) | ((1000 + r.below(60)) << 52) | r.below(1ull << 52);
  }
}
static uint16_t rnd_f16(Rng& r) {
  switch (r.below(12)) {
    case 0: return 0; case 1: return 0x7C00; case 2: return 0x7E00; case 3: return uint16_t(r.below(1 << 10));
    default: return uint16_t((r.below(2) << 15) | ((8 + r.below(16)) << 10) | r.below(1 << 10));
  }
}

static void fill_pattern(Rng& r, uint8_t* p, size_t n, int style) {
  switch (style) {
    case 0: for (size_t i = 0; i < n; i++) p[i] = uint8_t(r.next()); break;
    case 1: for (size_t i = 0; i + 4 <= n; i += 4) { uint32_t v = rnd_f32(r); memcpy(p + i, &v, 4); } break;
    case 2: for (size_t i = 0; i + 8 <= n; i += 8) { uint64_t v = rnd_f64(r); memcpy(p + i, &v, 8); } break;
    case 3: for (size_t i = 0; i + 2 <= n; i += 2) { uint16_t v = rnd_f16(r); memcpy(p + i, &v, 2); } break;
    case 4: for (size_t i = 0; i + 4 <= n; i += 4) { uint32_t v = uint32_t(r.below(64)); memcpy(p + i, &v, 4); } break;
    case 5: memset(p, 0, n); break;
    case 6: memset(p, 0xFF, n); break;
    default: for (size_t i = 0; i + 8 <= n; i += 8) { uint64_t v = rnd_val(r); memcpy(p + i, &v, 8); } break;
  }
}

struct ImageFix {
  // gp registers that must hold a fixed value (addressing), vsib index register, hints
  int n_gp = 0; int gp_id[6]; uint64_t gp_val[6];
  int vs_reg = -1, vs_bits = 0;
  bool div = false, x87 = false, mmx = false, ecx01 = false, is32 = false;
  uint32_t pat_mask = 0; int pat = 0;     // GP register operands preloaded with 0xA5.. (1) / 0x5A.. (2): no byte of the register is zero
  int bo_reg = -1, bo_hi = 0, bo_bits = 0;
  int div_reg = -1, div_hi = 0; bool div_mem = false;
};

static void gen_image(Rng& r, State& s, const ImageFix& fx, int vec_style) {
  for (int i = 0; i < 16; i++) s.gp(i) = rnd_val(r);
  if (fx.pat) for (int i = 0; i < 16; i++) if (fx.pat_mask & (1u << i)) s.gp(i) = fx.pat == 1 ? 0xA5A5A5A5A5A5A5A5ull : 0x5A5A5A5A5A5A5A5Aull;
  s.gp(4) = uint64_t(uintptr_t(STACK_MID));
  s.fl = 0;
  uint64_t fr = r.next();
  uint32_t bits[6] = { 0x1, 0x2, 0x4, 0x8, 0x100, 0x200 };
  for (int i = 0; i < 6; i++) if (fr & (1u << i)) s.fl |= bits[i];
  for (int i = 0; i < 32; i++) {
    int st = vec_style >= 0 ? vec_style : int(r.below(8));
    fill_pattern(r, s.vec(i), 64, st);
  }
  for (int i = 0; i < 8; i++) s.k(i) = rnd_val(r);
  if (fx.x87) {
    // valid extended doubles: explicit integer bit set, moderate exponents
    for (int i = 0; i < 8; i++) {
      uint64_t m = r.next() | 0x8000000000000000ull;
      uint16_t e = uint16_t((r.below(2) << 15) | (16383 - 20 + r.below(40)));
      if (r.below(8) == 0) { m = 0; e = 0; }
      memcpy(s.mm(i), &m, 8); memcpy(s.st_hi[i], &e, 2);
    }
  }
  else {
    for (int i = 0; i < 8; i++) { uint64_t m = rnd_val(r); memcpy(s.mm(i), &m, 8); s.st_hi[i][0] = 0xFF; s.st_hi[i][1] = 0xFF; }
  }
  s.fcw = 0x037F; s.fsw_other = 0; s.ftw = 0xFF; s.mxcsr = 0x1F80;
  fill_pattern(r, s.mem(), ARENA, 0);
  // operand regions get value-like contents too
  fill_pattern(r, s.mem() + EA_OFF, 64, vec_style >= 0 ? vec_style : int(r.below(8)));
  fill_pattern(r, s.mem() + EA_OFF + EA_STRIDE, 64, 7);
  if (fx.div) {
    s.gp(2) = 0;
    s.gp(0) &= 0x7FFFFFFF7FFF007Full;
    if (fx.div_reg >= 0) {
      uint64_t& d = s.gp(fx.div_reg);
      if (fx.div_hi) { if (((d >> 8) & 0xFF) == 0) d |= 0x100; }
      else if ((d & 0xFF) == 0) d |= 1;
    }
    if (fx.div_mem && s.mem()[EA_OFF] == 0) s.mem()[EA_OFF] = 1;
  }
  if (fx.ecx01) s.gp(1) &= 1;
  if (fx.bo_reg >= 0 && fx.bo_bits) s.gp(fx.bo_reg) &= uint64_t(fx.bo_bits - 1);
  if (fx.vs_reg >= 0) {
    uint8_t* v = s.vec(fx.vs_reg);
    if (fx.vs_bits == 32) for (int i = 0; i < 16; i++) { int32_t x = int32_t(r.below(64)) - 32; memcpy(v + 4 * i, &x, 4); }
    else for (int i = 0; i < 8; i++) { int64_t x = int64_t(r.below(64)) - 32; memcpy(v + 8 * i, &x, 8); }
  }
  for (int i = 0; i < fx.n_gp; i++) s.gp(fx.gp_id[i]) = fx.gp_val[i];
  if (fx.is32) {
    s.gp(4) = uint64_t(uintptr_t(STACK32_MID));
    for (int i = 0; i < 8; i++) s.gp(i) &= 0xFFFFFFFFull;
  }
}

// --- access sets ----------------------------------------------------------------------------------------------------

struct Acc {
  uint8_t rd[F_SIZE], wr[F_SIZE], zx[F_SIZE];
  int8_t op_of[F_SIZE];      // explicit operand index owning the location (-1 = not an operand)
  uint32_t rd_fl, wr_fl;
  bool unsupported;
  std::string why;
};

static void mark(uint8_t* arr, size_t base, size_t limit, uint64_t mask, int shift = 0) {
  for (int b = 0; b < 64; b++) if (mask & (1ull << b)) { size_t i = size_t(b + shift); if (i < limit) arr[base + i] = 1; }
}

static void build_acc(const Case& c, const Operand* ops, int nops, bool has_extra, const Reg& extra, const InstRWInfo& rw, size_t ea_off, Acc& A) {
  memset(A.rd, 0, sizeof A.rd); memset(A.wr, 0, sizeof A.wr); memset(A.zx, 0, sizeof A.zx);
  memset(A.op_of, -1, sizeof A.op_of);
  A.rd_fl = uint32_t(rw.read_flags()); A.wr_fl = uint32_t(rw.write_flags());
  A.unsupported = false;
  auto reg_loc = [&](const Reg& r, size_t* base, size_t* limit, int* shift) -> bool {
    *shift = 0;
    if (r.is_gp()) { *base = F_GP + 8 * (r.id() & 15); *limit = 8; if (r.reg_type() == RegType::kGp8Hi) *shift = 1; return true; }
    if (r.is_vec()) { *base = F_VEC + 64 * (r.id() & 31); *limit = 64; return true; }
    if (r.reg_type() == RegType::kMask) { *base = F_K + 8 * (r.id() & 7); *limit = 8; return true; }
    if (r.reg_type() == RegType::kX86_Mm) { *base = F_MM + 8 * (r.id() & 7); *limit = 8; return true; }
    return false;
  };
  int kmem = 0;
  size_t ea_off0 = ea_off;
  for (int i = 0; i < nops; i++) {
    const OpRWInfo& o = rw.operand(size_t(i));
    if (ops[i].is_mem()) ea_off = ea_off0 + EA_STRIDE * size_t(kmem++);
    if (ops[i].is_reg()) {
      const Reg& r = ops[i].as<Reg>();
      size_t base, limit; int shift;
      if (r.reg_type() == RegType::kX86_St) continue;   // x87 registers are not diffed
      if (r.reg_type() == RegType::kSegment) continue;  // segment registers: read-only sources, not part of the image
      if (!reg_loc(r, &base, &limit, &shift)) { A.unsupported = true; A.why = "register type"; return; }
      for (size_t b = 0; b < limit; b++) if (A.op_of[base + b] < 0) A.op_of[base + b] = int8_t(i);
      if (o.is_read()) mark(A.rd, base, limit, o.read_byte_mask(), shift);
      if (o.is_write()) { mark(A.wr, base, limit, o.write_byte_mask(), shift); mark(A.wr, base, limit, o.extend_byte_mask(), shift); mark(A.zx, base, limit, o.extend_byte_mask(), shift); }
    }
    else if (ops[i].is_mem()) {
      const x86::Mem& m = ops[i].as<x86::Mem>();
      if (m.has_base_reg()) {
        size_t base = F_GP + 8 * (m.base_id() & 15);
        if (o.has_op_flag(OpRWFlags::kMemBaseRead)) mark(A.rd, base, 8, 0xFF);
        if (o.has_op_flag(OpRWFlags::kMemBaseWrite)) mark(A.wr, base, 8, 0xFF);
        for (size_t b = 0; b < 8; b++) if (A.op_of[base + b] < 0) A.op_of[base + b] = int8_t(i);
      }
      if (m.has_index_reg()) {
        Reg ir = Reg::from_type_and_id(m.index_type(), m.index_id());
        size_t base, limit; int shift;
        if (!reg_loc(ir, &base, &limit, &shift)) { A.unsupported = true; A.why = "index type"; return; }
        uint64_t full = ir.is_vec() ? (ir.size() >= 64 ? ~0ull : ((1ull << ir.size()) - 1)) : 0xFF;
        if (o.has_op_flag(OpRWFlags::kMemIndexRead)) mark(A.rd, base, limit, full);
        if (o.has_op_flag(OpRWFlags::kMemIndexWrite)) mark(A.wr, base, limit, full);
        for (size_t b = 0; b < limit; b++) if (A.op_of[base + b] < 0) A.op_of[base + b] = int8_t(i);
      }
      if (!o.has_op_flag(OpRWFlags::kMemFake)) {
        if (m.has_index_reg() && Reg::from_type_and_id(m.index_type(), m.index_id()).is_vec()) {
          // gather/scatter: every lane may be touched (over-approximation: lanes +-32 elements * scale around ea)
          int64_t span = 32ll << m.shift();
          int64_t lo = int64_t(ea_off) - span, hi = int64_t(ea_off) + span + 8;
          for (int64_t x = lo; x < hi; x++) if (x >= 0 && x < int64_t(ARENA)) {
            if (o.is_read()) A.rd[F_MEM + x] = 1;
            if (o.is_write()) A.wr[F_MEM + x] = 1;
            A.op_of[F_MEM + x] = int8_t(i);
          }
        }
        else {
          if (o.is_read()) mark(A.rd, F_MEM + ea_off, ARENA - ea_off, o.read_byte_mask());
          if (o.is_write()) mark(A.wr, F_MEM + ea_off, ARENA - ea_off, o.write_byte_mask());
          uint32_t sz = m.size() ? m.size() : 1;
          for (size_t b = 0; b < sz && ea_off + b < ARENA; b++) A.op_of[F_MEM + ea_off + b] = int8_t(i);
        }
      }
    }
  }
  if (has_extra) {
    const OpRWInfo& o = rw.extra_reg();
    size_t base, limit; int shift;
    if (reg_loc(extra, &base, &limit, &shift)) {
      for (size_t b = 0; b < limit; b++) if (A.op_of[base + b] < 0) A.op_of[base + b] = 6;
      if (o.is_read()) mark(A.rd, base, limit, o.read_byte_mask());
      if (o.is_write()) mark(A.wr, base, limit, o.write_byte_mask() | o.extend_byte_mask());
    }
  }
  (void)c;
}

// --- the checks -----------------------------------------------------------------------------------------------------

struct Viol { std::string key, what, line; };

struct Stats {
  uint64_t cases32 = 0, executed_cases32 = 0, runs32 = 0, width_refused = 0, width_refused_but_encoded = 0, pattern_images = 0;
  uint64_t cases = 0, executed_cases = 0, nontrivial_cases = 0, runs = 0, runs_ok = 0, sigill = 0, segv = 0, fpe = 0, bus = 0, trap = 0;
  uint64_t r_runs = 0, r_locations_flipped = 0, m_forms = 0, m_runs = 0, m_fault = 0, asm_refused = 0, unsupported = 0, all_fault_cases = 0;
  uint64_t changed_bytes = 0, flags_changed = 0, zext_checked = 0, passthrough_seen = 0, nongp_outside_mask = 0;
  // zero extension claims (every byte reported zero-extended, changed by the run or not)
  uint64_t zext_unchanged_checked = 0, zext_vec_checked = 0, zext_vec_beyond_operand_size = 0, zext_vec_beyond_nonzero = 0, zext_skipped_undefined = 0, zext_vec_nonzero = 0, zext_passthrough_judged = 0, zext_passthrough_beyond_size = 0, zext_nonzero_operand_not_written = 0, zext_passthrough_operand_not_written = 0;
  // InstRWFlags::kMovOp
  uint64_t movop_cases = 0, movop_runs_distinct = 0, movop_runs_same_reg = 0, movop_flag_not_consumed = 0;
  // uniqueness probes
  uint64_t uniq_cases = 0, uniq_ud = 0, uniq_ud_flagged = 0, uniq_ud_both_read = 0, uniq_no_ud = 0, uniq_no_ud_flagged = 0;
};

static std::string opn(int i) { return i == 6 ? std::string("extra") : "op" + std::to_string(i); }
static std::vector<std::string> IMPRECISE;
static std::set<std::string> IMPRECISE_KEYS;
// any byte of the register that contains flat index i is set in arr
static bool reg_any(const uint8_t* arr, size_t i) {
  size_t start, len;
  if (i < F_VEC) { start = i - i % 8; len = 8; }
  else if (i < F_K) { start = F_VEC + (i - F_VEC) / 64 * 64; len = 64; }
  else if (i < F_MEM) { start = i - i % 8; len = 8; }
  else return arr[i] != 0;
  for (size_t k = 0; k < len; k++) if (arr[start + k]) return true;
  return false;
}
static std::vector<Viol> VIOLS;
static std::set<std::string> VKEYS;
static void violation(const std::string& key, const std::string& what, const Case& c) {
  if (VKEYS.count(key)) return;
  VKEYS.insert(key);
  if (VIOLS.size() < 400) VIOLS.push_back({ key, what, c.line });
}

static std::string rw_text(const InstRWInfo& rw, int nops) {
  std::string s;
  char b[160];
  for (int i = 0; i < nops; i++) {
    const OpRWInfo& o = rw.operand(size_t(i));
    snprintf(b, sizeof b, "op%d{flags=0x%x r=%llx w=%llx x=%llx rm=%u} ", i, unsigned(o.op_flags()), (unsigned long long)o.read_byte_mask(),
             (unsigned long long)o.write_byte_mask(), (unsigned long long)o.extend_byte_mask(), o.rm_size());
    s += b;
  }
  snprintf(b, sizeof b, "read_flags=%s write_flags=%s", fl_names(uint32_t(rw.read_flags())).c_str(), fl_names(uint32_t(rw.write_flags())).c_str());
  return s + b;
}

static std::string diff_text(const State& in, const State& out, size_t max_items = 6) {
  std::string s;
  size_t n = 0;
  for (size_t i = 0; i < F_SIZE && n < max_items; ) {
    if (in.b[i] != out.b[i]) {
      // print the whole register / 8 byte memory chunk
      size_t start, len;
      if (i < F_VEC) { start = i - i % 8; len = 8; }
      else if (i < F_K) { start = F_VEC + (i - F_VEC) / 64 * 64; len = 64; }
      else if (i < F_MEM) { start = i - i % 8; len = 8; }
      else { start = i - i % 8; len = 8; }
      s += loc_reg(start) + (start >= F_MEM ? "[ea" + std::to_string(int(start - F_MEM) - int(EA_OFF)) + "]" : std::string()) + ": " +
           hexstr(in.b + start, len) + " -> " + hexstr(out.b + start, len) + "; ";
      i = start + len; n++;
    }
    else i++;
  }
  if (in.fl != out.fl) s += "flags " + fl_names(in.fl) + " -> " + fl_names(out.fl) + "; ";
  return s;
}

struct Runner {
  Stats st;
  Rng rng;
  uint32_t n_images = 32;
  bool do_r = true, do_m = true;
  CpuFeatures host;
  std::string per_case;   // compact per-case record list

  explicit Runner(uint64_t seed) : rng(seed) { host = CpuInfo::host().features(); }

  bool feats_on_host(const CpuFeatures& f, std::string* missing) {
    CpuFeatures::Iterator it = f.iterator();
    bool ok = true;
    while (it.has_next()) {
      uint32_t id = uint32_t(it.next());
      if (!host.has(id)) { ok = false; if (missing) { if (!missing->empty()) *missing += ","; *missing += feature_name(Arch::kX64, id); } }
    }
    return ok;
  }

  void run_case(const Case& c) {
    st.cases++;
    const bool is32 = c.arch != "x64";
    const Arch ARCH = is32 ? Arch::kX86 : Arch::kX64;
    uint8_t* const code_base = is32 ? CODE32 : CODE;
    if (is32) st.cases32++;
    uint64_t ea0 = uint64_t(uintptr_t(ARENA_P)) + EA_OFF;
    Operand ops[6];
    InstId inst_id = InstAPI::string_to_inst_id(ARCH, c.name.c_str(), c.name.size());
    char rec[160];
    if (!inst_id || !build_ops(c, ops, ea0)) { st.unsupported++; snprintf(rec, sizeof rec, "[%s,\"bad\"],", c.id.c_str()); per_case += rec; return; }
    Reg extra;
    bool has_extra = false;
    BaseInst bi(inst_id, InstOptions(c.opts));
    if (c.extra_s != "-") {
      std::vector<std::string> p = split(c.extra_s, ':');
      extra = Reg::from_type_and_id(reg_type_of(p[0]), (uint32_t)strtoul(p[1].c_str(), nullptr, 0));
      bi = BaseInst(inst_id, InstOptions(c.opts), extra);
      has_extra = true;
    }
    if (c.has('w') && InstAPI::validate(ARCH, bi, ops, size_t(c.nops)) != Error::kOk) {
      // (the non-validating assembler may still emit something for it - the instruction of the database width: counted, no verdict)
      { std::string b2; Error e2; if (make_code(0, inst_id, c.opts, has_extra, extra, ops, c.nops, &b2, &e2, is32).empty()) st.width_refused_but_encoded++; }
      st.width_refused++; snprintf(rec, sizeof rec, "[%s,\"wval\"],", c.id.c_str()); per_case += rec; return;
    }
    InstRWInfo rw; memset(&rw, 0, sizeof rw);
    CpuFeatures feat;
    Error e_rw = InstAPI::query_rw_info(ARCH, bi, ops, size_t(c.nops), &rw);
    {
      std::string stale = stale_state_diff(ARCH, bi, ops, c.nops, rw, e_rw);
      if (!stale.empty()) violation("Q:" + c.name + ":" + c.sig + ":answer-depends-on-previous-content-of-out", "query_rw_info answers differently " + stale, c);
    }
    Error e_f = InstAPI::query_features(ARCH, bi, ops, size_t(c.nops), &feat);
    std::string bytes; Error e_e;
    std::string err = make_code(0, inst_id, c.opts, has_extra, extra, ops, c.nops, &bytes, &e_e, is32);
    if (!err.empty() && c.has('w')) { st.width_refused++; snprintf(rec, sizeof rec, "[%s,\"wval\"],", c.id.c_str()); per_case += rec; return; }
    if (!err.empty()) { st.asm_refused++; snprintf(rec, sizeof rec, "[%s,\"asm\",%u],", c.id.c_str(), unsigned(e_e)); per_case += rec; return; }
    if (e_rw != Error::kOk) {
      violation("Q:" + c.name + ":" + c.sig + ":query_rw_info-fails", "assembler encodes the instruction (" + bytes + ") but query_rw_info returns error " + std::to_string(unsigned(e_rw)), c);
      snprintf(rec, sizeof rec, "[%s,\"qerr\"],", c.id.c_str()); per_case += rec;
      return;
    }
    Acc A;
    build_acc(c, ops, c.nops, has_extra, extra, rw, EA_OFF, A);
    if (A.unsupported) { st.unsupported++; snprintf(rec, sizeof rec, "[%s,\"unsup\"],", c.id.c_str()); per_case += rec; return; }

    // image constraints
    ImageFix fx;
    fx.x87 = c.has('x'); fx.mmx = c.has('m'); fx.div = c.has('d'); fx.ecx01 = c.has('c'); fx.is32 = is32;
    int kmem = 0;
    for (int i = 0; i < c.nops; i++) {
      const POp& o = c.ops[i];
      if (o.kind != 'M') continue;
      uint64_t ea = ea0 + EA_STRIDE * uint64_t(kmem++);
      if (o.it != "none" && (o.it == "xmm" || o.it == "ymm" || o.it == "zmm")) { fx.vs_reg = int(o.iid & 31); fx.vs_bits = c.vs ? c.vs : 32; }
      if (o.bt != "none" && fx.n_gp < 4) {
        uint64_t idxv = 0;
        if (o.it == "gp64" || o.it == "gp32") { idxv = rng.below(8) * 8; fx.gp_id[fx.n_gp] = int(o.iid & 15); fx.gp_val[fx.n_gp] = idxv; fx.n_gp++; }
        fx.gp_id[fx.n_gp] = int(o.bid & 15); fx.gp_val[fx.n_gp] = ea - uint64_t(o.disp) - (idxv << o.shift); fx.n_gp++;
      }
      if (fx.div) fx.div_mem = true;
    }
    if (fx.div && c.nops >= 1 && c.ops[c.nops - 1].kind == 'R') { fx.div_reg = int(c.ops[c.nops - 1].rid & 15); fx.div_hi = c.ops[c.nops - 1].rtype == "gp8hi"; }
    if (c.bo && c.nops >= 2 && c.ops[1].kind == 'R') { fx.bo_reg = int(c.ops[1].rid & 15); fx.bo_bits = c.bo; }

    for (int i = 0; i < c.nops; i++)
      if (ops[i].is_reg() && ops[i].as<Reg>().is_gp() && (ops[i].as<Reg>().id() & 15) != 4 && int(ops[i].as<Reg>().id() & 15) != fx.bo_reg) fx.pat_mask |= 1u << (ops[i].as<Reg>().id() & 15);
    if (fx.div || fx.ecx01) fx.pat_mask = 0;
    bool on_host = feats_on_host(feat, nullptr);
    if (c.has('p') && (!on_host || e_f != Error::kOk)) {
      // probe case (database extension absent on the host): only executed when AsmJit claims the host can run it
      snprintf(rec, sizeof rec, "[%s,\"nohost\"],", c.id.c_str()); per_case += rec; return;
    }
    bool x87 = c.has('x'), nondet = c.has('n');
    Fn fn = (Fn)(code_base);
    std::string kbase = c.name + ":" + c.sig;
    std::string mbase = kbase;
    bool zmask = (c.opts & 0x800000u) != 0;

    State in, out, in2, out2;
    uint32_t ok_runs = 0, ill = 0, segv = 0, fpe = 0, other = 0;
    bool changed_any = false;
    uint32_t r_done = 0, m_done = 0;

    // M-form preparation
    struct MForm { int op; uint32_t size; bool usable; };
    std::vector<MForm> mforms;
    bool any_mem = false;
    for (int i = 0; i < c.nops; i++) if (c.ops[i].kind == 'M') any_mem = true;
    bool has_imm = false;
    for (int i = 0; i < c.nops; i++) if (c.ops[i].kind == 'I') has_imm = true;
    if (do_m && !any_mem && !nondet && !x87 && !c.has('M') && c.mb >= 0 && !(c.opts & 0x40000)) {
      for (int i = 0; i < c.nops; i++) {
        const OpRWInfo& o = rw.operand(size_t(i));
        if (!ops[i].is_reg() || !o.is_rm() || o.rm_size() == 0) continue;
        // the replaced register must not be shared with another operand
        bool shared = false;
        const Reg& ri = ops[i].as<Reg>();
        for (int j = 0; j < c.nops; j++) if (j != i && ops[j].is_reg() && ops[j].as<Reg>().reg_group() == ri.reg_group() && ops[j].as<Reg>().id() == ri.id()) shared = true;
        if (has_extra && extra.reg_group() == ri.reg_group() && extra.id() == ri.id()) shared = true;
        if (shared) continue;
        Operand ops2[6];
        for (int j = 0; j < c.nops; j++) ops2[j] = ops[j];
        ops2[i] = is32 ? x86::Mem(x86::gpd(uint32_t(c.mb)), 0, o.rm_size()) : x86::Mem(x86::gpq(uint32_t(c.mb)), 0, o.rm_size());
        st.m_forms++;
        char ks[64]; snprintf(ks, sizeof ks, ":op%d", i);
        Error ev = InstAPI::validate(ARCH, bi, ops2, size_t(c.nops));
        if (ev == Error::kInvalidImmediate && has_imm) continue;   // the immediate of this case only fits the register form (e.g. and rax, 0x80000000 -> and eax)
        if (ev != Error::kOk) {
          violation("M:" + mbase + ks + ":validator-rejects", "operand " + std::to_string(i) + " is reported kRegMem with rm_size=" + std::to_string(o.rm_size()) +
                    " but InstAPI::validate rejects the memory form (error " + std::to_string(unsigned(ev)) + "); " + rw_text(rw, c.nops), c);
          continue;
        }
        std::string mbytes; Error me;
        std::string merr = make_code(1 + int(mforms.size()), inst_id, c.opts, has_extra, extra, ops2, c.nops, &mbytes, &me, is32);
        if (!merr.empty()) {
          violation("M:" + mbase + ks + ":assembler-rejects", "operand " + std::to_string(i) + " is reported kRegMem with rm_size=" + std::to_string(o.rm_size()) +
                    " but the assembler rejects the memory form (error " + std::to_string(unsigned(me)) + "); " + rw_text(rw, c.nops), c);
          continue;
        }
        bool usable = rw.rm_feature() == 0 || host.has(rw.rm_feature());
        if (mforms.size() < NSLOT - 2) mforms.push_back({ i, o.rm_size(), usable });
      }
    }

    // uniqueness probe (fx 'u'): the two register operands (or destination and vector index) that share a register
    bool uniq_probe = c.has('u'), uniq_flagged = false, uniq_both_read = false;
    int uniq_a = -1, uniq_b = -1;
    if (uniq_probe) {
      st.uniq_cases++;
      auto vec_of = [&](int i, uint32_t* id, bool* is_index) -> bool {
        *is_index = false;
        if (ops[i].is_reg() && ops[i].as<Reg>().is_vec()) { *id = ops[i].as<Reg>().id(); return true; }
        if (ops[i].is_mem() && ops[i].as<x86::Mem>().has_index_reg() && Reg::from_type_and_id(ops[i].as<x86::Mem>().index_type(), 0).is_vec()) { *id = ops[i].as<x86::Mem>().index_id(); *is_index = true; return true; }
        return false;
      };
      for (int i = 0; i < c.nops && uniq_a < 0; i++) for (int j = i + 1; j < c.nops; j++) {
        uint32_t a_id, b_id; bool ai, bi2;
        if (vec_of(i, &a_id, &ai) && vec_of(j, &b_id, &bi2) && a_id == b_id) { uniq_a = i; uniq_b = j; break; }
      }
      if (uniq_a >= 0) {
        const OpRWInfo& oa = rw.operand(size_t(uniq_a)); const OpRWInfo& ob = rw.operand(size_t(uniq_b));
        uniq_flagged = oa.is_unique() || ob.is_unique();
        bool ra = ops[uniq_a].is_mem() ? oa.has_op_flag(OpRWFlags::kMemIndexRead) : oa.is_read();
        bool rb = ops[uniq_b].is_mem() ? ob.has_op_flag(OpRWFlags::kMemIndexRead) : ob.is_read();
        uniq_both_read = ra && rb;
      }
      else uniq_probe = false;
    }
    // kMovOp: consumed by the allocator for two-operand register moves without an extra register (it deletes `op r, r`)
    bool movop = rw.has_inst_flag(InstRWFlags::kMovOp);
    bool movop_judged = movop && !has_extra && c.nops == 2 && ops[0].is_reg() && ops[1].is_reg() && !x87;
    if (movop) { if (movop_judged) st.movop_cases++; else st.movop_flag_not_consumed++; }

    // is the non-GP register byte i inside the size of the register operand that owns it (xmm: 16, ymm: 32, k / mm: 8)?
    auto zx_in_size = [&](size_t i) -> bool {
      if (i < F_VEC) return true;
      if (i >= F_K) return i < F_MEM;
      int oi = A.op_of[i];
      uint32_t osz = (oi >= 0 && oi < c.nops && ops[oi].is_reg()) ? ops[oi].as<Reg>().size() : 0;
      return (i - F_VEC) % 64 < osz;
    };
    // did this run leave every byte of the plain write mask of the register that contains i alone? Then the write itself did not take
    // place (conditional writes: cmpxchg, lar/lsl, cmov-like forms) and neither did its zero extension: no verdict from this run.
    auto op_unwritten = [&](size_t i, const State& a, const State& b) -> bool {
      size_t start, len;
      if (i < F_VEC) { start = i - i % 8; len = 8; }
      else if (i < F_K) { start = F_VEC + (i - F_VEC) / 64 * 64; len = 64; }
      else { start = i - i % 8; len = 8; }
      for (size_t k = start; k < start + len; k++) if (A.wr[k] && !A.zx[k] && a.b[k] != b.b[k]) return false;
      return true;
    };

    for (uint32_t img = 0; img < n_images; img++) {
      fx.pat = (fx.pat_mask && img % 8 == 5) ? 1 : (fx.pat_mask && img % 8 == 6) ? 2 : 0;
      if (fx.pat) st.pattern_images++;
      gen_image(rng, in, fx, (img % 4 == 3) ? -1 : int(rng.below(8)));
      st.runs++;
      int res = run_image(in, out, fn, is32);
      if (res != RES_OK) {
        if (res == RES_ILL) { ill++; st.sigill++; } else if (res == RES_SEGV) { segv++; st.segv++; } else if (res == RES_FPE) { fpe++; st.fpe++; }
        else { other++; if (res == RES_BUS) st.bus++; else st.trap++; }
        if (res == RES_ILL && uniq_probe) {
          // dst == src on purpose: #UD is what the ISA prescribes for instructions that need distinct registers. The answer must keep an
          // allocator from producing this: kUnique on one of the two operands, or both reported as read (live at the same time).
          st.uniq_ud++;
          if (uniq_flagged) st.uniq_ud_flagged++;
          else if (uniq_both_read) st.uniq_ud_both_read++;
          else violation("U:" + kbase + ":" + opn(uniq_a) + "+" + opn(uniq_b) + ":same-register-is-UD-but-neither-kUnique-nor-both-read",
                         "executing " + bytes + " with operands " + std::to_string(uniq_a) + " and " + std::to_string(uniq_b) + " in one register raises #UD (distinct registers execute), but the answer neither flags kUnique "
                         "nor reports both operands as read - an allocator is free to give them one register; " + rw_text(rw, c.nops), c);
          break;
        }
        if (res == RES_ILL) {
          if (on_host && e_f == Error::kOk)
            violation("F:" + kbase + ":sigill-with-reported-features", "SIGILL executing " + bytes + " although every feature reported by query_features (" + feat_json(ARCH, feat) + ") is present on the host", c);
          break;   // no point in more images
        }
        if (img >= 15 && ok_runs == 0) break;   // always faulting
        continue;
      }
      ok_runs++; st.runs_ok++; if (is32) st.runs32++;

      if (uniq_probe) { st.uniq_no_ud++; if (uniq_flagged) st.uniq_no_ud_flagged++; }

      // (Z) every GP byte reported zero-extended holds zero after the run, whether the run changed it or not (a byte the CPU keeps is a
      // result that depends on state reported as overwritten). The statement gives byte precision to GP registers only: vector, mask and
      // MMX bytes are counted, not judged here - for them the register-level rule of the R check applies (a reported-overwritten byte
      // inside the operand's own size that keeps its old value when the operand is not reported as read).
      if (!(c.has('z') && (out.fl & 0x4))) {
        for (size_t i = 0; i < F_MEM; i++) {
          if (!A.zx[i]) continue;
          if (i >= F_MM && !fx.mmx) continue;
          if (i < F_VEC) {
            st.zext_checked++; if (out.b[i] == in.b[i]) st.zext_unchanged_checked++;
            if (out.b[i] != 0 && op_unwritten(i, in, out)) st.zext_nonzero_operand_not_written++;
            else if (out.b[i] != 0)
              violation("W:" + kbase + ":" + opn(A.op_of[i]) + ":zero-extended-byte-nonzero",
                        "byte " + loc_name(i) + " is reported zero-extended but holds 0x" + hexstr(&out.b[i], 1) + (out.b[i] == in.b[i] ? " (its old value)" : "") + " after " + bytes + "; " + rw_text(rw, c.nops) + "; diff: " + diff_text(in, out), c);
          }
          else if (zx_in_size(i)) { st.zext_vec_checked++; if (out.b[i] != 0) st.zext_vec_nonzero++; }
          else { st.zext_vec_beyond_operand_size++; if (out.b[i] != 0) st.zext_vec_beyond_nonzero++; }
        }
      }
      else st.zext_skipped_undefined++;

      // (V) kMovOp: with distinct registers the written bytes of the destination equal the source's, with one register nothing in the
      // write mask changes; status flags are never touched
      if (movop_judged) {
        const Reg& d = ops[0].as<Reg>(); const Reg& s2 = ops[1].as<Reg>();
        auto base_of = [&](const Reg& r) -> size_t {
          return r.is_gp() ? F_GP + 8 * (r.id() & 15) : r.is_vec() ? F_VEC + 64 * (r.id() & 31) : r.reg_type() == RegType::kMask ? F_K + 8 * (r.id() & 7) : F_MM + 8 * (r.id() & 7);
        };
        size_t db = base_of(d), sb = base_of(s2), lim = d.is_vec() ? 64 : 8;
        bool same = db == sb;
        if (same) st.movop_runs_same_reg++; else st.movop_runs_distinct++;
        std::string bad;
        for (size_t b = 0; b < lim && bad.empty(); b++) {
          if (!A.wr[db + b] || A.zx[db + b]) continue;
          if (out.b[db + b] != in.b[sb + b]) bad = loc_name(db + b) + " holds 0x" + hexstr(&out.b[db + b], 1) + ", source byte " + loc_name(sb + b) + " held 0x" + hexstr(&in.b[sb + b], 1);
        }
        if (bad.empty() && (out.fl ^ in.fl) & FL_STATUS) bad = "status flags changed: " + fl_names((out.fl ^ in.fl) & FL_STATUS);
        if (!bad.empty())
          violation("V:" + kbase + ":kMovOp-reported-but-not-a-plain-move", "query_rw_info flags the instruction kMovOp (the allocator deletes it when both operands get one register) but executing " + bytes +
                    (same ? " with one register" : " with distinct registers") + ": " + bad + "; " + rw_text(rw, c.nops) + "; diff: " + diff_text(in, out), c);
      }

      // (W) every changed byte / flag must be covered by the reported writes
      bool changed = out.fl != in.fl;
      for (size_t i = 0; i < F_SIZE; i++) {
        if (out.b[i] == in.b[i]) continue;
        if (i >= F_MM && i < F_MEM && !fx.mmx) continue;   // x87/MMX register file is diffed only for MMX images
        changed = true; st.changed_bytes++;
        if (!A.wr[i] && i >= F_VEC && i < F_MEM && reg_any(A.wr, i)) {
          // vector / mask / MMX registers: the property asks for the written register, not for byte precision
          st.nongp_outside_mask++;
          if (IMPRECISE.size() < 40 && !IMPRECISE_KEYS.count(kbase)) { IMPRECISE_KEYS.insert(kbase); IMPRECISE.push_back(kbase + " " + loc_name(i) + " changed outside write|extend mask; " + rw_text(rw, c.nops)); }
          continue;
        }
        if (A.wr[i]) continue;   // (zero-extended bytes: judged above)
        std::string what;
        if (A.op_of[i] >= 0) {
          const OpRWInfo& o = A.op_of[i] == 6 ? rw.extra_reg() : rw.operand(size_t(A.op_of[i]));
          bool is_mem_op = A.op_of[i] != 6 && ops[A.op_of[i]].is_mem();
          if (i >= F_MEM) what = o.is_write() ? "mem-write-outside-mask" : "mem-unreported-write";
          else if (is_mem_op) what = "address-register-unreported-write";
          else what = o.is_write() ? "write-outside-mask" : "unreported-write";
          what = opn(A.op_of[i]) + ":" + what;
        }
        else what = i >= F_MEM ? std::string("memory-outside-operands") : "implicit:" + loc_reg(i);
        violation("W:" + kbase + ":" + what, "executing " + bytes + " changed " + loc_name(i) + " which is not covered by the reported writes; " + rw_text(rw, c.nops) + "; diff: " + diff_text(in, out), c);
      }
      uint32_t fch = (out.fl ^ in.fl);
      if (fch) st.flags_changed++;
      uint32_t bad_fl = fch & ~A.wr_fl;
      for (uint32_t b = 1; b && bad_fl; b <<= 1) if (bad_fl & b) {
        violation("W:" + kbase + ":flag:" + fl_name(b), "executing " + bytes + " changed " + fl_name(b) + " which is not in write_flags; " + rw_text(rw, c.nops) + "; diff: " + diff_text(in, out), c);
      }
      if (changed) changed_any = true;

      // (R) flip everything reported as not read; defined results must not change
      if (do_r && !nondet && !x87) {
        in2 = in;
        static uint8_t flipped[F_SIZE];
        memset(flipped, 0, sizeof flipped);
        for (size_t i = 0; i < F_SIZE; i++) {
          if (A.rd[i]) continue;
          if (i >= F_VEC && i < F_MEM && reg_any(A.rd, i)) continue;  // vector / mask / MMX: operand-level
          if (i >= F_GP + 32 && i < F_GP + 40) continue;            // rsp
          if (is32 && ((i < F_VEC && (i >= 64 || i % 8 >= 4)) || (i >= F_VEC + 64 * 8 && i < F_K))) continue;   // not visible in 32-bit mode
          if (i >= F_MM && i < F_MEM && !fx.mmx) continue;
          if (i >= F_VEC && i < F_K && !HAVE_512 && ((i - F_VEC) / 64 >= 16 || (i - F_VEC) % 64 >= 32)) continue;
          if (i >= F_K && i < F_MM && !HAVE_512) continue;
          uint8_t x = uint8_t(rng.next()); if (!x) x = 0xFF;
          in2.b[i] ^= x; flipped[i] = 1; st.r_locations_flipped++;
        }
        uint32_t fl_flip = FL_STATUS & ~A.rd_fl;
        in2.fl ^= fl_flip;
        st.r_runs++; r_done++;
        int res2 = run_image(in2, out2, fn, is32);
        std::string bad;
        bool fault2 = res2 != RES_OK;
        if (!fault2) {
          for (size_t i = 0; i < F_SIZE && bad.empty(); i++) {
            if (i >= F_MM && i < F_MEM && !fx.mmx) continue;
            if (out.b[i] == out2.b[i]) continue;
            if (flipped[i] && out.b[i] == in.b[i] && out2.b[i] == in2.b[i]) {
              // an old value that survives is a pass-through only where no write was reported: a register byte inside the
              // reported write mask (not the extension mask: legacy SSE leaves the upper lanes alone) of an operand that
              // is not reported as read, whose old content shows in the result, was in fact read (merge-masking, partial
              // writes). Memory that is simply not stored to stays exempt.
              // A byte reported zero-extended is reported overwritten too: inside the operand's own size it may not keep its old value
              // either (beyond it - legacy SSE next to the upper lanes - the old exemption stays).
              bool reported_written = i < F_MEM && A.wr[i] && !A.zx[i];
              if (i < F_MEM && A.wr[i] && A.zx[i]) {
                if (!zx_in_size(i)) st.zext_passthrough_beyond_size++;
                else if (op_unwritten(i, in, out) && op_unwritten(i, in2, out2)) st.zext_passthrough_operand_not_written++;
                else { st.zext_passthrough_judged++; reported_written = true; }
              }
              // bsf/bsr with a zero source: the destination is architecturally undefined (fx 'z'), not a defined result
              if (c.has('z') && ((out.fl | out2.fl) & 0x4)) reported_written = false;
              if (!reported_written) { st.passthrough_seen++; continue; }
            }
            bad = loc_name(i);
          }
          uint32_t fd = (out.fl ^ out2.fl) & ~c.uf;
          // flipped flags may pass through
          uint32_t pass = fl_flip & ~((out.fl ^ in.fl) | (out2.fl ^ in2.fl));
          fd &= ~pass;
          if (bad.empty() && fd) bad = std::string("flag ") + fl_names(fd);
        }
        if (fault2 || !bad.empty()) {
          // locate the culprit group: flip one group at a time
          std::string culprit = "?";
          struct Grp { std::string name; std::vector<size_t> idx; uint32_t fl; };
          std::vector<Grp> groups;
          {
            std::map<std::string, size_t> gi;
            for (size_t i = 0; i < F_SIZE; i++) if (flipped[i]) {
              std::string g;
              if (A.op_of[i] >= 0) {
                int oi = A.op_of[i];
                const OpRWInfo& oo = oi == 6 ? rw.extra_reg() : rw.operand(size_t(oi));
                bool memop = oi != 6 && ops[oi].is_mem();
                g = opn(oi) + (i >= F_MEM ? (oo.is_read() ? ":mem-bytes-outside-read-mask" : ":mem-not-reported-read") : memop ? ":address-register-not-reported-read" :
                               oo.is_read() ? ":bytes-outside-read-mask" : ":not-reported-read");
              }
              else if (i < F_VEC) g = "implicit:" + loc_reg(i);
              else if (i < F_K) g = "implicit:vec";
              else if (i < F_MM) g = "implicit:k";
              else if (i < F_MEM) g = "implicit:mm";
              else g = "memory-outside-operands";
              auto it = gi.find(g);
              if (it == gi.end()) { gi[g] = groups.size(); groups.push_back({ g, {}, 0 }); it = gi.find(g); }
              groups[it->second].idx.push_back(i);
            }
            for (uint32_t b = 1; b; b <<= 1) if (fl_flip & b) groups.push_back({ std::string("flag:") + fl_name(b), {}, b });
          }
          for (const Grp& g : groups) {
            State in3 = in, out3;
            for (size_t i : g.idx) in3.b[i] = in2.b[i];
            in3.fl ^= g.fl;
            int r3 = run_image(in3, out3, fn, is32);
            bool differs = r3 != RES_OK;
            if (!differs) {
              for (size_t i = 0; i < F_SIZE && !differs; i++) {
                if (i >= F_MM && i < F_MEM && !fx.mmx) continue;
                if (out.b[i] == out3.b[i]) continue;
                if (in3.b[i] != in.b[i] && out.b[i] == in.b[i] && out3.b[i] == in3.b[i]) {
                  bool rep_wr = i < F_MEM && A.wr[i] && (!A.zx[i] || (zx_in_size(i) && !(op_unwritten(i, in, out) && op_unwritten(i, in3, out3))));
                  if (c.has('z') && ((out.fl | out3.fl) & 0x4)) rep_wr = false;
                  if (!rep_wr) continue;
                }
                differs = true;
              }
              uint32_t fd = (out.fl ^ out3.fl) & ~c.uf;
              fd &= ~(g.fl & ~((out.fl ^ in.fl) | (out3.fl ^ in3.fl)));
              if (fd) differs = true;
            }
            if (differs) { culprit = g.name; break; }
          }
          std::string w = fault2 ? "fault (" + std::to_string(res2) + ") after changing state reported as not read" : "result " + bad + " differs between two runs that differ only in state reported as not read";
          violation("R:" + kbase + ":depends-on:" + culprit, "executing " + bytes + ": " + w + " (culprit: " + culprit + "); " + rw_text(rw, c.nops) + "; run1 diff: " + diff_text(in, out) + " run2 diff: " + diff_text(in2, fault2 ? in2 : out2), c);
        }
      }

      // (M) reg -> mem replacement computes the same
      if (!mforms.empty() && img < 8) {
        for (size_t mi = 0; mi < mforms.size(); mi++) {
          const MForm& mf = mforms[mi];
          if (!mf.usable) continue;
          const Reg& r = ops[mf.op].as<Reg>();
          size_t rbase = r.is_gp() ? F_GP + 8 * (r.id() & 15) + (r.reg_type() == RegType::kGp8Hi ? 1 : 0) : r.is_vec() ? F_VEC + 64 * (r.id() & 31) :
                         r.reg_type() == RegType::kMask ? F_K + 8 * (r.id() & 7) : F_MM + 8 * (r.id() & 7);
          State a_in = in, a_outR, a_outM;
          a_in.gp(c.mb) = uint64_t(uintptr_t(ARENA_P)) + EA_M_OFF;
          memcpy(a_in.b + F_MEM + EA_M_OFF, a_in.b + rbase, mf.size);
          st.m_runs += 2; m_done++;
          int rr = run_image(a_in, a_outR, fn, is32);
          int rm = run_image(a_in, a_outM, (Fn)(code_base + SLOT * (1 + mi)), is32);
          char ks[64]; snprintf(ks, sizeof ks, ":op%d", mf.op);
          if (rr != RES_OK) continue;
          if (rm != RES_OK) {
            st.m_fault++;
            if (rm == RES_ILL) violation("M:" + mbase + ks + (zmask && mf.op == 0 ? ":sigill-zeroing-mask-with-memory-destination" : ":sigill"),
                                          "operand " + std::to_string(mf.op) + " is reported kRegMem (rm_size=" + std::to_string(mf.size) + ") but the memory form raises SIGILL on the host; rm_feature is " +
                                          (rw.rm_feature() ? feature_name(ARCH, rw.rm_feature()) : std::string("none")) + "; " + rw_text(rw, c.nops), c);
            else violation("M:" + mbase + ks + ":fault", "register form executes but the memory form faults (" + std::to_string(rm) + ") on the same image with memory = low bytes of the register; " + rw_text(rw, c.nops), c);
            continue;
          }
          bool written = rw.operand(size_t(mf.op)).is_write();
          std::string bad;
          size_t rfull = r.is_gp() ? F_GP + 8 * (r.id() & 15) : rbase;
          size_t rlen = r.is_gp() ? 8 : r.is_vec() ? 64 : 8;
          for (size_t i = 0; i < F_SIZE && bad.empty(); i++) {
            if (i >= F_MM && i < F_MEM && !fx.mmx) continue;
            if (i >= rfull && i < rfull + rlen) continue;
            if (i >= F_MEM + EA_M_OFF && i < F_MEM + EA_M_OFF + mf.size) continue;
            if (a_outR.b[i] != a_outM.b[i]) bad = loc_name(i);
          }
          if (bad.empty() && written && memcmp(a_outR.b + rbase, a_outM.b + F_MEM + EA_M_OFF, mf.size) != 0) bad = "destination (register low bytes vs memory)";
          if (bad.empty() && !written && memcmp(a_in.b + F_MEM + EA_M_OFF, a_outM.b + F_MEM + EA_M_OFF, mf.size) != 0) bad = "memory operand modified";
          uint32_t fd = (a_outR.fl ^ a_outM.fl) & ~c.uf;
          if (bad.empty() && fd) bad = "flag " + fl_names(fd);
          if (!bad.empty())
            violation("M:" + mbase + ks + ":different-result", "register form and memory form (operand " + std::to_string(mf.op) + " replaced by m" + std::to_string(mf.size * 8) +
                      " holding the register's low bytes) differ at " + bad + "; reg form diff: " + diff_text(a_in, a_outR) + " mem form diff: " + diff_text(a_in, a_outM) + "; " + rw_text(rw, c.nops), c);
        }
      }
    }
    if (ok_runs && is32) st.executed_cases32++;
    if (ok_runs) st.executed_cases++;
    else st.all_fault_cases++;
    if (changed_any) st.nontrivial_cases++;
    snprintf(rec, sizeof rec, "[%s,%u,%d,%u,%u,%u,%u,%u,%u],", c.id.c_str(), ok_runs, changed_any ? 1 : 0, ill, segv, fpe, other, r_done, m_done);
    per_case += rec;
  }
};

static int mode_run(const Args& args) {
  if (!sandbox_init()) { printf("{\"fatal\":\"sandbox init failed\"}\n"); return 3; }
  Runner R(args.u64("seed", 1));
  R.n_images = (uint32_t)args.u64("images", 32);
  R.do_r = args.u64("r", 1) != 0;
  R.do_m = args.u64("m", 1) != 0;
  std::ifstream f(args.str("cases"));
  std::string line;
  bool verbose = args.has("verbose");
  while (std::getline(f, line)) {
    if (line.empty()) continue;
    Case c;
    if (!parse_case(line, c)) { R.st.unsupported++; continue; }
    if (verbose) { fprintf(stderr, "%s\n", line.c_str()); fflush(stderr); }
    R.run_case(c);
  }
  std::string s = "{\"violations\":[";
  for (size_t i = 0; i < VIOLS.size(); i++) {
    if (i) s += ",";
    s += "{\"key\":" + jstr(VIOLS[i].key) + ",\"what\":" + jstr(VIOLS[i].what) + ",\"line\":" + jstr(VIOLS[i].line) + "}";
  }
  s += "],\"per_case\":[" + R.per_case;
  if (s.back() == ',') s.pop_back();
  char b[2048];
  const Stats& t = R.st;
  snprintf(b, sizeof b, "],\"cases\":%llu,\"executed_cases\":%llu,\"nontrivial_cases\":%llu,\"runs\":%llu,\"runs_ok\":%llu,\"sigill\":%llu,\"segv\":%llu,\"fpe\":%llu,\"bus\":%llu,\"trap\":%llu,"
           "\"r_runs\":%llu,\"r_flipped\":%llu,\"m_forms\":%llu,\"m_runs\":%llu,\"m_fault\":%llu,\"asm_refused\":%llu,\"unsupported\":%llu,\"all_fault_cases\":%llu,"
           "\"changed_bytes\":%llu,\"flags_changed\":%llu,\"zext_checked\":%llu,\"passthrough_seen\":%llu,\"nongp_outside_mask\":%llu,"
           "\"zext_unchanged_checked\":%llu,\"zext_vec_checked\":%llu,\"zext_vec_beyond\":%llu,\"zext_vec_beyond_nonzero\":%llu,\"zext_skipped_undefined\":%llu,\"zext_vec_nonzero\":%llu,\"zext_passthrough_judged\":%llu,\"zext_passthrough_beyond_size\":%llu,\"zext_nonzero_operand_not_written\":%llu,\"zext_passthrough_operand_not_written\":%llu,"
           "\"movop_cases\":%llu,\"movop_runs_distinct\":%llu,\"movop_runs_same_reg\":%llu,\"movop_flag_not_consumed\":%llu,"
           "\"uniq_cases\":%llu,\"uniq_ud\":%llu,\"uniq_ud_flagged\":%llu,\"uniq_ud_both_read\":%llu,\"uniq_no_ud\":%llu,\"uniq_no_ud_flagged\":%llu,\"cases32\":%llu,\"executed_cases32\":%llu,\"runs32_ok\":%llu,\"width_refused\":%llu,\"width_refused_but_encoded\":%llu,\"pattern_images\":%llu",
           (unsigned long long)t.cases, (unsigned long long)t.executed_cases, (unsigned long long)t.nontrivial_cases, (unsigned long long)t.runs, (unsigned long long)t.runs_ok,
           (unsigned long long)t.sigill, (unsigned long long)t.segv, (unsigned long long)t.fpe, (unsigned long long)t.bus, (unsigned long long)t.trap,
           (unsigned long long)t.r_runs, (unsigned long long)t.r_locations_flipped, (unsigned long long)t.m_forms, (unsigned long long)t.m_runs, (unsigned long long)t.m_fault,
           (unsigned long long)t.asm_refused, (unsigned long long)t.unsupported, (unsigned long long)t.all_fault_cases,
           (unsigned long long)t.changed_bytes, (unsigned long long)t.flags_changed, (unsigned long long)t.zext_checked, (unsigned long long)t.passthrough_seen, (unsigned long long)t.nongp_outside_mask,
           (unsigned long long)t.zext_unchanged_checked, (unsigned long long)t.zext_vec_checked, (unsigned long long)t.zext_vec_beyond_operand_size, (unsigned long long)t.zext_vec_beyond_nonzero, (unsigned long long)t.zext_skipped_undefined, (unsigned long long)t.zext_vec_nonzero, (unsigned long long)t.zext_passthrough_judged, (unsigned long long)t.zext_passthrough_beyond_size, (unsigned long long)t.zext_nonzero_operand_not_written, (unsigned long long)t.zext_passthrough_operand_not_written,
           (unsigned long long)t.movop_cases, (unsigned long long)t.movop_runs_distinct, (unsigned long long)t.movop_runs_same_reg, (unsigned long long)t.movop_flag_not_consumed,
           (unsigned long long)t.uniq_cases, (unsigned long long)t.uniq_ud, (unsigned long long)t.uniq_ud_flagged, (unsigned long long)t.uniq_ud_both_read, (unsigned long long)t.uniq_no_ud, (unsigned long long)t.uniq_no_ud_flagged, (unsigned long long)t.cases32, (unsigned long long)t.executed_cases32, (unsigned long long)t.runs32, (unsigned long long)t.width_refused, (unsigned long long)t.width_refused_but_encoded, (unsigned long long)t.pattern_images);
  s += b;
  s += ",\"imprecise\":[";
  for (size_t i = 0; i < IMPRECISE.size(); i++) { if (i) s += ","; s += jstr(IMPRECISE[i]); }
  s += "]}";
  puts(s.c_str());
  return 0;
}

int main(int argc, char** argv) {
  Args args(argc, argv);
  std::string mode = args.str("mode", "host");
  if (mode == "host") return mode_host();
  if (mode == "table") return mode_table(args);
  if (mode == "rmopt") return mode_rmopt(args);
  if (mode == "a64c") return mode_a64c(args);
  if (mode == "run") return mode_run(args);
  fprintf(stderr, "unknown mode\n");
  return 2;
}
