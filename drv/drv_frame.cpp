// C07 driver: prolog/epilog preserve callee-saved state and keep frame areas disjoint.
//
// Harness code (not part of asmjit). For every generated FuncFrame:
//   * arithmetic checks on the accessors (areas pairwise disjoint, alignment promises, sa offsets),
//   * x86-64 / x86-32: function = emit_prolog + monitor body + emit_epilog, executed natively
//     (x86-64 through vf_tramp64, x86-32 through the 64->32 far-call gate vf_gate32),
//   * AArch64: prolog/epilog bytes + accessor values are printed as JSON lines; vlib/a64sym.py runs them
//     symbolically over llvm-mc's disassembly.
// Built "plain" with -fno-pie -no-pie (static data and the 32-bit stub must live below 4 GiB);
// built "asan" with -DVF_NOEXEC for a non-executing pass (finalize + emit under ASan/UBSan).
#include <asmjit/core.h>
#include <asmjit/x86.h>
#include <asmjit/a64.h>
#include "vcommon.h"
#include <signal.h>
#include <setjmp.h>
#include <unistd.h>
#include <sys/mman.h>
#include <sys/time.h>
#include <ucontext.h>
#include <algorithm>

using namespace asmjit;

// ---------------------------------------------------------------------------------------------
// Machine image shared with the trampolines (static => below 4 GiB in the non-PIE build)
// ---------------------------------------------------------------------------------------------
extern "C" {
uint64_t vf_in_gp[16], vf_out_gp[16];
alignas(64) uint8_t vf_in_vec[32][64];
alignas(64) uint8_t vf_out_vec[32][64];
uint64_t vf_in_k[8], vf_out_k[8], vf_in_mm[8], vf_out_mm[8];
uint64_t vf_target, vf_host_rsp;
uint32_t vf32_in_gp[8], vf32_out_gp[8];
uint32_t vf32_target, vf32_gate_esp;
uint64_t vf32_gate_stack;
struct __attribute__((packed)) VfFar { uint32_t off; uint16_t sel; } vf32_far;

// side buffer written by the monitor body (absolute addressing, no register needed)
struct VfSide {
  uint64_t sp;
  uint64_t marker;
  uint64_t save[4];
  uint64_t argv[3][40];
  alignas(64) uint8_t junk_vec[32][64];
  uint64_t junk_k[8];
  uint64_t junk_mm[8];
};
alignas(64) VfSide vf_side;

void vf_tramp64();
void vf_gate32();
extern char vf_stub32[];
}

#ifndef VF_NOEXEC
asm(R"ASM(
.text
.globl vf_tramp64
.type vf_tramp64,@function
vf_tramp64:
  push %rbx
  push %rbp
  push %r12
  push %r13
  push %r14
  push %r15
  mov %rsp, vf_host_rsp(%rip)
.irp n,0,1,2,3,4,5,6,7,8,9,10,11,12,13,14,15,16,17,18,19,20,21,22,23,24,25,26,27,28,29,30,31
  vmovdqu64 vf_in_vec+64*\n(%rip), %zmm\n
.endr
.irp n,0,1,2,3,4,5,6,7
  kmovq vf_in_k+8*\n(%rip), %k\n
  movq vf_in_mm+8*\n(%rip), %mm\n
.endr
  mov vf_in_gp+0(%rip), %rax
  mov vf_in_gp+8(%rip), %rcx
  mov vf_in_gp+16(%rip), %rdx
  mov vf_in_gp+24(%rip), %rbx
  mov vf_in_gp+40(%rip), %rbp
  mov vf_in_gp+48(%rip), %rsi
  mov vf_in_gp+56(%rip), %rdi
  mov vf_in_gp+64(%rip), %r8
  mov vf_in_gp+72(%rip), %r9
  mov vf_in_gp+80(%rip), %r10
  mov vf_in_gp+88(%rip), %r11
  mov vf_in_gp+96(%rip), %r12
  mov vf_in_gp+104(%rip), %r13
  mov vf_in_gp+112(%rip), %r14
  mov vf_in_gp+120(%rip), %r15
  mov vf_in_gp+32(%rip), %rsp
  call *vf_target(%rip)
  mov %rsp, vf_out_gp+32(%rip)
  mov vf_host_rsp(%rip), %rsp
  mov %rax, vf_out_gp+0(%rip)
  mov %rcx, vf_out_gp+8(%rip)
  mov %rdx, vf_out_gp+16(%rip)
  mov %rbx, vf_out_gp+24(%rip)
  mov %rbp, vf_out_gp+40(%rip)
  mov %rsi, vf_out_gp+48(%rip)
  mov %rdi, vf_out_gp+56(%rip)
  mov %r8, vf_out_gp+64(%rip)
  mov %r9, vf_out_gp+72(%rip)
  mov %r10, vf_out_gp+80(%rip)
  mov %r11, vf_out_gp+88(%rip)
  mov %r12, vf_out_gp+96(%rip)
  mov %r13, vf_out_gp+104(%rip)
  mov %r14, vf_out_gp+112(%rip)
  mov %r15, vf_out_gp+120(%rip)
.irp n,0,1,2,3,4,5,6,7,8,9,10,11,12,13,14,15,16,17,18,19,20,21,22,23,24,25,26,27,28,29,30,31
  vmovdqu64 %zmm\n, vf_out_vec+64*\n(%rip)
.endr
.irp n,0,1,2,3,4,5,6,7
  kmovq %k\n, vf_out_k+8*\n(%rip)
  movq %mm\n, vf_out_mm+8*\n(%rip)
.endr
  emms
  vzeroupper
  cld
  pop %r15
  pop %r14
  pop %r13
  pop %r12
  pop %rbp
  pop %rbx
  ret
.size vf_tramp64, .-vf_tramp64

.globl vf_gate32
.type vf_gate32,@function
vf_gate32:
  push %rbx
  push %rbp
  push %r12
  push %r13
  push %r14
  push %r15
  mov %rsp, vf_host_rsp(%rip)
  mov vf32_gate_stack(%rip), %rsp
  mov $0x2b, %eax
  mov %eax, %ds
  mov %eax, %es
  lcall *vf32_far(%rip)
  xor %eax, %eax
  mov %eax, %ds
  mov %eax, %es
  mov vf_host_rsp(%rip), %rsp
  cld
  pop %r15
  pop %r14
  pop %r13
  pop %r12
  pop %rbp
  pop %rbx
  ret
.size vf_gate32, .-vf_gate32

.code32
.globl vf_stub32
vf_stub32:
  mov %esp, vf32_gate_esp
.irp n,0,1,2,3,4,5,6,7
  vmovdqu64 vf_in_vec+64*\n, %zmm\n
  kmovq vf_in_k+8*\n, %k\n
  movq vf_in_mm+8*\n, %mm\n
.endr
  mov vf32_in_gp+0, %eax
  mov vf32_in_gp+4, %ecx
  mov vf32_in_gp+8, %edx
  mov vf32_in_gp+12, %ebx
  mov vf32_in_gp+20, %ebp
  mov vf32_in_gp+24, %esi
  mov vf32_in_gp+28, %edi
  mov vf32_in_gp+16, %esp
  call *vf32_target
  mov %esp, vf32_out_gp+16
  mov vf32_gate_esp, %esp
  mov %eax, vf32_out_gp+0
  mov %ecx, vf32_out_gp+4
  mov %edx, vf32_out_gp+8
  mov %ebx, vf32_out_gp+12
  mov %ebp, vf32_out_gp+20
  mov %esi, vf32_out_gp+24
  mov %edi, vf32_out_gp+28
.irp n,0,1,2,3,4,5,6,7
  vmovdqu64 %zmm\n, vf_out_vec+64*\n
  kmovq %k\n, vf_out_k+8*\n
  movq %mm\n, vf_out_mm+8*\n
.endr
  emms
  vzeroupper
  lret
.code64
)ASM");

// ---------------------------------------------------------------------------------------------
// Signals: every fault inside generated code becomes a classified event, never a harness crash
// ---------------------------------------------------------------------------------------------
static sigjmp_buf g_jb;
static volatile sig_atomic_t g_in_test = 0;
static volatile int g_sig = 0;
static volatile uint64_t g_sig_ip = 0, g_sig_addr = 0, g_sig_cs = 0, g_sig_sp = 0;

static void on_signal(int sig, siginfo_t* si, void* uc_) {
  if (!g_in_test) {
    signal(sig, SIG_DFL);
    raise(sig);
    return;
  }
  ucontext_t* uc = (ucontext_t*)uc_;
  g_sig = sig;
  g_sig_ip = (uint64_t)uc->uc_mcontext.gregs[REG_RIP];
  g_sig_sp = (uint64_t)uc->uc_mcontext.gregs[REG_RSP];
  g_sig_cs = (uint64_t)uc->uc_mcontext.gregs[REG_CSGSFS] & 0xFFFF;
  g_sig_addr = (uint64_t)si->si_addr;
  g_in_test = 0;
  siglongjmp(g_jb, 1);
}

static void install_signals() {
  static uint8_t* alt = (uint8_t*)mmap(nullptr, 1 << 18, PROT_READ | PROT_WRITE, MAP_PRIVATE | MAP_ANONYMOUS, -1, 0);
  stack_t ss; ss.ss_sp = alt; ss.ss_size = 1 << 18; ss.ss_flags = 0;
  sigaltstack(&ss, nullptr);
  struct sigaction sa; memset(&sa, 0, sizeof sa);
  sa.sa_sigaction = on_signal;
  sa.sa_flags = SA_SIGINFO | SA_ONSTACK | SA_NODEFER;
  sigemptyset(&sa.sa_mask);
  int sigs[] = {SIGSEGV, SIGBUS, SIGILL, SIGFPE, SIGTRAP, SIGALRM};
  for (int s : sigs) sigaction(s, &sa, nullptr);
}

// returns 0 when the trampoline came back, else the signal number
static int __attribute__((noinline)) guarded_run(void (*tramp)()) {
  g_sig = 0;
  if (sigsetjmp(g_jb, 1) == 0) {
    struct itimerval tv; memset(&tv, 0, sizeof tv); tv.it_value.tv_sec = 5;
    setitimer(ITIMER_REAL, &tv, nullptr);
    g_in_test = 1;
    tramp();
    g_in_test = 0;
    memset(&tv, 0, sizeof tv);
    setitimer(ITIMER_REAL, &tv, nullptr);
    return 0;
  }
  struct itimerval tv; memset(&tv, 0, sizeof tv);
  setitimer(ITIMER_REAL, &tv, nullptr);
  asm volatile("xor %%eax,%%eax\n mov %%eax,%%ds\n mov %%eax,%%es\n emms\n vzeroupper\n cld" ::: "eax", "memory");
  return g_sig ? g_sig : -1;
}
#endif  // VF_NOEXEC

static const char* sig_name(int s) {
  switch (s) {
    case SIGSEGV: return "SIGSEGV"; case SIGBUS: return "SIGBUS"; case SIGILL: return "SIGILL";
    case SIGFPE: return "SIGFPE"; case SIGTRAP: return "SIGTRAP"; case SIGALRM: return "SIGALRM";
  }
  return "SIG?";
}

// ---------------------------------------------------------------------------------------------
// Cases
// ---------------------------------------------------------------------------------------------
enum { A_X64 = 0, A_X86 = 1, A_A64 = 2 };
enum { E_LINUX = 0, E_WIN = 1, E_DARWIN = 2 };
enum { AT_AVX = 1, AT_AVX512 = 2, AT_CALLS = 4, AT_MMXCLEAN = 8, AT_AVXCLEAN = 16, AT_AVXAUTO = 32, AT_IBT = 64, AT_NOREDZONE = 128 };
enum { ABI_SYSV, ABI_WIN64, ABI_X86STD, ABI_AAPCS, ABI_LIGHT };

static const char* kArchName[] = {"x64", "x86", "a64"};
static const char* kEnvName[] = {"linux", "windows", "darwin"};

struct Case {
  int arch = 0, env = 0;
  uint32_t cc = 0;
  std::string args;             // i=int32 q=int64 p=uintptr f=float32 d=float64 x=int32x4
  uint32_t dirty[4] = {0, 0, 0, 0};
  uint32_t xpres[4] = {0, 0, 0, 0};  // custom convention: extra preserved registers per group
  uint32_t ls = 0, la = 0, cs = 0, ca = 0;
  int fp = 0, sa = -1;
  uint32_t at = 0;
  uint32_t spk = 0;             // entry SP = base - spk * natural alignment
};

static std::string spec_of(const Case& c) {
  char b[512];
  snprintf(b, sizeof b, "arch=%s,env=%s,cc=%u,args=%s,dg=0x%x,dv=0x%x,dk=0x%x,dm=0x%x,pg=0x%x,pv=0x%x,pk=0x%x,pm=0x%x,"
           "ls=%u,la=%u,cs=%u,ca=%u,fp=%d,sa=%d,at=0x%x,sp=%u",
           kArchName[c.arch], kEnvName[c.env], c.cc, c.args.empty() ? "-" : c.args.c_str(), c.dirty[0], c.dirty[1], c.dirty[2], c.dirty[3],
           c.xpres[0], c.xpres[1], c.xpres[2], c.xpres[3], c.ls, c.la, c.cs, c.ca, c.fp, c.sa, c.at, c.spk);
  return b;
}

static bool parse_spec(const std::string& s, Case& c) {
  size_t i = 0;
  while (i < s.size()) {
    size_t e = s.find(',', i); if (e == std::string::npos) e = s.size();
    std::string kv = s.substr(i, e - i); i = e + 1;
    size_t q = kv.find('='); if (q == std::string::npos) return false;
    std::string k = kv.substr(0, q), v = kv.substr(q + 1);
    uint64_t n = strtoull(v.c_str(), nullptr, 0);
    if (k == "arch") { c.arch = v == "x64" ? 0 : v == "x86" ? 1 : 2; }
    else if (k == "env") { c.env = v == "linux" ? 0 : v == "windows" ? 1 : 2; }
    else if (k == "cc") c.cc = (uint32_t)n;
    else if (k == "args") c.args = v == "-" ? "" : v;
    else if (k == "dg") c.dirty[0] = (uint32_t)n; else if (k == "dv") c.dirty[1] = (uint32_t)n;
    else if (k == "dk") c.dirty[2] = (uint32_t)n; else if (k == "dm") c.dirty[3] = (uint32_t)n;
    else if (k == "pg") c.xpres[0] = (uint32_t)n; else if (k == "pv") c.xpres[1] = (uint32_t)n;
    else if (k == "pk") c.xpres[2] = (uint32_t)n; else if (k == "pm") c.xpres[3] = (uint32_t)n;
    else if (k == "ls") c.ls = (uint32_t)n; else if (k == "la") c.la = (uint32_t)n;
    else if (k == "cs") c.cs = (uint32_t)n; else if (k == "ca") c.ca = (uint32_t)n;
    else if (k == "fp") c.fp = (int)n; else if (k == "sa") c.sa = atoi(v.c_str());
    else if (k == "at") c.at = (uint32_t)n; else if (k == "sp") c.spk = (uint32_t)n;
    else return false;
  }
  return true;
}

static const char* mode_name(const Case& c);
static bool is_custom(const Case& c) { return c.xpres[0] | c.xpres[1] | c.xpres[2] | c.xpres[3]; }

// Effective convention (what the ABI documents call it) and its ABI family. The preserved sets used
// by the oracle come from the ABI documents, see abi_preserved(); light-call conventions have no ABI.
struct ConvInfo { const char* name; int abi; bool callee_pops; };

static ConvInfo conv_info(const Case& c) {
  uint32_t id = c.cc;
  bool light = id >= 16 && id <= 18;
  static const char* ln[] = {"light2", "light3", "light4"};
  if (light) return {ln[id - 16], ABI_LIGHT, false};
  if (c.arch == A_A64) return {c.env == E_DARWIN ? "apple" : c.env == E_WIN ? "aapcs64-win" : "aapcs64", ABI_AAPCS, false};
  if (c.arch == A_X64) {
    if (id == 32) return {"sysv", ABI_SYSV, false};
    if (id == 33) return {"win64", ABI_WIN64, false};
    if (id == 3) return {"vectorcall", ABI_WIN64, false};
    return c.env == E_WIN ? ConvInfo{"win64", ABI_WIN64, false} : ConvInfo{"sysv", ABI_SYSV, false};
  }
  switch (id) {
    case 0: return {"cdecl", ABI_X86STD, false};
    case 1: return {"stdcall", ABI_X86STD, true};
    case 2: return {"fastcall", ABI_X86STD, true};
    case 3: return {"vectorcall", ABI_X86STD, true};
    case 4: return c.env == E_WIN ? ConvInfo{"thiscall", ABI_X86STD, true} : ConvInfo{"thiscall-as-cdecl", ABI_X86STD, false};
    case 5: return {"regparm1", ABI_X86STD, false};
    case 6: return {"regparm2", ABI_X86STD, false};
    case 7: return {"regparm3", ABI_X86STD, false};
  }
  return {"?", ABI_X86STD, false};
}

// Preserved register sets from the ABI documents (NOT from asmjit's tables):
//   System V AMD64 psABI 3.2.1: rbx rbp r12-r15 (rsp).   Microsoft x64: rbx rbp rdi rsi r12-r15, xmm6-xmm15.
//   i386 psABI / MS x86 conventions: ebx esi edi ebp (esp).
static void abi_preserved(int abi, uint32_t out[4]) {
  out[0] = out[1] = out[2] = out[3] = 0;
  auto B = [](std::initializer_list<int> l) { uint32_t m = 0; for (int i : l) m |= 1u << i; return m; };
  switch (abi) {
    case ABI_SYSV: out[0] = B({3, 5, 12, 13, 14, 15}); break;
    case ABI_WIN64: out[0] = B({3, 5, 6, 7, 12, 13, 14, 15}); out[1] = B({6, 7, 8, 9, 10, 11, 12, 13, 14, 15}); break;
    case ABI_X86STD: out[0] = B({3, 5, 6, 7}); break;
    default: break;
  }
}

struct SArg { int32_t off; uint32_t size; };

struct Built {
  Environment env;
  FuncDetail func;
  FuncFrame frame;
  std::vector<SArg> sargs;
  uint32_t reg_size = 8, ret_size = 8, ngp = 16, nvec = 16;
  std::string err;
};

static Environment make_env(const Case& c) {
  Arch arch = c.arch == A_X64 ? Arch::kX64 : c.arch == A_X86 ? Arch::kX86 : Arch::kAArch64;
  Platform pf = c.env == E_WIN ? Platform::kWindows : c.env == E_DARWIN ? Platform::kOSX : Platform::kLinux;
  PlatformABI abi = c.env == E_WIN ? PlatformABI::kMSVC : c.env == E_DARWIN ? PlatformABI::kDarwin : PlatformABI::kGNU;
  return Environment(arch, SubArch::kUnknown, Vendor::kUnknown, pf, abi);
}

static bool build(const Case& c, Built& b) {
  b.env = make_env(c);
  b.reg_size = c.arch == A_X86 ? 4 : 8;
  b.ret_size = c.arch == A_A64 ? 0 : b.reg_size;
  b.ngp = c.arch == A_X86 ? 8 : c.arch == A_X64 ? 16 : 32;
  b.nvec = c.arch == A_X86 ? 8 : c.arch == A_X64 ? ((c.at & AT_AVX512) ? 32 : 16) : 32;
  FuncSignature sig{CallConvId(c.cc)};
  sig.set_ret(TypeId::kVoid);
  for (char ch : c.args) {
    TypeId t = TypeId::kInt32;
    switch (ch) {
      case 'i': t = TypeId::kInt32; break; case 'q': t = TypeId::kInt64; break; case 'p': t = TypeId::kUIntPtr; break;
      case 'f': t = TypeId::kFloat32; break; case 'd': t = TypeId::kFloat64; break; case 'x': t = TypeId::kInt32x4; break;
    }
    sig.add_arg(t);
  }
  Error e = b.func.init(sig, b.env);
  if (e != Error::kOk) { b.err = std::string("FuncDetail::init:") + DebugUtils::error_as_string(e); return false; }
  for (int g = 0; g < 4; g++)
    if (c.xpres[g]) b.func._call_conv.set_preserved_regs(RegGroup(g), b.func._call_conv.preserved_regs(RegGroup(g)) | c.xpres[g]);
  e = b.frame.init(b.func);
  if (e != Error::kOk) { b.err = std::string("FuncFrame::init:") + DebugUtils::error_as_string(e); return false; }
  FuncFrame& f = b.frame;
  if (c.at & AT_AVX) f.set_avx_enabled();
  if (c.at & AT_AVX512) f.set_avx512_enabled();
  if (c.at & AT_CALLS) f.set_func_calls();
  if (c.at & AT_MMXCLEAN) f.set_mmx_cleanup();
  if (c.at & AT_AVXCLEAN) f.set_avx_cleanup();
  if (c.at & AT_AVXAUTO) f.set_avx_auto_cleanup();
  if (c.at & AT_IBT) f.set_indirect_branch_protection();
  if (c.at & AT_NOREDZONE) f.reset_red_zone();
  for (int g = 0; g < 4; g++) f.add_dirty_regs(RegGroup(g), c.dirty[g]);
  // the order of the setters and set_* vs update_* (equivalent on a fresh frame) must not matter: the Compiler records
  // the call-stack alignment first and the local alignment last, hand-written code usually the other way round
  {
    uint32_t ord = uint32_t(c.ls * 31u + c.cs * 17u + c.la * 7u + c.ca * 3u + uint32_t(c.at) + uint32_t(c.fp));
    bool call_first = (ord & 1) != 0, upd = (ord & 2) != 0;
    auto set_local = [&]() {
      f.set_local_stack_size(c.ls);
      if (c.la) { if (upd) f.update_local_stack_alignment(c.la); else f.set_local_stack_alignment(c.la); }
      else if (ord & 4) f.set_local_stack_alignment(f.local_stack_alignment());   // re-stating the current value is a no-op
    };
    auto set_call = [&]() {
      if (upd) f.update_call_stack_size(c.cs); else f.set_call_stack_size(c.cs);
      if (c.ca) { if (upd) f.update_call_stack_alignment(c.ca); else f.set_call_stack_alignment(c.ca); }
    };
    if (call_first) { set_call(); set_local(); } else { set_local(); set_call(); }
  }
  if (c.fp) f.set_preserved_fp();
  if (c.sa >= 0) f.set_sa_reg_id(uint32_t(c.sa));
  e = f.finalize();
  if (e != Error::kOk) { b.err = std::string("FuncFrame::finalize:") + DebugUtils::error_as_string(e); return false; }
  for (uint32_t i = 0; i < b.func.arg_count(); i++) {
    const FuncValuePack& p = b.func.arg_pack(i);
    for (uint32_t v = 0; v < p.count(); v++)
      if (p[v].is_stack()) b.sargs.push_back({p[v].stack_offset(), TypeUtils::size_of(p[v].type_id())});
  }
  return true;
}

static bool promise_applies(const Built& b) {
  const FuncFrame& f = b.frame;
  return f.local_stack_size() || f.call_stack_size() || f.has_func_calls() || f.extra_reg_save_size() || f.has_da_offset();
}

// evidence class: (arch, convention, FP, dynamic alignment, save mode, mask class, size/alignment class)
static std::string class_of(const Case& c, const Built& b) {
  const FuncFrame& f = b.frame;
  auto mc = [](uint32_t m) { int n = __builtin_popcount(m); return n == 0 ? '0' : n == 1 ? '1' : n == 2 ? '2' : n >= 12 ? 'A' : 'm'; };
  auto sc = [](uint32_t s) { return s == 0 ? "0" : s <= 16 ? "s" : s <= 256 ? "m" : s <= 4096 ? "l" : "xl"; };
  const char* mode = mode_name(c);
  char buf[256];
  snprintf(buf, sizeof buf, "%s|%s%s|fp%d|da%d|sa%s|%s%s|sv%c%c%c|G%cV%cK%cM%c|L%s/a%u|C%s/a%u%s",
           kArchName[c.arch], conv_info(c).name, is_custom(c) ? "+custom" : "", c.fp, int(f.has_dynamic_alignment()),
           c.sa < 0 ? "-" : (c.sa == 5 && c.arch != A_A64) || (c.sa == 29 && c.arch == A_A64) ? "fp" : "r",
           mode, f.has_aligned_vec_save_restore() ? "A" : "U",
           mc(f.saved_regs(RegGroup::kVec)), mc(f.saved_regs(RegGroup::kMask)), mc(f.saved_regs(RegGroup(3))),
           mc(c.dirty[0]), mc(c.dirty[1]), mc(c.dirty[2]), mc(c.dirty[3]), sc(c.ls), c.la, sc(c.cs), c.ca,
           (c.at & AT_CALLS) ? "|calls" : "");
  return buf;
}

static std::string frame_dump(const Built& b) {
  const FuncFrame& f = b.frame;
  char buf[700];
  snprintf(buf, sizeof buf,
           "frame{final_align=%u natural=%u min_da=%u da=%d fp=%d sa_reg=%u call=[0,%u) local_off=%u local_size=%u extra_off=%u extra_size=%u "
           "da_off=%d pushpop_off=%u pushpop_size=%u stack_adj=%u final_size=%u sa_off_sp=%d sa_off_sa=%u callee_cleanup=%u "
           "saved gp=0x%x vec=0x%x k=0x%x mm=0x%x dirty gp=0x%x alignedSR=%d}",
           f.final_stack_alignment(), f.natural_stack_alignment(), f.min_dynamic_alignment(), int(f.has_dynamic_alignment()), int(f.has_preserved_fp()),
           f.sa_reg_id(), f.call_stack_size(), f.local_stack_offset(), f.local_stack_size(), f.extra_reg_save_offset(), f.extra_reg_save_size(),
           f.has_da_offset() ? int(f.da_offset()) : -1, f.push_pop_save_offset(), f.push_pop_save_size(), f.stack_adjustment(), f.final_stack_size(),
           int(f.sa_offset_from_sp()), f.sa_offset_from_sa(), f.callee_stack_cleanup(),
           f.saved_regs(RegGroup::kGp), f.saved_regs(RegGroup::kVec), f.saved_regs(RegGroup::kMask), f.saved_regs(RegGroup(3)),
           f.dirty_regs(RegGroup::kGp), int(f.has_aligned_vec_save_restore()));
  return buf;
}

// ---------------------------------------------------------------------------------------------
// Violations
// ---------------------------------------------------------------------------------------------
struct Viol { std::string key, what, spec; };
static std::vector<Viol> g_viol;
static std::map<std::string, uint64_t> g_viol_count;

static std::map<std::string, std::set<std::string>> g_viol_convs;

static const char* mode_name(const Case& c) {
  return (c.at & AT_AVX512) ? ((c.at & AT_AVX) ? "avx512" : "avx512-without-avx") : (c.at & AT_AVX) ? "avx" : "sse";
}

// key = arch:kind[:vector mode]:family  (stable: no addresses, sizes or seeds); family = abi (convention with an ABI
// document), light (asmjit's light-call conventions) or custom (user-defined CallConv); conventions seen are listed in the text
static void violation(const Case& c, const Built* b, const std::string& kind, const std::string& what) {
  std::string key = std::string(kArchName[c.arch]) + ":" + kind;
  if (c.arch != A_A64 && kind.compare(0, 18, "vec-not-preserved:") == 0) key += std::string(":") + mode_name(c);
  key += is_custom(c) ? ":custom" : conv_info(c).abi == ABI_LIGHT ? ":light" : ":abi";
  g_viol_convs[key].insert(std::string(conv_info(c).name) + (is_custom(c) ? "+custom" : "") + (c.fp ? "/fp" : ""));
  if (g_viol_count[key]++ == 0 && g_viol.size() < 60)
    g_viol.push_back({key, what + " | " + (b ? frame_dump(*b) : std::string()) + " | case " + spec_of(c), spec_of(c)});
}

// Every generated case is a legal frame description (sizes <= 64 KiB, alignments <= 64, register masks within the
// architecture's files, conventions of the architecture): a stage that refuses it leaves the user without a frame, and a
// refusal that nobody looks at silently removes the case from everything judged below.
// err = "<stage>:<error name>"; key = <arch>:refused:<stage>:<error>:<family>
static void refusal(const Case& c, const Built* b, const std::string& err) {
  violation(c, b, "refused:" + err, "asmjit refuses a legal frame: " + err);
}

// ---------------------------------------------------------------------------------------------
// Arithmetic checks on the accessors: areas pairwise disjoint, offsets aligned, sizes consistent
// ---------------------------------------------------------------------------------------------
struct Area { const char* name; int64_t lo, hi; };

static void arith_checks(const Case& c, const Built& b) {
  const FuncFrame& f = b.frame;
  bool da = f.has_dynamic_alignment();
  std::vector<Area> ar;
  const int64_t INF = int64_t(1) << 40;
  if (f.call_stack_size()) ar.push_back({"call", 0, f.call_stack_size()});
  if (f.local_stack_size()) ar.push_back({"local", f.local_stack_offset(), int64_t(f.local_stack_offset()) + f.local_stack_size()});
  if (f.extra_reg_save_size()) ar.push_back({"vecsave", f.extra_reg_save_offset(), int64_t(f.extra_reg_save_offset()) + f.extra_reg_save_size()});
  if (f.has_da_offset()) ar.push_back({"daslot", f.da_offset(), int64_t(f.da_offset()) + b.reg_size});
  if (!da) {
    if (f.push_pop_save_size()) ar.push_back({"gpsave", f.push_pop_save_offset(), int64_t(f.push_pop_save_offset()) + f.push_pop_save_size()});
    if (b.ret_size) ar.push_back({"retaddr", f.final_stack_size(), int64_t(f.final_stack_size()) + b.ret_size});
    ar.push_back({"caller", int64_t(int32_t(f.sa_offset_from_sp())), INF});
  }
  else {
    // above the aligned stack pointer live the pushes, the return address and the caller
    ar.push_back({"above-aligned-sp", f.stack_adjustment(), INF});
  }
  for (size_t i = 0; i < ar.size(); i++)
    for (size_t j = i + 1; j < ar.size(); j++)
      if (ar[i].lo < ar[j].hi && ar[j].lo < ar[i].hi) {
        char w[200];
        snprintf(w, sizeof w, "accessors report overlapping areas %s=[%lld,%lld) and %s=[%lld,%lld) (SP-relative)", ar[i].name, (long long)ar[i].lo,
                 (long long)ar[i].hi, ar[j].name, (long long)ar[j].lo, (long long)ar[j].hi);
        violation(c, &b, std::string("overlap:") + ar[i].name + "/" + ar[j].name, w);
      }
  uint32_t fa = f.final_stack_alignment();
  uint32_t want_fa = std::max(std::max(f.natural_stack_alignment(), c.la), c.ca);
  if (fa != want_fa) violation(c, &b, "final-alignment-wrong", "final_stack_alignment() != max(natural, local, call alignment)");
  if (f.local_stack_size() && c.la > 1 && f.local_stack_offset() % c.la)
    violation(c, &b, "local-offset-misaligned", "local_stack_offset() is not a multiple of the local stack alignment");
  if (f.has_aligned_vec_save_restore() && f.extra_reg_save_size() &&
      (f.extra_reg_save_offset() % f.save_restore_reg_size(RegGroup::kVec) || fa < f.save_restore_reg_size(RegGroup::kVec)))
    violation(c, &b, "vecsave-offset-misaligned", "kAlignedVecSR set but extra_reg_save_offset() is not vector-size aligned");
  if (promise_applies(b)) {
    if (da) {
      if (f.stack_adjustment() % fa) violation(c, &b, "stack-adjustment-misaligned", "dynamic alignment but stack_adjustment() not a multiple of the final alignment");
    }
    else if ((f.final_stack_size() + b.ret_size) % fa)
      violation(c, &b, "frame-size-misaligned", "final_stack_size() + return address is not a multiple of the final alignment");
  }
  if (!da && int64_t(int32_t(f.sa_offset_from_sp())) != int64_t(f.final_stack_size()) + b.ret_size)
    violation(c, &b, "sa-offset-from-sp-inconsistent", "sa_offset_from_sp() != final_stack_size() + return address size");
}

// ---------------------------------------------------------------------------------------------
// x86 / x86-64: function under test = emit_prolog + monitor body + emit_epilog
// ---------------------------------------------------------------------------------------------
static const uint8_t kCanary = 0xC7;      // body fill of declared areas
static const uint8_t kBackground = 0xB6;  // untouched test stack / caller frame canaries

struct Counters {
  uint64_t frames = 0, executed = 0, rejected = 0, signals = 0, timeouts = 0, arith_only = 0, a64_emitted = 0;
  uint64_t stack_args_read = 0, regs_compared = 0, canary_bytes = 0;
  std::map<std::string, uint64_t> rejects, by_engine, by_conv, by_entry_align;
  std::set<std::string> classes;
  std::vector<std::string> samples;
};
static Counters g_cnt;

struct Assembled {
  std::vector<uint8_t> code;
  size_t prolog_end = 0, body_end = 0;
  std::string err;
};

struct Claim { uint32_t reg; int64_t off; const char* name; };

static std::vector<Claim> sa_claims(const Case& c, const Built& b) {
  const FuncFrame& f = b.frame;
  uint32_t sp = c.arch == A_A64 ? 31u : 4u, fp = c.arch == A_A64 ? 29u : 5u;
  std::vector<Claim> cl;
  uint32_t sa = f.sa_reg_id();
  cl.push_back({sa, int64_t(int32_t(f.sa_offset(sa))), "sa_reg+sa_offset(sa_reg)"});
  if (!f.has_dynamic_alignment() && sa != sp) cl.push_back({sp, int64_t(int32_t(f.sa_offset_from_sp())), "sp+sa_offset_from_sp"});
  if (f.has_preserved_fp() && sa != fp) cl.push_back({fp, int64_t(f.sa_offset_from_sa()), "fp+sa_offset_from_sa"});
  return cl;
}

static bool assemble_x86(const Case& c, const Built& b, Assembled& out) {
  const FuncFrame& f = b.frame;
  CodeHolder code;
  if (code.init(b.env) != Error::kOk) { out.err = "CodeHolder::init"; return false; }
  x86::Assembler a(&code);
  Error e = a.emit_prolog(f);
  if (e != Error::kOk) { out.err = std::string("emit_prolog:") + DebugUtils::error_as_string(e); return false; }
  out.prolog_end = a.offset();

  // ---- monitor body (harness code) ----
  auto abs = [](const void* p) { return x86::ptr_abs(uint64_t(uintptr_t(p))); };
  x86::Gp zsp = a.zsp(), zax = a.zax(), zcx = a.zcx(), zdi = a.zdi();
  uint32_t rs = b.reg_size;
  a.mov(abs(&vf_side.sp), zsp);
  { x86::Mem m = abs(&vf_side.marker); m.set_size(4); a.mov(m, 1); }
  a.mov(abs(&vf_side.save[0]), zax);
  a.mov(abs(&vf_side.save[1]), zcx);
  a.mov(abs(&vf_side.save[2]), zdi);
  // stack arguments through every base register + offset the frame reports
  std::vector<Claim> cl = sa_claims(c, b);
  for (size_t k = 0; k < cl.size(); k++) {
    x86::Gp base = a.gpz(cl[k].reg);
    x86::Gp scr = cl[0].reg == 0 ? zcx : zax;  // never the frame's sa register: it is needed again below
    for (size_t j = 0; j < b.sargs.size() && j < 40; j++) {
      a.mov(scr, x86::ptr(base, int32_t(cl[k].off + b.sargs[j].off)));
      a.mov(abs(&vf_side.argv[k][j]), scr);
    }
  }
  auto fill = [&](const x86::Mem& start, uint32_t size) {
    if (!size) return;
    a.lea(zdi, start);
    a.mov(x86::ecx, size);
    a.mov(x86::al, kCanary);
    const uint8_t rep_stosb[] = {0xF3, 0xAA};
    a.embed(rep_stosb, 2);
  };
  // spill zone (caller-provided home area the callee may write)
  if (f.spill_zone_size()) fill(x86::ptr(a.gpz(cl[0].reg), int32_t(cl[0].off)), f.spill_zone_size());
  fill(x86::ptr(zsp, int32_t(f.local_stack_offset())), f.local_stack_size());
  fill(x86::ptr(zsp, 0), f.call_stack_size());
  if (f.red_zone_size()) fill(x86::ptr(zsp, -int32_t(f.red_zone_size())), f.red_zone_size());
  a.mov(zax, abs(&vf_side.save[0]));
  a.mov(zcx, abs(&vf_side.save[1]));
  a.mov(zdi, abs(&vf_side.save[2]));
  // clobber every register the frame reports dirty (not SP; not FP while it is the preserved frame pointer)
  uint32_t dg = f.dirty_regs(RegGroup::kGp) & ((b.ngp == 8) ? 0xFFu : 0xFFFFu) & ~(1u << 4);
  if (f.has_preserved_fp()) dg &= ~(1u << 5);
  for (uint32_t i = 0; i < 16; i++)
    if (dg & (1u << i)) {
      if (rs == 8) a.mov(x86::gpq(i), uint64_t(0xD1D1D1D1D1D10000ull | i));
      else a.mov(x86::gpd(i), uint32_t(0xD1D10000u | i));
    }
  uint32_t dv = f.dirty_regs(RegGroup::kVec);
  for (uint32_t i = 0; i < b.nvec; i++)
    if (dv & (1u << i)) {
      if (c.at & AT_AVX512) a.vmovdqu64(x86::zmm(i), abs(vf_side.junk_vec[i]));
      else if (c.at & AT_AVX) a.vmovdqu(x86::ymm(i), abs(vf_side.junk_vec[i]));
      else a.movdqu(x86::xmm(i), abs(vf_side.junk_vec[i]));
    }
  for (uint32_t i = 0; i < 8; i++) {
    if (f.dirty_regs(RegGroup::kMask) & (1u << i)) a.kmovq(x86::k(i), abs(&vf_side.junk_k[i]));
    if (f.dirty_regs(RegGroup(3)) & (1u << i)) a.movq(x86::mm(i), abs(&vf_side.junk_mm[i]));
  }
  { x86::Mem m = abs(&vf_side.marker); m.set_size(4); a.mov(m, 2); }
  out.body_end = a.offset();

  e = a.emit_epilog(f);
  if (e != Error::kOk) { out.err = std::string("emit_epilog:") + DebugUtils::error_as_string(e); return false; }
  CodeBuffer& buf = code.text_section()->buffer();
  out.code.assign(buf.data(), buf.data() + buf.size());
  return true;
}

#ifndef VF_NOEXEC
static uint8_t* g_stack = nullptr;   // test stack (MAP_32BIT, guard pages on both sides)
static uint8_t* g_code = nullptr;    // code page(s) for the function under test (MAP_32BIT)
static const size_t kStackSize = 1u << 20, kCodeSize = 1u << 16, kTopReserve = 8192;
static size_t g_code_pos = 0;

static void init_exec() {
  uint8_t* m = (uint8_t*)mmap(nullptr, kStackSize + 2 * 65536, PROT_NONE, MAP_PRIVATE | MAP_ANONYMOUS | MAP_32BIT, -1, 0);
  uint8_t* cm = (uint8_t*)mmap(nullptr, kCodeSize, PROT_READ | PROT_WRITE | PROT_EXEC, MAP_PRIVATE | MAP_ANONYMOUS | MAP_32BIT, -1, 0);
  uint8_t* gs = (uint8_t*)mmap(nullptr, 65536, PROT_READ | PROT_WRITE, MAP_PRIVATE | MAP_ANONYMOUS | MAP_32BIT, -1, 0);
  if (m == MAP_FAILED || cm == MAP_FAILED || gs == MAP_FAILED) { printf("{\"harness_error\":\"mmap MAP_32BIT failed\"}\n"); exit(3); }
  g_stack = m + 65536;
  mprotect(g_stack, kStackSize, PROT_READ | PROT_WRITE);
  g_code = cm;
  vf32_gate_stack = uint64_t(uintptr_t(gs + 65536 - 256));
  vf32_far.off = uint32_t(uintptr_t(vf_stub32));
  vf32_far.sel = 0x23;
  if (uintptr_t(vf_stub32) >> 31 || uintptr_t(&vf_side) >> 31) { printf("{\"harness_error\":\"driver not linked below 2 GiB (-no-pie missing)\"}\n"); exit(3); }
  install_signals();
}

static void prepare_image() {
  for (int i = 0; i < 16; i++) vf_in_gp[i] = 0xE1E1E1E100001000ull + uint64_t(i) * 0x0101u;
  for (int i = 0; i < 8; i++) vf32_in_gp[i] = 0xE1E10000u + uint32_t(i) * 0x0101u + 0x1000u;
  for (int i = 0; i < 32; i++)
    for (int j = 0; j < 64; j++) {
      vf_in_vec[i][j] = uint8_t(0x21 + ((i * 67 + j * 13) % 89));
      vf_side.junk_vec[i][j] = uint8_t(0xD0 | ((i + j) & 0xF));
    }
  for (int i = 0; i < 8; i++) {
    vf_in_k[i] = 0xA5A5000000000000ull | (0x1111111111ull * uint64_t(i + 1));
    vf_in_mm[i] = 0x3C3C000000000000ull | (0x0101010101ull * uint64_t(i + 1));
    vf_side.junk_k[i] = 0xD2D2D2D2D2D2D200ull | uint64_t(i);
    vf_side.junk_mm[i] = 0xD3D3D3D3D3D3D300ull | uint64_t(i);
  }
}

static std::string describe_value(uint64_t v, uint32_t size, bool is32) {
  const uint8_t* p = (const uint8_t*)&v;
  bool all_canary = true, all_bg = true;
  for (uint32_t i = 0; i < size; i++) { all_canary &= p[i] == kCanary; all_bg &= p[i] == kBackground; }
  if (all_canary) return "holds-canary";
  if (all_bg) return "holds-caller-background";
  if (is32 ? ((v & 0xFFFF0000u) == 0xD1D10000u) : ((v >> 16) == 0xD1D1D1D1D1D1ull)) return "holds-body-junk";
  if (is32 ? ((v & 0xFFFF0000u) == 0xE1E10000u) : ((v >> 32) == 0xE1E1E1E1ull)) return "holds-other-register";
  return "holds-other";
}

static const char* kGp64[] = {"rax", "rcx", "rdx", "rbx", "rsp", "rbp", "rsi", "rdi", "r8", "r9", "r10", "r11", "r12", "r13", "r14", "r15"};
static const char* kGp32[] = {"eax", "ecx", "edx", "ebx", "esp", "ebp", "esi", "edi"};

static void execute_x86(const Case& c, const Built& b, const Assembled& as) {
  const FuncFrame& f = b.frame;
  ConvInfo ci = conv_info(c);
  bool is32 = c.arch == A_X86;
  uint32_t rs = b.reg_size;
  // place code
  if (g_code_pos + as.code.size() + 64 > kCodeSize) g_code_pos = 0;
  uint8_t* fn = g_code + g_code_pos;
  memcpy(fn, as.code.data(), as.code.size());
  g_code_pos = (g_code_pos + as.code.size() + 63) & ~size_t(63);
  // caller frame
  // alignment of SP at the call instruction as the ABI documents give it (NOT FuncFrame::natural_stack_alignment(), which is
  // asmjit's own claim and part of what is under test): x86-64 SysV/Microsoft: 16; i386 (SysV gABI, cdecl/stdcall/fastcall/
  // thiscall on Windows): 4; light-call conventions have no document, CallConv's own value is all there is
  uint32_t natural = ci.abi == ABI_LIGHT ? f.natural_stack_alignment() : is32 ? 4u : 16u;
  g_cnt.by_entry_align[std::string(kArchName[c.arch]) + ":" + (ci.abi == ABI_LIGHT ? "light-own" : "abi") + ":" + std::to_string(natural)]++;
  uint32_t arg_bytes = b.func.arg_stack_size();
  for (const SArg& s : b.sargs) arg_bytes = std::max<uint32_t>(arg_bytes, uint32_t(s.off) + std::max(s.size, rs));
  memset(g_stack, kBackground, kStackSize);
  uint8_t* in_sp = g_stack + kStackSize - kTopReserve - size_t(c.spk) * std::max(natural, rs);
  in_sp = (uint8_t*)(uintptr_t(in_sp) & ~uintptr_t(std::max(natural, rs) - 1));
  for (uint32_t o = 0; o + 4 <= ((arg_bytes + 3) & ~3u); o += 4) { uint32_t w = 0xA0000000u | (o * 2654435761u >> 8 & 0x0FFFFF00u) | (o & 0xFF); memcpy(in_sp + o, &w, 4); }
  size_t top_len = size_t(g_stack + kStackSize - in_sp);
  std::vector<uint8_t> top_copy(in_sp, in_sp + top_len);
  memset(&vf_side.sp, 0, offsetof(VfSide, junk_vec));
  prepare_image();
  vf_in_gp[4] = uint64_t(uintptr_t(in_sp));
  vf32_in_gp[4] = uint32_t(uintptr_t(in_sp));
  vf_target = uint64_t(uintptr_t(fn));
  vf32_target = uint32_t(uintptr_t(fn));
  memset(vf_out_gp, 0, sizeof vf_out_gp); memset(vf32_out_gp, 0, sizeof vf32_out_gp);

  int sig = guarded_run(is32 ? vf_gate32 : vf_tramp64);
  g_cnt.executed++;
  g_cnt.by_engine[is32 ? "x86-32-gate" : "x64-native"]++;

  if (sig == SIGALRM) { g_cnt.timeouts++; return; }
  if (sig) {
    g_cnt.signals++;
    uint64_t ip = g_sig_ip;
    const char* stage = "wild";
    if (ip >= uint64_t(uintptr_t(fn)) && ip < uint64_t(uintptr_t(fn)) + as.code.size()) {
      size_t o = size_t(ip - uint64_t(uintptr_t(fn)));
      stage = o < as.prolog_end ? "prolog" : o < as.body_end ? "body" : "epilog";
    }
    else if (vf_side.marker == 2) stage = "after-epilog-wild-return";
    else if (vf_side.marker == 0 && !(ip >= uint64_t(uintptr_t(fn)) && ip < uint64_t(uintptr_t(fn)) + as.code.size())) stage = "harness?";
    char w[400];
    snprintf(w, sizeof w, "%s at ip=0x%llx (code base 0x%llx, offset %lld, prolog_end=%zu body_end=%zu size=%zu) fault addr=0x%llx sp=0x%llx entry_sp=0x%llx marker=%llu code=%s",
             sig_name(sig), (unsigned long long)ip, (unsigned long long)uintptr_t(fn), (long long)(ip - uint64_t(uintptr_t(fn))), as.prolog_end, as.body_end,
             as.code.size(), (unsigned long long)g_sig_addr, (unsigned long long)g_sig_sp, (unsigned long long)(uintptr_t(in_sp) - rs), (unsigned long long)vf_side.marker,
             hexstr(as.code.data(), std::min<size_t>(as.code.size(), 96)).c_str());
    violation(c, &b, std::string("signal:") + sig_name(sig) + ":" + stage, w);
    return;
  }

  // ---- oracle ----
  uint64_t out_sp = is32 ? vf32_out_gp[4] : vf_out_gp[4];
  uint64_t want_sp = uint64_t(uintptr_t(in_sp)) + (ci.callee_pops ? b.func.arg_stack_size() : 0);
  if (vf_side.marker != 2) violation(c, &b, "body-not-completed", "function returned but the monitor body did not run to its end");
  if (out_sp != want_sp) {
    char w[200];
    snprintf(w, sizeof w, "SP after return = entry SP %+lld, convention requires %+lld (callee pops %u)", (long long)(out_sp - uint64_t(uintptr_t(in_sp))),
             (long long)(want_sp - uint64_t(uintptr_t(in_sp))), ci.callee_pops ? b.func.arg_stack_size() : 0);
    violation(c, &b, "sp-after-return", w);
  }
  // preserved registers
  uint32_t pres[4];
  bool from_asmjit = ci.abi == ABI_LIGHT;
  if (from_asmjit) for (int g = 0; g < 4; g++) pres[g] = b.func.call_conv().preserved_regs(RegGroup(g));
  else abi_preserved(ci.abi, pres);
  for (int g = 0; g < 4; g++) pres[g] |= c.xpres[g];
  pres[0] &= ~(1u << 4);
  for (uint32_t i = 0; i < b.ngp; i++)
    if (pres[0] & (1u << i)) {
      g_cnt.regs_compared++;
      uint64_t in = is32 ? vf32_in_gp[i] : vf_in_gp[i], o = is32 ? vf32_out_gp[i] : vf_out_gp[i];
      if (in != o) {
        char w[200];
        snprintf(w, sizeof w, "callee-saved %s: entry 0x%llx, after return 0x%llx", is32 ? kGp32[i] : kGp64[i], (unsigned long long)in, (unsigned long long)o);
        violation(c, &b, std::string("gp-not-preserved:") + describe_value(o, rs, is32), w);
      }
    }
  uint32_t nv = is32 ? 8 : 32;
  for (uint32_t i = 0; i < nv; i++)
    if (pres[1] & (1u << i)) {
      g_cnt.regs_compared++;
      if (memcmp(vf_in_vec[i], vf_out_vec[i], 16) != 0) {
        uint64_t lo; memcpy(&lo, vf_out_vec[i], 8);
        bool junk = (vf_out_vec[i][0] & 0xF0) == 0xD0 && (vf_out_vec[i][5] & 0xF0) == 0xD0;
        std::string w = "callee-saved xmm" + std::to_string(i) + ": entry " + hexstr(vf_in_vec[i], 16) + ", after return " + hexstr(vf_out_vec[i], 16);
        violation(c, &b, std::string("vec-not-preserved:") + (junk ? "holds-body-junk" : describe_value(lo, 8, false)), w);
      }
    }
  for (uint32_t i = 0; i < 8; i++) {
    if (pres[2] & (1u << i)) {
      g_cnt.regs_compared++;
      if (vf_in_k[i] != vf_out_k[i]) {
        char w[200]; snprintf(w, sizeof w, "preserved k%u: entry 0x%llx, after return 0x%llx", i, (unsigned long long)vf_in_k[i], (unsigned long long)vf_out_k[i]);
        violation(c, &b, std::string("k-not-preserved:") + ((vf_out_k[i] >> 8) == 0xD2D2D2D2D2D2D2ull ? "holds-body-junk" : describe_value(vf_out_k[i], 8, false)), w);
      }
    }
    if (pres[3] & (1u << i)) {
      g_cnt.regs_compared++;
      if (vf_in_mm[i] != vf_out_mm[i]) {
        char w[200]; snprintf(w, sizeof w, "preserved mm%u: entry 0x%llx, after return 0x%llx", i, (unsigned long long)vf_in_mm[i], (unsigned long long)vf_out_mm[i]);
        violation(c, &b, std::string("mm-not-preserved:") + ((vf_out_mm[i] >> 8) == 0xD3D3D3D3D3D3D3ull ? "holds-body-junk" : describe_value(vf_out_mm[i], 8, false)), w);
      }
    }
  }
  // caller frame (arguments + canaries above), the spill zone belongs to the callee
  size_t skip = f.spill_zone_size();
  g_cnt.canary_bytes += top_len - skip;
  if (memcmp(in_sp + skip, top_copy.data() + skip, top_len - skip) != 0) {
    size_t o = skip; while (o < top_len && in_sp[o] == top_copy[o]) o++;
    char w[200]; snprintf(w, sizeof w, "caller frame damaged at entry_sp%+lld: was 0x%02x now 0x%02x (stack-argument area is %u bytes)", (long long)(o + rs), top_copy[o], in_sp[o], arg_bytes);
    violation(c, &b, std::string("caller-frame-damaged:") + (in_sp[o] == kCanary ? "by-body-fill" : "by-prolog-epilog"), w);
  }
  // SP inside the body
  uint64_t sp_body = is32 ? uint32_t(vf_side.sp) : vf_side.sp;
  uint64_t entry_sp = uint64_t(uintptr_t(in_sp)) - rs;
  if (promise_applies(b) && sp_body % f.final_stack_alignment()) {
    char w[200]; snprintf(w, sizeof w, "SP inside the body = 0x%llx is not aligned to final_stack_alignment()=%u (entry SP+ret = 0x%llx)", (unsigned long long)sp_body,
                          f.final_stack_alignment(), (unsigned long long)uintptr_t(in_sp));
    violation(c, &b, "sp-misaligned:align" + std::to_string(f.final_stack_alignment()), w);
  }
  if (sp_body > entry_sp || sp_body + std::max<uint64_t>(f.call_stack_size(), uint64_t(f.local_stack_offset()) + f.local_stack_size()) > entry_sp)
    violation(c, &b, "declared-area-reaches-return-address", "SP inside the body + declared local/call area extends to or above the return address slot");
  // stack arguments as read through the reported base + offset
  std::vector<Claim> cl = sa_claims(c, b);
  for (size_t k = 0; k < cl.size(); k++)
    for (size_t j = 0; j < b.sargs.size() && j < 40; j++) {
      uint64_t want = 0; memcpy(&want, top_copy.data() + b.sargs[j].off, rs);
      uint64_t got = is32 ? uint32_t(vf_side.argv[k][j]) : vf_side.argv[k][j];
      g_cnt.stack_args_read++;
      if (want != got) {
        char w[260];
        snprintf(w, sizeof w, "stack argument at stack_offset %d read through %s (reg id %u, offset %lld) gave 0x%llx, the caller stored 0x%llx", b.sargs[j].off, cl[k].name,
                 cl[k].reg, (long long)cl[k].off, (unsigned long long)got, (unsigned long long)want);
        violation(c, &b, std::string("stack-arg-wrong:") + (cl[k].reg == 4 ? "sp" : cl[k].reg == 5 ? "fp" : "sa_reg"), w);
        break;
      }
    }
}
#endif

// ---------------------------------------------------------------------------------------------
// AArch64: prolog/epilog bytes + accessor values -> JSON line, judged by vlib/a64sym.py
// ---------------------------------------------------------------------------------------------
static bool emit_a64(const Case& c, const Built& b, std::string& err) {
  const FuncFrame& f = b.frame;
  CodeHolder code;
  if (code.init(b.env) != Error::kOk) { err = "CodeHolder::init"; return false; }
  a64::Assembler a(&code);
  Error e = a.emit_prolog(f);
  if (e != Error::kOk) { err = std::string("emit_prolog:") + DebugUtils::error_as_string(e); return false; }
  size_t pe = a.offset();
  e = a.emit_epilog(f);
  if (e != Error::kOk) { err = std::string("emit_epilog:") + DebugUtils::error_as_string(e); return false; }
  CodeBuffer& buf = code.text_section()->buffer();
  ConvInfo ci = conv_info(c);
  std::string claims = "[";
  std::vector<Claim> cl = sa_claims(c, b);
  for (size_t k = 0; k < cl.size(); k++) {
    char t[120]; snprintf(t, sizeof t, "%s{\"reg\":%u,\"off\":%lld,\"name\":\"%s\"}", k ? "," : "", cl[k].reg, (long long)cl[k].off, cl[k].name);
    claims += t;
  }
  claims += "]";
  std::string ph = hexstr(buf.data(), pe), eh = hexstr(buf.data() + pe, buf.size() - pe), fj = jstr(frame_dump(b));
  std::vector<char> tb(2048 + claims.size() + ph.size() + eh.size() + fj.size());   // a fixed buffer used to truncate (and so drop) records of frames with many saves
  char* t = tb.data();
  int tn = snprintf(t, tb.size(),
           "{\"t\":\"a64\",\"spec\":%s,\"cls\":%s,\"conv\":\"%s\",\"custom\":%d,\"light\":%d,\"fp\":%d,\"da\":%d,\"promise\":%d,"
           "\"final_align\":%u,\"cs\":%u,\"lo\":%u,\"ls\":%u,\"final_size\":%u,\"stack_adj\":%u,\"pps\":%u,"
           "\"dirty\":[%u,%u],\"pres\":[%u,%u],\"saved\":[%u,%u],\"vsz\":%u,\"has_sargs\":%d,\"claims\":%s,\"prolog\":\"%s\",\"epilog\":\"%s\",\"frame\":%s}",
           jstr(spec_of(c)).c_str(), jstr(class_of(c, b)).c_str(), ci.name, int(is_custom(c)), int(ci.abi == ABI_LIGHT), c.fp, int(f.has_dynamic_alignment()),
           int(promise_applies(b)), f.final_stack_alignment(), f.call_stack_size(), f.local_stack_offset(), f.local_stack_size(), f.final_stack_size(),
           f.stack_adjustment(), f.push_pop_save_size(), f.dirty_regs(RegGroup::kGp), f.dirty_regs(RegGroup::kVec),
           b.func.call_conv().preserved_regs(RegGroup::kGp), b.func.call_conv().preserved_regs(RegGroup::kVec),
           f.saved_regs(RegGroup::kGp), f.saved_regs(RegGroup::kVec), f.save_restore_reg_size(RegGroup::kVec), int(!b.sargs.empty()), claims.c_str(),
           ph.c_str(), eh.c_str(), fj.c_str());
  if (tn < 0 || size_t(tn) >= tb.size()) { err = "harness: record truncated"; return false; }
  puts(t);
  return true;
}

// ---------------------------------------------------------------------------------------------
// One case through all stages
// ---------------------------------------------------------------------------------------------
static bool g_noexec = false, g_dump = false;

static void run_case(const Case& c) {
  g_cnt.frames++;
  Built b;
  if (!build(c, b)) { g_cnt.rejected++; g_cnt.rejects[std::string(kArchName[c.arch]) + ":" + b.err]++; refusal(c, nullptr, b.err); return; }
  arith_checks(c, b);
  std::string cls = class_of(c, b);
  if (c.arch == A_A64) {
    std::string err;
    if (!emit_a64(c, b, err)) { g_cnt.rejected++; g_cnt.rejects["a64:" + err]++; refusal(c, &b, err); return; }
    g_cnt.a64_emitted++;
    g_cnt.by_conv[std::string("a64:") + conv_info(c).name]++;
    return;  // class is counted by the Python side once the symbolic run is conclusive
  }
  Assembled as;
  if (!assemble_x86(c, b, as)) { g_cnt.rejected++; g_cnt.rejects[std::string(kArchName[c.arch]) + ":" + as.err]++; refusal(c, &b, as.err); return; }
  g_cnt.by_conv[std::string(kArchName[c.arch]) + ":" + conv_info(c).name + (is_custom(c) ? "+custom" : "")]++;
  if (g_dump) printf("{\"t\":\"dump\",\"code\":\"%s\",\"prolog_end\":%zu,\"body_end\":%zu,\"frame\":%s}\n", hexstr(as.code.data(), as.code.size()).c_str(), as.prolog_end, as.body_end, jstr(frame_dump(b)).c_str());
#ifndef VF_NOEXEC
  if (!g_noexec) {
    execute_x86(c, b, as);
    g_cnt.classes.insert(cls);
    if (g_cnt.samples.size() < 3 && (g_cnt.frames % 97) == 5) g_cnt.samples.push_back(spec_of(c) + " => " + frame_dump(b));
    return;
  }
#endif
  g_cnt.arith_only++;
  g_cnt.classes.insert(cls);
}

// ---------------------------------------------------------------------------------------------
// Workload
// ---------------------------------------------------------------------------------------------
struct ConvSel { uint32_t cc; int env; };

static std::vector<ConvSel> convs_of(int arch) {
  if (arch == A_X64) return {{32, 0}, {33, 0}, {0, 0}, {0, 1}, {3, 1}, {3, 0}, {16, 0}, {17, 0}, {18, 1}, {1, 0}, {2, 1}, {4, 1}, {7, 0}};
  if (arch == A_X86) return {{0, 0}, {1, 0}, {2, 0}, {3, 1}, {4, 1}, {4, 0}, {5, 0}, {6, 0}, {7, 0}, {16, 0}, {17, 0}, {18, 0}, {0, 1}, {1, 1}, {2, 1}};
  return {{0, 0}, {0, 2}, {0, 1}, {16, 0}, {17, 0}, {18, 2}, {1, 0}, {3, 2}};
}

static const uint32_t kSizes[] = {0, 1, 4, 8, 12, 15, 16, 17, 24, 31, 32, 33, 40, 64, 100, 128, 255, 256, 1000, 4095, 4096, 4097, 32768, 65535, 65536};
static const uint32_t kAligns[] = {0, 1, 2, 4, 8, 16, 32, 64};

static uint32_t ngp_of(int arch) { return arch == A_X86 ? 8 : arch == A_X64 ? 16 : 31; }
static uint32_t nvec_of(int arch, bool avx512) { return arch == A_X86 ? 8 : arch == A_X64 ? (avx512 ? 32 : 16) : 32; }
static uint32_t maskn(uint32_t n) { return n >= 32 ? 0xFFFFFFFFu : ((1u << n) - 1); }

static std::string rand_args(Rng& r, int arch, bool want_stack) {
  static const char kinds[] = "iiqppfdx";
  uint32_t n = want_stack ? uint32_t(r.range(arch == A_X86 ? 1 : 7, 14)) : uint32_t(r.range(0, 6));
  std::string s;
  for (uint32_t i = 0; i < n; i++) s += kinds[r.below(arch == A_A64 ? 7 : 8)];
  if (want_stack && arch != A_X86) s = "pppp" + s + "qqi";  // enough integers to overflow the register arguments
  if (s.size() > 24) s.resize(24);
  return s;
}

static void base_case(Rng& r, int arch, Case& c) {
  c.arch = arch;
  std::vector<ConvSel> cv = convs_of(arch);
  ConvSel s = cv[r.below(cv.size())];
  c.cc = s.cc; c.env = s.env;
  c.args = rand_args(r, arch, r.chance(2, 3));
  c.spk = uint32_t(r.below(16));
}

static void random_case(Rng& r, int arch, Case& c) {
  base_case(r, arch, c);
  if (arch != A_A64) {
    if (r.chance(1, 2)) c.at |= AT_AVX;
    if (r.chance(1, 3)) c.at |= AT_AVX512 | (r.chance(7, 8) ? AT_AVX : 0);
    if (r.chance(1, 6)) c.at |= AT_MMXCLEAN;
    if (r.chance(1, 6)) c.at |= AT_AVXCLEAN;
    if (r.chance(1, 6)) c.at |= AT_AVXAUTO;
    if (r.chance(1, 8)) c.at |= AT_NOREDZONE;
  }
  if (r.chance(1, 3)) c.at |= AT_CALLS;
  if (r.chance(1, 8)) c.at |= AT_IBT;
  uint32_t gm = maskn(ngp_of(arch)), vm = maskn(nvec_of(arch, c.at & AT_AVX512));
  auto rmask = [&](uint32_t valid) -> uint32_t {
    switch (r.below(6)) {
      case 0: return 0;
      case 1: return (1u << r.below(32)) & valid;
      case 2: return ((1u << r.below(32)) | (1u << r.below(32))) & valid;
      case 3: return valid;
      case 4: return uint32_t(r.next() & r.next()) & valid;
      default: return uint32_t(r.next()) & valid;
    }
  };
  c.dirty[0] = rmask(gm); c.dirty[1] = rmask(vm);
  if (arch != A_A64) {
    if (r.chance(1, 3)) c.dirty[2] = rmask(0xFF);
    if (r.chance(1, 4)) c.dirty[3] = rmask(0xFF);
    if (r.chance(1, 4)) {  // custom convention: additional preserved registers
      if (r.chance(1, 2)) c.xpres[2] = rmask(0xFF);
      if (r.chance(1, 3)) c.xpres[3] = rmask(0xFF);
      if (r.chance(1, 3)) c.xpres[1] = rmask(vm);
      if (r.chance(1, 4)) c.xpres[0] = rmask(gm) & ~(1u << 4);
    }
  }
  switch (r.below(4)) {
    case 0: c.ls = 0; break;
    case 1: c.ls = kSizes[r.below(sizeof kSizes / sizeof *kSizes)]; break;
    case 2: c.ls = uint32_t(r.below(300)); break;
    default: c.ls = uint32_t(r.below(65537)); break;
  }
  c.la = kAligns[r.below(8)];
  switch (r.below(4)) {
    case 0: case 1: c.cs = 0; break;
    case 2: c.cs = uint32_t(r.below(20)) * 8; break;
    default: c.cs = uint32_t(r.below(5000)); break;
  }
  c.ca = r.chance(1, 2) ? 0 : kAligns[r.below(8)];
  c.fp = r.chance(1, 2);
  uint32_t spid = arch == A_A64 ? 31 : 4, fpid = arch == A_A64 ? 29 : 5;
  switch (r.below(5)) {
    case 0: c.sa = int(fpid); break;
    case 1: { uint32_t id = uint32_t(r.below(ngp_of(arch))); c.sa = id == spid ? -1 : int(id); break; }
    default: c.sa = -1;
  }
}

// deterministic boundary families; returns false when idx is past the end of the family list
static bool boundary_case(uint64_t idx, int arch, Case& c) {
  std::vector<ConvSel> cv = convs_of(arch);
  uint32_t ncv = uint32_t(cv.size());
  Rng r(idx * 0x9E3779B97F4A7C15ull + 77 + arch);
  c = Case(); c.arch = arch;
  uint32_t ngp = ngp_of(arch), nv = nvec_of(arch, true);
  uint32_t nsingle = ngp + nv + (arch == A_A64 ? 0 : 16);
  // family 1: every single dirty bit x every convention x FP
  uint64_t n1 = uint64_t(nsingle) * ncv * 2;
  auto common = [&](uint64_t k) {
    c.cc = cv[k % ncv].cc; c.env = cv[k % ncv].env;
    c.args = rand_args(r, arch, true);
    c.spk = uint32_t(r.below(8));
  };
  if (idx < n1) {
    uint32_t bit = uint32_t(idx % nsingle); uint64_t k = idx / nsingle;
    common(k); c.fp = int((k / ncv) & 1);
    c.ls = 24; c.at = arch == A_A64 ? 0 : AT_AVX | AT_AVX512;
    if (bit < ngp) c.dirty[0] = 1u << bit;
    else if (bit < ngp + nv) { c.dirty[1] = 1u << (bit - ngp); if (arch != A_A64 && (k & 1)) c.xpres[1] = c.dirty[1]; }
    else if (bit < ngp + nv + 8) { c.dirty[2] = 1u << (bit - ngp - nv); c.xpres[2] = 0xFF; }
    else { c.dirty[3] = 1u << (bit - ngp - nv - 8); c.xpres[3] = 0xFF; }
    return true;
  }
  idx -= n1;
  // family 2: all pairs within GP, within vec, within k (preserved via custom set where no ABI preserves them)
  uint64_t pg = uint64_t(ngp) * (ngp - 1) / 2, pv = uint64_t(nv) * (nv - 1) / 2, pk = arch == A_A64 ? 0 : 28;
  uint64_t n2 = (pg + pv + pk) * 4;
  if (idx < n2) {
    uint64_t p = idx % (pg + pv + pk), k = idx / (pg + pv + pk);
    static const uint32_t main64[] = {0, 1, 6, 4}, main86[] = {0, 1, 9, 3}, maina[] = {0, 1, 3, 5};
    uint32_t ci = (arch == A_X64 ? main64 : arch == A_X86 ? main86 : maina)[k & 3];
    common(ci); c.fp = int(r.below(2)); c.ls = uint32_t(r.below(4)) * 8; c.at = arch == A_A64 ? 0 : AT_AVX | AT_AVX512;
    uint32_t n = p < pg ? ngp : p < pg + pv ? nv : 8; uint64_t q = p < pg ? p : p < pg + pv ? p - pg : p - pg - pv;
    uint32_t i = 0; while (q >= n - 1 - i) { q -= n - 1 - i; i++; }
    uint32_t j = i + 1 + uint32_t(q);
    uint32_t m = (1u << i) | (1u << j);
    if (p < pg) c.dirty[0] = m & ~(1u << (arch == A_A64 ? 31 : 4));
    else if (p < pg + pv) { c.dirty[1] = m; if (arch != A_A64 && (k & 2)) c.xpres[1] = m; }
    else { c.dirty[2] = m; c.xpres[2] = 0xFF; }
    return true;
  }
  idx -= n2;
  // family 3: local size x local alignment x FP x 4 conventions, dirty = everything the convention may preserve
  const uint32_t ns = sizeof kSizes / sizeof *kSizes;
  uint64_t n3 = uint64_t(ns) * 8 * 2 * 4;
  if (idx < n3) {
    uint32_t si = uint32_t(idx % ns), ai = uint32_t(idx / ns % 8); c.fp = int(idx / ns / 8 % 2); uint32_t k = uint32_t(idx / ns / 16);
    static const uint32_t main64[] = {0, 1, 6, 4}, main86[] = {0, 1, 9, 2}, maina[] = {0, 1, 3, 5};
    common((arch == A_X64 ? main64 : arch == A_X86 ? main86 : maina)[k & 3]);
    c.ls = kSizes[si]; c.la = kAligns[ai];
    c.at = arch == A_A64 ? 0 : (idx & 1 ? AT_AVX : 0) | (idx % 3 == 0 ? AT_AVX | AT_AVX512 : 0);
    c.dirty[0] = maskn(ngp) & ~(1u << (arch == A_A64 ? 31 : 4));
    c.dirty[1] = maskn(nvec_of(arch, c.at & AT_AVX512));
    if (idx % 5 == 0) c.at |= AT_CALLS;
    return true;
  }
  idx -= n3;
  // family 4: call stack size x call alignment x local size x dynamic alignment slot without FP, explicit sa register
  static const uint32_t csz[] = {0, 8, 16, 24, 32, 40, 100, 4096}, lsz[] = {0, 8, 40, 4097};
  uint64_t n4 = 8 * 8 * 4 * 3 * 3;
  if (idx < n4) {
    uint32_t a = uint32_t(idx % 8), b = uint32_t(idx / 8 % 8), l = uint32_t(idx / 64 % 4), s = uint32_t(idx / 256 % 3), k = uint32_t(idx / 768);
    static const uint32_t main64[] = {0, 1, 4}, main86[] = {0, 1, 10}, maina[] = {0, 1, 4};
    common((arch == A_X64 ? main64 : arch == A_X86 ? main86 : maina)[k % 3]);
    c.cs = csz[a]; c.ca = kAligns[b]; c.ls = lsz[l]; c.la = l == 3 ? 32 : 0; c.at = AT_CALLS | (arch == A_A64 ? 0 : AT_AVX);
    c.fp = s == 1; c.sa = s == 2 ? (arch == A_A64 ? 9 : 3) : -1;
    c.dirty[0] = uint32_t(r.next()) & maskn(ngp) & ~(1u << (arch == A_A64 ? 31 : 4)); c.dirty[1] = uint32_t(r.next()) & maskn(nvec_of(arch, false));
    return true;
  }
  return false;
}

static uint64_t boundary_total(int arch) {
  uint64_t lo = 0, hi = 1 << 20; Case c;
  while (lo < hi) { uint64_t mid = (lo + hi) / 2; if (boundary_case(mid, arch, c)) lo = mid + 1; else hi = mid; }
  return lo;
}

int main(int argc, char** argv) {
  Args args(argc, argv);
  std::string arch_s = args.str("arch", "x64");
  int arch = arch_s == "x64" ? A_X64 : arch_s == "x86" ? A_X86 : A_A64;
  g_noexec = args.has("noexec");
  g_dump = args.has("dump");
#ifdef VF_NOEXEC
  g_noexec = true;
#else
  if (!g_noexec) {
    const CpuFeatures& cf = CpuInfo::host().features();
    if (!cf.x86().has_avx512_f() || !cf.x86().has_avx512_bw()) { printf("{\"harness_error\":\"host lacks AVX-512 F/BW\"}\n"); return 3; }
    init_exec();
  }
#endif
  std::string mode = args.str("mode", "random");
  uint64_t shards = args.u64("shards", 1), shard = args.u64("shard", 0);
  if (args.has("case")) {
    Case c;
    if (!parse_spec(args.str("case"), c)) { printf("{\"harness_error\":\"bad --case\"}\n"); return 3; }
    run_case(c);
  }
  else if (mode == "boundary") {
    uint64_t total = boundary_total(arch), stride = args.u64("stride", 1);
    for (uint64_t i = shard; i < total; i += shards * stride) { Case c; if (boundary_case(i, arch, c)) run_case(c); }
  }
  else {
    Rng r(args.u64("seed", 1) * 1000003ull + shard * 7919 + uint64_t(arch));
    uint64_t n = args.u64("count", 1000);
    for (uint64_t i = 0; i < n; i++) { Case c; random_case(r, arch, c); run_case(c); }
  }
  // summary
  std::string o = "{\"violations\":[";
  for (size_t i = 0; i < g_viol.size(); i++) {
    if (i) o += ",";
    o += "{\"key\":" + jstr(g_viol[i].key) + ",\"what\":" + jstr(g_viol[i].what) + ",\"spec\":" + jstr(g_viol[i].spec) + ",\"count\":" + std::to_string(g_viol_count[g_viol[i].key]) + ",\"convs\":[";
    { bool first = true; for (auto& cv : g_viol_convs[g_viol[i].key]) { if (!first) o += ","; first = false; o += jstr(cv); } }
    o += "]}";
  }
  o += "],\"arch\":" + jstr(kArchName[arch]) + ",\"frames\":" + std::to_string(g_cnt.frames) + ",\"executed\":" + std::to_string(g_cnt.executed) +
       ",\"rejected\":" + std::to_string(g_cnt.rejected) + ",\"signals\":" + std::to_string(g_cnt.signals) + ",\"timeouts\":" + std::to_string(g_cnt.timeouts) +
       ",\"arith_only\":" + std::to_string(g_cnt.arith_only) + ",\"a64_emitted\":" + std::to_string(g_cnt.a64_emitted) +
       ",\"stack_args_read\":" + std::to_string(g_cnt.stack_args_read) + ",\"regs_compared\":" + std::to_string(g_cnt.regs_compared) +
       ",\"caller_canary_bytes\":" + std::to_string(g_cnt.canary_bytes);
  auto dump_map = [&](const char* name, const std::map<std::string, uint64_t>& m) {
    o += std::string(",\"") + name + "\":{";
    bool first = true;
    for (auto& kv : m) { if (!first) o += ","; first = false; o += jstr(kv.first) + ":" + std::to_string(kv.second); }
    o += "}";
  };
  dump_map("rejects", g_cnt.rejects); dump_map("by_engine", g_cnt.by_engine); dump_map("by_conv", g_cnt.by_conv); dump_map("by_entry_align", g_cnt.by_entry_align);
  o += ",\"classes\":[";
  { bool first = true; char hb[24];
    for (auto& s : g_cnt.classes) { if (!first) o += ","; first = false; snprintf(hb, sizeof hb, "\"%016llx\"", (unsigned long long)fnv1a(s.data(), s.size())); o += hb; }
    o += "],\"class_examples\":[";
    size_t n = 0; for (auto& s : g_cnt.classes) { if (n % (g_cnt.classes.size() / 3 + 1) == 0) { if (n) o += ","; o += jstr(s); } n++; } }
  o += "],\"samples\":[";
  for (size_t i = 0; i < g_cnt.samples.size(); i++) { if (i) o += ","; o += jstr(g_cnt.samples[i]); }
  o += "]}";
  puts(o.c_str());
  return 0;
}
