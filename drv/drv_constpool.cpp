// C19 driver: ConstPool add/fill histories against an independent model (byte map + interval ownership).
// The oracle lives here (harness code). asmjit is only called through ConstPool's public API and through the
// emitters that serialise a pool (x86::Assembler / x86::Builder / x86::Compiler / a64::Compiler).
//
// Modes
//   --mode exh    --alpha K --len L [--shards N --shard I] [--fresh]   every sequence of length L over alphabet K
//                                                                      (every prefix is verified, so all lengths <= L)
//   --mode random --seqs N [--minlen m] --maxlen M --seed S [--fresh]  random / adversarial sequences
//   --mode emit   --cases N --seed S                                   pools written out by real emitters
//   --mode fexh   --alpha K --len L [--shards N --shard I]             every sequence of length L over alphabet K with the
//                                                                      j-th arena request of the p-th add() failing, for every
//                                                                      p and every j reachable inside that add() (hook H1)
//   --mode frandom --seqs N --seed S                                   random sequences with several refused requests each
//
// Allocation-failure histories (fexh / frandom): the pool's Arena is made to fail through hook H1
// (asmjit_verif_arena_fail_fn) only while a ConstPool::add() of the history is running. A refused add() may have
// registered nothing or a part; everything the pool hands out afterwards is held to the same statement as before.
// Two more places where requests are refused: inside embed_const_pool() of the emitter that writes such a pool out (the pool
// is then embedded again under a new label) and, in the Compiler cases of --mode emit, anywhere inside
// BaseCompiler::_new_const() (creation of the scope's pool node, registration of its label, add()). A refused call owes
// nothing by itself; what is handed out / written out after it is checked as always.
#include <asmjit/core.h>
#include <asmjit/x86.h>
#include <asmjit/a64.h>
#include "vcommon.h"
#include <algorithm>
#include <memory>
#include <unordered_map>
#include <unordered_set>
#include <sys/wait.h>
#include <unistd.h>

#if defined(__SANITIZE_ADDRESS__)
#include <sanitizer/asan_interface.h>
#define V_POISON(p, n) __asan_poison_memory_region((p), (n))
#define V_UNPOISON(p, n) __asan_unpoison_memory_region((p), (n))
#else
#define V_POISON(p, n) ((void)0)
#define V_UNPOISON(p, n) ((void)0)
#endif

using namespace asmjit;

// ---------------------------------------------------------------------------------------------------------
// Items (what is added)
// ---------------------------------------------------------------------------------------------------------

static inline bool valid_size(size_t s) { return s >= 1 && s <= 64 && (s & (s - 1)) == 0; }
static inline unsigned log2u(size_t s) { unsigned n = 0; while (s > 1) { s >>= 1; n++; } return n; }

struct Item {
  size_t size = 0;                 // size passed to add()
  std::vector<uint8_t> bytes;      // bytes really provided (== size for valid sizes, <= 128 for invalid ones)
  bool null_data = false;          // pass nullptr (only with size 0)
  std::string key() const { std::string k(1, char(size)); k.append((const char*)bytes.data(), bytes.size()); return k; }
};

static Item mk_item(size_t size, const uint8_t* p, size_t n) {
  Item it;
  it.size = size;
  it.bytes.assign(p, p + n);
  return it;
}

static Item mk_invalid(size_t size, uint8_t fillb) {
  Item it;
  it.size = size;
  size_t n = size > 128 ? 128 : size;
  it.bytes.assign(n, fillb);
  for (size_t i = 0; i < n; i++) it.bytes[i] = uint8_t(fillb + i);
  return it;
}

static const size_t kInvalidSizes[] = { 0, 3, 5, 6, 7, 9, 10, 12, 15, 17, 24, 31, 33, 48, 63, 65, 66, 72, 96, 127, 128, 129, 192, 256,
                                        512, 4096, size_t(1) << 16, size_t(1) << 31, size_t(1) << 32, (size_t(1) << 32) + 8,
                                        size_t(1) << 63, ~size_t(0), ~size_t(0) - 63 };
static const size_t kValidSizes[] = { 1, 2, 4, 8, 16, 32, 64 };

// ---------------------------------------------------------------------------------------------------------
// Reporting
// ---------------------------------------------------------------------------------------------------------

struct Violation { std::string key; std::string what; };
static std::vector<Violation> g_viol;

struct Stats {
  uint64_t sequences = 0, adds = 0, valid_adds = 0, invalid_rejected = 0;
  uint64_t sharing = 0, gap_reuse = 0, dedup = 0, append = 0;
  uint64_t fills = 0, bytes_compared = 0, resets = 0, pool_reuse = 0, readd_checks = 0;
  uint64_t nontrivial = 0;
  uint64_t max_pool_size = 0, max_len = 0;
  uint64_t emit_cases = 0, emit_pools = 0, emit_exec = 0, emit_exec_bytes = 0;
  uint64_t by_size[7] = {0, 0, 0, 0, 0, 0, 0};
  std::map<std::string, uint64_t> emit_paths;
  // allocation-failure histories
  uint64_t fault_histories = 0;        // sequences with at least one refused add()
  uint64_t fault_armed = 0;            // add() calls made with a failure armed
  uint64_t fault_fired = 0;            // ... in which the armed request was really reached
  uint64_t fault_swallowed = 0;        // ... and add() nevertheless returned kOk (gap bookkeeping)
  uint64_t refused = 0;                // add() calls of a valid size that returned an error after an injected failure
  uint64_t refused_left_bytes = 0;     // ... after which fill() shows the refused constant (it was registered)
  uint64_t retries = 0;                // refused constants requested again without a failure
  uint64_t retries_dedup = 0;          // ... answered without any arena request (found: registered by the refused call)
  uint64_t retries_over_later = 0;     // ... answered with storage that narrower constants added in between share
  uint64_t consts_after_refusal = 0;   // constants compared (offset, bytes) in an image taken after a refusal
  uint64_t readd_after_refusal = 0;    // earlier constants added again after a refusal (same offset required)
  uint64_t derived_after_refusal = 0;  // halves / quarters / new constants added after a refusal
  uint64_t embeds_after_refusal = 0;   // embed_const_pool() of a pool that refused a request
  uint64_t reuse_after_refusal = 0;    // histories on a pool object that was reset() after refusing a request
  uint64_t max_requests_in_add = 0;
  uint64_t refused_by_index[41] = {0};
  std::map<std::string, uint64_t> refused_by_pos;
  std::map<std::string, uint64_t> fault_embed_paths;
  // dimensions added later (summed by name in c19.py): faults outside add() (pool creation inside _new_const, inside
  // embed_const_pool), typed front-end wrappers, invalid scopes, accessor checks, large / second-section / 32-bit emitters
  std::map<std::string, uint64_t> extra;
  std::unordered_set<uint64_t> distinct_nontrivial;
  std::vector<std::string> samples;
};
static Stats g_stats;
static bool g_keep_hashes = true;
static inline void xhit(const std::string& k, uint64_t n = 1) { g_stats.extra[k] += n; }

// ---------------------------------------------------------------------------------------------------------
// Fault control (hook H1). Requests are counted / failed only while an add() of a history is in progress, so the
// arenas of CodeHolder / emitters are never touched.
// ---------------------------------------------------------------------------------------------------------

struct FaultCtl {
  bool in_add = false;
  uint64_t k = 0;            // fail the k-th request of this add() (1-based), 0 = none
  bool sticky = false;       // ... and every later one of the same add()
  uint64_t requests = 0;     // requests seen in this add()
  uint64_t nodes = 0;        // node-sized requests seen in this add() (the first one is the constant's own node)
  uint64_t fired = 0;        // failures injected in this add()
  uint64_t fired_index = 0;  // ordinal of the first failed request
  const char* fired_pos = "";
  const char* outer = nullptr;   // non-null: the monitored call is not add() but _new_const() / embed_const_pool() (all requests count)
  size_t gap_req = 0, node_req[7] = {0};
  bool gap_distinct = true;
  void init() {
    gap_req = Arena::aligned_size(sizeof(ConstPool::Gap));
    for (int i = 0; i < 7; i++) {
      node_req[i] = Arena::aligned_size(sizeof(ConstPool::Node) + (size_t(1) << i));
      if (node_req[i] == gap_req) gap_distinct = false;
    }
  }
  void begin(uint64_t k_, bool sticky_, const char* outer_ = nullptr) { in_add = true; k = k_; sticky = sticky_; requests = nodes = fired = fired_index = 0; fired_pos = ""; outer = outer_; }
  void end() { in_add = false; k = 0; outer = nullptr; }
};
static FaultCtl F;

static bool fail_hook(size_t size) {
  if (!F.in_add) return false;
  F.requests++;
  bool is_gap = F.gap_distinct && size == F.gap_req;
  if (!is_gap) F.nodes++;
  bool hit = F.k && (F.requests == F.k || (F.sticky && F.requests > F.k));
  if (hit) {
    if (!F.fired) {
      F.fired_index = F.requests;
      if (F.outer) F.fired_pos = F.outer;
      else if (!F.gap_distinct) F.fired_pos = "gap-or-node";
      else if (is_gap) F.fired_pos = "gap-record";
      else if (F.nodes == 1) F.fired_pos = "own-node";
      else if (size == F.node_req[5]) F.fired_pos = "shared-32-byte-node";
      else if (size == F.node_req[4]) F.fired_pos = "shared-16-byte-node";
      else F.fired_pos = "shared-8-or-4-byte-node";
    }
    F.fired++;
  }
  return hit;
}

struct FaultObs { bool armed; uint64_t k; bool sticky; uint64_t fired, fired_index, requests; const char* pos; };

// ---------------------------------------------------------------------------------------------------------
// Data feeder: the constant is handed to asmjit either flush against a poisoned region (an over-read of `data`
// is an ASan report) or from an odd address (a typed load would be a UBSan report). The buffer is scribbled over
// after the call so that a pool keeping a reference to caller memory shows up as wrong contents.
// ---------------------------------------------------------------------------------------------------------

struct Feeder {
  uint8_t* base;
  Feeder() {
    base = (uint8_t*)aligned_alloc(64, 512);
    memset(base, 0xDD, 512);
    V_POISON(base + 256, 256);
  }
  ~Feeder() { V_UNPOISON(base + 256, 256); free(base); }
  const uint8_t* put(const Item& it, bool odd) {
    size_t n = it.bytes.size();
    uint8_t* p = odd ? base + 1 + (n % 7) : base + 256 - n;
    if (n) memcpy(p, it.bytes.data(), n);
    if (it.null_data) return nullptr;
    return p;
  }
  void scribble() { memset(base, 0xDD, 256); }
};
static Feeder g_feed;

// ---------------------------------------------------------------------------------------------------------
// Model + monitor of one pool
// ---------------------------------------------------------------------------------------------------------

struct Snap { size_t size, alignment, min_item; bool empty; uint64_t img_hash; };

static Snap take_snap(const ConstPool* p, bool deep) {
  Snap s{0, 0, 0, true, 0};
  if (!p) return s;
  s.size = p->size();
  s.alignment = p->alignment();
  s.min_item = p->min_item_size();
  s.empty = p->is_empty();
  if (deep && s.size) {
    std::vector<uint8_t> b(s.size, 0x77);
    p->fill(b.data());
    s.img_hash = fnv1a(b.data(), b.size());
  }
  return s;
}

struct Entry {
  size_t off;
  uint32_t size;
  bool verified;
  bool shared;
  uint8_t b[64];
};

// kind: N append, G gap / unowned storage, S shared slot, D dedup, I invalid size refused, F refused after an injected
// allocation failure, P storage assigned by an earlier refused call (narrower constants share it since).
// fk: the |fk|-th arena request of this add() was made to fail (negative: that one and all later ones of the add)
struct HistOp { size_t size; uint8_t nb; uint8_t b[64]; int64_t off; char kind; int32_t fk; };

struct PendingRefusal { size_t entries_at; size_t size; uint8_t b[64]; };

struct Session {
  std::string ctx;                     // "" for the direct API, "emit:<path>:" for emitter paths
  std::vector<uint8_t> img, known;     // expected image of the pool and which bytes are owned by a constant
  std::unordered_map<std::string, uint32_t> seen;  // (size,bytes) -> entry index
  std::unordered_set<uint64_t> ivals;  // (off << 3) | log2(size) of every entry
  std::vector<Entry> entries;
  std::vector<HistOp> hist;
  uint64_t hash = 1469598103934665603ull;
  size_t max_size = 0, max_end = 0;
  uint64_t n_share = 0, n_gap = 0, n_dedup = 0, n_append = 0, n_invalid = 0, n_adds = 0;
  bool failed = false;
  bool reused_pool = false;
  uint64_t hist_dropped = 0;
  // allocation-failure histories
  bool had_refusal = false;            // an add() of a valid size returned an error after an injected failure
  bool had_swallowed = false;          // an injected failure did not make add() fail
  bool pool_saw_refusal = false;       // the pool object refused a request before its last reset()
  int32_t cur_fk = 0;
  std::unordered_map<std::string, PendingRefusal> pending;  // refused constants not handed out yet
  std::vector<uint8_t> ghost, ghost_img;                    // bytes of refused constants that fill() shows (registered by the refused call)

  explicit Session(const std::string& c = "") : ctx(c) {}

  std::string describe_hist() const {
    std::string h = "[";
    size_t n = hist.size();
    size_t from = n > 48 ? n - 48 : 0;
    for (size_t i = from; i < n; i++) {
      char b[64];
      snprintf(b, sizeof b, "%s[%llu,\"", i == from ? "" : ",", (unsigned long long)hist[i].size);
      h += b;
      h += hexstr(hist[i].b, hist[i].nb);
      if (hist[i].fk) snprintf(b, sizeof b, "\",%lld,\"%c\",%d]", (long long)hist[i].off, hist[i].kind, int(hist[i].fk));
      else snprintf(b, sizeof b, "\",%lld,\"%c\"]", (long long)hist[i].off, hist[i].kind);
      h += b;
    }
    return h + "]";
  }

  void fail(const std::string& key0, const std::string& what) {
    failed = true;
    std::string key = ctx + key0;
    if (had_refusal) key += ":after-refused-request";
    else if (had_swallowed) key += ":after-swallowed-allocation-failure";
    else if (pool_saw_refusal) key += ":pool-reset-after-refused-request";
    for (auto& v : g_viol) if (v.key == key) return;
    if (g_viol.size() >= 40) return;
    std::string note;
    if (had_refusal || had_swallowed)
      note = " [history with injected arena failures: 5th field n = the n-th arena request made inside that add() failed (negative: that one and all later ones of the call); kind F = add() returned an error]";
    if (pool_saw_refusal) note += " [this pool object refused a request before its last reset()]";
    g_viol.push_back({key, what + (reused_pool ? " (pool object reused after reset())" : " (fresh pool)") + note +
                               " adds_so_far=" + std::to_string(n_adds) + " history_tail[size,bytes,offset,kind]=" + describe_hist()});
    // also written at once: a driver that dies later (a corrupted pool can allocate without bound until the RSS limit
    // ends the process) must not take the counterexamples it has already witnessed with it
    printf("{\"early_violation\":{\"key\":%s,\"what\":%s}}\n", jstr(g_viol.back().key).c_str(), jstr(g_viol.back().what).c_str());
    fflush(stdout);
  }

  void log(const Item& it, int64_t off, char kind) {
    HistOp h;
    h.size = it.size;
    h.nb = uint8_t(std::min<size_t>(it.bytes.size(), 64));
    if (h.nb) memcpy(h.b, it.bytes.data(), h.nb);
    h.off = off;
    h.kind = kind;
    h.fk = cur_fk;
    if (cur_fk) { hash = fnv1a(&cur_fk, sizeof cur_fk, hash); cur_fk = 0; }
    if (hist.size() >= 4096) { hist.erase(hist.begin(), hist.begin() + 2048); hist_dropped += 2048; }
    hist.push_back(h);
    uint64_t w = it.size;
    hash = fnv1a(&w, sizeof w, hash);
    if (!it.bytes.empty()) hash = fnv1a(it.bytes.data(), it.bytes.size(), hash);
  }

  // The oracle for one add(): `err`/`off` is what asmjit answered, `before` the pool state before the call.
  void record(const Item& it, Error err, size_t off, const Snap& before, const ConstPool* pool, bool deep, const FaultObs* fo = nullptr) {
    n_adds++;
    g_stats.adds++;
    char sz[32];
    snprintf(sz, sizeof sz, "size=%llu", (unsigned long long)it.size);

    if (!valid_size(it.size)) {
      log(it, -1, 'I');
      if (err == Error::kOk) {
        fail(std::string("invalid-size-accepted:") + sz, std::string("add() with invalid ") + sz + " returned kOk, offset " + std::to_string(off));
        return;
      }
      Snap after = take_snap(pool, deep);
      if (after.size != before.size || after.alignment != before.alignment || after.min_item != before.min_item ||
          after.empty != before.empty || (deep && after.img_hash != before.img_hash)) {
        fail(std::string("invalid-size-changed-pool:") + sz, std::string("refused add() with ") + sz + " changed the pool: size " +
             std::to_string(before.size) + "->" + std::to_string(after.size) + " alignment " + std::to_string(before.alignment) + "->" +
             std::to_string(after.alignment));
        return;
      }
      n_invalid++;
      g_stats.invalid_rejected++;
      return;
    }

    g_stats.valid_adds++;
    g_stats.by_size[log2u(it.size)]++;
    if (fo && fo->fired) {
      if (err != Error::kOk) {
        // Refused request. The call may have registered nothing or a part (the constant itself and some of its shared
        // sub-patterns); nothing is required of it except that what was handed out before stays intact.
        if (!had_refusal) g_stats.fault_histories++;
        had_refusal = true;
        g_stats.refused++;
        g_stats.refused_by_index[std::min<uint64_t>(fo->fired_index, 40)]++;
        g_stats.refused_by_pos[fo->pos]++;
        log(it, -1, 'F');
        {
          PendingRefusal pr;
          pr.entries_at = entries.size();
          pr.size = it.size;
          memcpy(pr.b, it.bytes.data(), it.size);
          pending.emplace(it.key(), pr);
        }
        note_refusal(*pool, it);
        return;
      }
      had_swallowed = true;
      g_stats.fault_swallowed++;
    }
    if (err != Error::kOk) {
      log(it, -1, 'E');
      fail(std::string("valid-size-refused:") + sz, std::string("add() with valid ") + sz + " failed with error " + std::to_string(unsigned(err)) +
           (had_refusal || had_swallowed ? " although no arena request of this call was made to fail" : " although no allocation fault was injected"));
      return;
    }
    size_t size = it.size;
    size_t psize = pool->size();
    if (off % size != 0) {
      log(it, int64_t(off), 'M');
      fail(std::string("misaligned-offset:") + sz, "offset " + std::to_string(off) + " is not a multiple of the constant's " + sz);
      return;
    }
    if (off > psize || size > psize - off) {
      log(it, int64_t(off), 'R');
      fail(std::string("offset-outside-pool:") + sz, "offset " + std::to_string(off) + " + " + sz + " exceeds size() = " + std::to_string(psize));
      return;
    }
    if (pool->alignment() < size || (pool->alignment() & (pool->alignment() - 1)) != 0) {
      log(it, int64_t(off), 'A');
      fail(std::string("alignment-not-covering:") + sz, "alignment() = " + std::to_string(pool->alignment()) + " after adding a constant of " + sz);
      return;
    }
    // a pool that has just handed out an offset reports a size that covers it (checked above) and is not "empty"
    if (pool->is_empty()) {
      log(it, int64_t(off), 'A');
      fail("is-empty-after-successful-add", "is_empty() is true after add() handed out offset " + std::to_string(off) + " (size() = " + std::to_string(psize) + ")");
      return;
    }
    g_stats.extra["is_empty_checked_after_successful_add"]++;

    std::string k = it.key();
    auto f = seen.find(k);
    if (f != seen.end()) {
      log(it, int64_t(off), 'D');
      const Entry& e = entries[f->second];
      if (e.off != off) {
        fail(std::string("same-constant-different-offset:") + sz, std::string("constant ") + hexstr(it.bytes.data(), size) + " (" + sz + ") got offset " +
             std::to_string(e.off) + " first and " + std::to_string(off) + " when added again");
        return;
      }
      n_dedup++;
      g_stats.dedup++;
      return;
    }

    if (img.size() < psize) { img.resize(psize, 0); known.resize(psize, 0); }
    size_t nknown = 0;
    bool conflict = false;
    for (size_t i = 0; i < size; i++) {
      if (known[off + i]) { nknown++; if (img[off + i] != it.bytes[i]) conflict = true; }
    }
    bool inside_wider = false;
    size_t wider_off = 0, wider_size = 0;
    for (size_t S = size * 2; S <= 64; S <<= 1) {
      size_t start = off & ~(S - 1);
      if (ivals.count((uint64_t(start) << 3) | log2u(S))) { inside_wider = true; wider_off = start; wider_size = S; break; }
    }
    char kind;
    if (inside_wider) {
      kind = 'S';
      if (conflict || nknown != size) {
        log(it, int64_t(off), 'X');
        fail(std::string("shared-slot-bytes-differ:") + sz, std::string("new constant ") + hexstr(it.bytes.data(), size) + " (" + sz + ") was placed at offset " +
             std::to_string(off) + " inside the " + std::to_string(wider_size) + "-byte constant at " + std::to_string(wider_off) +
             " whose bytes there are " + hexstr(&img[off], size));
        return;
      }
      n_share++;
      g_stats.sharing++;
    }
    else if (nknown == 0) {
      if (off + size <= before.size) { kind = 'G'; n_gap++; g_stats.gap_reuse++; }
      else { kind = 'N'; n_append++; g_stats.append++; }
    }
    else if (!conflict && overlap_explained_by_refusal(it, off)) {
      // A refused call had assigned this storage already - to this constant or to a wider one this constant is an aligned
      // slice of (both findable since then); the narrower constants handed out in between were placed into it as shared
      // slots with equal bytes.
      kind = 'P';
      g_stats.retries_over_later++;
    }
    else {
      log(it, int64_t(off), 'X');
      fail(std::string("distinct-storage-overlap:") + sz, std::string("new constant ") + hexstr(it.bytes.data(), size) + " (" + sz + ") was given offset " +
           std::to_string(off) + " where " + std::to_string(nknown) + " byte(s) already belong to other constants (bytes there: " +
           hexstr(&img[off], size) + (conflict ? ", different" : ", equal") + ") and no wider constant contains the slot");
      return;
    }
    log(it, int64_t(off), kind);
    {
      auto pf = pending.find(k);
      if (pf != pending.end()) {
        g_stats.retries++;
        if (fo && fo->requests == 0) g_stats.retries_dedup++;
        pending.erase(pf);
      }
    }
    for (size_t i = 0; i < size; i++) { img[off + i] = it.bytes[i]; known[off + i] = 1; }
    Entry e;
    e.off = off;
    e.size = uint32_t(size);
    e.verified = false;
    e.shared = inside_wider;
    memcpy(e.b, it.bytes.data(), size);
    seen.emplace(std::move(k), uint32_t(entries.size()));
    entries.push_back(e);
    ivals.insert((uint64_t(off) << 3) | log2u(size));
    max_size = std::max(max_size, size);
    max_end = std::max(max_end, off + size);
  }

  // A new constant came back with an offset whose bytes partly belong to other constants (equal bytes). Fine iff a
  // refused, not yet handed out constant R explains it: the new constant is R itself or an aligned slice of R at a
  // position consistent with one R-aligned placement of R, and everything it overlaps is narrower, lies completely
  // inside and was handed out after R was refused (i.e. was shared into R's storage).
  bool overlap_explained_by_refusal(const Item& it, size_t off) const {
    size_t size = it.size;
    for (auto& kv : pending) {
      const PendingRefusal& R = kv.second;
      if (R.size < size) continue;
      for (size_t pos = 0; pos < R.size; pos += size) {
        if (off < pos || (off - pos) % R.size != 0 || memcmp(R.b + pos, it.bytes.data(), size) != 0) continue;
        uint8_t cov[64] = {0};
        for (size_t i = R.entries_at; i < entries.size(); i++) {
          const Entry& e = entries[i];
          if (e.size < size && e.off >= off && e.off + e.size <= off + size) memset(cov + (e.off - off), 1, e.size);
        }
        bool ok = true;
        for (size_t i = 0; i < size && ok; i++) if (known[off + i] && !cov[i]) ok = false;
        if (ok) return true;
      }
    }
    return false;
  }

  // After a refused add(): bytes of the refused constant that fill() shows in storage owned by nobody are remembered
  // (the call registered the constant before it failed) so that they are not taken for garbage in a gap.
  void note_refusal(const ConstPool& pool, const Item& it) {
    size_t n = pool.size();
    size_t size = it.size;
    if (!n) return;
    std::vector<uint8_t> b(n, 0x55);
    pool.fill(b.data());
    if (img.size() < n) { img.resize(n, 0); known.resize(n, 0); }
    if (ghost.size() < n) { ghost.resize(n, 0); ghost_img.resize(n, 0); }
    bool any = false;
    for (size_t i = 0; i < n; i++) {
      if (known[i] || b[i] == 0 || (ghost[i] && ghost_img[i] == b[i])) continue;
      size_t o = i & ~(size - 1);
      if (o + size > n || memcmp(b.data() + o, it.bytes.data(), size) != 0) continue;  // left to verify_fill()
      for (size_t j = 0; j < size; j++) if (!known[o + j]) { ghost[o + j] = 1; ghost_img[o + j] = it.bytes[j]; }
      any = true;
    }
    if (any) g_stats.refused_left_bytes++;
  }

  // add() through the direct API. fault_k != 0: the fault_k-th arena request made inside this call fails (sticky: and
  // every later one of this call).
  Error add_direct(ConstPool& pool, const Item& it, bool deep, bool odd_ptr, uint64_t fault_k = 0, bool sticky = false) {
    Snap before = take_snap(&pool, deep && !valid_size(it.size));
    const uint8_t* p = g_feed.put(it, odd_ptr);
    size_t off = size_t(0xDEADBEEFDEADull);
    F.begin(fault_k, sticky);
    Error err = pool.add(p, it.size, Out<size_t>(off));
    F.end();
    g_feed.scribble();
    FaultObs fo{fault_k != 0, fault_k, sticky, F.fired, F.fired_index, F.requests, F.fired_pos};
    g_stats.max_requests_in_add = std::max(g_stats.max_requests_in_add, F.requests);
    if (fault_k) {
      g_stats.fault_armed++;
      if (F.fired) { g_stats.fault_fired++; cur_fk = sticky ? -int32_t(fault_k) : int32_t(fault_k); }
    }
    record(it, err, off, before, &pool, deep, &fo);
    cur_fk = 0;
    return err;
  }

  // Checks the scalar accessors and an image (`image` = n bytes that are claimed to be the written-out pool).
  bool check_image(const uint8_t* image, size_t n, size_t alignment, const char* where) {
    if (n < max_end) {
      fail("size-not-covering", std::string(where) + ": size() = " + std::to_string(n) + " but a constant ends at " + std::to_string(max_end));
      return false;
    }
    if (!entries.empty() && (alignment < max_size || (alignment & (alignment - 1)) != 0)) {
      fail("alignment-not-covering:final", std::string(where) + ": alignment() = " + std::to_string(alignment) + " but a constant of size " + std::to_string(max_size) + " was added");
      return false;
    }
    for (size_t i = 0; i < entries.size(); i++) {
      Entry& e = entries[i];
      if (memcmp(image + e.off, e.b, e.size) != 0) {
        char sz[32];
        snprintf(sz, sizeof sz, "size=%u", e.size);
        fail(std::string(e.verified ? "offset-invalidated-by-later-add:" : "written-bytes-differ:") + sz,
             std::string(where) + ": bytes at offset " + std::to_string(e.off) + " are " + hexstr(image + e.off, e.size) + " but the constant added there (#" +
             std::to_string(i) + ", " + sz + (e.shared ? ", shared slot" : "") + ") is " + hexstr(e.b, e.size) +
             (e.verified ? "; the same offset held the right bytes at an earlier checkpoint" : ""));
        return false;
      }
      e.verified = true;
    }
    size_t m = std::min(n, img.size());
    for (size_t i = 0; i < n; i++) {
      bool kn = i < m && known[i];
      if (!kn && image[i] != 0 && !(i < ghost.size() && ghost[i] && ghost_img[i] == image[i])) {
        fail("gap-not-zero", std::string(where) + ": byte " + std::to_string(i) + " belongs to no constant but is 0x" + hexstr(image + i, 1) + " (size() = " + std::to_string(n) + ")");
        return false;
      }
    }
    g_stats.bytes_compared += n;
    if (had_refusal) g_stats.consts_after_refusal += entries.size();
    return true;
  }

  // Fresh fill() into a guard-banded buffer whose every byte differs from what must be written.
  void verify_fill(const ConstPool& pool, bool exact_heap) {
    if (failed) return;
    size_t n = pool.size();
    const size_t G = 64;
    size_t shift = size_t(hash % 8);
    std::vector<uint8_t> buf(G + 8 + n + G);
    uint8_t* dst = buf.data() + G + shift;
    memset(buf.data(), 0xC3, buf.size());
    size_t m = std::min(n, img.size());
    for (size_t i = 0; i < n; i++) dst[i] = (i < m && known[i]) ? uint8_t(~img[i]) : uint8_t(0xFF);
    pool.fill(dst);
    g_stats.fills++;
    for (size_t i = 0; i < G + shift; i++) if (buf[i] != 0xC3) { fail("fill-wrote-before-buffer", "fill() changed the byte " + std::to_string(G + shift - i) + " before dst"); return; }
    for (size_t i = G + shift + n; i < buf.size(); i++) if (buf[i] != 0xC3) { fail("fill-wrote-past-size", "fill() changed the byte at dst + size() + " + std::to_string(i - (G + shift + n)) + " (size() = " + std::to_string(n) + ")"); return; }
    if (!check_image(dst, n, pool.alignment(), "after fill()")) return;
    if (exact_heap && n) {
      // exactly size() bytes on the heap: anything beyond is an ASan report
      std::unique_ptr<uint8_t[]> ex(new uint8_t[n]);
      memset(ex.get(), 0xFF, n);
      pool.fill(ex.get());
      g_stats.fills++;
      if (memcmp(ex.get(), dst, n) != 0) fail("fill-not-deterministic", "two fill() calls of the same pool produced different bytes");
    }
  }
};

// ---------------------------------------------------------------------------------------------------------
// Pool holder: fresh or reset()+reused pool objects
// ---------------------------------------------------------------------------------------------------------

struct PoolHolder {
  std::unique_ptr<Arena> arena;
  std::unique_ptr<ConstPool> pool;
  bool reused = false;
  bool saw_refusal = false;   // this pool object refused a request (stays set over reset(): that is the point)
  uint64_t uses = 0;

  void fresh(size_t block) {
    pool.reset();
    arena.reset(new Arena(block));
    pool.reset(new ConstPool(*arena));
    reused = false;
    saw_refusal = false;
  }
  // mode 0: pool.reset() + arena.reset(); 1: pool.reset() only (arena keeps old nodes); 2: new ConstPool on the reset arena
  bool recycle(int mode, Session* last) {
    if (!pool) return false;
    if (mode == 2) {
      pool.reset();
      arena->reset();
      pool.reset(new ConstPool(*arena));
    }
    else {
      pool->reset();
      if (mode == 0) arena->reset();
    }
    g_stats.resets++;
    reused = true;
    if (pool->size() != 0 || pool->alignment() != 0 || !pool->is_empty()) {
      Session s;
      if (last) s.hist = last->hist;
      s.reused_pool = true;
      s.pool_saw_refusal = saw_refusal;
      s.fail("reset-residue", "after reset(): size() = " + std::to_string(pool->size()) + " alignment() = " + std::to_string(pool->alignment()));
      return false;
    }
    return true;
  }
};

static void finish_sequence(Session& s, size_t len) {
  g_stats.sequences++;
  g_stats.max_len = std::max<uint64_t>(g_stats.max_len, len);
  if (s.n_share + s.n_gap > 0) {
    g_stats.nontrivial++;
    if (g_keep_hashes) g_stats.distinct_nontrivial.insert(s.hash);
    if (g_stats.samples.size() < 3 && s.hist.size() <= 24 && !s.failed && s.n_share && s.n_gap)
      g_stats.samples.push_back(s.describe_hist());
  }
}

// ---------------------------------------------------------------------------------------------------------
// Bounded-exhaustive enumeration
// ---------------------------------------------------------------------------------------------------------

static std::vector<Item> alphabet(unsigned k) {
  uint8_t W[64];
  for (int i = 0; i < 64; i++) W[i] = uint8_t(0x40 + i);
  uint8_t Z[64] = {0};
  uint8_t A[4] = {0x11, 0x22, 0x33, 0x44}, B[4] = {0x55, 0x66, 0x77, 0x88};
  uint8_t AB[16], BA[8];
  for (int r = 0; r < 2; r++) { memcpy(AB + r * 8, A, 4); memcpy(AB + r * 8 + 4, B, 4); }
  memcpy(BA, B, 4); memcpy(BA + 4, A, 4);
  uint8_t U[64];
  for (int i = 0; i < 64; i++) U[i] = uint8_t(0x90 + i);
  uint8_t V[64];
  for (int i = 0; i < 64; i++) V[i] = uint8_t(0xD0 ^ (i * 5));
  std::vector<Item> a;
  switch (k) {
    case 0:  // alignment churn, all contents distinct
      a = { mk_item(1, U, 1), mk_item(8, U + 8, 8), mk_item(2, U + 2, 2), mk_item(16, U + 16, 16), mk_item(4, U + 4, 4), mk_item(32, U + 32, 32) };
      break;
    case 1:  // halves / quarters of a 16-byte constant, plus an unaligned slice
      a = { mk_item(16, W, 16), mk_item(8, W, 8), mk_item(8, W + 8, 8), mk_item(4, W, 4), mk_item(4, W + 12, 4), mk_item(8, W + 4, 8) };
      break;
    case 2:  // invalid sizes between valid ones
      a = { mk_item(1, W, 1), mk_invalid(3, 0x40), mk_item(64, W, 64), mk_item(2, W, 2), mk_invalid(0, 0), mk_item(4, W, 4) };
      break;
    case 3:  // every level of a 64-byte constant
      a = { mk_item(64, W, 64), mk_item(32, W + 32, 32), mk_item(16, W + 16, 16), mk_item(8, W + 8, 8), mk_item(4, W + 60, 4), mk_item(1, W, 1) };
      break;
    case 4:  // all-zero constants of every size (equal bytes, different sizes)
      a = { mk_item(1, Z, 1), mk_item(2, Z, 2), mk_item(4, Z, 4), mk_item(8, Z, 8), mk_item(16, Z, 16), mk_item(32, Z, 32) };
      break;
    case 5:  // several gaps of the same size
      a = { mk_item(1, U, 1), mk_item(1, U + 1, 1), mk_item(2, U + 2, 2), mk_item(2, U + 4, 2), mk_item(8, U + 8, 8), mk_item(16, U + 16, 16) };
      break;
    case 6:  // narrow first, then wider constants made of them; one invalid size
      a = { mk_item(4, A, 4), mk_item(4, B, 4), mk_item(8, AB, 8), mk_item(16, AB, 16), mk_item(8, BA, 8), mk_invalid(65, 0x11) };
      break;
    case 7:  // big gaps (up to 63 bytes) and refills
      a = { mk_item(32, V, 32), mk_item(32, V + 32, 32), mk_item(64, W, 64), mk_item(1, V, 1), mk_item(2, U, 2), mk_item(4, U + 4, 4) };
      break;
    default: // 8: 4- and 8-byte gaps, sharing at two levels, invalid 128
      a = { mk_item(4, W + 16, 4), mk_item(8, W + 24, 8), mk_item(32, W, 32), mk_item(16, W + 16, 16), mk_item(1, W + 63, 1), mk_invalid(128, 0x40) };
      break;
  }
  return a;
}
static const unsigned kAlphabets = 9;

static void run_exh(const Args& args) {
  unsigned alpha = unsigned(args.u64("alpha", 0));
  unsigned L = unsigned(args.u64("len", 6));
  uint64_t shards = args.u64("shards", 1), shard = args.u64("shard", 0);
  bool always_fresh = args.has("fresh");
  std::vector<Item> A = alphabet(alpha);
  size_t K = A.size();
  uint64_t total = 1;
  for (unsigned i = 0; i < L; i++) total *= K;
  g_keep_hashes = false;  // sequences are distinct by construction
  PoolHolder ph;
  ph.fresh(4096);
  std::vector<unsigned> digits(L);
  Session* last = nullptr;
  std::unique_ptr<Session> keep;
  for (uint64_t idx = shard; idx < total; idx += shards) {
    uint64_t x = idx;
    for (unsigned i = 0; i < L; i++) { digits[i] = unsigned(x % K); x /= K; }
    if (always_fresh || ph.uses % 509 == 0) ph.fresh(ph.uses % 3 == 0 ? 1024 : 4096);
    else if (!ph.recycle(int(ph.uses % 3), last)) break;
    ph.uses++;
    if (ph.reused) g_stats.pool_reuse++;
    std::unique_ptr<Session> s(new Session());
    s->reused_pool = ph.reused;
    for (unsigned i = 0; i < L && !s->failed; i++) {
      s->add_direct(*ph.pool, A[digits[i]], true, ((idx + i) & 3) == 3);
      if (!s->failed) s->verify_fill(*ph.pool, i + 1 == L);
    }
    g_stats.max_pool_size = std::max<uint64_t>(g_stats.max_pool_size, ph.pool->size());
    finish_sequence(*s, L);
    bool failed = s->failed;
    keep = std::move(s);
    last = keep.get();
    if (failed && g_viol.size() >= 8) break;
    if (failed) ph.fresh(4096);
  }
}

// ---------------------------------------------------------------------------------------------------------
// Random / adversarial sequences
// ---------------------------------------------------------------------------------------------------------

struct Gen {
  Rng r;
  unsigned natoms = 3;
  uint8_t atoms[8][4];
  unsigned p_invalid = 6, p_repeat = 10, p_derive = 15, p_super = 5, p_fresh = 10;  // out of 100
  std::vector<size_t> pattern;  // size pattern (empty: random sizes)
  uint64_t counter = 0;
  uint64_t salt = 0;
  std::vector<Item> made;       // valid items made so far (bounded)
  unsigned max_size_log2 = 6;

  explicit Gen(Rng rr) : r(rr) {}

  void setup(unsigned profile) {
    natoms = unsigned(r.range(2, 6));
    for (unsigned i = 0; i < natoms; i++) {
      unsigned style = unsigned(r.below(4));
      for (int j = 0; j < 4; j++)
        atoms[i][j] = style == 0 ? 0 : style == 1 ? uint8_t(0x11 * (i + 1)) : uint8_t(r.next());
    }
    salt = r.next();
    switch (profile) {
      case 0: break;                                                            // small alphabet, random sizes
      case 1: p_derive = 40; p_super = 10; p_fresh = 5; break;                  // halves / quarters heavy
      case 2: p_fresh = 70; p_repeat = 5; p_derive = 5; p_super = 0;            // alignment churn with unique values
        switch (r.below(6)) {
          case 0: pattern = {1, 8, 1, 16, 2, 32, 1, 64, 4, 8, 2, 64}; break;
          case 1: pattern = {64, 32, 16, 8, 4, 2, 1}; break;
          case 2: pattern = {1, 2, 4, 8, 16, 32, 64}; break;
          case 3: pattern = {1, 64}; break;
          case 4: pattern = {1, 2, 1, 4, 1, 8, 1, 16, 1, 32, 1, 64}; break;
          default: pattern = {2, 16, 2, 2, 32, 4, 4, 64, 8, 1, 1, 1}; break;
        }
        break;
      case 3: max_size_log2 = 2; p_fresh = 0; p_derive = 10; p_super = 10; break;  // sizes 1,2,4 over a tiny alphabet: dedup heavy
      case 4: p_invalid = 25; break;                                            // many invalid sizes
      default: p_fresh = 30; p_derive = 25; p_super = 10; break;                // everything
    }
  }

  Item from_atoms(size_t size) {
    uint8_t b[64];
    if (size >= 4) {
      for (size_t i = 0; i < size; i += 4) memcpy(b + i, atoms[r.below(natoms)], 4);
    }
    else {
      const uint8_t* a = atoms[r.below(natoms)];
      size_t o = size == 2 ? size_t(r.below(2)) * 2 : size_t(r.below(4));
      memcpy(b, a + o, size);
    }
    return mk_item(size, b, size);
  }

  Item fresh(size_t size) {
    uint8_t b[64];
    uint64_t c = ++counter;
    for (size_t i = 0; i < size; i++) {
      uint64_t z = (c + salt) * 0x9E3779B97F4A7C15ull + i * 0xD1B54A32D192ED03ull;
      b[i] = uint8_t(z >> 56);
    }
    // make it unique for sizes that can hold the counter
    if (size >= 4) { uint32_t c32 = uint32_t(c); memcpy(b, &c32, 4); }
    else if (size == 2) { uint16_t c16 = uint16_t(c); memcpy(b, &c16, 2); }
    else b[0] = uint8_t(c);
    return mk_item(size, b, size);
  }

  size_t pick_size(unsigned step) {
    if (!pattern.empty()) return pattern[step % pattern.size()];
    return size_t(1) << r.below(max_size_log2 + 1);
  }

  Item next(unsigned step) {
    unsigned x = unsigned(r.below(100));
    Item it;
    bool is_valid = true;
    if (x < p_invalid) {
      size_t s = kInvalidSizes[r.below(sizeof(kInvalidSizes) / sizeof(kInvalidSizes[0]))];
      it = mk_invalid(s, uint8_t(r.next()));
      if (s == 0 && r.chance(1, 2)) it.null_data = true;
      is_valid = false;
    }
    else if ((x -= p_invalid) < p_repeat && !made.empty()) {
      it = made[r.below(made.size())];
    }
    else if ((x -= p_repeat) < p_derive && !made.empty()) {
      const Item& w = made[r.below(made.size())];
      if (w.size >= 2) {
        size_t sub = w.size >> r.range(1, std::min<uint64_t>(3, log2u(w.size)));
        size_t o = r.chance(1, 6) ? size_t(r.below(w.size - sub + 1)) : sub * size_t(r.below(w.size / sub));
        it = mk_item(sub, w.bytes.data() + o, sub);
      }
      else it = w;
    }
    else if ((x -= p_derive) < p_super && made.size() >= 2) {
      const Item& a = made[r.below(made.size())];
      const Item* b = nullptr;
      for (int t = 0; t < 8 && !b; t++) { const Item& c = made[r.below(made.size())]; if (c.size == a.size) b = &c; }
      if (b && a.size <= 32) {
        uint8_t buf[64];
        memcpy(buf, a.bytes.data(), a.size);
        memcpy(buf + a.size, b->bytes.data(), a.size);
        it = mk_item(a.size * 2, buf, a.size * 2);
      }
      else it = from_atoms(pick_size(step));
    }
    else if ((x -= p_super) < p_fresh) {
      it = fresh(pick_size(step));
    }
    else {
      it = from_atoms(pick_size(step));
    }
    if (is_valid) {
      if (made.size() < 256) made.push_back(it);
      else made[r.below(256)] = it;
    }
    return it;
  }
};

static void run_one_random(PoolHolder& ph, Rng rr, size_t minlen, size_t maxlen, bool always_fresh, Session** last_out, std::unique_ptr<Session>& keep) {
  Rng r = rr;
  unsigned profile = unsigned(r.below(6));
  Gen g(r.fork(1));
  g.setup(profile);
  size_t len;
  uint64_t c = r.below(100);
  if (c < 55) len = size_t(r.range(1, 24));
  else if (c < 88) len = size_t(r.range(25, 200));
  else len = size_t(r.range(201, std::max<size_t>(maxlen, 202)));
  if (minlen) len = size_t(r.range(minlen, std::max(minlen, maxlen)));
  if (len > maxlen) len = maxlen;

  if (always_fresh || !ph.pool || r.chance(1, 3)) {
    static const size_t blocks[] = {1024, 4096, 32768, 65536};
    ph.fresh(blocks[r.below(4)]);
  }
  else if (!ph.recycle(int(r.below(3)), *last_out)) return;
  if (ph.reused) g_stats.pool_reuse++;

  std::unique_ptr<Session> s(new Session());
  s->reused_pool = ph.reused;
  bool noise = r.chance(1, 3);
  size_t every = len <= 48 ? 1 : std::max<size_t>(1, len / 24);
  for (size_t i = 0; i < len && !s->failed; i++) {
    Item it = g.next(unsigned(i));
    bool deep = len <= 48 || r.chance(1, 8);
    s->add_direct(*ph.pool, it, deep, r.chance(1, 4));
    if (noise && r.chance(1, 4)) {
      // unrelated allocations from the same arena between adds (as the Builder's arena is shared)
      size_t n = Arena::aligned_size(size_t(r.range(1, 200)));
      void* p = ph.arena->alloc_oneshot<void>(n);
      if (p) memset(p, 0xEE, n);
    }
    if (!s->failed && ((i + 1) % every == 0 || i < 32)) s->verify_fill(*ph.pool, false);
  }
  // every earlier constant, added again, must come back with its old offset
  if (!s->failed) {
    std::vector<Entry> es = s->entries;
    for (size_t i = 0; i < es.size() && !s->failed; i++) {
      if (es.size() > 400 && !r.chance(400, es.size())) continue;
      Item it = mk_item(es[i].size, es[i].b, es[i].size);
      s->add_direct(*ph.pool, it, false, false);
      g_stats.readd_checks++;
    }
  }
  if (!s->failed) s->verify_fill(*ph.pool, true);
  g_stats.max_pool_size = std::max<uint64_t>(g_stats.max_pool_size, ph.pool->size());
  finish_sequence(*s, len);
  bool failed = s->failed;
  keep = std::move(s);
  *last_out = keep.get();
  if (failed) ph.pool.reset(), ph.arena.reset();
}

static void run_random(const Args& args) {
  uint64_t seqs = args.u64("seqs", 100);
  size_t maxlen = size_t(args.u64("maxlen", 1500));
  size_t minlen = size_t(args.u64("minlen", 0));
  Rng top(args.u64("seed", 1));
  bool always_fresh = args.has("fresh");
  PoolHolder ph;
  Session* last = nullptr;
  std::unique_ptr<Session> keep;
  for (uint64_t i = 0; i < seqs; i++) {
    run_one_random(ph, top.fork(i + 1), minlen, maxlen, always_fresh, &last, keep);
    if (g_viol.size() >= 8) break;
  }
}

// ---------------------------------------------------------------------------------------------------------
// Pools written out by real emitters
// ---------------------------------------------------------------------------------------------------------

struct EmitPool {
  std::unique_ptr<Session> s;
  ConstPoolNode* node = nullptr;
  uint32_t label_id = Globals::kInvalidId;
  std::vector<uint8_t> expect_known, expect_img;  // unused for compiler pools (the session is final there)
};

static void path_hit(const char* p) { g_stats.emit_paths[p]++; }

// Checks the bytes of the section at label + offset for a pool described by session `s`.
static void check_section(Session& s, CodeHolder& code, uint32_t label_id, size_t pool_size, size_t pool_alignment, const char* where) {
  if (s.failed) return;
  if (!code.is_label_valid(label_id) || !code.is_label_bound(label_id)) {
    s.fail("pool-label-not-bound", std::string(where) + ": the label of the constant pool is not bound after finalize");
    return;
  }
  const LabelEntry& le = code.label_entry_of(label_id);
  Section* sect = code.section_by_id(le.section_id());
  uint64_t lo = le.offset();
  if (pool_alignment > 1 && lo % pool_alignment != 0) {
    s.fail("pool-label-misaligned", std::string(where) + ": pool label bound at section offset " + std::to_string(lo) + " but alignment() = " + std::to_string(pool_alignment));
    return;
  }
  if (s.max_size > 1 && lo % s.max_size != 0) {
    s.fail("pool-label-misaligned-for-largest-constant", std::string(where) + ": pool label bound at section offset " + std::to_string(lo) +
           " but a constant of size " + std::to_string(s.max_size) + " was handed out (alignment() = " + std::to_string(pool_alignment) + ")");
    return;
  }
  if (lo + pool_size > sect->buffer_size()) {
    s.fail("pool-past-section-end", std::string(where) + ": label offset " + std::to_string(lo) + " + size() " + std::to_string(pool_size) + " > section size " + std::to_string(sect->buffer_size()));
    return;
  }
  s.check_image(sect->data() + lo, pool_size, pool_alignment, where);
  g_stats.emit_pools++;
}

#if ASMJIT_ARCH_X86 == 64
#define V_CAN_EXEC 1
#else
#define V_CAN_EXEC 0
#endif

struct LoadRec { size_t out_pos; size_t size; uint8_t b[64]; };

// ---- typed front-end wrappers (x86::Compiler / a64::Compiler: new_const, new_byte_const ... new_double_const) -------------

template<class T> static T val_of(const Item& it) { T v; memcpy(&v, it.bytes.data(), sizeof(T)); return v; }

// the sized wrappers have different names (and different widths per name) on the two architectures
static x86::Mem wrap_sized(x86::Compiler& cc, ConstPoolScope sc, const Item& it, const char*& name) {
  switch (it.size) {
    case 1: name = "x86:new_byte_const"; return cc.new_byte_const(sc, val_of<uint8_t>(it));
    case 2: name = "x86:new_word_const"; return cc.new_word_const(sc, val_of<uint16_t>(it));
    case 4: name = "x86:new_dword_const"; return cc.new_dword_const(sc, val_of<uint32_t>(it));
    default: name = "x86:new_qword_const"; return cc.new_qword_const(sc, val_of<uint64_t>(it));
  }
}
static a64::Mem wrap_sized(a64::Compiler& cc, ConstPoolScope sc, const Item& it, const char*& name) {
  switch (it.size) {
    case 1: name = "a64:new_byte_const"; return cc.new_byte_const(sc, val_of<uint8_t>(it));
    case 2: name = "a64:new_half_const"; return cc.new_half_const(sc, val_of<uint16_t>(it));
    case 4: name = "a64:new_word_const"; return cc.new_word_const(sc, val_of<uint32_t>(it));
    default: name = "a64:new_dword_const"; return cc.new_dword_const(sc, val_of<uint64_t>(it));
  }
}

// variant 0: sized name; 1: signed; 2: unsigned; 3: float / double; 4: new_const(scope, data, size). Only for sizes 1, 2, 4, 8.
template<class CC, class MemT>
static MemT call_wrapper(CC& cc, const char* arch, ConstPoolScope sc, const Item& it, unsigned variant, const uint8_t* p, std::string& name) {
  const char* nm = nullptr;
  MemT m;
  if (variant == 3 && it.size == 4) { float v = val_of<float>(it); if (v != v) variant = 2; }
  if (variant == 3 && it.size == 8) { double v = val_of<double>(it); if (v != v) variant = 2; }
  if (it.size == 1 && variant != 4) variant = 0;
  if (it.size == 2 && variant == 3) variant = 1;
  switch (variant) {
    case 0: m = wrap_sized(cc, sc, it, nm); name = nm; return m;
    case 1:
      if (it.size == 2) { nm = "new_int16_const"; m = cc.new_int16_const(sc, val_of<int16_t>(it)); }
      else if (it.size == 4) { nm = "new_int32_const"; m = cc.new_int32_const(sc, val_of<int32_t>(it)); }
      else { nm = "new_int64_const"; m = cc.new_int64_const(sc, val_of<int64_t>(it)); }
      break;
    case 2:
      if (it.size == 2) { nm = "new_uint16_const"; m = cc.new_uint16_const(sc, val_of<uint16_t>(it)); }
      else if (it.size == 4) { nm = "new_uint32_const"; m = cc.new_uint32_const(sc, val_of<uint32_t>(it)); }
      else { nm = "new_uint64_const"; m = cc.new_uint64_const(sc, val_of<uint64_t>(it)); }
      break;
    case 3:
      if (it.size == 4) { nm = "new_float_const"; m = cc.new_float_const(sc, val_of<float>(it)); }
      else { nm = "new_double_const"; m = cc.new_double_const(sc, val_of<double>(it)); }
      break;
    default:
      nm = "new_const"; m = cc.new_const(sc, p, it.size);
      break;
  }
  name = std::string(arch) + ":" + nm;
  return m;
}

// ---- one Compiler case: constants requested through _new_const / the typed wrappers, optionally with arena requests
// made to fail anywhere inside the call (creation of the pool node, registration of its label, add()) -----------------------

template<class CC, class MemT>
struct CcCase {
  CC& cc;
  CodeHolder& code;
  const char* arch;                      // "x86" | "a64"
  const char* ctx[2];                    // session contexts of the local / global pool
  Rng fr;                                // side stream: faults, wrappers, invalid scopes (the main stream picks constants as before)
  bool fault_case = false;
  bool aborted = false;
  std::vector<std::unique_ptr<EmitPool>> pools;
  EmitPool* cur[2] = {nullptr, nullptr}; // [0] local pool of the open function, [1] global pool
  bool creation_refused[2] = {false, false};
  bool left_unregistered = false;        // a refused creation left a node whose label is not registered in the scope's slot

  CcCase(CC& c, CodeHolder& h, const char* a, const char* cl, const char* cg, Rng side) : cc(c), code(h), arch(a), fr(side) { ctx[0] = cl; ctx[1] = cg; }

  // the label a ConstPoolNode carries must be a label of the CodeHolder that the Builder maps back to that node:
  // only then is it bound where the pool is written
  bool registered(ConstPoolNode* node) const {
    uint32_t id = node->label_id();
    return code.is_label_valid(id) && id < cc._label_nodes.size() && cc._label_nodes[id] == node;
  }

  void pick(const Item& it, unsigned scope, uint64_t& fk, bool& sticky, unsigned& wrapper) {
    fk = 0; sticky = false; wrapper = 0;
    bool first = cc._const_pools[scope] == nullptr;
    if (fault_case && (first ? fr.chance(2, 3) : fr.chance(1, 6))) {
      fk = first && fr.chance(3, 4) ? fr.range(1, 4) : fr.range(1, 12);
      sticky = fr.chance(1, 2);
    }
    else if (fr.chance(1, 8) && (it.size == 1 || it.size == 2 || it.size == 4 || it.size == 8) && it.bytes.size() == it.size)
      wrapper = 1 + unsigned(fr.below(5));
  }

  // One constant requested from the Compiler. Returns true if it was handed out as `m` and agreed with the model.
  bool op(const Item& it, unsigned scope, uint64_t fk, bool sticky, unsigned wrapper, bool odd, MemT& m) {
    ConstPoolNode* before_node = cc._const_pools[scope];
    Snap before = take_snap(before_node ? &before_node->const_pool() : nullptr, true);
    const uint8_t* p = g_feed.put(it, odd);
    Error err;
    std::string wname;
    F.begin(fk, sticky, "inside-_new_const");
    if (wrapper) {
      m = call_wrapper<CC, MemT>(cc, arch, ConstPoolScope(scope), it, wrapper - 1, p, wname);
      err = m.has_base_label() ? Error::kOk : Error::kInvalidState;   // the wrappers return no error code: a reset operand ([0], no base) is the only signal
    }
    else err = cc._new_const(Out<BaseMem>(m), ConstPoolScope(scope), p, it.size);
    F.end();
    g_feed.scribble();
    FaultObs fo{fk != 0, fk, sticky, F.fired, F.fired_index, F.requests, F.fired_pos};
    std::string A = arch;
    if (wrapper) { xhit("typed_wrapper_calls"); xhit("typed_wrapper:" + wname); }
    if (fk) { xhit("newconst_faults_armed"); if (fo.fired) xhit("newconst_faults_reached"); }
    ConstPoolNode* node = cc._const_pools[scope];
    if (fo.fired && err != Error::kOk && !before_node) {
      // the pool of this scope did not exist: the refused request may have been one of its creation. Nothing is required of
      // the failed call itself; what the scope hands out from now on is checked as always.
      if (!node) { creation_refused[scope] = true; xhit("newconst_refused:" + A + ":pool-creation,scope-left-without-pool"); return false; }
      if (!registered(node)) { creation_refused[scope] = true; left_unregistered = true; xhit("newconst_refused:" + A + ":pool-creation,scope-keeps-a-node-whose-label-is-not-registered"); return false; }
    }
    if (!node) { aborted = true; return false; }
    EmitPool*& ep = cur[scope];
    if (!ep) {
      pools.emplace_back(new EmitPool());
      ep = pools.back().get();
      ep->s.reset(new Session(ctx[scope]));
      ep->node = node;
      ep->label_id = node->label_id();
    }
    if (ep->node != node) { ep->s->fail("pool-node-changed", "the ConstPoolNode of an open scope changed between two new_const calls"); return false; }
    if (ep->s->failed) return false;
    size_t off = size_t(0xDEADBEEFDEADull);
    if (err == Error::kOk) {
      if (!m.is_mem() || !m.has_base_label() || m.base_id() != node->label_id() || m.has_index() || m.offset() < 0 || (arch[0] == 'x' && m.signature().size() != it.size)) {
        ep->s->log(it, m.offset(), '?');
        ep->s->fail("mem-operand-wrong", std::string(wrapper ? wname : std::string("new_const")) + " returned a memory operand that is not [pool_label + offset] of the constant's size (base_id=" +
                    std::to_string(m.base_id()) + " label=" + std::to_string(node->label_id()) + " offset=" + std::to_string(m.offset()) + " size=" + std::to_string(m.signature().size()) +
                    " constant size=" + std::to_string(it.size) + ")");
        return false;
      }
      if (!registered(node)) {
        ep->s->log(it, m.offset(), '?');
        LabelNode* other = m.base_id() < cc._label_nodes.size() ? cc._label_nodes[m.base_id()] : nullptr;
        // reported under one key for both Compilers and both scopes (the code is BaseCompiler's)
        Session tmp("emit:compiler:");
        tmp.hist = ep->s->hist;
        tmp.n_adds = ep->s->n_adds;
        ep->s->failed = true;
        tmp.fail(std::string("operand-label-is-not-the-pools") + (creation_refused[scope] ? ":after-refused-pool-creation" : ""),
                    std::string(arch) + "::Compiler, " + (scope ? "global" : "local") + " pool: new_const returned kOk and [label#" + std::to_string(m.base_id()) + " + " + std::to_string(m.offset()) + "], but label#" + std::to_string(m.base_id()) +
                    " is not registered to the scope's ConstPoolNode (" + (other ? std::string("it belongs to a node of type ") + std::to_string(unsigned(other->type())) : std::string("no node")) +
                    "; the pool node carries its constructor's default id): the pool is never bound at the label the operand refers to" +
                    (creation_refused[scope] ? " [an earlier _new_const of this scope returned an error after an arena request made while the pool node was created/registered failed]" : ""));
        return false;
      }
      off = size_t(m.offset());
    }
    if (fo.fired) ep->s->cur_fk = sticky ? -int32_t(fk) : int32_t(fk);
    ep->s->record(it, err, off, before, &node->const_pool(), true, fk ? &fo : nullptr);
    ep->s->cur_fk = 0;
    if (fo.fired && valid_size(it.size)) xhit(err != Error::kOk ? "newconst_refused:" + A + ":inside-add" : "newconst_fault_not_reported:" + A);
    if (ep->s->failed || err != Error::kOk) return false;
    const ConstPool& cp = node->const_pool();
    if (node->is_empty() != cp.is_empty() || node->size() != cp.size() || node->alignment() != cp.alignment()) {
      ep->s->fail("pool-node-accessors-differ", "ConstPoolNode::is_empty/size/alignment = " + std::to_string(node->is_empty()) + "/" + std::to_string(node->size()) + "/" +
                  std::to_string(node->alignment()) + " but its pool reports " + std::to_string(cp.is_empty()) + "/" + std::to_string(cp.size()) + "/" + std::to_string(cp.alignment()));
      return false;
    }
    ep->s->verify_fill(cp, false);
    if (creation_refused[scope] && !ep->s->failed) xhit("newconst_handed_out_after_refused_pool_creation");
    return !ep->s->failed;
  }

  // constants refused inside add() and not handed out since (of the pool of `scope`)
  std::vector<Item> pending_of(unsigned scope) const {
    std::vector<Item> v;
    if (cur[scope] && !cur[scope]->s->failed)
      for (auto& kv : cur[scope]->s->pending) v.push_back(mk_item(kv.second.size, kv.second.b, kv.second.size));
    std::sort(v.begin(), v.end(), [](const Item& a, const Item& b) { return a.key() < b.key(); });
    return v;
  }

  // _new_const with a scope that does not exist: must be refused, hand out no operand and leave both pools alone
  void invalid_scope_probe() {
    static const uint32_t far[] = {2, 3, 255, 256, 65536, 0x7FFFFFFFu, 0x80000000u, 0xFFFFFFFEu, 0xFFFFFFFFu};
    uint32_t v = fr.chance(1, 2) ? uint32_t(2 + fr.below(250)) : far[fr.below(sizeof(far) / sizeof(far[0]))];
    ConstPoolNode* n0 = cc._const_pools[0];
    ConstPoolNode* n1 = cc._const_pools[1];
    Snap s0 = take_snap(n0 ? &n0->const_pool() : nullptr, true), s1 = take_snap(n1 ? &n1->const_pool() : nullptr, true);
    static const size_t sizes[] = {1, 4, 8, 16, 64};
    size_t size = sizes[fr.below(5)];
    Item it = mk_invalid(size, uint8_t(0x31 + v));
    const uint8_t* p = g_feed.put(it, false);
    MemT m;   // BaseMem::reset() leaves [0]: a memory operand without base
    bool typed = fr.chance(1, 2);
    Error err = Error::kOk;
    if (typed) m = cc.new_const(ConstPoolScope(v), p, size);
    else err = cc._new_const(Out<BaseMem>(m), ConstPoolScope(v), p, size);
    g_feed.scribble();
    Session tmp(std::string("emit:") + (arch[0] == 'a' ? "a64-" : "") + "compiler:");
    if (cur[0]) tmp.hist = cur[0]->s->hist;
    std::string sv = "ConstPoolScope(" + std::to_string(v) + ")";
    if (!typed && err == Error::kOk) { tmp.fail("invalid-scope-accepted", "_new_const(" + sv + ", size " + std::to_string(size) + ") returned kOk"); return; }
    if (m.is_mem() && (m.has_base() || m.has_index())) { tmp.fail("invalid-scope-handed-out-an-operand", std::string(typed ? "new_const(" : "_new_const(") + sv + ") handed out a memory operand with a base (base_id=" + std::to_string(m.base_id()) + " offset=" + std::to_string(m.offset()) + ")"); return; }
    Snap a0 = take_snap(cc._const_pools[0] ? &cc._const_pools[0]->const_pool() : nullptr, true), a1 = take_snap(cc._const_pools[1] ? &cc._const_pools[1]->const_pool() : nullptr, true);
    if (cc._const_pools[0] != n0 || cc._const_pools[1] != n1 || a0.size != s0.size || a1.size != s1.size || a0.alignment != s0.alignment || a1.alignment != s1.alignment ||
        a0.img_hash != s0.img_hash || a1.img_hash != s1.img_hash) {
      tmp.fail("invalid-scope-changed-pool", std::string("a refused new_const(") + sv + ") changed the local or global pool of the Compiler");
      return;
    }
    xhit("invalid_scope_refused");
    xhit(std::string("invalid_scope_refused:") + (typed ? "typed-new_const" : "_new_const"));
  }
};

static void emit_compiler_x86(Rng r) {
  path_hit("x86::Compiler");
  Rng side(r.s ^ 0xC19FA0175EEDull);
  bool arch32 = side.chance(1, 5);        // 32-bit target: section bytes only (absolute [label + offset] operands)
  bool fault_case = side.chance(1, 2);
  JitRuntime rt;
  CodeHolder code;
  if (arch32) { if (code.init(Environment(Arch::kX86)) != Error::kOk) return; path_hit("x86::Compiler:32-bit-target"); }
  else if (code.init(rt.environment(), rt.cpu_features()) != Error::kOk) return;
  x86::Compiler cc(&code);
  bool avx = !arch32 && rt.cpu_features().x86().has_avx();
  bool avx512 = !arch32 && rt.cpu_features().x86().has_avx512_f();
  if (avx) g_stats.extra["host_has_avx"] = 1;
  if (avx512) g_stats.extra["host_has_avx512"] = 1;

  unsigned nfuncs = unsigned(r.range(1, 3));
  Gen g(r.fork(7));
  g.setup(unsigned(r.below(6)));
  g.pattern.clear();
  CcCase<x86::Compiler, x86::Mem> C(cc, code, "x86", "emit:compiler-local:", "emit:compiler-global:", side.fork(3));
  C.fault_case = fault_case;
  if (fault_case) path_hit("x86::Compiler:with-refused-requests");
  std::vector<Label> func_labels;
  std::vector<std::vector<LoadRec>> loads(nfuncs);
  std::vector<size_t> out_size(nfuncs, 0);
  unsigned probe_f = unsigned(side.below(nfuncs)), probe_i = unsigned(side.below(8));

  for (unsigned f = 0; f < nfuncs; f++) {
    FuncNode* fn = cc.add_func(FuncSignature::build<void, uint8_t*>());
    if (!fn) return;
    func_labels.push_back(fn->label());
    x86::Gp out = cc.new_gp_ptr("out");
    fn->set_arg(0, out);
    x86::Gp t = arch32 ? cc.new_gp32("t") : cc.new_gp64("t");
    C.cur[0] = nullptr;
    C.creation_refused[0] = false;

    // loads the constant through the returned operand and stores it to out[pos]
    auto emit_load = [&](const Item& it, const x86::Mem& m) {
      LoadRec lr;
      lr.out_pos = out_size[f];
      lr.size = it.size;
      memcpy(lr.b, it.bytes.data(), it.size);
      size_t pos = out_size[f];
      bool vec = r.chance(1, 2);
      if (arch32) {
        // no execution: the loads only make the operands part of real instructions
        if (it.size <= 2) cc.movzx(t.r32(), m);
        else if (it.size == 4) cc.mov(t.r32(), m);
        else if (it.size == 16 && vec) { x86::Vec v = cc.new_xmm(); cc.movups(v, m); }
        else for (size_t k = 0; k < it.size; k += 4) { x86::Mem mk = m.clone_adjusted(int64_t(k)); mk.set_size(4); cc.mov(t.r32(), mk); }
        path_hit("load:32-bit-target");
      }
      else if (it.size == 1) { cc.movzx(t.r32(), m); cc.mov(x86::byte_ptr(out, int32_t(pos)), t.r8()); path_hit("load:gp"); }
      else if (it.size == 2) { cc.movzx(t.r32(), m); cc.mov(x86::word_ptr(out, int32_t(pos)), t.r16()); path_hit("load:gp"); }
      else if (it.size == 4) { cc.mov(t.r32(), m); cc.mov(x86::dword_ptr(out, int32_t(pos)), t.r32()); path_hit("load:gp"); }
      else if (it.size == 8) { cc.mov(t, m); cc.mov(x86::qword_ptr(out, int32_t(pos)), t); path_hit("load:gp"); }
      else if (it.size == 16 && vec) { x86::Vec v = cc.new_xmm(); cc.movups(v, m); cc.movups(x86::xmmword_ptr(out, int32_t(pos)), v); path_hit("load:xmm"); }
      else if (it.size == 32 && vec && avx) { x86::Vec v = cc.new_ymm(); cc.vmovups(v, m); cc.vmovups(x86::ymmword_ptr(out, int32_t(pos)), v); path_hit("load:ymm"); }
      else if (it.size == 64 && vec && avx512) { x86::Vec v = cc.new_zmm(); cc.vmovups(v, m); cc.vmovups(x86::zmmword_ptr(out, int32_t(pos)), v); path_hit("load:zmm"); }
      else {
        for (size_t k = 0; k < it.size; k += 8) {
          x86::Mem mk = m.clone_adjusted(int64_t(k));
          mk.set_size(8);
          cc.mov(t, mk);
          cc.mov(x86::qword_ptr(out, int32_t(pos + k)), t);
        }
        path_hit("load:gp-chunks");
      }
      out_size[f] += it.size;
      loads[f].push_back(lr);
    };

    unsigned nops = unsigned(r.range(1, 28));
    for (unsigned i = 0; i < nops && !C.aborted; i++) {
      Item it = g.next(i);
      unsigned scope = r.chance(1, 3) ? 1u : 0u;
      bool odd = r.chance(1, 4);
      if (f == probe_f && i == probe_i % nops) C.invalid_scope_probe();
      uint64_t fk; bool sticky; unsigned wrapper;
      C.pick(it, scope, fk, sticky, wrapper);
      x86::Mem m;
      bool ok = C.op(it, scope, fk, sticky, wrapper, odd, m);
      if (!ok && fk && valid_size(it.size) && !C.aborted && C.fr.chance(2, 3)) {
        // the caller asks again
        ok = C.op(it, scope, 0, false, 0, false, m);
        xhit("newconst_asked_again_at_once");
      }
      if (ok) emit_load(it, m);
    }
    if (C.aborted) return;
    // everything refused inside add() and still owed is requested again before the scope closes
    for (unsigned scope = 0; scope < 2; scope++) {
      if (scope == 1 && f + 1 != nfuncs) continue;
      for (auto& it : C.pending_of(scope)) {
        x86::Mem m;
        if (C.op(it, scope, 0, false, 0, false, m)) { emit_load(it, m); xhit("newconst_asked_again_before_scope_end"); }
      }
    }
    cc.ret();
    cc.end_func();
  }
  for (auto& ep : C.pools) if (ep->s->failed) return;   // reported already; what follows would be the same fault seen again
  Error ferr = cc.finalize();
  if (ferr != Error::kOk) {
    Session tmp("emit:compiler:");
    if (!C.pools.empty()) tmp.hist = C.pools[0]->s->hist;
    tmp.fail(std::string("finalize-failed") + (C.left_unregistered ? ":after-refused-pool-creation" : arch32 ? ":32-bit-target" : ""), "x86::Compiler::finalize() failed with error " + std::to_string(unsigned(ferr)) + " for a function that only loads pool constants" +
             (C.left_unregistered ? " [an earlier _new_const returned an error after an arena request made while the pool node was created/registered failed; the scope kept a ConstPoolNode whose label is not registered and the Compiler added it to the code]" : ""));
    return;
  }
  bool any_failed = false;
  for (auto& ep : C.pools) {
    const ConstPool& cp = ep->node->const_pool();
    check_section(*ep->s, code, ep->label_id, cp.size(), cp.alignment(), "x86::Compiler section bytes at pool label");
    any_failed |= ep->s->failed;
    if (!ep->s->failed && ep->s->had_refusal) xhit("compiler_pools_with_refused_add_checked_in_section");
    finish_sequence(*ep->s, size_t(ep->s->n_adds));
  }
#if V_CAN_EXEC
  if (!any_failed && !arch32) {
    g_stats.extra["host_can_execute"] = 1;
    uint8_t* base = nullptr;
    if (rt.add(&base, &code) == Error::kOk && base) {
      for (unsigned f = 0; f < nfuncs; f++) {
        typedef void (*Fn)(uint8_t*);
        Fn fnp = (Fn)(base + code.label_offset_from_base(func_labels[f]));
        std::vector<uint8_t> out(out_size[f] + 64, 0xA7);
        fnp(out.data());
        g_stats.emit_exec++;
        if (fault_case) xhit("jit_functions_executed_in_cases_with_refused_requests");
        for (auto& lr : loads[f]) {
          if (memcmp(out.data() + lr.out_pos, lr.b, lr.size) != 0) {
            Session tmp("emit:compiler:");
            char sz[32];
            snprintf(sz, sizeof sz, "size=%llu", (unsigned long long)lr.size);
            tmp.fail(std::string("executed-load-differs:") + sz, std::string("JIT-executed load through the operand returned by new_const read ") +
                     hexstr(out.data() + lr.out_pos, lr.size) + " instead of " + hexstr(lr.b, lr.size));
            break;
          }
          g_stats.emit_exec_bytes += lr.size;
        }
        for (size_t i = out_size[f]; i < out.size(); i++) if (out[i] != 0xA7) { Session tmp("emit:compiler:"); tmp.fail("executed-store-overrun", "harness: generated function wrote past its output"); break; }
      }
      rt.release(base);
    }
    else xhit("jit_runtime_add_failed");
  }
#endif
}

static void emit_compiler_a64(Rng r) {
  path_hit("a64::Compiler");
  Rng side(r.s ^ 0xC19FA0175EEDull);
  bool fault_case = side.chance(1, 2);
  Environment env(Arch::kAArch64);
  CodeHolder code;
  if (code.init(env) != Error::kOk) return;
  a64::Compiler cc(&code);
  Gen g(r.fork(9));
  g.setup(unsigned(r.below(6)));
  g.pattern.clear();
  CcCase<a64::Compiler, a64::Mem> C(cc, code, "a64", "emit:a64-compiler-local:", "emit:a64-compiler-global:", side.fork(3));
  C.fault_case = fault_case;
  if (fault_case) path_hit("a64::Compiler:with-refused-requests");
  unsigned nfuncs = unsigned(r.range(1, 2));
  unsigned probe_f = unsigned(side.below(nfuncs)), probe_i = unsigned(side.below(8));
  for (unsigned f = 0; f < nfuncs; f++) {
    FuncNode* fn = cc.add_func(FuncSignature::build<void>());
    if (!fn) return;
    C.cur[0] = nullptr;
    C.creation_refused[0] = false;
    unsigned nops = unsigned(r.range(1, 40));
    for (unsigned i = 0; i < nops && !C.aborted; i++) {
      Item it = g.next(i);
      unsigned scope = r.chance(1, 3) ? 1u : 0u;
      bool odd = r.chance(1, 4);
      if (f == probe_f && i == probe_i % nops) C.invalid_scope_probe();
      uint64_t fk; bool sticky; unsigned wrapper;
      C.pick(it, scope, fk, sticky, wrapper);
      a64::Mem m;
      bool ok = C.op(it, scope, fk, sticky, wrapper, odd, m);
      if (!ok && fk && valid_size(it.size) && !C.aborted && C.fr.chance(2, 3)) {
        C.op(it, scope, 0, false, 0, false, m);
        xhit("newconst_asked_again_at_once");
      }
    }
    if (C.aborted) return;
    for (unsigned scope = 0; scope < 2; scope++) {
      if (scope == 1 && f + 1 != nfuncs) continue;
      for (auto& it : C.pending_of(scope)) {
        a64::Mem m;
        if (C.op(it, scope, 0, false, 0, false, m)) xhit("newconst_asked_again_before_scope_end");
      }
    }
    cc.ret();
    cc.end_func();
  }
  for (auto& ep : C.pools) if (ep->s->failed) return;
  Error ferr = cc.finalize();
  if (ferr != Error::kOk) {
    Session tmp(C.left_unregistered ? "emit:compiler:" : "emit:a64-compiler:");
    if (!C.pools.empty()) tmp.hist = C.pools[0]->s->hist;
    tmp.fail(std::string("finalize-failed") + (C.left_unregistered ? ":after-refused-pool-creation" : ""), "a64::Compiler::finalize() failed with error " + std::to_string(unsigned(ferr)) +
             (C.left_unregistered ? " [an earlier _new_const returned an error after an arena request made while the pool node was created/registered failed; the scope kept a ConstPoolNode whose label is not registered and the Compiler added it to the code]" : ""));
    return;
  }
  for (auto& ep : C.pools) {
    const ConstPool& cp = ep->node->const_pool();
    check_section(*ep->s, code, ep->label_id, cp.size(), cp.alignment(), "a64::Compiler section bytes at pool label");
    if (!ep->s->failed && ep->s->had_refusal) xhit("compiler_pools_with_refused_add_checked_in_section");
    finish_sequence(*ep->s, size_t(ep->s->n_adds));
  }
}

// A user-owned pool embedded (possibly twice, growing in between) through Assembler or Builder.
static void emit_embed(Rng r, bool use_builder) {
  path_hit(use_builder ? "x86::Builder" : "x86::Assembler");
  Environment env(r.chance(1, 4) ? Arch::kX86 : Arch::kX64);
  CodeHolder code;
  if (code.init(env) != Error::kOk) return;
  StringLogger logger;
  bool with_logger = r.chance(1, 3);
  if (with_logger) { code.set_logger(&logger); path_hit("with-logger"); }
  x86::Assembler as;
  x86::Builder bd;
  BaseEmitter* em;
  if (use_builder) { code.attach(&bd); em = &bd; }
  else { code.attach(&as); em = &as; }

  Arena arena(size_t(1024) << r.below(4));
  ConstPool pool(arena);
  Session s(use_builder ? "emit:builder:" : "emit:assembler:");
  Gen g(r.fork(11));
  g.setup(unsigned(r.below(6)));
  g.pattern.clear();
  // side stream: pools much larger than the CodeBuffer's first allocation (ensure_space(size) has to grow by the pool's
  // size, a large EmbedDataNode payload), pools embedded into a second section with its own alignment
  Rng side(r.s ^ 0xC19E3BED5EEDull);
  bool big = side.chance(1, 20);
  Section* second = nullptr;
  unsigned second_from = 0;
  if (side.chance(1, 4)) {
    static const uint32_t aligns[] = {1, 8, 64, 64};
    if (code.new_section(Out(second), ".data", SIZE_MAX, SectionFlags::kNone, aligns[side.below(4)]) != Error::kOk) return;
    second_from = unsigned(side.below(2));   // from the first or from the second embedding on
  }

  struct Emb { uint32_t label_id; std::vector<uint8_t> img, known; size_t size, alignment, max_end, max_size; size_t nentries; bool in_second; };
  std::vector<Emb> embs;
  unsigned rounds = unsigned(r.range(1, 3));
  for (unsigned rd = 0; rd < rounds && !s.failed; rd++) {
    unsigned junk = unsigned(r.below(40));
    for (unsigned j = 0; j < junk; j++) {
      if (use_builder) bd.nop(); else as.nop();
    }
    unsigned nops = unsigned(r.range(rd ? 0 : 1, 60));
    for (unsigned i = 0; i < nops && !s.failed; i++) {
      s.add_direct(pool, g.next(i), true, r.chance(1, 4));
      if (!s.failed && r.chance(1, 4)) s.verify_fill(pool, false);
    }
    if (big && rd == 0 && !s.failed) {
      static const size_t bsz[] = {64, 64, 64, 64, 32, 16, 8, 1};
      unsigned n = unsigned(side.range(1200, 4000));
      for (unsigned i = 0; i < n && !s.failed; i++) {
        s.add_direct(pool, g.fresh(bsz[side.below(8)]), false, false);
        if (!s.failed && side.chance(1, 400)) s.verify_fill(pool, false);
      }
    }
    if (s.failed) break;
    if (second && rd == second_from) {
      if (em->section(second) != Error::kOk) { s.fail("section-switch-failed", "harness: section() failed"); break; }
    }
    Label L = em->new_label();
    Error err = em->embed_const_pool(L, pool);
    if (err != Error::kOk) {
      if (pool.size() == 0) continue;  // nothing was added (only refused sizes): not part of the property
      s.fail("embed-failed", "embed_const_pool() failed with error " + std::to_string(unsigned(err)));
      break;
    }
    Emb e;
    e.label_id = L.id();
    e.img = s.img; e.known = s.known;
    e.size = pool.size(); e.alignment = pool.alignment();
    e.max_end = s.max_end; e.max_size = s.max_size; e.nentries = s.entries.size();
    e.in_second = second && rd >= second_from;
    embs.push_back(std::move(e));
  }
  if (!s.failed && use_builder) {
    Error ferr = bd.finalize();
    if (ferr != Error::kOk) { s.fail("finalize-failed", "x86::Builder::finalize() failed with error " + std::to_string(unsigned(ferr))); }
  }
  // every embedding must show the pool as it was at that moment
  for (auto& e : embs) {
    if (s.failed) break;
    Session snap(s.ctx);
    snap.hist = s.hist;
    snap.n_adds = s.n_adds;
    snap.img = e.img; snap.known = e.known;
    snap.max_end = e.max_end; snap.max_size = e.max_size;
    snap.entries.assign(s.entries.begin(), s.entries.begin() + e.nentries);
    check_section(snap, code, e.label_id, e.size, e.alignment, use_builder ? "x86::Builder embed_const_pool bytes" : "x86::Assembler embed_const_pool bytes");
    if (snap.failed) s.failed = true;
    else {
      if (e.size > 8096) xhit("emitter_pools_larger_than_first_code_buffer_checked");
      if (e.in_second) {
        xhit("emitter_pools_in_a_second_section_checked");
        if (code.label_entry_of(e.label_id).section_id() == 0) s.fail("pool-in-wrong-section", "embed_const_pool() after section(.data) bound the pool label in .text");
      }
      g_stats.extra["max:largest_embedded_pool_bytes"] = std::max<uint64_t>(g_stats.extra["max:largest_embedded_pool_bytes"], e.size);
    }
  }
  finish_sequence(s, size_t(s.n_adds));
}

static void run_emit(const Args& args) {
  uint64_t cases = args.u64("cases", 20);
  Rng top(args.u64("seed", 1));
  for (uint64_t i = 0; i < cases; i++) {
    Rng r = top.fork(i + 1);
    unsigned which = unsigned(r.below(8));
    g_stats.emit_cases++;
    if (which < 3) emit_compiler_x86(r);
    else if (which < 4) emit_compiler_a64(r);
    else if (which < 6) emit_embed(r, true);
    else emit_embed(r, false);
    if (g_viol.size() >= 8) break;
  }
}


// ---------------------------------------------------------------------------------------------------------
// Allocation-failure histories
// ---------------------------------------------------------------------------------------------------------

// embed_const_pool() of a user-owned pool through one of four emitters behind `junk` bytes: the label must be bound
// at an offset aligned to the largest constant handed out and the section bytes must be the pool.
// A pool that reports size() > 0 but min_item_size() == 0 (an add() was refused after it had reserved the constant's room and
// nothing was added since) written out with a logger attached: done in a child process, because a sanitizer report there
// would end this process and with it everything else the shard has to observe.
static unsigned g_child_probes = 0;
static void logged_embed_in_child(Session& s, const ConstPool& pool, unsigned which) {
  static const char* names[4] = {"x86::Assembler", "x86::Builder", "a64::Assembler", "a64::Builder"};
  int fds[2];
  if (pipe(fds) != 0) return;
  fflush(stdout);
  fflush(stderr);
  pid_t pid = fork();
  if (pid < 0) { close(fds[0]); close(fds[1]); return; }
  if (pid == 0) {
    close(fds[0]);
    dup2(fds[1], 2);
    Environment env(which < 2 ? Arch::kX64 : Arch::kAArch64);
    CodeHolder code;
    if (code.init(env) != Error::kOk) _exit(0);
    StringLogger logger;
    code.set_logger(&logger);
    std::unique_ptr<BaseEmitter> em;
    if (which == 0) em.reset(new x86::Assembler());
    else if (which == 1) em.reset(new x86::Builder());
    else if (which == 2) em.reset(new a64::Assembler());
    else em.reset(new a64::Builder());
    if (code.attach(em.get()) != Error::kOk) _exit(0);
    Label L = em->new_label();
    if (em->embed_const_pool(L, pool) == Error::kOk && (which & 1)) (void)em->finalize();
    _exit(0);
  }
  close(fds[1]);
  std::string text;
  char buf[1024];
  ssize_t n;
  while ((n = read(fds[0], buf, sizeof buf)) > 0) if (text.size() < 16384) text.append(buf, size_t(n));
  close(fds[0]);
  int st = 0;
  if (waitpid(pid, &st, 0) != pid) return;
  xhit("logged_embeds_of_pools_with_size_but_min_item_size_0_(child_process)");
  if (WIFEXITED(st) && WEXITSTATUS(st) == 0) return;
  std::string line;
  size_t at = text.find("runtime error:");
  if (at == std::string::npos) at = text.find("ERROR:");
  if (at != std::string::npos) line = text.substr(at, text.find('\n', at) - at);
  std::string saved = s.ctx;
  s.ctx = "embed:";
  s.fail("logged-embed-of-pool-with-size-but-min_item_size-0-dies", std::string(names[which]) + " with a logger attached: embed_const_pool()" + ((which & 1) ? " + finalize()" : "") +
         " of a pool with size() = " + std::to_string(pool.size()) + ", min_item_size() = 0 ended the process (" + (WIFSIGNALED(st) ? "signal " + std::to_string(WTERMSIG(st)) : "exit status " + std::to_string(WEXITSTATUS(st))) +
         "): " + (line.empty() ? std::string("no sanitizer line captured") : line));
  s.ctx = saved;
}

static void embed_check(Session& s, const ConstPool& pool, unsigned which, unsigned junk, uint64_t fault_k = 0, bool with_logger = false) {
  if (s.failed || pool.size() == 0) return;
  if (with_logger && pool.min_item_size() == 0) {
    if (g_child_probes < 4) { g_child_probes++; logged_embed_in_child(s, pool, which & 3); }
    if (s.failed) return;
    with_logger = false;
    xhit("embeds_without_logger_because_min_item_size_0");
  }
  static const char* names[4] = {"x86::Assembler", "x86::Builder", "a64::Assembler", "a64::Builder"};
  static const char* ctxs[4] = {"embed:x86-assembler:", "embed:x86-builder:", "embed:a64-assembler:", "embed:a64-builder:"};
  which &= 3;
  Environment env(which < 2 ? ((junk & 1) ? Arch::kX64 : Arch::kX86) : Arch::kAArch64);
  CodeHolder code;
  if (code.init(env) != Error::kOk) return;
  StringLogger logger;
  if (with_logger) code.set_logger(&logger);
  std::unique_ptr<BaseEmitter> em;
  if (which == 0) em.reset(new x86::Assembler());
  else if (which == 1) em.reset(new x86::Builder());
  else if (which == 2) em.reset(new a64::Assembler());
  else em.reset(new a64::Builder());
  if (code.attach(em.get()) != Error::kOk) return;
  uint8_t jb[96];
  memset(jb, 0xCC, sizeof jb);
  junk %= 96;
  if (junk && em->embed(jb, junk) != Error::kOk) return;
  std::string saved = s.ctx;
  s.ctx = ctxs[which];
  Label L = em->new_label();
  // fault_k: the fault_k-th arena request made inside embed_const_pool() fails (the Builder's align / data nodes). A
  // refused write-out owes nothing; the caller then embeds the pool again under a new label, which is held to the statement.
  F.begin(fault_k, false, "inside-embed_const_pool");
  Error err = em->embed_const_pool(L, pool);
  F.end();
  if (fault_k) {
    xhit("embed_faults_armed");
    g_stats.extra["max:most_arena_requests_seen_in_one_embed_const_pool"] = std::max<uint64_t>(g_stats.extra["max:most_arena_requests_seen_in_one_embed_const_pool"], F.requests);
  }
  if (F.fired) {
    if (err != Error::kOk) {
      xhit(std::string("embed_refused:") + names[which] + (F.fired_index == 1 ? ":first-request" : ":later-request"));
      L = em->new_label();
      err = em->embed_const_pool(L, pool);
      if (err == Error::kOk) xhit("embed_again_after_refused_embed");
      if (err != Error::kOk && !s.failed) { s.fail("embed-failed:after-refused-embed", std::string(names[which]) + "::embed_const_pool() under a new label failed with error " + std::to_string(unsigned(err)) + " after an embed_const_pool() in which an arena request was refused"); }
    }
    else xhit(std::string("embed_fault_not_reported:") + names[which]);
  }
  if (err != Error::kOk && !s.failed) s.fail("embed-failed", std::string(names[which]) + "::embed_const_pool() failed with error " + std::to_string(unsigned(err)));
  if (!s.failed && (which & 1)) {
    Error ferr = em->finalize();
    if (ferr != Error::kOk) s.fail("finalize-failed", std::string(names[which]) + "::finalize() failed with error " + std::to_string(unsigned(ferr)));
  }
  if (!s.failed) {
    std::string where = std::string(names[which]) + " embed_const_pool bytes behind " + std::to_string(junk) + " byte(s)";
    check_section(s, code, L.id(), pool.size(), pool.alignment(), where.c_str());
    if (!s.failed) {
      g_stats.fault_embed_paths[names[which]]++;
      if (s.had_refusal) g_stats.embeds_after_refusal++;
      if (with_logger) { xhit(logger.data_size() ? "embeds_with_logger_that_logged" : "embeds_with_logger_that_logged_nothing"); if (s.had_refusal) xhit("embeds_with_logger_after_a_refusal"); }
    }
  }
  s.ctx = saved;
}

// Halves and outer quarters of `it` (what a caller that lost the wide constant would ask for instead).
static std::vector<Item> parts_of(const Item& it) {
  std::vector<Item> v;
  if (!valid_size(it.size) || it.size < 2) return v;
  size_t h = it.size / 2;
  v.push_back(mk_item(h, it.bytes.data(), h));
  v.push_back(mk_item(h, it.bytes.data() + h, h));
  if (it.size >= 4) {
    size_t q = it.size / 4;
    v.push_back(mk_item(q, it.bytes.data() + it.size - q, q));
    v.push_back(mk_item(q, it.bytes.data() + q, q));
  }
  return v;
}

// What every failure history ends with: all refused constants are requested again (must be handed out now), halves /
// quarters of wide constants and new narrow constants (gap fillers) are added, every constant ever handed out is
// added again (same offset), a fresh fill() and an embed through a real emitter are compared with the model.
static void fault_epilogue(Session& s, PoolHolder& ph, uint64_t salt, bool retry_pending) {
  ConstPool& pool = *ph.pool;
  bool after = s.had_refusal;
  if (retry_pending && !s.failed) {
    std::vector<Item> todo;
    for (size_t i = 0; i < s.hist.size(); i++)
      if (s.hist[i].kind == 'F') todo.push_back(mk_item(s.hist[i].size, s.hist[i].b, s.hist[i].nb));
    for (auto& it : todo) {
      if (s.failed) break;
      if (!s.pending.count(it.key())) continue;
      s.add_direct(pool, it, true, false);
      if (!s.failed) s.verify_fill(pool, false);
    }
  }
  if (!s.failed) {
    std::vector<Entry> es = s.entries;
    size_t lim = 0;
    for (size_t i = 0; i < es.size() && !s.failed && lim < 24; i++) {
      if (es[i].size < 8) continue;
      Item w = mk_item(es[i].size, es[i].b, es[i].size);
      for (auto& part : parts_of(w)) {
        if (s.failed) break;
        s.add_direct(pool, part, false, ((salt + i) & 3) == 1);
        if (after) g_stats.derived_after_refusal++;
        lim++;
      }
    }
    static const size_t fresh_sizes[] = {1, 2, 4, 8, 1, 16};
    for (unsigned j = 0; j < 6 && !s.failed; j++) {
      uint8_t b[16];
      for (unsigned q = 0; q < 16; q++) b[q] = uint8_t(0xE1 + 7 * j + 31 * q + (salt & 1));
      s.add_direct(pool, mk_item(fresh_sizes[j], b, fresh_sizes[j]), false, false);
      if (after) g_stats.derived_after_refusal++;
    }
    if (!s.failed) s.verify_fill(pool, false);
  }
  if (!s.failed) {
    std::vector<Entry> es = s.entries;
    for (size_t i = 0; i < es.size() && !s.failed; i++) {
      s.add_direct(pool, mk_item(es[i].size, es[i].b, es[i].size), false, false);
      g_stats.readd_checks++;
      if (after) g_stats.readd_after_refusal++;
    }
  }
  if (!s.failed) s.verify_fill(pool, true);
  if (!s.failed) embed_check(s, pool, unsigned(salt), unsigned(salt >> 2) * 7 + 1, (salt >> 7) % 3 == 0 ? 1 + (salt >> 9) % 3 : 0, ((salt >> 5) & 1) != 0);
  g_stats.max_pool_size = std::max<uint64_t>(g_stats.max_pool_size, pool.size());
}

// Prepares the pool object for the next history: mostly the same object after reset() (it refused requests before).
static bool fault_next_pool(PoolHolder& ph, Session* last, uint64_t n, bool force_fresh) {
  if (force_fresh || !ph.pool || n % 5 == 0) { ph.fresh((n / 5) % 2 ? 1024 : 4096); return true; }
  bool saw = ph.saw_refusal;
  if (!ph.recycle(int(n % 3), last)) return false;
  ph.saw_refusal = saw;
  if (saw) g_stats.reuse_after_refusal++;
  g_stats.pool_reuse++;
  return true;
}

// One enumerated history: seq[0..L) on one pool, the k-th arena request of add #pos fails (sticky: and all later ones of
// that call). variant 0: the refused constant is requested again at once; 1: its halves / quarters first, then again;
// 2: the rest of the sequence first, again at the end. Returns false if request k was never reached.
static bool run_fault_history(PoolHolder& ph, const std::vector<Item>& A, const std::vector<unsigned>& digits, unsigned L,
                              unsigned pos, uint64_t k, bool sticky, unsigned variant, uint64_t n, Session** last, std::unique_ptr<Session>& keep) {
  if (!fault_next_pool(ph, *last, n, false)) return false;
  std::unique_ptr<Session> s(new Session());
  s->reused_pool = ph.reused;
  s->pool_saw_refusal = ph.saw_refusal;
  ConstPool& pool = *ph.pool;
  bool fired = false;
  for (unsigned i = 0; i < L && !s->failed; i++) {
    const Item& it = A[digits[i]];
    if (i != pos) {
      s->add_direct(pool, it, true, ((n + i) & 3) == 3);
      if (!s->failed) s->verify_fill(pool, false);
      continue;
    }
    uint64_t fired0 = g_stats.fault_fired;
    Error err = s->add_direct(pool, it, true, false, k, sticky);
    fired = g_stats.fault_fired != fired0;
    if (!s->failed) s->verify_fill(pool, false);
    if (err == Error::kOk || !valid_size(it.size) || s->failed) continue;
    if (n % 4 == 0) {
      // the pool is written out as the refused call left it (possibly size() > 0 with nothing handed out yet), logger attached
      embed_check(*s, pool, unsigned(n >> 2), unsigned(n >> 4) * 7 + 1, 0, true);
      if (pool.size() && !s->failed) xhit("embeds_right_after_a_refused_add");
      if (s->failed) continue;
    }
    if (variant == 1) {
      for (auto& part : parts_of(it)) {
        if (s->failed) break;
        s->add_direct(pool, part, true, false);
        if (!s->failed) s->verify_fill(pool, false);
      }
    }
    if (variant <= 1 && !s->failed) {
      s->add_direct(pool, it, true, false);
      if (!s->failed) s->verify_fill(pool, false);
    }
  }
  fault_epilogue(*s, ph, n, true);
  if (s->had_refusal) ph.saw_refusal = true;
  finish_sequence(*s, size_t(s->n_adds));
  if (g_stats.samples.size() < 3 && s->had_refusal && !s->failed && variant == 1 && s->hist.size() <= 40 && (n % 97) == 0)
    g_stats.samples.push_back(s->describe_hist());
  bool failed = s->failed;
  keep = std::move(s);
  *last = keep.get();
  if (failed) { ph.pool.reset(); ph.arena.reset(); }
  return fired;
}

static void run_fexh(const Args& args) {
  unsigned alpha = unsigned(args.u64("alpha", 0));
  unsigned L = unsigned(args.u64("len", 3));
  uint64_t shards = args.u64("shards", 1), shard = args.u64("shard", 0);
  std::vector<Item> A = alphabet(alpha);
  size_t K = A.size();
  uint64_t total = 1;
  for (unsigned i = 0; i < L; i++) total *= K;
  g_keep_hashes = false;  // (sequence, position, request, sticky, variant) are distinct by construction
  PoolHolder ph;
  std::vector<unsigned> digits(L);
  Session* last = nullptr;
  std::unique_ptr<Session> keep;
  uint64_t n = 0;
  for (uint64_t idx = shard; idx < total && g_viol.size() < 8; idx += shards) {
    uint64_t x = idx;
    for (unsigned i = 0; i < L; i++) { digits[i] = unsigned(x % K); x /= K; }
    for (unsigned pos = 0; pos < L; pos++) {
      if (!valid_size(A[digits[pos]].size)) continue;  // refused before any arena request
      for (unsigned sticky = 0; sticky < 2; sticky++) {
        for (uint64_t k = 1; k <= 64 && g_viol.size() < 8; k++) {
          bool fired = true;
          for (unsigned variant = 0; variant < 3 && fired; variant++)
            fired = run_fault_history(ph, A, digits, L, pos, k, sticky != 0, variant, ++n, &last, keep);
          if (!fired) break;
        }
      }
    }
  }
}

static void run_frandom(const Args& args) {
  uint64_t seqs = args.u64("seqs", 100);
  Rng top(args.u64("seed", 1));
  PoolHolder ph;
  Session* last = nullptr;
  std::unique_ptr<Session> keep;
  for (uint64_t n = 1; n <= seqs && g_viol.size() < 8; n++) {
    Rng r = top.fork(n);
    Gen g(r.fork(1));
    g.setup(unsigned(r.below(6)));
    if (r.chance(1, 2)) g.pattern.clear();
    size_t len = r.chance(3, 4) ? size_t(r.range(1, 16)) : size_t(r.range(17, 80));
    if (!fault_next_pool(ph, last, r.next(), r.chance(1, 6))) break;
    std::unique_ptr<Session> s(new Session());
    s->reused_pool = ph.reused;
    s->pool_saw_refusal = ph.saw_refusal;
    ConstPool& pool = *ph.pool;
    unsigned p_fault = unsigned(r.range(5, 50));
    bool noise = r.chance(1, 3);
    std::vector<Item> deferred;
    for (size_t i = 0; i < len && !s->failed; i++) {
      Item it = g.next(unsigned(i));
      uint64_t k = 0;
      bool sticky = false;
      if (r.below(100) < p_fault) { k = r.chance(1, 2) ? r.range(1, 4) : r.range(1, 40); sticky = r.chance(1, 2); }
      Error err = s->add_direct(pool, it, true, r.chance(1, 4), k, sticky);
      if (!s->failed) s->verify_fill(pool, false);
      if (noise && r.chance(1, 4)) {
        size_t sz = Arena::aligned_size(size_t(r.range(1, 200)));
        void* p = ph.arena->alloc_oneshot<void>(sz);
        if (p) memset(p, 0xEE, sz);
      }
      if (err == Error::kOk || !valid_size(it.size) || s->failed) {
        // now and then an earlier refused constant is requested again in the middle of the history
        if (!deferred.empty() && r.chance(1, 5) && !s->failed) {
          size_t j = size_t(r.below(deferred.size()));
          uint64_t k2 = r.chance(1, 4) ? r.range(1, 40) : 0;   // the retry itself may be refused again
          if (s->add_direct(pool, deferred[j], true, false, k2, r.chance(1, 2)) == Error::kOk) deferred.erase(deferred.begin() + j);
          if (!s->failed) s->verify_fill(pool, false);
        }
        continue;
      }
      if (r.chance(1, 6)) {
        embed_check(*s, pool, unsigned(r.below(4)), unsigned(r.below(96)), 0, true);
        if (pool.size() && !s->failed) xhit("embeds_right_after_a_refused_add");
        if (s->failed) continue;
      }
      unsigned what = unsigned(r.below(10));
      if (what < 2) {
        for (auto& part : parts_of(it)) {
          if (s->failed) break;
          s->add_direct(pool, part, true, false);
        }
      }
      if (what < 6 && !s->failed) {
        if (s->add_direct(pool, it, true, r.chance(1, 4)) != Error::kOk) {}
        if (!s->failed) s->verify_fill(pool, false);
      }
      else deferred.push_back(it);
    }
    fault_epilogue(*s, ph, r.next(), !r.chance(1, 5));
    if (s->had_refusal) ph.saw_refusal = true;
    finish_sequence(*s, size_t(s->n_adds));
    if (g_stats.samples.size() < 2 && s->had_refusal && !s->failed && s->hist.size() <= 32 && s->n_share) g_stats.samples.push_back(s->describe_hist());
    bool failed = s->failed;
    keep = std::move(s);
    last = keep.get();
    if (failed) { ph.pool.reset(); ph.arena.reset(); }
  }
}

// ---------------------------------------------------------------------------------------------------------

int main(int argc, char** argv) {
  Args args(argc, argv);
  std::string mode = args.str("mode", "random");
  F.init();
  asmjit_verif_arena_fail_fn = fail_hook;
  if (mode == "exh") run_exh(args);
  else if (mode == "fexh") run_fexh(args);
  else if (mode == "frandom") run_frandom(args);
  else if (mode == "random") run_random(args);
  else if (mode == "emit") run_emit(args);
  else { fprintf(stderr, "unknown mode\n"); return 2; }

  std::string o = "{\"violations\":[";
  for (size_t i = 0; i < g_viol.size(); i++) {
    if (i) o += ",";
    o += "{\"key\":" + jstr(g_viol[i].key) + ",\"what\":" + jstr(g_viol[i].what) + "}";
  }
  o += "]";
  auto num = [&](const char* k, uint64_t v) { o += ",\"" + std::string(k) + "\":" + std::to_string(v); };
  num("sequences", g_stats.sequences);
  num("adds", g_stats.adds);
  num("valid_adds", g_stats.valid_adds);
  num("invalid_rejected", g_stats.invalid_rejected);
  num("sharing", g_stats.sharing);
  num("gap_reuse", g_stats.gap_reuse);
  num("dedup", g_stats.dedup);
  num("append", g_stats.append);
  num("fills", g_stats.fills);
  num("bytes_compared", g_stats.bytes_compared);
  num("resets", g_stats.resets);
  num("pool_reuse", g_stats.pool_reuse);
  num("readd_checks", g_stats.readd_checks);
  num("nontrivial", g_stats.nontrivial);
  num("max_pool_size", g_stats.max_pool_size);
  num("max_len", g_stats.max_len);
  num("emit_cases", g_stats.emit_cases);
  num("emit_pools", g_stats.emit_pools);
  num("emit_exec", g_stats.emit_exec);
  num("emit_exec_bytes", g_stats.emit_exec_bytes);
  num("fault_histories", g_stats.fault_histories);
  num("fault_armed", g_stats.fault_armed);
  num("fault_fired", g_stats.fault_fired);
  num("fault_swallowed", g_stats.fault_swallowed);
  num("refused", g_stats.refused);
  num("refused_left_bytes", g_stats.refused_left_bytes);
  num("retries", g_stats.retries);
  num("retries_dedup", g_stats.retries_dedup);
  num("retries_over_later", g_stats.retries_over_later);
  num("consts_after_refusal", g_stats.consts_after_refusal);
  num("readd_after_refusal", g_stats.readd_after_refusal);
  num("derived_after_refusal", g_stats.derived_after_refusal);
  num("embeds_after_refusal", g_stats.embeds_after_refusal);
  num("reuse_after_refusal", g_stats.reuse_after_refusal);
  num("max_requests_in_add", g_stats.max_requests_in_add);
  o += ",\"refused_by_index\":[";
  for (int i = 0; i <= 40; i++) { if (i) o += ","; o += std::to_string(g_stats.refused_by_index[i]); }
  o += "],\"refused_by_pos\":{";
  { bool first = true; for (auto& kv : g_stats.refused_by_pos) { if (!first) o += ","; first = false; o += jstr(kv.first) + ":" + std::to_string(kv.second); } }
  o += "},\"fault_embed_paths\":{";
  { bool first = true; for (auto& kv : g_stats.fault_embed_paths) { if (!first) o += ","; first = false; o += jstr(kv.first) + ":" + std::to_string(kv.second); } }
  o += "},\"extra\":{";
  { bool first = true; for (auto& kv : g_stats.extra) { if (!first) o += ","; first = false; o += jstr(kv.first) + ":" + std::to_string(kv.second); } }
  o += "}";
  o += ",\"by_size\":[";
  for (int i = 0; i < 7; i++) { if (i) o += ","; o += std::to_string(g_stats.by_size[i]); }
  o += "],\"emit_paths\":{";
  { bool first = true; for (auto& kv : g_stats.emit_paths) { if (!first) o += ","; first = false; o += jstr(kv.first) + ":" + std::to_string(kv.second); } }
  o += "},\"distinct\":[";
  { bool first = true; for (uint64_t h : g_stats.distinct_nontrivial) { if (!first) o += ","; first = false; o += std::to_string(h); } }
  o += "],\"samples\":[";
  for (size_t i = 0; i < g_stats.samples.size(); i++) { if (i) o += ","; o += g_stats.samples[i]; }
  o += "]}";
  puts(o.c_str());
  return 0;
}
