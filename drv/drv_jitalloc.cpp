// C09 driver: JitAllocator histories against a sequential model (interval map + shadow contents).
// The oracle lives here (it is harness code); asmjit is only called through its public API plus hook H2.
#include <asmjit/core.h>
#include "vcommon.h"
#include <algorithm>
#include <unordered_set>

using namespace asmjit;

extern "C" int asmjit_verif_jitallocator_check(const void* allocator, char* msg, size_t msg_size, size_t* info);

enum OpKind : int { OP_ALLOC, OP_RELEASE, OP_SHRINK, OP_QUERY, OP_WRITE, OP_WRITE_TRUNC, OP_RESET_SOFT, OP_RESET_HARD,
                    OP_STATS, OP_FOREIGN, OP_RELEASE_ALL, OP_QUERY_DEAD, OP_COUNT };
static const char* kOpNames[] = { "alloc", "release", "shrink", "query", "write", "write_trunc", "reset_soft", "reset_hard",
                                  "stats", "foreign", "release_all", "query_dead" };

struct Op { int kind; uint64_t a; uint64_t b; };

struct Live {
  JitAllocator::Span span;
  size_t requested;
  uint64_t id;
  std::vector<uint8_t> shadow;
};

struct Config {
  uint32_t options = 0;
  uint32_t granularity = 0;
  uint32_t block_size = 0;
  uint32_t fill_pattern = 0;
  std::string describe() const {
    char b[128];
    snprintf(b, sizeof b, "{\"options\":%u,\"granularity\":%u,\"block_size\":%u,\"fill_pattern\":%u}", options, granularity, block_size, fill_pattern);
    return b;
  }
};

struct Violation { std::string key; std::string what; };

struct Stats {
  uint64_t ops[OP_COUNT] {};
  uint64_t histories = 0;
  uint64_t h2_walks = 0;
  uint64_t max_live = 0;
  uint64_t max_blocks = 0;
  uint64_t nontrivial = 0;
  uint64_t bytes_verified = 0;
  uint64_t fill_checked = 0;
  uint64_t reuse_observed = 0;
  std::unordered_set<uint64_t> distinct;
  std::unordered_set<uint64_t> distinct_nontrivial;
};

static Stats g_stats;
static std::vector<Violation> g_viol;
static bool g_verbose = false;

struct Runner {
  Config cfg;
  JitAllocator* alloc = nullptr;
  std::map<uintptr_t, Live> live;      // keyed by rx
  std::map<uintptr_t, uintptr_t> rwmap; // rw start -> rx start
  std::vector<uintptr_t> order;        // allocation order (rx keys), for LIFO/FIFO
  std::vector<std::pair<uintptr_t, size_t>> dead; // recently released [rx,size)
  std::vector<Op> history;
  uint64_t next_id = 1;
  uint64_t hist_hash = 1469598103934665603ull;
  bool saw_shrink = false;
  uint64_t peak_blocks = 0;
  bool failed = false;
  uint32_t gran = 64;
  bool fill = false;
  bool dual = false;
  size_t pool_count = 1;
  bool immediate = false;
  bool padding = true;
  uint32_t pattern = 0;
  uint64_t sum_live_bytes = 0;

  explicit Runner(const Config& c) : cfg(c) {
    JitAllocator::CreateParams p;
    p.options = JitAllocatorOptions(c.options);
    p.granularity = c.granularity;
    p.block_size = c.block_size;
    p.fill_pattern = c.fill_pattern;
    alloc = new JitAllocator(&p);
    gran = alloc->granularity();
    fill = alloc->has_option(JitAllocatorOptions::kFillUnusedMemory);
    dual = alloc->has_option(JitAllocatorOptions::kUseDualMapping);
    immediate = alloc->has_option(JitAllocatorOptions::kImmediateRelease);
    padding = !alloc->has_option(JitAllocatorOptions::kDisableInitialPadding);
    pool_count = alloc->has_option(JitAllocatorOptions::kUseMultiplePools) ? 3 : 1;
    pattern = alloc->fill_pattern();
    if (!alloc->is_initialized()) {
      fail("is_initialized-false-on-working-allocator", "is_initialized() returned false for an allocator that was constructed successfully");
      failed = false;  // not fatal for the history
    }
    if (gran != (c.granularity ? c.granularity : 64u) && (c.granularity == 64 || c.granularity == 128 || c.granularity == 256))
      fail("granularity-not-honoured", "granularity() differs from the requested valid granularity");
  }
  ~Runner() { delete alloc; }

  void fail(const std::string& key, const std::string& what) {
    failed = true;
    for (auto& v : g_viol) if (v.key == key) return;
    std::string h = "[";
    size_t n = history.size();
    size_t from = n > 400 ? n - 400 : 0;
    for (size_t i = from; i < n; i++) {
      char b[96];
      snprintf(b, sizeof b, "%s[\"%s\",%llu,%llu]", i == from ? "" : ",", kOpNames[history[i].kind], (unsigned long long)history[i].a, (unsigned long long)history[i].b);
      h += b;
    }
    h += "]";
    g_viol.push_back({key, what + " cfg=" + cfg.describe() + " ops_before=" + std::to_string(n) + " history_tail=" + h});
  }

  void log(int kind, uint64_t a = 0, uint64_t b = 0) {
    history.push_back({kind, a, b});
    g_stats.ops[kind]++;
    uint64_t w[3] = {(uint64_t)kind, a, b};
    hist_hash = fnv1a(w, sizeof w, hist_hash);
  }

  static void stamp(std::vector<uint8_t>& buf, uint64_t id) {
    uint64_t x = id * 0x9E3779B97F4A7C15ull + 12345;
    for (size_t i = 0; i < buf.size(); i++) {
      x ^= x << 13; x ^= x >> 7; x ^= x << 17;
      buf[i] = uint8_t(x >> 24);
    }
  }

  bool overlaps_live_rx(uintptr_t p, size_t n, uintptr_t except = 0) {
    auto it = live.upper_bound(p);
    if (it != live.begin()) {
      auto pr = std::prev(it);
      if (pr->first != except && pr->first + pr->second.span.size() > p) return true;
    }
    if (it != live.end() && it->first != except && it->first < p + n) return true;
    return false;
  }
  bool overlaps_live_rw(uintptr_t p, size_t n) {
    auto it = rwmap.upper_bound(p);
    if (it != rwmap.begin()) {
      auto pr = std::prev(it);
      if (pr->first + live[pr->second].span.size() > p) return true;
    }
    if (it != rwmap.end() && it->first < p + n) return true;
    return false;
  }

  void verify_contents(Live& l, const char* when) {
    if (memcmp(l.span.rx(), l.shadow.data(), l.span.size()) != 0) {
      size_t i = 0;
      const uint8_t* p = (const uint8_t*)l.span.rx();
      while (p[i] == l.shadow[i]) i++;
      char b[200];
      snprintf(b, sizeof b, "span id=%llu size=%zu lost its contents at offset %zu (%s): got %02x want %02x", (unsigned long long)l.id, l.span.size(), i, when, p[i], l.shadow[i]);
      fail(std::string("contents-lost:") + when, b);
    }
    g_stats.bytes_verified += l.span.size();
  }

  void h2(const char* when) {
    char msg[400];
    size_t info[20];
    int r = asmjit_verif_jitallocator_check(alloc, msg, sizeof msg, info);
    g_stats.h2_walks++;
    if (r) {
      fail("h2-invariant-" + std::to_string(r), std::string("allocator bookkeeping inconsistent (") + when + "): " + msg);
      return;
    }
    peak_blocks = std::max<uint64_t>(peak_blocks, info[0]);
    JitAllocator::Statistics st = alloc->statistics();
    if (st.allocation_count() != live.size() || info[3] != live.size()) {
      char b[200];
      snprintf(b, sizeof b, "statistics().allocation_count()=%zu, stop bits=%zu, live spans=%zu (%s)", st.allocation_count(), info[3], live.size(), when);
      fail("stats-allocation-count", b);
    }
    if (st.used_size() != sum_live_bytes + info[6] || st.used_size() != info[4]) {
      char b[240];
      snprintf(b, sizeof b, "statistics().used_size()=%zu but live bytes=%llu + padding=%zu (bit count says %zu) (%s)", st.used_size(), (unsigned long long)sum_live_bytes, info[6], info[4], when);
      fail("stats-used-size", b);
    }
    if (st.reserved_size() < st.used_size() || st.reserved_size() != info[5] || st.block_count() != info[0]) {
      char b[200];
      snprintf(b, sizeof b, "statistics(): reserved=%zu used=%zu blocks=%zu vs walk reserved=%zu blocks=%zu (%s)", st.reserved_size(), st.used_size(), st.block_count(), info[5], info[0], when);
      fail("stats-reserved-or-blocks", b);
    }
    if (live.empty()) {
      size_t allowed = immediate ? 0 : pool_count;
      if (st.block_count() > allowed) {
        char b[240];
        snprintf(b, sizeof b, "nothing is live but %zu blocks are retained (policy allows %zu); blocks holding only padding=%zu, flagged empty=%zu (%s)", st.block_count(), allowed, info[2], info[1], when);
        fail(info[2] > info[1] ? "empty-block-retained:not-flagged-empty" : "empty-block-retained:flagged", b);
      }
    }
  }

  // -- operations ---------------------------------------------------------
  bool check_reuse = true;
  bool do_alloc(size_t size) {
    log(OP_ALLOC, size);
    JitAllocator::Span s;
    size_t before[20]; char hmsg[300];
    bool have_before = check_reuse && asmjit_verif_jitallocator_check(alloc, hmsg, sizeof hmsg, before) == 0;
    Error e = alloc->alloc(Out(s), size);
    if (have_before && e == Error::kOk) {
      size_t after[20];
      if (asmjit_verif_jitallocator_check(alloc, hmsg, sizeof hmsg, after) == 0) {
        for (size_t p = 0; p < 3; p++) {
          size_t g = before[8 + 3 * p + 2];
          if (g && after[8 + 3 * p] > before[8 + 3 * p] && before[8 + 3 * p + 1] * g >= s.size()) {
            char b[300];
            snprintf(b, sizeof b, "alloc(%zu) mapped a new block in pool %zu although an existing block of that pool had a free run of %zu bytes (released memory is not reusable)", size, p, before[8 + 3 * p + 1] * g);
            fail("free-run-not-reused", b);
          }
        }
      }
    }
    if (size == 0 || size > 0x7FFFFFFFull) {
      if (e == Error::kOk) fail("alloc-accepts-invalid-size", "alloc accepted size " + std::to_string(size));
      return false;
    }
    if (e != Error::kOk) {
      // only acceptable for huge requests (address space) - none of our sizes are
      fail("alloc-failed", "alloc(" + std::to_string(size) + ") failed with error " + std::to_string((int)e));
      return false;
    }
    uintptr_t rx = (uintptr_t)s.rx(), rw = (uintptr_t)s.rw();
    char b[256];
    if (!rx || !rw) { fail("alloc-null", "alloc returned a null rx/rw pointer"); return false; }
    if (rx % gran || rw % gran) { snprintf(b, sizeof b, "alloc(%zu) returned rx=%p rw=%p not aligned to granularity %u", size, s.rx(), s.rw(), gran); fail("alloc-misaligned", b); }
    if (s.size() < size) { snprintf(b, sizeof b, "alloc(%zu) returned a span of %zu bytes", size, s.size()); fail("alloc-too-small", b); return false; }
    if (s.size() % gran) { fail("alloc-size-not-granular", "span size is not a multiple of the granularity"); }
    if (overlaps_live_rx(rx, s.size())) { snprintf(b, sizeof b, "alloc(%zu) returned rx [%p,+%zu) overlapping a live span", size, s.rx(), s.size()); fail("alloc-overlap-rx", b); return false; }
    if (overlaps_live_rw(rw, s.size())) { snprintf(b, sizeof b, "alloc(%zu) returned rw [%p,+%zu) overlapping a live span", size, s.rw(), s.size()); fail("alloc-overlap-rw", b); return false; }
    if (!dual && rx != rw) fail("rw-differs-without-dual-mapping", "rx != rw although dual mapping is off");
    if (dual && rx == rw) fail("dual-mapping-not-dual", "rx == rw although dual mapping is on");
    if (fill) {
      const uint8_t* p = (const uint8_t*)s.rx();
      uint8_t pat[4]; memcpy(pat, &pattern, 4);
      for (size_t i = 0; i < s.size(); i++) {
        if (p[i] != pat[(rx + i) & 3]) {
          snprintf(b, sizeof b, "fill enabled, but freshly allocated span [%p,+%zu) holds %02x at offset %zu (pattern %08x)", s.rx(), s.size(), p[i], i, pattern);
          fail("fill-pattern-missing", b);
          break;
        }
      }
      g_stats.fill_checked++;
    }
    for (auto& d : dead) if (d.first < rx + s.size() && rx < d.first + d.second) { g_stats.reuse_observed++; break; }
    dead.erase(std::remove_if(dead.begin(), dead.end(), [&](const std::pair<uintptr_t, size_t>& d) { return d.first < rx + s.size() && rx < d.first + d.second; }), dead.end());
    Live l;
    l.span = s; l.requested = size; l.id = next_id++;
    l.shadow.resize(s.size());
    stamp(l.shadow, l.id);
    // write through rw, read through rx: both views must alias
    Error we = alloc->write(s, 0, l.shadow.data(), s.size());
    if (we != Error::kOk) fail("write-failed", "write() of a full span failed");
    l.span = s;
    sum_live_bytes += s.size();
    live[rx] = std::move(l);
    rwmap[rw] = rx;
    order.push_back(rx);
    verify_contents(live[rx], "after-alloc-write");
    g_stats.max_live = std::max<uint64_t>(g_stats.max_live, live.size());
    return true;
  }

  void forget(uintptr_t rx) {
    Live& l = live[rx];
    sum_live_bytes -= l.span.size();
    rwmap.erase((uintptr_t)l.span.rw());
    dead.push_back({rx, l.span.size()});
    if (dead.size() > 64) dead.erase(dead.begin());
    live.erase(rx);
    order.erase(std::find(order.begin(), order.end(), rx));
  }

  void do_release(uintptr_t rx) {
    log(OP_RELEASE, live[rx].id);
    verify_contents(live[rx], "before-release");
    Error e = alloc->release((void*)rx);
    if (e != Error::kOk) { fail("release-failed", "release of a live span failed with error " + std::to_string((int)e)); }
    forget(rx);
  }

  void do_shrink(uintptr_t rx, size_t new_size) {
    Live& l = live[rx];
    log(OP_SHRINK, l.id, new_size);
    saw_shrink = true;
    size_t old = l.span.size();
    if (new_size == 0) {
      verify_contents(l, "before-shrink0");
      JitAllocator::Span s = l.span;
      Error e = alloc->shrink(s, 0);
      if (e != Error::kOk) fail("shrink0-failed", "shrink(span,0) failed");
      if (s.rx() != nullptr) fail("shrink0-span-not-cleared", "shrink(span,0) did not clear the span");
      forget(rx);
      return;
    }
    JitAllocator::Span s = l.span;
    Error e = alloc->shrink(s, new_size);
    if (new_size > old) {
      if (e == Error::kOk) fail("shrink-grows", "shrink to a larger size succeeded");
      if (s.size() != old) fail("shrink-failed-but-changed", "failed shrink changed the span");
      verify_contents(l, "after-failed-shrink");
      return;
    }
    if (e != Error::kOk) { fail("shrink-failed", "shrink(" + std::to_string(old) + "->" + std::to_string(new_size) + ") failed with " + std::to_string((int)e)); return; }
    if (s.rx() != l.span.rx() || s.rw() != l.span.rw()) fail("shrink-moved", "shrink moved the span");
    if (s.size() < new_size || s.size() > old || s.size() % gran) {
      char b[160]; snprintf(b, sizeof b, "shrink(%zu->%zu) left the span with size %zu", old, new_size, s.size());
      fail("shrink-size", b);
      return;
    }
    if (s.size() - new_size >= size_t(gran) * 4) {
      char b[160]; snprintf(b, sizeof b, "shrink(%zu->%zu) kept %zu bytes (more than a granule too many)", old, new_size, s.size());
      fail("shrink-keeps-too-much", b);
    }
    sum_live_bytes -= old - s.size();
    if (s.size() < old) dead.push_back({rx + s.size(), old - s.size()});
    l.span = s;
    l.shadow.resize(s.size());
    verify_contents(l, "after-shrink");
  }

  void do_query(uintptr_t rx) {
    Live& l = live[rx];
    log(OP_QUERY, l.id);
    JitAllocator::Span q;
    Error e = alloc->query(Out(q), (void*)rx);
    if (e != Error::kOk) { fail("query-live-failed", "query of a live span failed"); return; }
    if (q.rx() != l.span.rx() || q.rw() != l.span.rw() || q.size() != l.span.size()) {
      char b[240]; snprintf(b, sizeof b, "query(%p) returned rx=%p rw=%p size=%zu, live span is rx=%p rw=%p size=%zu", (void*)rx, q.rx(), q.rw(), q.size(), l.span.rx(), l.span.rw(), l.span.size());
      fail("query-mismatch", b);
    }
    // interior pointer: whatever is returned must stay inside the live span
    if (l.span.size() > gran) {
      uintptr_t ip = rx + gran * (1 + (l.id % ((l.span.size() / gran) - 1 ? (l.span.size() / gran) - 1 : 1)));
      if (ip < rx + l.span.size()) {
        JitAllocator::Span qi;
        Error ei = alloc->query(Out(qi), (void*)ip);
        if (ei == Error::kOk) {
          uintptr_t qs = (uintptr_t)qi.rx();
          if (qs < rx || qs + qi.size() > rx + l.span.size()) fail("query-interior-escapes", "query of an interior pointer returned memory outside the live span");
        }
      }
    }
  }

  void do_query_dead() {
    log(OP_QUERY_DEAD);
    for (auto& d : dead) {
      if (overlaps_live_rx(d.first, 1)) continue;
      JitAllocator::Span q;
      Error e = alloc->query(Out(q), (void*)d.first);
      if (e == Error::kOk) {
        char b[200]; snprintf(b, sizeof b, "query(%p) of released memory succeeded (size=%zu) although nothing live covers it", (void*)d.first, q.size());
        fail("query-released-succeeds", b);
        return;
      }
    }
  }

  void do_write(uintptr_t rx, Rng& r) {
    Live& l = live[rx];
    size_t off = r.below(l.span.size());
    size_t n = 1 + r.below(std::min<size_t>(l.span.size() - off, 4096));
    log(OP_WRITE, l.id, off);
    std::vector<uint8_t> data(n);
    for (auto& x : data) x = uint8_t(r.next());
    Error e = alloc->write(l.span, off, data.data(), n);
    if (e != Error::kOk) { fail("write-failed", "in-range write failed"); return; }
    memcpy(l.shadow.data() + off, data.data(), n);
    // out-of-range write must be refused and change nothing
    Error e2 = alloc->write(l.span, l.span.size() - 1, data.data(), 2);
    if (e2 == Error::kOk) fail("write-out-of-range-accepted", "write past the end of the span succeeded");
    // boundary (offset, size) pairs: everything that does not lie inside the span must be refused - including pairs whose sum
    // wraps around SIZE_MAX - and must change neither this span nor its neighbours (all live contents are verified)
    {
      const size_t sz = l.span.size();
      const size_t pairs[][2] = { { sz, 1 }, { sz + 1, 0 }, { 0, sz + 1 }, { sz - 1, SIZE_MAX }, { SIZE_MAX, 1 }, { SIZE_MAX - 3, 8 }, { SIZE_MAX - 63, 64 },
                                  { SIZE_MAX / 2 + 1, SIZE_MAX / 2 + 2 }, { 1, SIZE_MAX } };
      const size_t* pr = pairs[r.below(sizeof(pairs) / sizeof(pairs[0]))];
      size_t take = std::min<size_t>(pr[1], data.size());   // the source buffer only has to be valid for what a correct refusal never reads
      (void)take;
      Error e3 = alloc->write(l.span, pr[0], data.data(), pr[1]);
      if (e3 == Error::kOk) {
        char b[160]; snprintf(b, sizeof b, "write(span of %zu bytes, offset %zu, size %zu) succeeded", sz, pr[0], pr[1]);
        fail("write-out-of-range-accepted", b);
      }
      for (auto& kv : live) verify_contents(kv.second, "after-refused-write");
    }
    verify_contents(l, "after-write");
  }

  void do_write_trunc(uintptr_t rx, size_t new_size) {
    Live& l = live[rx];
    log(OP_WRITE_TRUNC, l.id, new_size);
    saw_shrink = true;
    size_t old = l.span.size();
    if (new_size == 0 || new_size > old) return;
    struct Ctx { size_t n; uint8_t v; } ctx { new_size, uint8_t(l.id * 7 + 1) };
    JitAllocator::Span s = l.span;
    Error e = alloc->write(s, [&](JitAllocator::Span& sp) noexcept -> Error {
      memset(sp.rw(), ctx.v, ctx.n);
      sp.shrink(ctx.n);
      return Error::kOk;
    });
    if (e != Error::kOk) { fail("write-trunc-failed", "write() with truncation failed"); return; }
    if (s.size() < new_size || s.size() > old || s.size() % gran || s.rx() != l.span.rx()) { fail("write-trunc-size", "write() with truncation left a wrong span"); return; }
    sum_live_bytes -= old - s.size();
    if (s.size() < old) dead.push_back({rx + s.size(), old - s.size()});
    l.span = s;
    l.shadow.resize(s.size());
    memset(l.shadow.data(), ctx.v, new_size);
    verify_contents(l, "after-write-trunc");
  }

  void do_reset(bool hard) {
    log(hard ? OP_RESET_HARD : OP_RESET_SOFT);
    for (auto& kv : live) verify_contents(kv.second, "before-reset");
    alloc->reset(hard ? ResetPolicy::kHard : ResetPolicy::kSoft);
    live.clear(); rwmap.clear(); order.clear(); dead.clear();
    sum_live_bytes = 0;
    JitAllocator::Statistics st = alloc->statistics();
    size_t allowed = (hard || immediate) ? 0 : pool_count;
    if (st.allocation_count() != 0) fail("reset-leaves-allocations", "allocation_count != 0 after reset");
    if (st.block_count() > allowed) {
      char b[160]; snprintf(b, sizeof b, "%zu blocks retained after %s reset (policy allows %zu)", st.block_count(), hard ? "hard" : "soft", allowed);
      fail("reset-retains-blocks", b);
    }
    h2("after-reset");
  }

  void do_foreign(Rng& r) {
    log(OP_FOREIGN);
    static JitAllocator other;
    static JitAllocator::Span ospan;
    if (!ospan.rx()) { Error e = other.alloc(Out(ospan), 128); (void)e; }
    uint8_t on_stack[64];
    void* heap = malloc(256);
    void* cands[] = { on_stack, heap, ospan.rx(), (void*)uintptr_t(0x10), (void*)uintptr_t(0x7fffffff0000ull) };
    for (void* p : cands) {
      if (overlaps_live_rx((uintptr_t)p, 1)) continue;
      JitAllocator::Span q;
      if (alloc->query(Out(q), p) == Error::kOk) { fail("foreign-query-accepted", "query accepted a pointer the allocator never returned"); }
      if (alloc->release(p) == Error::kOk) { fail("foreign-release-accepted", "release accepted a pointer the allocator never returned"); }
      JitAllocator::Span forged;
      forged._rx = p; forged._rw = p; forged._size = 128;
      if (alloc->shrink(forged, 64) == Error::kOk) { fail("foreign-shrink-accepted", "shrink accepted a span the allocator never returned"); }
    }
    JitAllocator::Span q;
    if (alloc->release(nullptr) == Error::kOk) fail("release-null-accepted", "release(nullptr) succeeded");
    free(heap);
    (void)r;
  }

  void do_release_all(int mode, Rng& r) {
    log(OP_RELEASE_ALL, mode);
    while (!order.empty()) {
      uintptr_t rx;
      if (mode == 0) rx = order.back();
      else if (mode == 1) rx = order.front();
      else rx = order[r.below(order.size())];
      verify_contents(live[rx], "before-release");
      Error e = alloc->release((void*)rx);
      if (e != Error::kOk) fail("release-failed", "release of a live span failed");
      forget(rx);
      if (failed) return;
    }
    h2(mode == 0 ? "after-release-all-lifo" : mode == 1 ? "after-release-all-fifo" : "after-release-all-random");
  }

  void end_of_history() {
    for (auto& kv : live) verify_contents(kv.second, "end");
    h2("end");
    g_stats.histories++;
    g_stats.max_blocks = std::max(g_stats.max_blocks, peak_blocks);
    g_stats.distinct.insert(hist_hash);
    if (peak_blocks >= 2 || saw_shrink) g_stats.distinct_nontrivial.insert(hist_hash);
  }
};

static size_t pick_size(Rng& r, uint32_t block) {
  switch (r.below(10)) {
    case 0: return 1 + r.below(64);
    case 1: return 64 * (1 + r.below(8));
    case 2: return 1 + r.below(4096);
    case 3: return 1 + r.below(20000);
    case 4: return block / 2 + r.below(256) - 128;
    case 5: return block - 64 * r.below(4);
    case 6: return block + 1 + r.below(1000);
    case 7: return size_t(block) * (2 + r.below(2)) + r.below(5000);
    case 8: return 256 * (1 + r.below(64));
    default: return 128 * (1 + r.below(32));
  }
}

static void random_history(const Config& cfg, uint64_t seed, size_t nops, int style) {
  Rng r(seed);
  Runner R(cfg);
  uint32_t block = R.alloc->block_size();
  size_t max_live = 8 + r.below(style == 2 ? 24 : 200);
  for (size_t i = 0; i < nops && !R.failed; i++) {
    uint64_t c = r.below(100);
    R.check_reuse = r.chance(1, 6);
    if (R.live.empty() || (c < 38 && R.live.size() < max_live)) {
      size_t sz = style == 1 ? 64 * (1 + r.below(6)) : pick_size(r, block);
      if (r.chance(1, 200)) sz = 0;
      R.do_alloc(sz);
    }
    else {
      uintptr_t rx;
      uint64_t how = r.below(3);
      if (how == 0) rx = R.order.back();
      else if (how == 1) rx = R.order.front();
      else rx = R.order[r.below(R.order.size())];
      if (c < 38 || c < 68) R.do_release(rx);
      else if (c < 76) {
        size_t sz = R.live[rx].span.size();
        size_t ns = r.chance(1, 12) ? 0 : r.chance(1, 12) ? sz + 1 + r.below(500) : 1 + r.below(sz);
        R.do_shrink(rx, ns);
      }
      else if (c < 82) R.do_query(rx);
      else if (c < 88) R.do_write(rx, r);
      else if (c < 91) R.do_write_trunc(rx, 1 + r.below(R.live[rx].span.size()));
      else if (c < 93) R.do_query_dead();
      else if (c < 95) R.do_foreign(r);
      else if (c < 97) { g_stats.ops[OP_STATS]++; R.h2("stats"); }
      else if (c < 99) R.do_release_all(int(r.below(3)), r);
      else R.do_reset(r.chance(1, 2));
    }
    if ((i & 63) == 63) R.h2("periodic");
  }
  if (!R.failed) {
    R.end_of_history();
    if (r.chance(1, 2)) R.do_release_all(int(r.below(3)), r);
  }
}

// Bounded-exhaustive enumeration: every op sequence up to `depth` over a small alphabet on a minimum-size block.
struct Exh {
  Config cfg;
  int depth;
  std::vector<size_t> sizes;
  uint64_t count = 0;
  uint64_t shard = 0, shards = 1;
  std::vector<int> path;

  // One choice is encoded as an int: [0, nsizes) alloc; then per live index: release, shrink-to-1-granule, shrink-half; then soft reset.
  void run_path(const std::vector<int>& p) {
    Runner R(cfg);
    for (int c : p) {
      if (R.failed) break;
      int ns = (int)sizes.size();
      if (c < ns) { R.do_alloc(sizes[c]); }
      else {
        int k = c - ns;
        int li = k / 3, what = k % 3;
        if (li >= (int)R.order.size()) { if (li == 1000) R.do_reset(false); continue; }
        uintptr_t rx = R.order[li];
        if (what == 0) R.do_release(rx);
        else if (what == 1) R.do_shrink(rx, 1);
        else R.do_shrink(rx, R.live[rx].span.size() / 2 + 1);
      }
      for (size_t i = 0; i < R.order.size() && !R.failed; i++) { g_stats.ops[OP_QUERY]++; R.do_query(R.order[i]); }
      if (!R.failed) R.h2("step");
    }
    if (!R.failed) {
      R.end_of_history();
      Rng r(count);
      R.do_release_all(int(count % 3), r);
    }
  }

  void rec(int d, int live_count) {
    if (d == depth) {
      if ((count++ % shards) == shard) run_path(path);
      return;
    }
    int ns = (int)sizes.size();
    for (int c = 0; c < ns; c++) { path.push_back(c); rec(d + 1, live_count + 1); path.pop_back(); }
    for (int li = 0; li < live_count; li++) {
      path.push_back(ns + li * 3 + 0); rec(d + 1, live_count - 1); path.pop_back();
      path.push_back(ns + li * 3 + 1); rec(d + 1, live_count); path.pop_back();
      path.push_back(ns + li * 3 + 2); rec(d + 1, live_count); path.pop_back();
    }
    if (live_count > 0) { path.push_back(ns + 3000); rec(d + 1, 0); path.pop_back(); }
  }
};

int main(int argc, char** argv) {
  Args a(argc, argv);
  Config cfg;
  cfg.options = (uint32_t)a.u64("options", 0);
  cfg.granularity = (uint32_t)a.u64("granularity", 0);
  cfg.block_size = (uint32_t)a.u64("block-size", 0);
  cfg.fill_pattern = (uint32_t)a.u64("fill-pattern", 0);
  uint64_t seed = a.u64("seed", 1);
  std::string mode = a.str("mode", "random");

  if (mode == "random") {
    size_t nh = a.u64("histories", 10), nops = a.u64("ops", 2000);
    for (size_t h = 0; h < nh; h++) {
      Rng r(seed * 1000003 + h);
      random_history(cfg, r.next(), nops, int(h % 3));
    }
  }
  else if (mode == "exh") {
    Exh e;
    e.cfg = cfg;
    e.depth = (int)a.u64("depth", 4);
    e.shard = a.u64("shard", 0);
    e.shards = a.u64("shards", 1);
    uint32_t g = cfg.granularity ? cfg.granularity : 64;
    uint32_t b = 65536;
    e.sizes = { 1, g, g + 1, b / 2, b - g, b, b + 1, 3 * b };
    if (a.has("few-sizes")) e.sizes = { 1, g + 1, b - g, b + 1 };
    for (int d = 1; d <= e.depth; d++) { Exh x = e; x.depth = d; x.count = 0; x.rec(0, 0); }
  }

  printf("{\"violations\":[");
  for (size_t i = 0; i < g_viol.size(); i++)
    printf("%s{\"key\":%s,\"what\":%s}", i ? "," : "", jstr(g_viol[i].key).c_str(), jstr(g_viol[i].what).c_str());
  printf("],\"histories\":%llu,\"h2_walks\":%llu,\"max_live\":%llu,\"max_blocks\":%llu,\"bytes_verified\":%llu,\"fill_checked\":%llu,\"reuse_observed\":%llu,\"ops\":{",
         (unsigned long long)g_stats.histories, (unsigned long long)g_stats.h2_walks, (unsigned long long)g_stats.max_live,
         (unsigned long long)g_stats.max_blocks, (unsigned long long)g_stats.bytes_verified, (unsigned long long)g_stats.fill_checked,
         (unsigned long long)g_stats.reuse_observed);
  for (int i = 0; i < OP_COUNT; i++) printf("%s\"%s\":%llu", i ? "," : "", kOpNames[i], (unsigned long long)g_stats.ops[i]);
  printf("},\"distinct\":[");
  { bool f = true; for (uint64_t h : g_stats.distinct_nontrivial) { printf("%s%llu", f ? "" : ",", (unsigned long long)h); f = false; } }
  printf("],\"distinct_all\":%zu}\n", g_stats.distinct.size());
  return 0;
}
