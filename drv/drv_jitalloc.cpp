// C09 driver: JitAllocator histories against a sequential model (interval map + shadow contents).
// The oracle lives here (it is harness code); asmjit is only called through its public API plus hook H2.
#include <asmjit/core.h>
#include "vcommon.h"
#include <algorithm>
#include <unordered_set>
#include <unordered_map>

using namespace asmjit;

extern "C" int asmjit_verif_jitallocator_check(const void* allocator, char* msg, size_t msg_size, size_t* info);

enum OpKind : int { OP_ALLOC, OP_RELEASE, OP_SHRINK, OP_QUERY, OP_WRITE, OP_WRITE_TRUNC, OP_RESET_SOFT, OP_RESET_HARD,
                    OP_STATS, OP_FOREIGN, OP_RELEASE_ALL, OP_QUERY_DEAD, OP_ALLOC_HUGE, OP_STALE_SHRINK, OP_MISUSE, OP_COUNT };
static const char* kOpNames[] = { "alloc", "release", "shrink", "query", "write", "write_trunc", "reset_soft", "reset_hard",
                                  "stats", "foreign", "release_all", "query_dead", "alloc_huge", "stale_shrink", "misuse" };

static const uint32_t kOptCustomPattern = 0x10000000u;

struct Op { int kind; uint64_t a; uint64_t b; };

struct Live {
  JitAllocator::Span span;
  size_t requested;
  uint64_t id;
  std::vector<uint8_t> shadow;
};

struct Config {
  uint32_t options = 0;
  uint32_t granularity = 0;
  uint32_t block_size = 0;
  uint32_t fill_pattern = 0;
  std::string describe() const {
    char b[128];
    snprintf(b, sizeof b, "{\"options\":%u,\"granularity\":%u,\"block_size\":%u,\"fill_pattern\":%u}", options, granularity, block_size, fill_pattern);
    return b;
  }
};

struct Violation { std::string key; std::string what; };

struct Stats {
  uint64_t ops[OP_COUNT] {};
  uint64_t histories = 0;
  uint64_t h2_walks = 0;
  uint64_t max_live = 0;
  uint64_t max_blocks = 0;
  uint64_t nontrivial = 0;
  uint64_t bytes_verified = 0;
  uint64_t fill_checked = 0;
  uint64_t reuse_observed = 0;
  // dimensions added in round 11 (each one is reported; the Python side turns "observed nothing" into exit 2)
  uint64_t custom_pattern_allocators = 0;   // allocators created with kCustomFillPattern whose accessor and memory were compared with the REQUESTED pattern
  uint64_t ignored_pattern_allocators = 0;  // allocators given a fill_pattern without kCustomFillPattern (must be ignored)
  uint64_t huge_requests = 0, huge_refused = 0;
  uint64_t nonlive_queries = 0;             // query() of a granule next to a live span that no live span covers
  uint64_t stale_shrinks = 0;               // shrink() through a span that was released while its block still exists
  uint64_t release_fill_checked = 0;        // released / shrunk-away ranges read back right after the call (block known to survive)
  uint64_t overhead_checks = 0, overhead_exact_checks = 0;
  uint64_t invalid_param_allocators = 0, valid_block_size_allocators = 0;
  uint64_t os_map_checks = 0, os_map_checks_after_hard_reset = 0, os_map_checks_after_destroy = 0;
  uint64_t scoped_writes = 0, policy_writes = 0;
  uint64_t misuse_probes = 0;
  uint64_t dense_histories = 0;
  // geometry-derived sizes (round 12): requests computed from block size / granularity / padding / next block size
  uint64_t geom_requests = 0;               // allocations whose size came from the allocator's geometry (exact fit, +-1 granule)
  uint64_t exact_fit_fresh = 0;             // measured: the allocation mapped a new block and filled it completely
  uint64_t exact_fit_later_block = 0;       // ... and that block was not the first block of the allocator
  uint64_t spill_fresh = 0;                 // measured: a geometry request mapped a new block and left free space in it
  uint64_t exact_then_soft_reset = 0, exact_then_shrink_tail = 0, exact_then_release_all = 0;
  uint64_t reset_dead_queries = 0, reset_retained_allocs = 0;
  std::unordered_set<uint64_t> distinct;
  std::unordered_set<uint64_t> distinct_nontrivial;
};

static Stats g_stats;
static std::vector<Violation> g_viol;
static bool g_verbose = false;

// What a default-constructed allocator reports (documented defaults; taken from the library, not hard-coded), and the
// calibration of statistics().overhead_size() as a function of (blocks, granules).
struct Reference {
  uint32_t granularity = 0, block_size = 0, fill_pattern = 0;
  double overhead_per_block = 0, overhead_per_granule = 0;
  bool overhead_calibrated = false;
};
static Reference g_ref;
static JitAllocator* g_other = nullptr;            // a second allocator, owner of "foreign" spans
static JitAllocator::Span g_other_span;

// Sizes of the mappings JitAllocator creates, as the operating system sees them: anonymous private rwx (single mapping)
// and anonymous shared file mappings (both views of a dual mapping: memfd "vmem", or the shm/tmp fallbacks).
struct OsMaps { uint64_t rwx_anon = 0, shared_anon = 0; };
static uint64_t g_os_every = 1, g_os_tick = 0;
static OsMaps read_os_maps() {
  OsMaps m;
  FILE* f = fopen("/proc/self/maps", "r");
  if (!f) return m;
  char line[1024];
  while (fgets(line, sizeof line, f)) {
    unsigned long lo = 0, hi = 0; char perms[8] = {0};
    if (sscanf(line, "%lx-%lx %7s", &lo, &hi, perms) != 3) continue;
    if (strstr(line, "/memfd:vmem") || strstr(line, "/shm-id-")) m.shared_anon += hi - lo;
    else if (perms[0] == 'r' && perms[1] == 'w' && perms[2] == 'x' && perms[3] == 'p') m.rwx_anon += hi - lo;
  }
  fclose(f);
  return m;
}

struct Runner {
  Config cfg;
  JitAllocator* alloc = nullptr;
  std::map<uintptr_t, Live> live;      // keyed by rx
  std::map<uintptr_t, uintptr_t> rwmap; // rw start -> rx start
  std::vector<uintptr_t> order;        // allocation order (rx keys), for LIFO/FIFO
  std::vector<std::pair<uintptr_t, size_t>> dead; // recently released [rx,size)
  std::vector<Op> history;
  uint64_t next_id = 1;
  uint64_t hist_hash = 1469598103934665603ull;
  bool saw_shrink = false;
  uint64_t peak_blocks = 0;
  bool failed = false;
  uint32_t gran = 64;
  bool fill = false;
  bool dual = false;
  size_t pool_count = 1;
  bool immediate = false;
  bool padding = true;
  uint32_t pattern = 0;
  uint64_t sum_live_bytes = 0;

  uint32_t requested_pattern = 0;      // what the configuration asks for (custom) or what a default allocator reports
  bool os_probe = true;
  OsMaps os_base;
  std::unordered_map<const void*, uint32_t> block_live;   // Span::_block -> number of live spans in it
  struct Stale { JitAllocator::Span span; };
  std::vector<Stale> stale;            // copies of spans that were released (for stale-span probes)

  static bool valid_granularity(uint32_t g) { return g == 64 || g == 128 || g == 256; }
  static bool valid_block_size(uint32_t b) { return b >= 64 * 1024 && b <= 256u * 1024 * 1024 && (b & (b - 1)) == 0; }

  explicit Runner(const Config& c, bool probe_os = true) : cfg(c), os_probe(probe_os) {
    if (os_probe) os_base = read_os_maps();
    JitAllocator::CreateParams p;
    p.options = JitAllocatorOptions(c.options);
    p.granularity = c.granularity;
    p.block_size = c.block_size;
    p.fill_pattern = c.fill_pattern;
    alloc = new JitAllocator(&p);
    gran = alloc->granularity();
    fill = alloc->has_option(JitAllocatorOptions::kFillUnusedMemory);
    dual = alloc->has_option(JitAllocatorOptions::kUseDualMapping);
    immediate = alloc->has_option(JitAllocatorOptions::kImmediateRelease);
    padding = !alloc->has_option(JitAllocatorOptions::kDisableInitialPadding);
    pool_count = alloc->has_option(JitAllocatorOptions::kUseMultiplePools) ? 3 : 1;
    // The pattern the memory is compared with is the one that was ASKED for, not the one the accessor reports:
    // kCustomFillPattern -> CreateParams::fill_pattern; otherwise the parameter is documented as unused and the allocator
    // must behave like a default-constructed one.
    requested_pattern = (c.options & kOptCustomPattern) ? c.fill_pattern : g_ref.fill_pattern;
    pattern = requested_pattern;
    if (c.options & kOptCustomPattern) g_stats.custom_pattern_allocators++;
    else if (c.fill_pattern) g_stats.ignored_pattern_allocators++;
    if (alloc->fill_pattern() != requested_pattern) {
      char b[200];
      snprintf(b, sizeof b, "fill_pattern() reports %08x, %s %08x", alloc->fill_pattern(),
               (c.options & kOptCustomPattern) ? "kCustomFillPattern was given with" : "without kCustomFillPattern a default allocator reports", requested_pattern);
      fail((c.options & kOptCustomPattern) ? "fill-pattern-accessor:custom-not-honoured" : "fill-pattern-accessor:not-default", b);
      failed = false;
    }
    if (!alloc->is_initialized()) {
      fail("is_initialized-false-on-working-allocator", "is_initialized() returned false for an allocator that was constructed successfully");
      failed = false;  // not fatal for the history
    }
    if (gran != (c.granularity ? c.granularity : 64u) && (c.granularity == 64 || c.granularity == 128 || c.granularity == 256))
      fail("granularity-not-honoured", "granularity() differs from the requested valid granularity");
    // CreateParams normalisation (documented: an invalid value selects the default)
    bool odd = false;
    if (c.granularity && !valid_granularity(c.granularity)) {
      odd = true;
      if (gran != g_ref.granularity) {
        char b[160]; snprintf(b, sizeof b, "granularity %u is not valid, granularity() is %u instead of the default %u", c.granularity, gran, g_ref.granularity);
        fail("invalid-granularity-not-defaulted", b);    // (the history is not run on an allocator with unexpected parameters)
      }
    }
    if (c.block_size && !valid_block_size(c.block_size)) {
      odd = true;
      if (alloc->block_size() != g_ref.block_size) {
        char b[160]; snprintf(b, sizeof b, "block size %u is not valid, block_size() is %u instead of the default %u", c.block_size, alloc->block_size(), g_ref.block_size);
        fail("invalid-block-size-not-defaulted", b);
      }
    }
    else {
      uint32_t want = c.block_size ? c.block_size : g_ref.block_size;
      if (c.block_size) g_stats.valid_block_size_allocators++;
      if (alloc->block_size() != want) {
        char b[160]; snprintf(b, sizeof b, "block_size() is %u, requested %u (valid)", alloc->block_size(), want);
        fail("block-size-not-honoured", b);
      }
    }
    if (odd) g_stats.invalid_param_allocators++;
    uint32_t bs = alloc->block_size();
    if (!valid_granularity(gran) || bs == 0 || (bs & (bs - 1)) != 0) {
      char b[160]; snprintf(b, sizeof b, "allocator reports granularity %u and block size %u", gran, bs);
      fail("allocator-parameters-unusable", b);
    }
  }
  ~Runner() {
    delete alloc;
    alloc = nullptr;
    if (os_probe && !failed && (g_os_tick++ % g_os_every) == 0) {
      g_stats.os_map_checks_after_destroy++;
      os_compare(0, "after the allocator was destroyed");
    }
  }

  // What the operating system maps for this allocator must be what statistics().reserved_size() accounts for: a block
  // that was deleted (release of the last span, reset, destructor) must be unmapped in both views.
  void os_compare(size_t reserved, const char* when) {
    OsMaps now = read_os_maps();
    g_stats.os_map_checks++;
    uint64_t rwx = now.rwx_anon - os_base.rwx_anon, shm = now.shared_anon - os_base.shared_anon;
    uint64_t want_rwx = dual ? 0 : reserved, want_shm = dual ? 2 * uint64_t(reserved) : 0;
    if (rwx != want_rwx || shm != want_shm) {
      char b[300];
      snprintf(b, sizeof b, "%s: the process maps %llu bytes of anonymous rwx memory and %llu bytes of anonymous shared memory more than before the allocator "
               "existed; reserved_size()=%zu with dual mapping %s accounts for %llu and %llu", when, (unsigned long long)rwx, (unsigned long long)shm, reserved,
               dual ? "on" : "off", (unsigned long long)want_rwx, (unsigned long long)want_shm);
      bool more = rwx > want_rwx || shm > want_shm;
      failed = true;   // (keeps the destructor path from reporting twice)
      report(more ? "os-mapping:more-mapped-than-reserved" : "os-mapping:less-mapped-than-reserved", b);
    }
  }
  // reading /proc/self/maps costs about a millisecond: after a hard reset / destruction 1 in g_os_every is checked, at the
  // other points 1 in 4 * g_os_every
  void os_check(const char* when, bool strong = false) {
    if (!os_probe || failed) return;
    if ((g_os_tick++ % (strong ? g_os_every : 4 * g_os_every)) != 0) return;
    if (strong) g_stats.os_map_checks_after_hard_reset++;
    os_compare(alloc->statistics().reserved_size(), when);
  }

  void fail(const std::string& key, const std::string& what) { failed = true; report(key, what); }
  void report(const std::string& key, const std::string& what) {
    for (auto& v : g_viol) if (v.key == key) return;
    std::string h = "[";
    size_t n = history.size();
    size_t from = n > 400 ? n - 400 : 0;
    for (size_t i = from; i < n; i++) {
      char b[96];
      snprintf(b, sizeof b, "%s[\"%s\",%llu,%llu]", i == from ? "" : ",", kOpNames[history[i].kind], (unsigned long long)history[i].a, (unsigned long long)history[i].b);
      h += b;
    }
    h += "]";
    g_viol.push_back({key, what + " cfg=" + cfg.describe() + " ops_before=" + std::to_string(n) + " history_tail=" + h});
  }

  void log(int kind, uint64_t a = 0, uint64_t b = 0) {
    history.push_back({kind, a, b});
    g_stats.ops[kind]++;
    uint64_t w[3] = {(uint64_t)kind, a, b};
    hist_hash = fnv1a(w, sizeof w, hist_hash);
  }

  static void stamp(std::vector<uint8_t>& buf, uint64_t id) {
    uint64_t x = id * 0x9E3779B97F4A7C15ull + 12345;
    for (size_t i = 0; i < buf.size(); i++) {
      x ^= x << 13; x ^= x >> 7; x ^= x << 17;
      buf[i] = uint8_t(x >> 24);
    }
  }

  bool overlaps_live_rx(uintptr_t p, size_t n, uintptr_t except = 0) {
    auto it = live.upper_bound(p);
    if (it != live.begin()) {
      auto pr = std::prev(it);
      if (pr->first != except && pr->first + pr->second.span.size() > p) return true;
    }
    if (it != live.end() && it->first != except && it->first < p + n) return true;
    return false;
  }
  bool overlaps_live_rw(uintptr_t p, size_t n) {
    auto it = rwmap.upper_bound(p);
    if (it != rwmap.begin()) {
      auto pr = std::prev(it);
      if (pr->first + live[pr->second].span.size() > p) return true;
    }
    if (it != rwmap.end() && it->first < p + n) return true;
    return false;
  }

  void verify_contents(Live& l, const char* when) {
    if (memcmp(l.span.rx(), l.shadow.data(), l.span.size()) != 0) {
      size_t i = 0;
      const uint8_t* p = (const uint8_t*)l.span.rx();
      while (p[i] == l.shadow[i]) i++;
      char b[200];
      snprintf(b, sizeof b, "span id=%llu size=%zu lost its contents at offset %zu (%s): got %02x want %02x", (unsigned long long)l.id, l.span.size(), i, when, p[i], l.shadow[i]);
      fail(std::string("contents-lost:") + when, b);
    }
    g_stats.bytes_verified += l.span.size();
  }

  void h2(const char* when) {
    char msg[400];
    size_t info[20];
    int r = asmjit_verif_jitallocator_check(alloc, msg, sizeof msg, info);
    g_stats.h2_walks++;
    if (r) {
      fail("h2-invariant-" + std::to_string(r), std::string("allocator bookkeeping inconsistent (") + when + "): " + msg);
      return;
    }
    peak_blocks = std::max<uint64_t>(peak_blocks, info[0]);
    JitAllocator::Statistics st = alloc->statistics();
    if (st.allocation_count() != live.size() || info[3] != live.size()) {
      char b[200];
      snprintf(b, sizeof b, "statistics().allocation_count()=%zu, stop bits=%zu, live spans=%zu (%s)", st.allocation_count(), info[3], live.size(), when);
      fail("stats-allocation-count", b);
    }
    if (st.used_size() != sum_live_bytes + info[6] || st.used_size() != info[4]) {
      char b[240];
      snprintf(b, sizeof b, "statistics().used_size()=%zu but live bytes=%llu + padding=%zu (bit count says %zu) (%s)", st.used_size(), (unsigned long long)sum_live_bytes, info[6], info[4], when);
      fail("stats-used-size", b);
    }
    if (st.reserved_size() < st.used_size() || st.reserved_size() != info[5] || st.block_count() != info[0]) {
      char b[200];
      snprintf(b, sizeof b, "statistics(): reserved=%zu used=%zu blocks=%zu vs walk reserved=%zu blocks=%zu (%s)", st.reserved_size(), st.used_size(), st.block_count(), info[5], info[0], when);
      fail("stats-reserved-or-blocks", b);
    }
    check_overhead(st, info, when);
    if (live.empty()) {
      size_t allowed = immediate ? 0 : pool_count;
      if (st.block_count() > allowed) {
        char b[240];
        snprintf(b, sizeof b, "nothing is live but %zu blocks are retained (policy allows %zu); blocks holding only padding=%zu, flagged empty=%zu (%s)", st.block_count(), allowed, info[2], info[1], when);
        fail(info[2] > info[1] ? "empty-block-retained:not-flagged-empty" : "empty-block-retained:flagged", b);
      }
    }
  }

  // statistics().overhead_size() and the derived getters. The overhead is bookkeeping memory per block: it must be a
  // function of the block set - zero without blocks, and (calibrated from two fresh one-block allocators at start-up) the
  // same linear function of (blocks, granules) throughout a history: a drift means a block was inserted/removed/reset
  // with different amounts.
  void check_overhead(const JitAllocator::Statistics& st, const size_t* info, const char* when) {
    char b[300];
    g_stats.overhead_checks++;
    if (st.unused_size() != st.reserved_size() - st.used_size()) {
      snprintf(b, sizeof b, "unused_size()=%zu but reserved-used=%zu (%s)", st.unused_size(), st.reserved_size() - st.used_size(), when);
      fail("stats-derived-getters", b);
    }
    double ur = st.used_ratio(), nr = st.unused_ratio();
    if (st.reserved_size() && (ur < 0 || ur > 1.0000001 || nr < 0 || nr > 1.0000001 || ur + nr < 0.999999 || ur + nr > 1.000001)) {
      snprintf(b, sizeof b, "used_ratio()=%g unused_ratio()=%g with used=%zu reserved=%zu (%s)", ur, nr, st.used_size(), st.reserved_size(), when);
      fail("stats-derived-getters", b);
    }
    if ((st.overhead_size() == 0) != (st.block_count() == 0)) {
      snprintf(b, sizeof b, "overhead_size()=%zu with %zu blocks (%s)", st.overhead_size(), st.block_count(), when);
      fail("stats-overhead:zero-iff-no-blocks", b);
      return;
    }
    if (!g_ref.overhead_calibrated || st.block_count() == 0) return;
    // granules per pool are not visible from outside: with one pool the value is exact, with several pools it lies between
    // the values for the smallest and the largest pool granularity
    size_t gmin = SIZE_MAX, gmax = 0;
    for (size_t p = 0; p < 3; p++) { size_t g = info[8 + 3 * p + 2]; if (info[8 + 3 * p] && g) { gmin = std::min(gmin, g); gmax = std::max(gmax, g); } }
    if (!gmax) return;
    double lo = g_ref.overhead_per_block * double(st.block_count()) + g_ref.overhead_per_granule * double(st.reserved_size() / gmax);
    double hi = g_ref.overhead_per_block * double(st.block_count()) + g_ref.overhead_per_granule * double(st.reserved_size() / gmin);
    if (gmin == gmax) g_stats.overhead_exact_checks++;
    if (double(st.overhead_size()) < lo - 0.5 || double(st.overhead_size()) > hi + 0.5) {
      snprintf(b, sizeof b, "overhead_size()=%zu with %zu blocks reserving %zu bytes; fresh allocators account %.1f bytes per block + %.4f per granule, i.e. [%.1f, %.1f] (%s)",
               st.overhead_size(), st.block_count(), st.reserved_size(), g_ref.overhead_per_block, g_ref.overhead_per_granule, lo, hi, when);
      fail("stats-overhead:drift", b);
    }
  }

  // -- geometry ------------------------------------------------------------
  size_t last_new_block[3] {};         // size of the block each pool mapped last (what the pool doubles next), 0 = unknown
  uintptr_t last_exact_fit = 0;        // rx of the most recent allocation that filled a fresh block completely (0 = none live)
  bool geom_request = false;

  size_t pool_of(size_t aligned_size) const {
    if (pool_count < 3) return 0;
    return aligned_size % (size_t(gran) * 4) == 0 ? 2 : aligned_size % (size_t(gran) * 2) == 0 ? 1 : 0;
  }
  // A request sized from the allocator's own geometry: the block the pool would map next (twice the last one, twice the base
  // block size for a first block, or a multiple of the base block size beyond that), minus the initial padding of the pool
  // the request lands in: exact fit, one granule less, one granule more (spills into the next bigger block).
  size_t geom_size(Rng& r) {
    size_t base = alloc->block_size();
    size_t p = pool_count == 3 ? r.below(3) : 0;
    size_t pg = size_t(gran) << p;
    size_t pad = padding ? pg : 0;
    size_t B;
    switch (r.below(6)) {
      case 0: case 1: B = last_new_block[p] ? last_new_block[p] * 2 : base * 2; break;   // what the pool doubles to
      case 2: B = base * 2; break;                                                         // a first block
      case 3: B = base * 4; break;
      case 4: B = base * (3 + r.below(4)); break;                                          // beyond the doubling: rounded up to the base
      default: B = base * 8; break;
    }
    while (B > (size_t(3) << 20) && B > base * 2) B /= 2;
    size_t s = B - pad;
    uint64_t d = r.below(10);
    if (d == 0 || d == 1) s -= pg; else if (d == 2 || d == 3) s += pg;
    return s;
  }

  // -- operations ---------------------------------------------------------
  bool check_reuse = true;
  bool do_alloc(size_t size) {
    log(OP_ALLOC, size);
    JitAllocator::Span s;
    size_t before[20]; char hmsg[300];
    bool have_before = check_reuse && asmjit_verif_jitallocator_check(alloc, hmsg, sizeof hmsg, before) == 0;
    JitAllocator::Statistics st0 = alloc->statistics();
    Error e = alloc->alloc(Out(s), size);
    if (e == Error::kOk && size && size <= 0x7FFFFFFFull) {
      JitAllocator::Statistics st1 = alloc->statistics();
      if (st1.block_count() > st0.block_count()) {
        size_t mapped = st1.reserved_size() - st0.reserved_size(), taken = st1.used_size() - st0.used_size();
        last_new_block[pool_of(s.size())] = mapped;
        if (taken == mapped) {
          g_stats.exact_fit_fresh++;
          if (st0.block_count()) g_stats.exact_fit_later_block++;
          last_exact_fit = (uintptr_t)s.rx();
        }
        else if (geom_request) g_stats.spill_fresh++;
      }
    }
    if (geom_request) g_stats.geom_requests++;
    geom_request = false;
    if (have_before && e == Error::kOk) {
      size_t after[20];
      if (asmjit_verif_jitallocator_check(alloc, hmsg, sizeof hmsg, after) == 0) {
        for (size_t p = 0; p < 3; p++) {
          size_t g = before[8 + 3 * p + 2];
          if (g && after[8 + 3 * p] > before[8 + 3 * p] && before[8 + 3 * p + 1] * g >= s.size()) {
            char b[300];
            snprintf(b, sizeof b, "alloc(%zu) mapped a new block in pool %zu although an existing block of that pool had a free run of %zu bytes (released memory is not reusable)", size, p, before[8 + 3 * p + 1] * g);
            fail("free-run-not-reused", b);
          }
        }
      }
    }
    if (size == 0) {
      if (e == Error::kOk) fail("alloc-accepts-invalid-size", "alloc accepted size " + std::to_string(size));
      return false;
    }
    if (size > 0x7FFFFFFFull) {
      // Requests no block can hold (sizes whose rounding up to the granularity wraps around, sizes that do not fit the 32-bit
      // area arithmetic). Refusing is fine; accepting is only fine with a real span of at least that size that the
      // bookkeeping accounts for. The memory is never touched.
      g_stats.huge_requests++;
      g_stats.ops[OP_ALLOC_HUGE]++;
      if (e != Error::kOk) {
        g_stats.huge_refused++;
        if (s.rx() || s.size()) fail("alloc-failed-but-span-set", "alloc(" + std::to_string(size) + ") failed but left a non-empty span");
        h2("after-refused-huge-alloc");
        return false;
      }
      char hb[300];
      size_t info[20]; char m2[300];
      int rc = asmjit_verif_jitallocator_check(alloc, m2, sizeof m2, info);
      if (!s.rx() || s.size() < size) {
        snprintf(hb, sizeof hb, "alloc(%zu = 0x%zx) succeeded with rx=%p size=%zu", size, size, s.rx(), s.size());
        fail("alloc-accepts-invalid-size", hb);
      }
      else if (rc != 0 || info[3] != live.size() + 1 || info[4] != sum_live_bytes + s.size() + info[6]) {
        snprintf(hb, sizeof hb, "alloc(%zu = 0x%zx) succeeded but the bookkeeping does not account for it: h2=%d (%s) allocations=%zu used=%zu, model %zu spans + this one, %llu bytes + %zu",
                 size, size, rc, rc ? m2 : "", info[3], info[4], live.size(), (unsigned long long)sum_live_bytes, s.size());
        fail("alloc-huge-not-accounted", hb);
      }
      else {
        if (alloc->release(s.rx()) != Error::kOk) fail("release-failed", "release of a huge span failed");
        h2("after-huge-alloc-release");
      }
      return false;
    }
    if (e != Error::kOk) {
      // only acceptable for huge requests (address space) - none of our sizes are
      fail("alloc-failed", "alloc(" + std::to_string(size) + ") failed with error " + std::to_string((int)e));
      return false;
    }
    uintptr_t rx = (uintptr_t)s.rx(), rw = (uintptr_t)s.rw();
    char b[256];
    if (!rx || !rw) { fail("alloc-null", "alloc returned a null rx/rw pointer"); return false; }
    if (rx % gran || rw % gran) { snprintf(b, sizeof b, "alloc(%zu) returned rx=%p rw=%p not aligned to granularity %u", size, s.rx(), s.rw(), gran); fail("alloc-misaligned", b); }
    if (s.size() < size) { snprintf(b, sizeof b, "alloc(%zu) returned a span of %zu bytes", size, s.size()); fail("alloc-too-small", b); return false; }
    if (s.size() % gran) { fail("alloc-size-not-granular", "span size is not a multiple of the granularity"); }
    if (overlaps_live_rx(rx, s.size())) { snprintf(b, sizeof b, "alloc(%zu) returned rx [%p,+%zu) overlapping a live span", size, s.rx(), s.size()); fail("alloc-overlap-rx", b); return false; }
    if (overlaps_live_rw(rw, s.size())) { snprintf(b, sizeof b, "alloc(%zu) returned rw [%p,+%zu) overlapping a live span", size, s.rw(), s.size()); fail("alloc-overlap-rw", b); return false; }
    if (!dual && rx != rw) fail("rw-differs-without-dual-mapping", "rx != rw although dual mapping is off");
    if (dual && rx == rw) fail("dual-mapping-not-dual", "rx == rw although dual mapping is on");
    if (fill) {
      const uint8_t* p = (const uint8_t*)s.rx();
      uint8_t pat[4]; memcpy(pat, &pattern, 4);
      for (size_t i = 0; i < s.size(); i++) {
        if (p[i] != pat[(rx + i) & 3]) {
          snprintf(b, sizeof b, "fill enabled, but freshly allocated span [%p,+%zu) holds %02x at offset %zu (pattern %08x)", s.rx(), s.size(), p[i], i, pattern);
          fail("fill-pattern-missing", b);
          break;
        }
      }
      g_stats.fill_checked++;
    }
    for (auto& d : dead) if (d.first < rx + s.size() && rx < d.first + d.second) { g_stats.reuse_observed++; break; }
    dead.erase(std::remove_if(dead.begin(), dead.end(), [&](const std::pair<uintptr_t, size_t>& d) { return d.first < rx + s.size() && rx < d.first + d.second; }), dead.end());
    Live l;
    l.span = s; l.requested = size; l.id = next_id++;
    l.shadow.resize(s.size());
    stamp(l.shadow, l.id);
    // write through rw, read through rx: both views must alias
    Error we = alloc->write(s, 0, l.shadow.data(), s.size());
    if (we != Error::kOk) fail("write-failed", "write() of a full span failed");
    l.span = s;
    sum_live_bytes += s.size();
    live[rx] = std::move(l);
    rwmap[rw] = rx;
    order.push_back(rx);
    block_live[s._block]++;
    // a block the allocator maps again may come back at the address (and malloc'd header) of a deleted one
    stale.erase(std::remove_if(stale.begin(), stale.end(), [&](const Stale& t) {
      uintptr_t a = (uintptr_t)t.span.rx();
      return t.span._block == s._block ? (a < rx + s.size() && rx < a + t.span.size()) : false; }), stale.end());
    verify_contents(live[rx], "after-alloc-write");
    g_stats.max_live = std::max<uint64_t>(g_stats.max_live, live.size());
    return true;
  }

  // returns true when the block of the forgotten span still holds another live span (so it certainly still exists)
  bool forget(uintptr_t rx) {
    if (rx == last_exact_fit) last_exact_fit = 0;
    Live& l = live[rx];
    JitAllocator::Span sp = l.span;
    sum_live_bytes -= l.span.size();
    rwmap.erase((uintptr_t)l.span.rw());
    dead.push_back({rx, l.span.size()});
    if (dead.size() > 64) dead.erase(dead.begin());
    live.erase(rx);
    order.erase(std::find(order.begin(), order.end(), rx));
    auto it = block_live.find(sp._block);
    bool survives = false;
    if (it != block_live.end()) {
      if (--it->second == 0) {
        block_live.erase(it);
        // the block may be unmapped now (and its header address recycled later): its stale spans are no longer probed
        stale.erase(std::remove_if(stale.begin(), stale.end(), [&](const Stale& t) { return t.span._block == sp._block; }), stale.end());
      }
      else survives = true;
    }
    if (survives) {
      stale.push_back({sp});
      if (stale.size() > 32) stale.erase(stale.begin());
    }
    return survives;
  }

  // memory that was just given back must carry the fill pattern (only read while its block certainly exists)
  void check_released_fill(uintptr_t p, uintptr_t rw, size_t n, const char* when) {
    if (!fill || !n) return;
    g_stats.release_fill_checked++;
    for (int view = 0; view < 2; view++) {
      const uint8_t* m = (const uint8_t*)(view ? rw : p);
      uint8_t pat[4]; memcpy(pat, &pattern, 4);
      for (size_t i = 0; i < n; i++) {
        if (m[i] != pat[((uintptr_t)m + i) & 3]) {
          char b[260];
          snprintf(b, sizeof b, "fill enabled, but memory given back by %s [%p,+%zu) holds %02x at offset %zu in the %s view (pattern %08x)", when, (void*)p, n, m[i], i, view ? "rw" : "rx", pattern);
          fail(std::string("fill-pattern-missing:after-") + when, b);
          return;
        }
      }
      if (rw == p) break;
    }
  }

  void do_release(uintptr_t rx) {
    log(OP_RELEASE, live[rx].id);
    verify_contents(live[rx], "before-release");
    JitAllocator::Span sp = live[rx].span;
    Error e = alloc->release((void*)rx);
    if (e != Error::kOk) { fail("release-failed", "release of a live span failed with error " + std::to_string((int)e)); }
    bool survives = forget(rx);
    if (survives && e == Error::kOk) check_released_fill(rx, (uintptr_t)sp.rw(), sp.size(), "release");
  }

  // A span that was released while its block lives on: shrink() through the stale span must be refused and must not
  // change anything (the granule is free, or belongs to nobody this span describes).
  void do_stale_shrink(Rng& r) {
    if (stale.empty()) return;
    size_t k = r.below(stale.size());
    Stale t = stale[k];
    uintptr_t a = (uintptr_t)t.span.rx();
    if (!block_live.count(t.span._block) || overlaps_live_rx(a, 1)) return;
    log(OP_STALE_SHRINK, t.span.size());
    g_stats.stale_shrinks++;
    JitAllocator::Span c = t.span;
    size_t ns = r.chance(1, 3) ? 1 : r.chance(1, 2) ? c.size() : 1 + r.below(c.size());
    Error e = alloc->shrink(c, ns);
    if (e == Error::kOk) {
      char b[200]; snprintf(b, sizeof b, "shrink(span [%p,+%zu) that was released earlier, %zu) succeeded; no live span covers %p", t.span.rx(), t.span.size(), ns, t.span.rx());
      fail("stale-shrink-accepted", b);
      return;
    }
    if (c.rx() != t.span.rx() || c.size() != t.span.size()) fail("shrink-failed-but-changed", "refused shrink of a stale span changed the span");
    h2("after-stale-shrink");
    if (live.size() <= 64) for (auto& kv : live) verify_contents(kv.second, "after-stale-shrink");
  }

  void do_shrink(uintptr_t rx, size_t new_size) {
    Live& l = live[rx];
    log(OP_SHRINK, l.id, new_size);
    saw_shrink = true;
    size_t old = l.span.size();
    if (new_size == 0) {
      verify_contents(l, "before-shrink0");
      JitAllocator::Span s = l.span, sp = l.span;
      Error e = alloc->shrink(s, 0);
      if (e != Error::kOk) fail("shrink0-failed", "shrink(span,0) failed");
      if (s.rx() != nullptr) fail("shrink0-span-not-cleared", "shrink(span,0) did not clear the span");
      bool survives = forget(rx);
      if (survives && e == Error::kOk) check_released_fill(rx, (uintptr_t)sp.rw(), sp.size(), "shrink-to-0");
      return;
    }
    JitAllocator::Span s = l.span;
    Error e = alloc->shrink(s, new_size);
    if (new_size > old) {
      if (e == Error::kOk) fail("shrink-grows", "shrink to a larger size succeeded");
      if (s.size() != old) fail("shrink-failed-but-changed", "failed shrink changed the span");
      verify_contents(l, "after-failed-shrink");
      return;
    }
    if (e != Error::kOk) { fail("shrink-failed", "shrink(" + std::to_string(old) + "->" + std::to_string(new_size) + ") failed with " + std::to_string((int)e)); return; }
    if (s.rx() != l.span.rx() || s.rw() != l.span.rw()) fail("shrink-moved", "shrink moved the span");
    if (s.size() < new_size || s.size() > old || s.size() % gran) {
      char b[160]; snprintf(b, sizeof b, "shrink(%zu->%zu) left the span with size %zu", old, new_size, s.size());
      fail("shrink-size", b);
      return;
    }
    if (s.size() - new_size >= size_t(gran) * 4) {
      char b[160]; snprintf(b, sizeof b, "shrink(%zu->%zu) kept %zu bytes (more than a granule too many)", old, new_size, s.size());
      fail("shrink-keeps-too-much", b);
    }
    sum_live_bytes -= old - s.size();
    if (s.size() < old) dead.push_back({rx + s.size(), old - s.size()});
    l.span = s;
    l.shadow.resize(s.size());
    verify_contents(l, "after-shrink");
    if (s.size() < old) check_released_fill(rx + s.size(), (uintptr_t)s.rw() + s.size(), old - s.size(), "shrink");
  }

  void do_query(uintptr_t rx) {
    Live& l = live[rx];
    log(OP_QUERY, l.id);
    JitAllocator::Span q;
    Error e = alloc->query(Out(q), (void*)rx);
    if (e != Error::kOk) { fail("query-live-failed", "query of a live span failed"); return; }
    if (q.rx() != l.span.rx() || q.rw() != l.span.rw() || q.size() != l.span.size()) {
      char b[240]; snprintf(b, sizeof b, "query(%p) returned rx=%p rw=%p size=%zu, live span is rx=%p rw=%p size=%zu", (void*)rx, q.rx(), q.rw(), q.size(), l.span.rx(), l.span.rw(), l.span.size());
      fail("query-mismatch", b);
    }
    // granules next to the span that no live span covers (initial padding of the block, free or never used memory, memory
    // outside any block): queries reflect exactly the live spans, so these must fail
    for (int side = 0; side < 2; side++) {
      uintptr_t np = side ? rx + l.span.size() : rx - gran;
      if (overlaps_live_rx(np, 1)) continue;
      g_stats.nonlive_queries++;
      JitAllocator::Span qn;
      if (alloc->query(Out(qn), (void*)np) == Error::kOk) {
        char b[240]; snprintf(b, sizeof b, "query(%p) succeeded (rx=%p size=%zu): the address is the granule %s the live span [%p,+%zu) and no live span covers it",
                              (void*)np, qn.rx(), qn.size(), side ? "after" : "before", (void*)rx, l.span.size());
        fail(side ? "query-nonlive-succeeds:after-span" : "query-nonlive-succeeds:before-span", b);
        return;
      }
    }
    // interior pointer: whatever is returned must stay inside the live span
    if (l.span.size() > gran) {
      uintptr_t ip = rx + gran * (1 + (l.id % ((l.span.size() / gran) - 1 ? (l.span.size() / gran) - 1 : 1)));
      if (ip < rx + l.span.size()) {
        JitAllocator::Span qi;
        Error ei = alloc->query(Out(qi), (void*)ip);
        if (ei == Error::kOk) {
          uintptr_t qs = (uintptr_t)qi.rx();
          if (qs < rx || qs + qi.size() > rx + l.span.size()) fail("query-interior-escapes", "query of an interior pointer returned memory outside the live span");
        }
      }
    }
  }

  void do_query_dead() {
    log(OP_QUERY_DEAD);
    for (auto& d : dead) {
      if (overlaps_live_rx(d.first, 1)) continue;
      JitAllocator::Span q;
      Error e = alloc->query(Out(q), (void*)d.first);
      if (e == Error::kOk) {
        char b[200]; snprintf(b, sizeof b, "query(%p) of released memory succeeded (size=%zu) although nothing live covers it", (void*)d.first, q.size());
        fail("query-released-succeeds", b);
        return;
      }
    }
  }

  void do_write(uintptr_t rx, Rng& r) {
    Live& l = live[rx];
    size_t off = r.below(l.span.size());
    size_t n = 1 + r.below(std::min<size_t>(l.span.size() - off, 4096));
    log(OP_WRITE, l.id, off);
    std::vector<uint8_t> data(n);
    for (auto& x : data) x = uint8_t(r.next());
    Error e;
    switch (r.below(4)) {
      case 0: {
        // several spans written under one WriteScope (the documented way to batch writes)
        JitAllocator::WriteScope scope(*alloc, r.chance(1, 2) ? VirtMem::CachePolicy::kDefault : VirtMem::CachePolicy::kNeverFlush);
        e = scope.write(l.span, off, data.data(), n);
        g_stats.scoped_writes++;
        if (e == Error::kOk && live.size() > 1) {
          auto it = live.upper_bound(rx);
          if (it == live.end()) it = live.begin();
          Live& o = it->second;
          if (&o != &l) {
            size_t n2 = std::min<size_t>(o.span.size(), data.size());
            Error e2s = scope.write(o.span, o.span.size() - n2, data.data(), n2);
            if (e2s != Error::kOk) fail("write-failed", "in-range write under a WriteScope failed");
            else memcpy(o.shadow.data() + (o.span.size() - n2), data.data(), n2);
            g_stats.scoped_writes++;
          }
        }
        (void)scope.flush();
        break;
      }
      case 1:
        e = alloc->write(l.span, off, data.data(), n, r.chance(1, 2) ? VirtMem::CachePolicy::kNeverFlush : VirtMem::CachePolicy::kFlushAfterWrite);
        g_stats.policy_writes++;
        break;
      default:
        e = alloc->write(l.span, off, data.data(), n);
        break;
    }
    if (e != Error::kOk) { fail("write-failed", "in-range write failed"); return; }
    memcpy(l.shadow.data() + off, data.data(), n);
    // out-of-range write must be refused and change nothing
    Error e2 = alloc->write(l.span, l.span.size() - 1, data.data(), 2);
    if (e2 == Error::kOk) fail("write-out-of-range-accepted", "write past the end of the span succeeded");
    // boundary (offset, size) pairs: everything that does not lie inside the span must be refused - including pairs whose sum
    // wraps around SIZE_MAX - and must change neither this span nor its neighbours (all live contents are verified)
    {
      const size_t sz = l.span.size();
      const size_t pairs[][2] = { { sz, 1 }, { sz + 1, 0 }, { 0, sz + 1 }, { sz - 1, SIZE_MAX }, { SIZE_MAX, 1 }, { SIZE_MAX - 3, 8 }, { SIZE_MAX - 63, 64 },
                                  { SIZE_MAX / 2 + 1, SIZE_MAX / 2 + 2 }, { 1, SIZE_MAX } };
      const size_t* pr = pairs[r.below(sizeof(pairs) / sizeof(pairs[0]))];
      size_t take = std::min<size_t>(pr[1], data.size());   // the source buffer only has to be valid for what a correct refusal never reads
      (void)take;
      Error e3 = alloc->write(l.span, pr[0], data.data(), pr[1]);
      if (e3 == Error::kOk) {
        char b[160]; snprintf(b, sizeof b, "write(span of %zu bytes, offset %zu, size %zu) succeeded", sz, pr[0], pr[1]);
        fail("write-out-of-range-accepted", b);
      }
      if (live.size() <= 64 || r.chance(1, 16)) for (auto& kv : live) verify_contents(kv.second, "after-refused-write");
    }
    verify_contents(l, "after-write");
  }

  void do_write_trunc(uintptr_t rx, size_t new_size) {
    Live& l = live[rx];
    log(OP_WRITE_TRUNC, l.id, new_size);
    saw_shrink = true;
    size_t old = l.span.size();
    if (new_size == 0 || new_size > old) return;
    struct Ctx { size_t n; uint8_t v; } ctx { new_size, uint8_t(l.id * 7 + 1) };
    JitAllocator::Span s = l.span;
    Error e = alloc->write(s, [&](JitAllocator::Span& sp) noexcept -> Error {
      memset(sp.rw(), ctx.v, ctx.n);
      sp.shrink(ctx.n);
      return Error::kOk;
    });
    if (e != Error::kOk) { fail("write-trunc-failed", "write() with truncation failed"); return; }
    if (s.size() < new_size || s.size() > old || s.size() % gran || s.rx() != l.span.rx()) { fail("write-trunc-size", "write() with truncation left a wrong span"); return; }
    sum_live_bytes -= old - s.size();
    if (s.size() < old) dead.push_back({rx + s.size(), old - s.size()});
    l.span = s;
    l.shadow.resize(s.size());
    memset(l.shadow.data(), ctx.v, new_size);
    verify_contents(l, "after-write-trunc");
    if (s.size() < old) check_released_fill(rx + s.size(), (uintptr_t)s.rw() + s.size(), old - s.size(), "write-truncate");
  }

  void do_reset(bool hard) {
    log(hard ? OP_RESET_HARD : OP_RESET_SOFT);
    for (auto& kv : live) verify_contents(kv.second, "before-reset");
    std::vector<uintptr_t> was_live;
    if (last_exact_fit && live.count(last_exact_fit)) was_live.push_back(last_exact_fit);
    for (auto it = live.begin(); it != live.end() && was_live.size() < 4; ++it) was_live.push_back(it->first);
    last_exact_fit = 0;
    if (hard) { last_new_block[0] = last_new_block[1] = last_new_block[2] = 0; }
    alloc->reset(hard ? ResetPolicy::kHard : ResetPolicy::kSoft);
    live.clear(); rwmap.clear(); order.clear(); dead.clear(); stale.clear(); block_live.clear();
    sum_live_bytes = 0;
    JitAllocator::Statistics st = alloc->statistics();
    size_t allowed = (hard || immediate) ? 0 : pool_count;
    if (st.allocation_count() != 0) fail("reset-leaves-allocations", "allocation_count != 0 after reset");
    if (st.block_count() > allowed) {
      char b[160]; snprintf(b, sizeof b, "%zu blocks retained after %s reset (policy allows %zu)", st.block_count(), hard ? "hard" : "soft", allowed);
      fail("reset-retains-blocks", b);
    }
    h2("after-reset");
    os_check(hard ? "after reset(kHard)" : "after reset(kSoft)", hard);
    if (failed) return;
    // nothing is live: what was a span before the reset must be unknown to query() now
    for (uintptr_t p : was_live) {
      JitAllocator::Span q;
      g_stats.reset_dead_queries++;
      if (alloc->query(Out(q), (void*)p) == Error::kOk) {
        char b[200]; snprintf(b, sizeof b, "query(%p) succeeded (size=%zu) after reset(%s): the span was live before the reset, nothing is live now", (void*)p, q.size(), hard ? "kHard" : "kSoft");
        fail("query-after-reset-succeeds", b);
        return;
      }
    }
    // a block retained by a soft reset is empty: the smallest request must be served from it, not from a new block
    if (!hard && !immediate) {
      size_t info[20]; char m2[300];
      if (asmjit_verif_jitallocator_check(alloc, m2, sizeof m2, info) == 0 && info[8] >= 1) {
        size_t blocks = alloc->statistics().block_count();
        g_stats.reset_retained_allocs++;
        size_t before = order.size();
        if (do_alloc(gran) && alloc->statistics().block_count() > blocks) {
          char b[200]; snprintf(b, sizeof b, "alloc(%u) after reset(kSoft) mapped a new block although the pool retained a block (%zu blocks before)", gran, blocks);
          fail("reset-retained-block-not-allocatable", b);
        }
        if (!failed && order.size() == before + 1) do_release(order.back());   // the state after a reset stays "nothing live"
      }
    }
  }

  void do_foreign(Rng& r) {
    log(OP_FOREIGN);
    JitAllocator::Span& ospan = g_other_span;
    uint8_t on_stack[64];
    void* heap = malloc(256);
    void* cands[] = { on_stack, heap, ospan.rx(), (void*)uintptr_t(0x10), (void*)uintptr_t(0x7fffffff0000ull) };
    for (void* p : cands) {
      if (overlaps_live_rx((uintptr_t)p, 1)) continue;
      JitAllocator::Span q;
      if (alloc->query(Out(q), p) == Error::kOk) { fail("foreign-query-accepted", "query accepted a pointer the allocator never returned"); }
      if (alloc->release(p) == Error::kOk) { fail("foreign-release-accepted", "release accepted a pointer the allocator never returned"); }
      JitAllocator::Span forged;
      forged._rx = p; forged._rw = p; forged._size = 128;
      if (alloc->shrink(forged, 64) == Error::kOk) { fail("foreign-shrink-accepted", "shrink accepted a span the allocator never returned"); }
    }
    JitAllocator::Span q;
    if (alloc->release(nullptr) == Error::kOk) fail("release-null-accepted", "release(nullptr) succeeded");
    free(heap);
    (void)r;
  }

  void do_release_all(int mode, Rng& r) {
    log(OP_RELEASE_ALL, mode);
    while (!order.empty()) {
      uintptr_t rx;
      if (mode == 0) rx = order.back();
      else if (mode == 1) rx = order.front();
      else rx = order[r.below(order.size())];
      verify_contents(live[rx], "before-release");
      Error e = alloc->release((void*)rx);
      if (e != Error::kOk) fail("release-failed", "release of a live span failed");
      forget(rx);
      if (failed) return;
    }
    h2(mode == 0 ? "after-release-all-lifo" : mode == 1 ? "after-release-all-fifo" : "after-release-all-random");
    os_check("after everything was released");
  }

  void end_of_history() {
    for (auto& kv : live) verify_contents(kv.second, "end");
    h2("end");
    os_check("at the end of the history");
    g_stats.histories++;
    g_stats.max_blocks = std::max(g_stats.max_blocks, peak_blocks);
    g_stats.distinct.insert(hist_hash);
    if (peak_blocks >= 2 || saw_shrink) g_stats.distinct_nontrivial.insert(hist_hash);
  }
};

static size_t pick_size(Rng& r, uint32_t block) {
  switch (r.below(10)) {
    case 0: return 1 + r.below(64);
    case 1: return 64 * (1 + r.below(8));
    case 2: return 1 + r.below(4096);
    case 3: return 1 + r.below(20000);
    case 4: return block / 2 + r.below(256) - 128;
    case 5: return block - 64 * r.below(4);
    case 6: return block + 1 + r.below(1000);
    case 7: return size_t(block) * (2 + r.below(2)) + r.below(5000);
    case 8: return 256 * (1 + r.below(64));
    default: return 128 * (1 + r.below(32));
  }
}

static const size_t kHugeSizes[] = { 0x80000000ull, 0x80000001ull, 0xFFFFFFFFull, 1ull << 32, (1ull << 32) + 64, 1ull << 38, 1ull << 40, SIZE_MAX / 2 + 1,
                                     SIZE_MAX - 255, SIZE_MAX - 63, SIZE_MAX - 62, SIZE_MAX - 1, SIZE_MAX };

// style 0/1/2: mixed sizes / small multiples of 64 / few live spans; style 3: dense - many (400..1500) live spans of 1..3
// granules, no release-all and no reset, so that blocks fill up with hundreds of spans and holes and the pools grow.
static void random_history(const Config& cfg, uint64_t seed, size_t nops, int style) {
  Rng r(seed);
  Runner R(cfg);
  uint32_t block = R.alloc->block_size();
  bool dense = style == 3;
  size_t max_live = dense ? 400 + r.below(1100) : 8 + r.below(style == 2 ? 24 : 200);
  if (dense) g_stats.dense_histories++;
  for (size_t i = 0; i < nops && !R.failed; i++) {
    uint64_t c = r.below(100);
    R.check_reuse = r.chance(1, dense ? 24 : 6);
    if (R.live.empty() || (c < (dense ? 52u : 38u) && R.live.size() < max_live)) {
      size_t sz = dense ? size_t(R.gran) * (1 + r.below(3)) - (r.chance(1, 4) ? r.below(R.gran) : 0)
                : style == 1 ? 64 * (1 + r.below(6)) : pick_size(r, block);
      bool geom = !dense && r.chance(1, 16);
      if (geom) { sz = R.geom_size(r); R.geom_request = true; }
      if (geom) { /* the geometry size stays */ }
      else if (r.chance(1, 200)) sz = 0;
      // (not with kFillUnusedMemory: an allocator that lost its size limit would map AND touch gigabytes per request)
      else if (!R.fill && r.chance(1, 150)) sz = kHugeSizes[r.below(sizeof(kHugeSizes) / sizeof(kHugeSizes[0]))];
      uint64_t fresh_before = g_stats.exact_fit_fresh;
      bool ok = R.do_alloc(sz);
      if (ok && !R.failed && g_stats.exact_fit_fresh > fresh_before && R.last_exact_fit) {
        // a fresh block was filled by this single allocation: walk the paths that depend on what the block believes about itself
        R.h2("after-exact-fit");
        uintptr_t ex = R.last_exact_fit;
        switch (r.below(5)) {
          case 0:
            g_stats.exact_then_soft_reset++;
            R.do_reset(false);
            break;
          case 1: case 2: {
            // shrink the exact-fit span and allocate a second span in the tail it gave back, then (often) give everything back
            size_t full = R.live[ex].span.size();
            size_t keep = 1 + r.below(full / 2);
            R.do_shrink(ex, keep);
            if (R.failed || !R.live.count(ex)) break;
            size_t tail = full - R.live[ex].span.size();
            if (tail) { R.check_reuse = true; R.do_alloc(r.chance(1, 2) ? tail : std::max<size_t>(tail - R.gran * r.below(3), 1)); }
            g_stats.exact_then_shrink_tail++;
            if (!R.failed && r.chance(2, 3)) { g_stats.exact_then_release_all++; R.do_release_all(int(r.below(3)), r); }
            break;
          }
          case 3:
            g_stats.exact_then_release_all++;
            R.do_release_all(int(r.below(3)), r);
            break;
          default: break;
        }
      }
    }
    else {
      uintptr_t rx;
      uint64_t how = r.below(3);
      if (how == 0) rx = R.order.back();
      else if (how == 1) rx = R.order.front();
      else rx = R.order[r.below(R.order.size())];
      if (dense && how != 2 && r.chance(2, 3)) rx = R.order[r.below(R.order.size())];   // holes in the middle
      if (c < 38 || c < 68) R.do_release(rx);
      else if (c < 76) {
        size_t sz = R.live[rx].span.size();
        size_t ns = r.chance(1, 12) ? 0 : r.chance(1, 12) ? sz + 1 + r.below(500) : 1 + r.below(sz);
        R.do_shrink(rx, ns);
      }
      else if (c < 82) R.do_query(rx);
      else if (c < 88) R.do_write(rx, r);
      else if (c < 91) R.do_write_trunc(rx, 1 + r.below(R.live[rx].span.size()));
      else if (c < 93) { if (r.chance(1, 2)) R.do_query_dead(); else R.do_stale_shrink(r); }
      else if (c < 95) R.do_foreign(r);
      else if (c < 97) { g_stats.ops[OP_STATS]++; R.h2("stats"); }
      else if (dense) R.do_stale_shrink(r);
      else if (c < 99) R.do_release_all(int(r.below(3)), r);
      else R.do_reset(r.chance(1, 2));
    }
    if ((i & 63) == 63) R.h2("periodic");
  }
  if (!R.failed) {
    R.end_of_history();
    if (r.chance(1, 2)) R.do_release_all(int(r.below(3)), r);
  }
}

// Pointers that alloc() never returned, or returned and took back, handed to release(): one probe per short history
// (a probe the allocator accepts leaves its bookkeeping in an unknown state, so nothing else shares the history).
//   kind 0: the granule in front of the first span of a block (the block's initial padding)
//   kind 1: an interior granule of a live span of >= 2 granules
//   kind 2: a pointer that was released before, while another live span keeps the block alive behind it
static const char* kMisuseNames[3] = { "block-padding", "interior-pointer", "released-pointer" };
static void misuse_history(const Config& cfg, uint64_t seed, int kind) {
  Rng r(seed);
  Runner R(cfg);
  uint32_t g = R.gran;
  size_t n = 3 + r.below(8);
  for (size_t i = 0; i < n && !R.failed; i++) R.do_alloc(size_t(g) * (1 + r.below(6)) * (r.chance(1, 3) ? 4 : 1));
  if (R.failed || R.order.size() < 3) return;
  uintptr_t first = R.order.front();
  uintptr_t target = 0;
  std::string what;
  if (kind == 0) {
    if (!R.padding) return;
    target = first - g;
    if (R.overlaps_live_rx(target, 1)) return;
    what = "the granule in front of the first span ever allocated (initial padding of the block)";
  }
  else if (kind == 1) {
    for (uintptr_t rx : R.order) {
      Live& l = R.live[rx];
      // stay below the last granule of the allocator's own granule size: an interior granule of the span in every pool
      if (l.span.size() >= size_t(g) * 8) { target = rx + size_t(g) * 4; break; }
    }
    if (!target) return;
    what = "a pointer 4 granules into a live span";
  }
  else {
    // release a span that has a live successor in the same block at a higher address, then release it again
    for (size_t i = 0; i + 1 < R.order.size(); i++) {
      uintptr_t a = R.order[i], b = R.order[i + 1];
      if (R.live[a].span._block == R.live[b].span._block && b > a) { target = a; break; }
    }
    if (!target) return;
    R.do_release(target);
    if (R.failed || R.overlaps_live_rx(target, 1)) return;
    what = "a pointer that was released already (its block still holds a live span)";
  }
  R.log(OP_MISUSE, uint64_t(kind));
  g_stats.misuse_probes++;
  R.h2("before-misuse-probe");
  if (R.failed) return;
  Error e = R.alloc->release((void*)target);
  if (e == Error::kOk) {
    JitAllocator::Statistics st = R.alloc->statistics();
    char b[400];
    snprintf(b, sizeof b, "release(%p) succeeded; the pointer is %s and was not a live span start. statistics() now: allocations=%zu used=%zu, the %zu live spans hold %llu bytes",
             (void*)target, what.c_str(), st.allocation_count(), st.used_size(), R.live.size(), (unsigned long long)R.sum_live_bytes);
    R.os_probe = false;
    R.fail(std::string("release-accepts-non-span-pointer:") + kMisuseNames[kind], b);
    return;
  }
  // refused: nothing may have changed, and the allocator keeps working
  R.h2("after-refused-release");
  for (auto& kv : R.live) R.verify_contents(kv.second, "after-refused-release");
  for (size_t i = 0; i < 24 && !R.failed; i++) {
    if (R.live.empty() || r.chance(1, 2)) R.do_alloc(size_t(g) * (1 + r.below(6)));
    else R.do_release(R.order[r.below(R.order.size())]);
  }
  if (!R.failed) R.end_of_history();
}

// Bounded-exhaustive enumeration: every op sequence up to `depth` over a small alphabet on a minimum-size block.
struct Exh {
  Config cfg;
  int depth;
  std::vector<size_t> sizes;
  uint64_t count = 0;
  uint64_t shard = 0, shards = 1;
  std::vector<int> path;

  // One choice is encoded as an int: [0, nsizes) alloc; then per live index: release, shrink-to-1-granule, shrink-half; then soft reset.
  void run_path(const std::vector<int>& p) {
    Runner R(cfg, (count & 63) == 1);
    for (int c : p) {
      if (R.failed) break;
      int ns = (int)sizes.size();
      if (c < ns) { R.do_alloc(sizes[c]); }
      else {
        int k = c - ns;
        int li = k / 3, what = k % 3;
        if (li >= (int)R.order.size()) { if (li == 1000) R.do_reset(false); continue; }
        uintptr_t rx = R.order[li];
        if (what == 0) R.do_release(rx);
        else if (what == 1) R.do_shrink(rx, 1);
        else R.do_shrink(rx, R.live[rx].span.size() / 2 + 1);
      }
      for (size_t i = 0; i < R.order.size() && !R.failed; i++) { g_stats.ops[OP_QUERY]++; R.do_query(R.order[i]); }
      if (!R.failed) R.h2("step");
    }
    if (!R.failed) {
      R.end_of_history();
      Rng r(count);
      R.do_release_all(int(count % 3), r);
    }
  }

  void rec(int d, int live_count) {
    if (d == depth) {
      if ((count++ % shards) == shard) run_path(path);
      return;
    }
    int ns = (int)sizes.size();
    for (int c = 0; c < ns; c++) { path.push_back(c); rec(d + 1, live_count + 1); path.pop_back(); }
    for (int li = 0; li < live_count; li++) {
      path.push_back(ns + li * 3 + 0); rec(d + 1, live_count - 1); path.pop_back();
      path.push_back(ns + li * 3 + 1); rec(d + 1, live_count); path.pop_back();
      path.push_back(ns + li * 3 + 2); rec(d + 1, live_count); path.pop_back();
    }
    if (live_count > 0) { path.push_back(ns + 3000); rec(d + 1, 0); path.pop_back(); }
  }
};

int main(int argc, char** argv) {
  Args a(argc, argv);
  Config cfg;
  cfg.options = (uint32_t)a.u64("options", 0);
  cfg.granularity = (uint32_t)a.u64("granularity", 0);
  cfg.block_size = (uint32_t)a.u64("block-size", 0);
  cfg.fill_pattern = (uint32_t)a.u64("fill-pattern", 0);
  uint64_t seed = a.u64("seed", 1);
  std::string mode = a.str("mode", "random");
  g_os_every = std::max<uint64_t>(1, a.u64("os-every", 1));

  // reference values of a default allocator, a second allocator for foreign spans, calibration of overhead_size()
  {
    g_other = new JitAllocator();
    g_ref.granularity = g_other->granularity();
    g_ref.block_size = g_other->block_size();
    g_ref.fill_pattern = g_other->fill_pattern();
    Error e = g_other->alloc(Out(g_other_span), 128); (void)e;
    JitAllocator::CreateParams p2;
    p2.block_size = g_ref.block_size * 4;
    JitAllocator big(&p2);
    JitAllocator::Span s2;
    if (e == Error::kOk && big.alloc(Out(s2), 128) == Error::kOk) {
      JitAllocator::Statistics s1 = g_other->statistics(), sb = big.statistics();
      double g1 = double(s1.reserved_size() / g_ref.granularity), gb = double(sb.reserved_size() / big.granularity());
      if (s1.block_count() == 1 && sb.block_count() == 1 && gb > g1 && sb.overhead_size() >= s1.overhead_size()) {
        g_ref.overhead_per_granule = double(sb.overhead_size() - s1.overhead_size()) / (gb - g1);
        g_ref.overhead_per_block = double(s1.overhead_size()) - g_ref.overhead_per_granule * g1;
        g_ref.overhead_calibrated = g_ref.overhead_per_block >= 0;
      }
      (void)big.release(s2.rx());
    }
  }

  if (mode == "random") {
    size_t nh = a.u64("histories", 10), nops = a.u64("ops", 2000);
    int only_style = a.has("style") ? int(a.u64("style", 0)) : -1;
    for (size_t h = 0; h < nh; h++) {
      Rng r(seed * 1000003 + h);
      int style = only_style >= 0 ? only_style : int((h + seed) % 4);     // (jobs with a single history still cover all styles between them)
      random_history(cfg, r.next(), style == 3 ? nops * 2 : nops, style);
    }
  }
  else if (mode == "misuse") {
    size_t nh = a.u64("histories", 30);
    for (size_t h = 0; h < nh; h++) {
      Rng r(seed * 1000003 + h);
      misuse_history(cfg, r.next(), int(h % 3));
    }
  }
  else if (mode == "exh") {
    Exh e;
    e.cfg = cfg;
    e.depth = (int)a.u64("depth", 4);
    e.shard = a.u64("shard", 0);
    e.shards = a.u64("shards", 1);
    uint32_t g = cfg.granularity ? cfg.granularity : 64;
    uint32_t b = 65536;
    e.sizes = { 1, g, g + 1, b / 2, b - g, b, b + 1, 3 * b };
    if (a.has("few-sizes")) e.sizes = { 1, g + 1, b - g, b + 1 };
    if (a.has("geom-sizes")) {
      // sizes from the allocator's geometry: E fills the first block a pool maps (twice the base block size, minus the initial
      // padding) completely, E2 the second one; E -+ one granule; one small size for the tail / the retained block
      bool pad = (cfg.options & 0x10u) == 0, multi = (cfg.options & 2u) != 0;
      uint32_t base = Runner::valid_block_size(cfg.block_size) ? cfg.block_size : g_ref.block_size;
      size_t pg = multi ? size_t(g) * 2 : g;          // several pools: the sizes below land in the pool with twice the granularity
      size_t E = size_t(base) * 2 - (pad ? pg : 0), E2 = size_t(base) * 4 - (pad ? pg : 0);
      e.sizes = { g, E - pg, E, E + pg, E2 };
      if (multi) e.sizes.push_back(size_t(base) * 2 - (pad ? g : 0));
    }
    for (int d = 1; d <= e.depth; d++) { Exh x = e; x.depth = d; x.count = 0; x.rec(0, 0); }
  }

  printf("{\"violations\":[");
  for (size_t i = 0; i < g_viol.size(); i++)
    printf("%s{\"key\":%s,\"what\":%s}", i ? "," : "", jstr(g_viol[i].key).c_str(), jstr(g_viol[i].what).c_str());
  printf("],\"histories\":%llu,\"h2_walks\":%llu,\"max_live\":%llu,\"max_blocks\":%llu,\"bytes_verified\":%llu,\"fill_checked\":%llu,\"reuse_observed\":%llu,\"ops\":{",
         (unsigned long long)g_stats.histories, (unsigned long long)g_stats.h2_walks, (unsigned long long)g_stats.max_live,
         (unsigned long long)g_stats.max_blocks, (unsigned long long)g_stats.bytes_verified, (unsigned long long)g_stats.fill_checked,
         (unsigned long long)g_stats.reuse_observed);
  for (int i = 0; i < OP_COUNT; i++) printf("%s\"%s\":%llu", i ? "," : "", kOpNames[i], (unsigned long long)g_stats.ops[i]);
  printf("},\"dims\":{");
  {
    const std::pair<const char*, uint64_t> dims[] = {
      {"custom_pattern_allocators", g_stats.custom_pattern_allocators}, {"ignored_pattern_allocators", g_stats.ignored_pattern_allocators},
      {"huge_requests", g_stats.huge_requests}, {"huge_refused", g_stats.huge_refused}, {"nonlive_queries", g_stats.nonlive_queries},
      {"stale_shrinks", g_stats.stale_shrinks}, {"release_fill_checked", g_stats.release_fill_checked},
      {"overhead_checks", g_stats.overhead_checks}, {"overhead_exact_checks", g_stats.overhead_exact_checks},
      {"overhead_calibrated", uint64_t(g_ref.overhead_calibrated)},
      {"invalid_param_allocators", g_stats.invalid_param_allocators}, {"valid_block_size_allocators", g_stats.valid_block_size_allocators},
      {"os_map_checks", g_stats.os_map_checks}, {"os_map_checks_after_hard_reset", g_stats.os_map_checks_after_hard_reset},
      {"os_map_checks_after_destroy", g_stats.os_map_checks_after_destroy},
      {"scoped_writes", g_stats.scoped_writes}, {"policy_writes", g_stats.policy_writes},
      {"misuse_probes", g_stats.misuse_probes}, {"dense_histories", g_stats.dense_histories},
      {"geom_requests", g_stats.geom_requests}, {"exact_fit_fresh_block", g_stats.exact_fit_fresh}, {"exact_fit_later_block", g_stats.exact_fit_later_block},
      {"geom_spill_into_bigger_block", g_stats.spill_fresh}, {"exact_fit_then_soft_reset", g_stats.exact_then_soft_reset},
      {"exact_fit_then_shrink_and_tail_alloc", g_stats.exact_then_shrink_tail}, {"exact_fit_then_release_all", g_stats.exact_then_release_all},
      {"reset_dead_queries", g_stats.reset_dead_queries}, {"reset_retained_block_allocs", g_stats.reset_retained_allocs},
    };
    bool f = true;
    for (auto& d : dims) { printf("%s\"%s\":%llu", f ? "" : ",", d.first, (unsigned long long)d.second); f = false; }
  }
  printf("},\"distinct\":[");
  { bool f = true; for (uint64_t h : g_stats.distinct_nontrivial) { printf("%s%llu", f ? "" : ",", (unsigned long long)h); f = false; } }
  printf("],\"distinct_all\":%zu}\n", g_stats.distinct.size());
  return 0;
}
