// C08 driver: replays emitter-call *scripts* into (a) an Assembler in script order, (r) an Assembler in the node order the
// Python model of the Builder's node list predicts, (b) a Builder + finalize(), (c) a Compiler (no functions, physical
// registers only) + finalize(), and - when the script carries an edit script - into a Builder/Compiler whose node list
// is then edited through the public cursor/node API, against (r2) an Assembler fed with the edited sequence.
// Every run uses its own fresh CodeHolder with the same environment. The oracle is purely differential (harness code).
//
// Script file format (one script = lines S .. END), written by vlib/scriptgen.py:
//   S <sid> <x86|x64|a64> <flags-hex>
//   SEC <name> <flags-hex> <alignment> <order>            extra section (ids 1..), created up front with code.new_section
//   C <cid> <phase> <KIND> ...                            emitter call; phase 1 = script, 2 = issued by an `E emit`
//     I <comment|-> <name|#id> <opts-hex> <extra|-> <nops> <op>...
//     NL <k> <name|-> <type> <cn> [<creator>]             new label k (cn=1: label of a ConstPoolNode / plain new_label for assemblers;
//                                                         cn=2: label of the Compiler's global constant pool, made by the first GC call;
//                                                         creator 1: CodeHolder::new_label_id(), 2: an idle second emitter on the same holder,
//                                                         3: BaseBuilder::new_label_node())
//     JA <k,k,..|-> <comment|-> <name|#id> <opts-hex> <extra|-> 1 <op>     Compiler: emit_annotated_jump(), others: like I
//     GC <k> <hex> <comment|-> <name|#id> <opts-hex> <extra|-> <nops> <op>...   one <op> is `GC`: Compiler: _new_const(kGlobal, data) gives
//                                                         that operand; others: [label k + offset] and the pool embedded after the last node
//     B <k> | AL <mode> <alignment> | EM <hex|-> | ED <typeid> <items> <repeat> <hex|->
//     CP <k> <size:hex,...|->  embed_const_pool | CN <k> <size:hex,...|->  ConstPoolNode + add_node (assembler: embed_const_pool)
//     EL <k> <size> | LD <k> <kbase> <size> | CM <text> | SE <section-index>
//   E rm <n> | rr <n> <n> | add <n> | mv <n> <ref|-> | ab <n> <ref> | aa <n> <ref> | cur <ref|-> | emit <cid> | ni <cid> | sn <Zn>
//     (ni: the node of call <cid> is made by hand - new_inst_node/new_align_node/new_embed_data_node/new_comment_node - and add_node()d)
//   R <tok>...   node order expected after phase 1      X <tok>...   node order expected after the edit script
//     tok: <cid> (whole call) | L<k> (bind) | S<i> (section) | <cid>.a / <cid>.d (align / data node of a CP call)
//   END
#include <asmjit/core.h>
#include <asmjit/x86.h>
#include <asmjit/a64.h>
#include "vcommon.h"
#include <algorithm>
#include <fstream>
#include <iostream>
#include <memory>
#include <set>
#include <sstream>
#include <stdarg.h>
#include <signal.h>
#include <sys/time.h>
#include <unistd.h>

using namespace asmjit;

// script flags
enum : uint32_t {
  F_VALIDATE_ASM = 1, F_VALIDATE_INTERMEDIATE = 2, F_LOGGER = 4, F_OPT_SIZE = 8, F_OPT_ALIGN = 16, F_PREDICTED = 32,
  F_EDIT_COMPILER = 64, F_BASE_ADDRESS = 128, F_CONTINUE = 256
};

static const uint64_t kBase = 0x40000000ull;

// ---------------------------------------------------------------------------------------------------------------------
// parsing
// ---------------------------------------------------------------------------------------------------------------------

static std::vector<std::string> split(const std::string& s, char c) {
  std::vector<std::string> o; std::string cur;
  for (char ch : s) { if (ch == c) { o.push_back(cur); cur.clear(); } else cur += ch; }
  o.push_back(cur);
  return o;
}

static std::vector<uint8_t> unhex(const std::string& s) {
  std::vector<uint8_t> o;
  if (s == "-") return o;
  auto v = [](char c) { return c <= '9' ? c - '0' : (c | 32) - 'a' + 10; };
  for (size_t i = 0; i + 1 < s.size(); i += 2) o.push_back(uint8_t(v(s[i]) * 16 + v(s[i + 1])));
  return o;
}

static RegType reg_type_of(const std::string& s) {
  if (s == "gp8lo") return RegType::kGp8Lo;
  if (s == "gp8hi") return RegType::kGp8Hi;
  if (s == "gp16") return RegType::kGp16;
  if (s == "gp32") return RegType::kGp32;
  if (s == "gp64") return RegType::kGp64;
  if (s == "xmm") return RegType::kVec128;
  if (s == "ymm") return RegType::kVec256;
  if (s == "zmm") return RegType::kVec512;
  if (s == "mm") return RegType::kX86_Mm;
  if (s == "k") return RegType::kMask;
  if (s == "sreg") return RegType::kSegment;
  if (s == "creg") return RegType::kControl;
  if (s == "dreg") return RegType::kDebug;
  if (s == "st") return RegType::kX86_St;
  if (s == "bnd") return RegType::kX86_Bnd;
  if (s == "tmm") return RegType::kTile;
  if (s == "rip") return RegType::kPC;
  return RegType::kNone;
}

static bool shift_op_of(const std::string& s, arm::ShiftOp* out) {
  static const char* names[] = { "lsl", "lsr", "asr", "ror", "rrx", "msl", "uxtb", "uxth", "uxtw", "uxtx", "sxtb", "sxth", "sxtw", "sxtx" };
  for (unsigned i = 0; i < 14; i++) if (s == names[i]) { *out = arm::ShiftOp(i); return true; }
  return false;
}

static a64::VecElementType et_of(const std::string& s) {
  if (s == "b") return a64::VecElementType::kB;
  if (s == "h") return a64::VecElementType::kH;
  if (s == "s") return a64::VecElementType::kS;
  if (s == "d") return a64::VecElementType::kD;
  if (s == "b4") return a64::VecElementType::kB4;
  if (s == "h2") return a64::VecElementType::kH2;
  return a64::VecElementType::kNone;
}

enum OpKind { OP_FIXED, OP_LABEL, OP_X86_MEM_LABEL, OP_A64_MEM_LABEL, OP_GCONST };

struct OpD {
  OpKind kind = OP_FIXED;
  Operand op;           // OP_FIXED
  int label = -1;       // script label index of the other kinds
  // x86 label memory operand
  bool has_index = false; Reg idx; uint32_t shift = 0, size = 0, seg = 0, bcst = 0; int32_t disp = 0; std::string addr;
};

enum Kind { K_I, K_NL, K_B, K_AL, K_EM, K_ED, K_CP, K_CN, K_EL, K_LD, K_CM, K_SE, K_JA, K_GC, K_BAD };

struct Call {
  int cid = 0, phase = 1;
  Kind kind = K_BAD;
  std::string kind_s;
  // instruction
  InstId inst_id = 0;
  uint32_t opts = 0;
  bool has_extra = false; Reg extra;
  bool has_comment = false; std::string comment;
  int nops = 0; OpD ops[6];
  bool bad = false;
  std::string name;
  // everything else
  int k = -1, k2 = -1;
  long a = 0, b = 0, c = 0;
  std::string text;
  std::vector<uint8_t> data;
  std::vector<std::vector<uint8_t>> pool;
  std::vector<int> ann;   // JA: script labels put into the JumpAnnotation
  int creator = 0;    // NL
  std::string desc;   // class of the call for violation keys
};

struct SecD { std::string name; uint32_t flags; uint32_t alignment; int32_t order; };
struct Edit { std::string op, a, b; };

struct Script {
  std::string sid, arch_s;
  Arch arch = Arch::kX64;
  uint32_t flags = 0;
  std::vector<SecD> secs;
  std::vector<Call> calls;
  std::map<int, int> by_cid;
  std::vector<int> phase1;   // indexes into calls
  std::vector<int> phase2;
  std::vector<Edit> edits;
  std::vector<std::string> R, X;
  bool has_R = false, has_X = false;
  int nlabels = 0;
  bool parse_error = false;
  std::string parse_msg;
};

static std::map<std::string, std::vector<uint32_t>> g_a64_by_name;

static void parse_x86_op(const std::string& tok, OpD& d, bool& bad) {
  std::vector<std::string> p = split(tok, ':');
  if (p[0] == "R" && p.size() >= 3) d.op = Reg::from_type_and_id(reg_type_of(p[1]), (uint32_t)strtoul(p[2].c_str(), nullptr, 0));
  else if (p[0] == "I" && p.size() >= 2) {
    d.op = Imm((int64_t)strtoll(p[1].c_str(), nullptr, 0));
    if (p[1].size() > 18 && p[1][0] != '-') d.op = Imm((uint64_t)strtoull(p[1].c_str(), nullptr, 0));
  }
  else if (p[0] == "L" && p.size() >= 2) { d.kind = OP_LABEL; d.label = atoi(p[1].c_str()); }
  else if (p[0] == "M" && p.size() >= 11) {
    // M:size:basetype:baseid:indextype:indexid:shift:disp:seg:bcst:addr
    uint32_t size = (uint32_t)strtoul(p[1].c_str(), nullptr, 0);
    std::string bt = p[2]; uint32_t bid = (uint32_t)strtoul(p[3].c_str(), nullptr, 0);
    std::string it = p[4]; uint32_t iid = (uint32_t)strtoul(p[5].c_str(), nullptr, 0);
    uint32_t shift = (uint32_t)strtoul(p[6].c_str(), nullptr, 0);
    int64_t disp = strtoll(p[7].c_str(), nullptr, 0);
    uint32_t seg = (uint32_t)strtoul(p[8].c_str(), nullptr, 0);
    uint32_t bcst = (uint32_t)strtoul(p[9].c_str(), nullptr, 0);
    std::string addr = p[10];
    bool has_index = it != "none";
    Reg idx = has_index ? Reg::from_type_and_id(reg_type_of(it), iid) : Reg();
    if (bt == "label") {
      d.kind = OP_X86_MEM_LABEL; d.label = int(bid); d.has_index = has_index; d.idx = idx; d.shift = shift; d.size = size;
      d.seg = seg; d.bcst = bcst; d.disp = int32_t(disp); d.addr = addr;
      return;
    }
    x86::Mem m;
    if (bt == "none") m = has_index ? x86::Mem(uint64_t(disp), idx, shift, size) : x86::Mem(uint64_t(disp), size);
    else {
      Reg base = Reg::from_type_and_id(reg_type_of(bt), bid);
      m = has_index ? x86::Mem(base, idx, shift, int32_t(disp), size) : x86::Mem(base, int32_t(disp), size);
    }
    if (seg) m.set_segment(seg);
    if (bcst) m.set_broadcast(x86::Mem::Broadcast(bcst));
    if (addr == "abs") m.set_addr_abs();
    else if (addr == "rel") m.set_addr_rel();
    d.op = m;
  }
  else bad = true;
}

static void parse_a64_op(const std::string& tok, OpD& d, bool& bad, bool& has_vec) {
  std::vector<std::string> p = split(tok, ':');
  const std::string& k = p[0];
  const uint64_t far_target = kBase + 0x2000;
  if (k == "G" && p.size() >= 3) {
    uint32_t rid = (uint32_t)strtoul(p[2].c_str(), nullptr, 0);
    d.op = p[1] == "w" ? a64::Gp::make_r32(rid) : a64::Gp::make_r64(rid);
  }
  else if (k == "V" && p.size() >= 3) {
    has_vec = true;
    uint32_t rid = (uint32_t)strtoul(p[2].c_str(), nullptr, 0);
    a64::Vec v;
    char t = p[1][0];
    v = t == 'b' ? a64::Vec::make_v8(rid) : t == 'h' ? a64::Vec::make_v16(rid) : t == 's' ? a64::Vec::make_v32(rid) :
        t == 'd' ? a64::Vec::make_v64(rid) : a64::Vec::make_v128(rid);
    if (p.size() >= 4 && p[3] != "-") v.set_element_type(et_of(p[3]));
    if (p.size() >= 5 && p[4] != "-") v.set_element_index((uint32_t)strtoul(p[4].c_str(), nullptr, 0));
    d.op = v;
  }
  else if (k == "I" && p.size() >= 2) d.op = Imm((int64_t)strtoll(p[1].c_str(), nullptr, 0));
  else if (k == "U" && p.size() >= 2) d.op = Imm((uint64_t)strtoull(p[1].c_str(), nullptr, 0));
  else if (k == "F" && p.size() >= 2) d.op = Imm(strtod(p[1].c_str(), nullptr));
  else if (k == "S" && p.size() >= 3) {
    arm::ShiftOp sop;
    if (!shift_op_of(p[1], &sop)) bad = true;
    else d.op = Imm(arm::Shift(sop, (uint32_t)strtoul(p[2].c_str(), nullptr, 0)));
  }
  else if (k == "M" && p.size() >= 4) {
    uint32_t bid = (uint32_t)strtoul(p[1].c_str(), nullptr, 0);
    int32_t off = (int32_t)strtoll(p[3].c_str(), nullptr, 0);
    a64::Mem m(a64::Gp::make_r64(bid), off);
    if (p[2] == "pre") m.make_pre_index();
    else if (p[2] == "post") m.make_post_index();
    d.op = m;
  }
  else if (k == "MX" && p.size() >= 7) {
    uint32_t bid = (uint32_t)strtoul(p[1].c_str(), nullptr, 0);
    uint32_t iid = (uint32_t)strtoul(p[3].c_str(), nullptr, 0);
    a64::Gp idx = p[2] == "w" ? a64::Gp::make_r32(iid) : a64::Gp::make_r64(iid);
    a64::Mem m;
    if (p[4] == "-") m = a64::Mem(a64::Gp::make_r64(bid), idx);
    else {
      arm::ShiftOp sop;
      if (!shift_op_of(p[4], &sop)) bad = true;
      else m = a64::Mem(a64::Gp::make_r64(bid), idx, arm::Shift(sop, (uint32_t)strtoul(p[5].c_str(), nullptr, 0)));
    }
    if (p[6] == "pre") m.make_pre_index();
    else if (p[6] == "post") m.make_post_index();
    d.op = m;
  }
  else if (k == "ML" && p.size() >= 3) {
    d.kind = OP_A64_MEM_LABEL; d.label = atoi(p[1].c_str()); d.disp = (int32_t)strtoll(p[2].c_str(), nullptr, 0);
  }
  else if (k == "MA" && p.size() >= 2) d.op = a64::Mem(uint64_t(far_target + (uint64_t)strtoll(p[1].c_str(), nullptr, 0)));
  else if (k == "L" && p.size() >= 2) { d.kind = OP_LABEL; d.label = atoi(p[1].c_str()); }
  else if (k == "A" && p.size() >= 2) d.op = Imm(uint64_t(far_target + (uint64_t)strtoll(p[1].c_str(), nullptr, 0)));
  else if (k == "AP" && p.size() >= 2) d.op = Imm(uint64_t((far_target & ~uint64_t(4095)) + (uint64_t)strtoll(p[1].c_str(), nullptr, 0)));
  else bad = true;
}

static void parse_pool(const std::string& s, std::vector<std::vector<uint8_t>>& pool) {
  if (s == "-") return;
  for (const std::string& item : split(s, ',')) {
    std::vector<std::string> p = split(item, ':');
    if (p.size() == 2) pool.push_back(unhex(p[1]));
  }
}

static bool parse_inst(Script& S, std::istringstream& ss, Call& c) {
  bool is_a64 = S.arch == Arch::kAArch64;
  {
    std::string cm, opts_s, extra_s;
    ss >> cm >> c.name >> opts_s >> extra_s >> c.nops;
    if (cm != "-") { c.has_comment = true; c.comment = cm; }
    c.opts = (uint32_t)strtoul(opts_s.c_str(), nullptr, 16);
    if (c.nops < 0 || c.nops > 6) return false;
    bool has_vec = false, has_label = false;
    for (int i = 0; i < c.nops; i++) {
      std::string tok; ss >> tok;
      if (tok.empty()) return false;
      if (tok == "GC") { c.ops[i].kind = OP_GCONST; continue; }
      if (is_a64) parse_a64_op(tok, c.ops[i], c.bad, has_vec);
      else parse_x86_op(tok, c.ops[i], c.bad);
      if (c.ops[i].kind != OP_FIXED && c.ops[i].kind != OP_GCONST) { has_label = true; S.nlabels = std::max(S.nlabels, c.ops[i].label + 1); }
    }
    if (extra_s != "-") {
      std::vector<std::string> p = split(extra_s, ':');
      if (p.size() == 2) { c.has_extra = true; c.extra = Reg::from_type_and_id(reg_type_of(p[0]), (uint32_t)strtoul(p[1].c_str(), nullptr, 0)); }
    }
    if (!is_a64) {
      if (c.name[0] == '#') c.inst_id = (InstId)strtoul(c.name.c_str() + 1, nullptr, 0);
      else c.inst_id = InstAPI::string_to_inst_id(S.arch, c.name.c_str(), c.name.size());
    }
    else {
      uint32_t cc = 0;
      std::string base = c.name;
      size_t dot = c.name.find('.');
      if (dot != std::string::npos) { base = c.name.substr(0, dot); cc = (uint32_t)strtoul(c.name.c_str() + dot + 1, nullptr, 0); }
      InstId id = 0;
      if (base[0] == '#') id = (InstId)strtoul(base.c_str() + 1, nullptr, 0);
      else {
        id = InstAPI::string_to_inst_id(Arch::kAArch64, base.c_str(), base.size());
        auto it = g_a64_by_name.find(base);
        if (it != g_a64_by_name.end() && it->second.size() > 1) {
          bool found = false;
          for (uint32_t x : it->second) if (x == id) found = true;
          if (found) id = has_vec ? it->second.back() : it->second.front();
        }
      }
      if (cc && id) id = BaseInst::compose_arm_inst_id(id, arm::CondCode(cc));
      c.inst_id = id;
    }
    c.desc = "inst";
    if (c.nops > 3) c.desc += "+ops>3";
    if (c.has_extra) c.desc += "+extra";
    if (c.opts) c.desc += "+opts";
    if (has_label) c.desc += "+label";
  }
  return !ss.fail();
}

static bool parse_call(Script& S, std::istringstream& ss, Call& c) {
  ss >> c.cid >> c.phase >> c.kind_s;
  const std::string& k = c.kind_s;
  c.desc = k;
  if (k == "I") {
    c.kind = K_I;
    if (!parse_inst(S, ss, c)) return false;
  }
  else if (k == "JA") {
    c.kind = K_JA;
    std::string labs; ss >> labs;
    if (labs != "-") for (const std::string& t : split(labs, ',')) { c.ann.push_back(atoi(t.c_str())); S.nlabels = std::max(S.nlabels, c.ann.back() + 1); }
    if (!parse_inst(S, ss, c) || c.nops != 1) return false;
    c.desc = "annotated-jump" + c.desc.substr(4);
  }
  else if (k == "GC") {
    c.kind = K_GC;
    std::string h; ss >> c.k >> h; c.data = unhex(h);
    if (!parse_inst(S, ss, c)) return false;
    c.desc = "global-const-" + c.desc;
  }
  else if (k == "NL") {
    c.kind = K_NL; std::string nm; ss >> c.k >> nm >> c.a >> c.b; if (nm != "-") c.text = nm; S.nlabels = std::max(S.nlabels, c.k + 1);
    if (ss.fail()) return false;
    int cr = 0; if (ss >> cr) c.creator = cr; else ss.clear();
  }
  else if (k == "B") { c.kind = K_B; ss >> c.k; }
  else if (k == "AL") { c.kind = K_AL; ss >> c.a >> c.b; }
  else if (k == "EM") { c.kind = K_EM; std::string h; ss >> h; c.data = unhex(h); }
  else if (k == "ED") { c.kind = K_ED; std::string h; ss >> c.a >> c.b >> c.c >> h; c.data = unhex(h); }
  else if (k == "CP" || k == "CN") { c.kind = k == "CP" ? K_CP : K_CN; std::string h; ss >> c.k >> h; parse_pool(h, c.pool); }
  else if (k == "EL") { c.kind = K_EL; ss >> c.k >> c.a; }
  else if (k == "LD") { c.kind = K_LD; ss >> c.k >> c.k2 >> c.a; }
  else if (k == "CM") { c.kind = K_CM; ss >> c.text; }
  else if (k == "SE") { c.kind = K_SE; ss >> c.a; }
  else return false;
  if (c.k >= 0) S.nlabels = std::max(S.nlabels, c.k + 1);
  if (c.k2 >= 0) S.nlabels = std::max(S.nlabels, c.k2 + 1);
  return !ss.fail();
}

// ---------------------------------------------------------------------------------------------------------------------
// one run = one emitter on one fresh CodeHolder
// ---------------------------------------------------------------------------------------------------------------------

struct Extent { std::string tok; const Call* call; uint32_t sec; size_t off0, off1; };

struct Snap {
  bool ran = false;
  uint32_t err = 0;                // first error code
  std::string err_at;              // token / cid of the failing call ("finalize" when it came out of finalize())
  std::string err_desc;            // class of the failing call
  bool call_error = false;         // Builder/Compiler: the error was returned by the call itself (not by finalize)
  int call_error_cid = -1;
  uint32_t finalize_err = 0;
  std::vector<std::string> sec_meta;
  std::vector<std::string> sec_bytes;
  std::vector<std::string> labels;
  std::vector<std::string> relocs;
  std::vector<std::string> fixups;
  size_t unresolved = 0;
  bool finished = false;
  uint32_t ferr[4] = { 0, 0, 0, 0 };
  std::string image;
  std::vector<std::string> labels_final;
  std::string log;
  std::vector<Extent> extents;     // assembler runs only
  uint32_t node_kinds = 0;         // builder runs: bit per NodeType seen in the list before finalize
  uint32_t node_count = 0;
  std::string harness_error;
  std::string list_corrupt, list_corrupt_detail;   // builder runs: edit op after which the node list was found malformed
  bool skipped = false;            // edit run that could not be judged (call-time error while feeding)
  std::vector<std::pair<int, uint32_t>> errs;      // go-on replays: every refused call (cid, code), sorted by cid
  unsigned foreign_label_nodes = 0;
  unsigned gc_planned = 0;         // GC calls whose constants are in the global pool of this run
  bool gc_pool_placed = false;     // the pool was embedded after the last node (assembler / Builder runs) or by the Compiler's pass
};

struct RunOpts {
  bool go_on = false;              // record refused calls and continue
  int stop_cid = -1;               // node-order replay of the calls in front of call <stop_cid> only
};

struct Run {
  const Script* S = nullptr;
  CodeHolder code;
  StringLogger logger;
  std::vector<Section*> secs;
  std::vector<Label> labels;
  std::vector<bool> label_made;
  std::vector<ConstPoolNode*> cpnodes;
  BaseEmitter* e = nullptr;
  BaseBuilder* b = nullptr;   // non-null for Builder / Compiler runs
  BaseCompiler* cc = nullptr; // non-null for Compiler runs
  Arena arena { 4096 };
  std::unique_ptr<BaseEmitter> idle;      // second emitter on the same CodeHolder; only ever creates labels (NL creator 2)
  std::vector<int> label_creator;
  // global constant pool (GC calls): offsets planned in execution order, the pool the non-Compiler runs embed after the last node
  std::map<int, size_t> gc_off;
  std::vector<const Call*> gc_planned;
  int gc_label = -1;
  bool gc_label_pending = false;          // Compiler run: the label is created inside the first _new_const() call
  unsigned gc_executed = 0;
  bool go_on = false;                     // continue after a refused call; the emitter's own state reset is then under observation
  unsigned foreign_label_nodes = 0;       // Builder runs: bind / embed_const_pool of a label the Builder did not create
};

// The constants of all GC calls that a run executes, in execution order (phase 1, then the calls issued by edits): the offsets are those
// ConstPool hands out in that order (the Compiler's pool receives them in that order whatever the node order becomes).
static void plan_global_pool(Run& r, const Script& S, bool with_edits) {
  std::vector<const Call*> order;
  for (int ci : S.phase1) order.push_back(&S.calls[size_t(ci)]);
  if (with_edits)
    for (const auto& ed : S.edits)
      if (ed.op == "emit" || ed.op == "ni") {
        auto it = S.by_cid.find(atoi(ed.a.c_str()));
        if (it != S.by_cid.end()) order.push_back(&S.calls[size_t(it->second)]);
      }
  ConstPool pool(r.arena);
  for (const Call* c : order) {
    if (c->kind != K_GC) continue;
    size_t off = 0;
    (void)pool.add(c->data.data(), c->data.size(), Out(off));
    r.gc_off[c->cid] = off;
    r.gc_planned.push_back(c);
    r.gc_label = c->k;
  }
}

static BaseMem global_const_mem(uint32_t label_id, size_t off, size_t size) {
  // what BaseCompiler::_new_const() documents to return: [label + offset] of the constant's size
  return BaseMem(OperandSignature::from_op_type(OperandType::kMem) | OperandSignature::from_mem_base_type(RegType::kLabelTag) |
                 OperandSignature::from_size(uint32_t(size)), label_id, 0, int32_t(off));
}

static bool init_run(Run& r, const Script& S, BaseEmitter* e, BaseBuilder* b, Snap& out) {
  r.S = &S; r.e = e; r.b = b;
  Environment env(S.arch);
  Error err = (S.flags & F_BASE_ADDRESS) ? r.code.init(env, kBase) : r.code.init(env);
  if (err != Error::kOk) { out.harness_error = "CodeHolder::init failed"; return false; }
  if (S.flags & F_LOGGER) {
    r.logger.set_flags(FormatFlags::kMachineCode | FormatFlags::kHexImms);
    r.code.set_logger(&r.logger);
  }
  r.secs.push_back(r.code.text_section());
  for (const SecD& sd : S.secs) {
    Section* sec = nullptr;
    err = r.code.new_section(Out(sec), sd.name.c_str(), sd.name.size(), SectionFlags(sd.flags), sd.alignment, sd.order);
    if (err != Error::kOk) { out.harness_error = "new_section failed"; return false; }
    r.secs.push_back(sec);
  }
  err = r.code.attach(e);
  if (err != Error::kOk) { out.harness_error = "attach failed"; return false; }
  EncodingOptions eo = EncodingOptions::kNone;
  if (S.flags & F_OPT_SIZE) eo |= EncodingOptions::kOptimizeForSize;
  if (S.flags & F_OPT_ALIGN) eo |= EncodingOptions::kOptimizedAlign;
  if (S.flags & F_PREDICTED) eo |= EncodingOptions::kPredictedJumps;
  e->add_encoding_options(eo);
  DiagnosticOptions dopt = DiagnosticOptions::kNone;
  if (S.flags & F_VALIDATE_ASM) dopt |= DiagnosticOptions::kValidateAssembler;
  if (b && (S.flags & F_VALIDATE_INTERMEDIATE)) dopt |= DiagnosticOptions::kValidateIntermediate;
  e->add_diagnostic_options(dopt);
  r.labels.assign(size_t(S.nlabels), Label());
  r.label_made.assign(size_t(S.nlabels), false);
  r.label_creator.assign(size_t(S.nlabels), 0);
  r.cpnodes.assign(size_t(S.nlabels), nullptr);
  return true;
}

static bool label_of(Run& r, int k, Label& out) {
  if (k < 0 || size_t(k) >= r.labels.size() || !r.label_made[size_t(k)]) return false;
  out = r.labels[size_t(k)];
  return true;
}

static bool materialize(Run& r, const Call& c, Operand* ops, const BaseMem* gc_mem = nullptr) {
  for (int i = 0; i < c.nops; i++) {
    const OpD& d = c.ops[i];
    if (d.kind == OP_FIXED) { ops[i] = d.op; continue; }
    if (d.kind == OP_GCONST) { ops[i] = gc_mem ? Operand(*gc_mem) : Operand(); continue; }
    Label L;
    if (!label_of(r, d.label, L)) return false;
    if (d.kind == OP_LABEL) ops[i] = L;
    else if (d.kind == OP_X86_MEM_LABEL) {
      x86::Mem m = d.has_index ? x86::Mem(L, d.idx, d.shift, d.disp, d.size) : x86::Mem(L, d.disp, d.size);
      if (d.seg) m.set_segment(d.seg);
      if (d.bcst) m.set_broadcast(x86::Mem::Broadcast(d.bcst));
      if (d.addr == "abs") m.set_addr_abs();
      else if (d.addr == "rel") m.set_addr_rel();
      ops[i] = m;
    }
    else ops[i] = a64::Mem(L, d.disp);
  }
  return true;
}

static void build_pool(ConstPool& pool, const Call& c) {
  for (const auto& item : c.pool) { size_t off; (void)pool.add(item.data(), item.size(), Out(off)); }
}

// harness-level failures of exec (script inconsistent) are reported through `hfail`
static Error exec_call(Run& r, const Call& c, std::string& hfail) {
  BaseEmitter* e = r.e;
  switch (c.kind) {
    case K_I: case K_JA: case K_GC: {
      Operand ops[6];
      BaseMem gc_mem;
      if (c.bad) { hfail = "unparsable operand"; return Error::kInvalidArgument; }
      if (c.kind == K_GC) {
        Label L;
        if (!label_of(r, c.k, L)) { hfail = "global pool label used before creation"; return Error::kInvalidArgument; }
        if (r.cc) {
          Error err = r.cc->_new_const(Out(gc_mem), ConstPoolScope::kGlobal, c.data.data(), c.data.size());
          if (err != Error::kOk) { hfail = "_new_const failed"; return err; }
          // the label the script calls k is the pool's label: its id was predicted when the NL line was met
          if (gc_mem.base_id() != L.id()) { hfail = "global pool label id out of sync with the script's label numbering"; return Error::kInvalidArgument; }
          r.gc_label_pending = false;
        }
        else {
          auto it = r.gc_off.find(c.cid);
          if (it == r.gc_off.end()) { hfail = "GC call without planned offset"; return Error::kInvalidArgument; }
          gc_mem = global_const_mem(L.id(), it->second, c.data.size());
        }
        r.gc_executed++;
      }
      if (!materialize(r, c, ops, &gc_mem)) { hfail = "label used before creation"; return Error::kInvalidArgument; }
      if (c.opts) e->set_inst_options(InstOptions(c.opts));
      if (c.has_extra) e->set_extra_reg(c.extra);
      if (c.has_comment) e->set_inline_comment(c.comment.c_str());
      Error err;
      if (c.kind == K_JA && r.cc) {
        JumpAnnotation* ann = r.cc->new_jump_annotation();
        if (!ann) { hfail = "new_jump_annotation failed"; return Error::kOutOfMemory; }
        for (int k : c.ann) {
          Label L;
          if (!label_of(r, k, L)) { hfail = "annotation label used before creation"; return Error::kInvalidArgument; }
          if (ann->add_label_id(L.id()) != Error::kOk) { hfail = "add_label_id failed"; return Error::kOutOfMemory; }
        }
        err = r.cc->emit_annotated_jump(c.inst_id, ops[0], ann);
      }
      else err = e->emit_op_array(c.inst_id, ops, size_t(c.nops));
      // a refused instruction leaves the emitter's one-shot state (options, extra register, inline comment) reset - by the emitter itself;
      // only the "go on after a refused call" replays rely on that, the first-error replays stop here anyway
      if (err != Error::kOk && !r.go_on) { e->reset_inst_options(); e->reset_extra_reg(); e->reset_inline_comment(); }
      return err;
    }
    case K_NL: {
      size_t k = size_t(c.k);
      if (k >= r.labels.size() || r.label_made[k]) { hfail = "label created twice"; return Error::kInvalidArgument; }
      Label L;
      r.label_creator[k] = c.creator;
      if (c.b == 2 && r.cc) {
        // label of the Compiler's global constant pool: BaseCompiler::_new_const() creates it (next free id) in the first GC call
        L = Label(uint32_t(r.code.label_count()));
        r.gc_label_pending = true;
        r.labels[k] = L; r.label_made[k] = true;
        return Error::kOk;
      }
      if (c.b != 1 && c.creator == 1) {
        uint32_t id = Globals::kInvalidId;
        Error err = c.text.empty() ? r.code.new_label_id(Out(id)) : r.code.new_named_label_id(Out(id), c.text.c_str(), c.text.size(), LabelType(c.a), Globals::kInvalidId);
        if (err != Error::kOk) return err;
        L = Label(id);
      }
      else if (c.b != 1 && c.creator == 2) {
        if (!r.idle) {
          if (r.S->arch == Arch::kAArch64) r.idle.reset(new a64::Assembler()); else r.idle.reset(new x86::Assembler());
          if (r.code.attach(r.idle.get()) != Error::kOk) { hfail = "attaching the idle emitter failed"; return Error::kInvalidState; }
        }
        L = c.text.empty() ? r.idle->new_label() : r.idle->new_named_label(c.text.c_str(), c.text.size(), LabelType(c.a));
      }
      else if (c.b != 1 && c.creator == 3 && r.b) {
        LabelNode* node = nullptr;
        Error err = r.b->new_label_node(Out(node));
        if (err != Error::kOk) return err;
        L = node->label();
      }
      else if (c.b == 1 && r.b) {
        ConstPoolNode* node = nullptr;
        Error err = r.b->new_const_pool_node(Out(node));
        if (err != Error::kOk) return err;
        r.cpnodes[k] = node;
        L = node->label();
      }
      else if (!c.text.empty()) L = e->new_named_label(c.text.c_str(), c.text.size(), LabelType(c.a));
      else L = e->new_label();
      if (!L.is_valid()) return Error::kInvalidLabel;
      r.labels[k] = L; r.label_made[k] = true;
      return Error::kOk;
    }
    case K_B: {
      Label L; if (!label_of(r, c.k, L)) { hfail = "bind of unknown label"; return Error::kInvalidArgument; }
      if (r.b && (r.label_creator[size_t(c.k)] == 1 || r.label_creator[size_t(c.k)] == 2)) r.foreign_label_nodes++;
      return e->bind(L);
    }
    case K_AL: return e->align(AlignMode(c.a), uint32_t(c.b));
    case K_EM: return e->embed(c.data.data(), c.data.size());
    case K_ED: return e->embed_data_array(TypeId(c.a), c.data.data(), size_t(c.b), size_t(c.c));
    case K_CP: {
      Label L; if (!label_of(r, c.k, L)) { hfail = "unknown label"; return Error::kInvalidArgument; }
      ConstPool pool(r.arena);
      build_pool(pool, c);
      if (r.b && (r.label_creator[size_t(c.k)] == 1 || r.label_creator[size_t(c.k)] == 2)) r.foreign_label_nodes++;
      return e->embed_const_pool(L, pool);
    }
    case K_CN: {
      Label L; if (!label_of(r, c.k, L)) { hfail = "unknown label"; return Error::kInvalidArgument; }
      if (r.b) {
        ConstPoolNode* node = r.cpnodes[size_t(c.k)];
        if (!node) { hfail = "CN without ConstPoolNode"; return Error::kInvalidArgument; }
        for (const auto& item : c.pool) { size_t off; Error err = node->add(item.data(), item.size(), Out(off)); if (err != Error::kOk) return err; }
        r.b->add_node(node);
        return Error::kOk;
      }
      ConstPool pool(r.arena);
      build_pool(pool, c);
      return e->embed_const_pool(L, pool);
    }
    case K_EL: { Label L; if (!label_of(r, c.k, L)) { hfail = "unknown label"; return Error::kInvalidArgument; } return e->embed_label(L, size_t(c.a)); }
    case K_LD: {
      Label L, B; if (!label_of(r, c.k, L) || !label_of(r, c.k2, B)) { hfail = "unknown label"; return Error::kInvalidArgument; }
      return e->embed_label_delta(L, B, size_t(c.a));
    }
    case K_CM: return e->comment(c.text.c_str(), c.text.size());
    case K_SE: {
      if (c.a < 0 || size_t(c.a) >= r.secs.size()) { hfail = "unknown section"; return Error::kInvalidArgument; }
      return e->section(r.secs[size_t(c.a)]);
    }
    default: hfail = "bad call kind"; return Error::kInvalidArgument;
  }
}

static std::string fmt(const char* f, ...) {
  char buf[512];
  va_list ap; va_start(ap, f); vsnprintf(buf, sizeof buf, f, ap); va_end(ap);
  return buf;
}

static std::string fixup_str(const char* where, uint32_t label, const Fixup* f) {
  return fmt("%s L%u sec=%u off=%zu rel=%ld id=%d fmt=", where, label, f->section_id, f->offset, long(f->rel),
             f->label_or_reloc_id == Globals::kInvalidId ? -1 : int(f->label_or_reloc_id)) + hexstr(&f->format, sizeof(OffsetFormat));
}

static void snapshot(Run& r, Snap& s, bool finish) {
  CodeHolder& code = r.code;
  for (Section* sec : code.sections()) {
    s.sec_meta.push_back(fmt("%s flags=%x align=%u order=%d", sec->name(), unsigned(sec->flags()), sec->alignment(), sec->order()));
    s.sec_bytes.push_back(std::string((const char*)sec->data(), sec->buffer_size()) );
  }
  size_t nl = code.label_count();
  for (size_t i = 0; i < nl; i++) {
    const LabelEntry& le = code.label_entry_of(uint32_t(i));
    if (le.is_bound()) s.labels.push_back(fmt("bound sec=%u off=%llu", le.section_id(), (unsigned long long)le.offset()));
    else {
      s.labels.push_back("unbound");
      for (Fixup* f = le.unresolved_fixups(); f; f = f->next) s.fixups.push_back(fixup_str("label", uint32_t(i), f));
    }
  }
  for (Fixup* f = code._fixups; f; f = f->next) s.fixups.push_back(fixup_str("cross", f->label_or_reloc_id, f));
  std::sort(s.fixups.begin(), s.fixups.end());
  for (RelocEntry* re : code.reloc_entries()) {
    std::string p;
    if (re->reloc_type() == RelocType::kExpression) {
      Expression* ex = re->payload_as_expression();
      p = ex ? fmt("expr op=%u vt=%u,%u v=%llu,%llu", unsigned(ex->op_type), unsigned(ex->value_type[0]), unsigned(ex->value_type[1]),
                   (unsigned long long)(ex->value_type[0] == ExpressionValueType::kLabel ? ex->value[0].label_id : ex->value[0].constant),
                   (unsigned long long)(ex->value_type[1] == ExpressionValueType::kLabel ? ex->value[1].label_id : ex->value[1].constant))
             : std::string("expr null");
    }
    else p = fmt("payload=%llx", (unsigned long long)re->payload());
    s.relocs.push_back(fmt("type=%u src=%u:%llu dst=%d ", unsigned(re->reloc_type()), re->source_section_id(), (unsigned long long)re->source_offset(),
                           re->target_section_id() == Globals::kInvalidId ? -1 : int(re->target_section_id())) + p + " fmt=" + hexstr(&re->format(), sizeof(OffsetFormat)));
  }
  s.unresolved = code.unresolved_fixup_count();
  if (r.S->flags & F_LOGGER) s.log.assign(r.logger.data(), r.logger.data_size());
  if (!finish) return;
  s.finished = true;
  s.ferr[0] = uint32_t(code.flatten());
  s.ferr[1] = uint32_t(code.resolve_cross_section_fixups());
  if (s.ferr[0] == 0 && s.ferr[1] == 0) {
    s.ferr[2] = uint32_t(code.relocate_to_base(0x10000000ull));
    if (s.ferr[2] == 0) {
      size_t sz = code.code_size();
      if (sz > (64u << 20)) { s.ferr[3] = 0xFFFF; return; }
      s.image.assign(sz, '\xCC');
      s.ferr[3] = uint32_t(code.copy_flattened_data(&s.image[0], sz, CopySectionFlags::kPadSectionBuffer));
    }
  }
  for (size_t i = 0; i < nl; i++) {
    const LabelEntry& le = code.label_entry_of(uint32_t(i));
    if (le.is_bound()) s.labels_final.push_back(fmt("sec=%u off=%llu", le.section_id(), (unsigned long long)le.offset()));
    else s.labels_final.push_back("unbound");
  }
}

// --- assembler runs ------------------------------------------------------------------------------------------------

struct AsmHolder {
  x86::Assembler x; a64::Assembler a;
  BaseEmitter* get(Arch arch) { return arch == Arch::kAArch64 ? (BaseEmitter*)&a : (BaseEmitter*)&x; }
};

static const Call* call_by_cid(const Script& S, int cid) {
  auto it = S.by_cid.find(cid);
  return it == S.by_cid.end() ? nullptr : &S.calls[size_t(it->second)];
}

// executes one token of an R/X line on an assembler
static Error exec_token(Run& r, const std::string& tok, const Call*& call_out, std::string& desc, std::string& hfail) {
  const Script& S = *r.S;
  call_out = nullptr;
  if (tok[0] == 'S') {
    size_t i = size_t(atoi(tok.c_str() + 1));
    desc = "SE";
    if (i >= r.secs.size()) { hfail = "unknown section token"; return Error::kInvalidArgument; }
    return r.e->section(r.secs[i]);
  }
  if (tok[0] == 'Z') { desc = "sentinel"; return Error::kOk; }
  if (tok[0] == 'L') {
    Label L; desc = "B";
    if (!label_of(r, atoi(tok.c_str() + 1), L)) { hfail = "bind token of unknown label"; return Error::kInvalidArgument; }
    return r.e->bind(L);
  }
  size_t dot = tok.find('.');
  const Call* c = call_by_cid(S, atoi(tok.c_str()));
  if (!c) { hfail = "unknown call token " + tok; return Error::kInvalidArgument; }
  call_out = c;
  if (dot == std::string::npos) { desc = c->desc; return exec_call(r, *c, hfail); }
  if (c->kind != K_CP) { hfail = "sub token of non-CP call"; return Error::kInvalidArgument; }
  ConstPool pool(r.arena);
  build_pool(pool, *c);
  if (tok[dot + 1] == 'a') { desc = "CP.align"; return r.e->align(AlignMode::kData, uint32_t(pool.alignment())); }
  desc = "CP.data";
  std::vector<uint8_t> buf(pool.size() ? pool.size() : 1);
  pool.fill(buf.data());
  return r.e->embed_data_array(TypeId::kUInt8, buf.data(), pool.size(), 1);
}

// the constants of the GC calls, embedded where the Compiler's GlobalConstPoolPass puts its pool: after the last node
static Error embed_global_pool(Run& r, std::string& hfail) {
  Label L;
  if (!label_of(r, r.gc_label, L)) { hfail = "global pool label missing"; return Error::kInvalidArgument; }
  ConstPool pool(r.arena);
  for (const Call* c : r.gc_planned) { size_t off; (void)pool.add(c->data.data(), c->data.size(), Out(off)); }
  return r.e->embed_const_pool(L, pool);
}

static void run_asm(const Script& S, int mode /*0 = script order, 1 = R tokens, 2 = X tokens*/, Snap& out, const RunOpts& ro = RunOpts()) {
  AsmHolder H;
  Run r;
  BaseEmitter* e = H.get(S.arch);
  if (!init_run(r, S, e, nullptr, out)) return;
  out.ran = true;
  r.go_on = ro.go_on;
  // which phase-1 calls lie in front of the call the replay stops at (all of them without a stop)
  std::set<int> in_front;
  std::set<std::string> tokens_in_front;
  if (ro.stop_cid >= 0) {
    tokens_in_front.insert("S0");
    for (int ci : S.phase1) {
      const Call& c = S.calls[size_t(ci)];
      if (c.cid == ro.stop_cid) break;
      in_front.insert(c.cid);
      std::string cid = std::to_string(c.cid);
      if (c.kind == K_SE) tokens_in_front.insert("S" + std::to_string(c.a));
      else if (c.kind == K_B) tokens_in_front.insert("L" + std::to_string(c.k));
      else if (c.kind == K_CP) { tokens_in_front.insert(cid); tokens_in_front.insert(cid + ".a"); tokens_in_front.insert(cid + ".d"); tokens_in_front.insert("L" + std::to_string(c.k)); }
      else if (c.kind != K_NL) tokens_in_front.insert(cid);
    }
  }
  else plan_global_pool(r, S, mode == 2);
  out.gc_planned = unsigned(r.gc_planned.size());
  BaseAssembler* ba = static_cast<BaseAssembler*>(e);
  std::string hfail;
  auto track = [&](const std::string& tok, const Call* c, uint32_t sec0, size_t off0) {
    // a call may switch sections (SE) - extents only matter for calls that append bytes to the section they started in
    Extent x; x.tok = tok; x.call = c; x.sec = sec0; x.off0 = off0;
    x.off1 = ba->current_section()->section_id() == sec0 ? ba->offset() : off0;
    out.extents.push_back(x);
  };
  if (mode == 0) {
    for (int ci : S.phase1) {
      const Call& c = S.calls[size_t(ci)];
      uint32_t sec0 = ba->current_section()->section_id(); size_t off0 = ba->offset();
      Error err = exec_call(r, c, hfail);
      if (!hfail.empty()) { out.harness_error = hfail + " (cid " + std::to_string(c.cid) + ")"; return; }
      track(std::to_string(c.cid), &c, sec0, off0);
      if (err != Error::kOk) {
        if (ro.go_on) { out.errs.push_back({ c.cid, uint32_t(err) }); continue; }
        out.err = uint32_t(err); out.err_at = std::to_string(c.cid); out.err_desc = c.desc; out.call_error_cid = c.cid; break;
      }
    }
    if (out.err == 0 && !r.gc_planned.empty()) {
      // the pool goes where the node list ends: the section of the last SectionNode in node order
      size_t last_sec = 0;
      for (const std::string& tok : S.R) if (tok[0] == 'S') last_sec = size_t(atoi(tok.c_str() + 1));
      uint32_t sec0 = ba->current_section()->section_id(); size_t off0 = ba->offset();
      Error err = Error::kOk;
      if (last_sec < r.secs.size() && r.secs[last_sec] != ba->current_section()) { err = e->section(r.secs[last_sec]); sec0 = ba->current_section()->section_id(); off0 = ba->offset(); }
      if (err == Error::kOk) err = embed_global_pool(r, hfail);
      if (!hfail.empty()) { out.harness_error = hfail; return; }
      track("gcpool", nullptr, sec0, off0);
      out.gc_pool_placed = true;
      if (err != Error::kOk) { out.err = uint32_t(err); out.err_at = "gcpool"; out.err_desc = "global-const-pool"; }
    }
  }
  else {
    // label creation is not a node: all of it happens first, in the order the builder run performs it
    for (int pass = 1; pass <= mode; pass++) {
      for (int ci : (pass == 1 ? S.phase1 : S.phase2)) {
        const Call& c = S.calls[size_t(ci)];
        if (c.kind != K_NL) continue;
        if (ro.stop_cid >= 0 && !in_front.count(c.cid)) continue;
        Error err = exec_call(r, c, hfail);
        if (!hfail.empty() || err != Error::kOk) { out.harness_error = "label creation failed: " + hfail; return; }
      }
    }
    for (const std::string& tok : (mode == 1 ? S.R : S.X)) {
      if (ro.stop_cid >= 0 && !tokens_in_front.count(tok)) continue;
      const Call* c = nullptr; std::string desc;
      uint32_t sec0 = ba->current_section()->section_id(); size_t off0 = ba->offset();
      Error err = exec_token(r, tok, c, desc, hfail);
      if (!hfail.empty()) { out.harness_error = hfail; return; }
      track(tok, c, sec0, off0);
      out.extents.back().tok = tok + "(" + desc + ")";
      if (err != Error::kOk) {
        if (ro.go_on) { out.errs.push_back({ c ? c->cid : -1, uint32_t(err) }); continue; }
        out.err = uint32_t(err); out.err_at = tok; out.err_desc = desc; if (c) out.call_error_cid = c->cid; break;
      }
    }
    if (out.err == 0 && !r.gc_planned.empty()) {
      uint32_t sec0 = ba->current_section()->section_id(); size_t off0 = ba->offset();
      Error err = embed_global_pool(r, hfail);
      if (!hfail.empty()) { out.harness_error = hfail; return; }
      track("gcpool", nullptr, sec0, off0);
      out.extents.back().tok = "gcpool(global-const-pool)";
      out.gc_pool_placed = true;
      if (err != Error::kOk) { out.err = uint32_t(err); out.err_at = "gcpool"; out.err_desc = "global-const-pool"; }
    }
  }
  std::sort(out.errs.begin(), out.errs.end());
  snapshot(r, out, out.err == 0 && ro.stop_cid < 0);
}

// --- builder / compiler runs -----------------------------------------------------------------------------------------

struct BuilderHolder {
  std::unique_ptr<BaseBuilder> b;
  BuilderHolder(Arch arch, bool compiler) {
    if (arch == Arch::kAArch64) { if (compiler) b.reset(new a64::Compiler()); else b.reset(new a64::Builder()); }
    else { if (compiler) b.reset(new x86::Compiler()); else b.reset(new x86::Builder()); }
  }
};

static bool register_nodes(Run& r, const Call& c, std::map<std::string, BaseNode*>& nodes, std::string& hfail) {
  BaseBuilder* b = r.b;
  BaseNode* cur = b->cursor();
  std::string cid = std::to_string(c.cid);
  switch (c.kind) {
    case K_NL: return true;
    case K_SE: {
      uint32_t sid = r.secs[size_t(c.a)]->section_id();
      Span<SectionNode*> sn = b->section_nodes();
      if (sid >= sn.size() || !sn[sid]) { hfail = "no section node after section()"; return false; }
      nodes["S" + std::to_string(c.a)] = sn[sid];
      return true;
    }
    case K_B: if (!cur) { hfail = "null cursor after bind"; return false; } nodes["L" + std::to_string(c.k)] = cur; return true;
    case K_CP: {
      if (!cur || !cur->prev() || !cur->prev()->prev()) { hfail = "embed_const_pool did not add three nodes"; return false; }
      nodes[cid + ".d"] = cur; nodes["L" + std::to_string(c.k)] = cur->prev(); nodes[cid + ".a"] = cur->prev()->prev();
      return true;
    }
    default: if (!cur) { hfail = "null cursor after call"; return false; } nodes[cid] = cur; return true;
  }
}

// The doubly linked node list must stay well formed after every public editing call: a malformed list cannot serialize to
// anything (and makes update_section_links()/serialize_to() spin), so it is reported instead of being walked by the library.
static std::string list_defect(BaseBuilder* b, size_t limit) {
  BaseNode* first = b->first_node();
  BaseNode* last = b->last_node();
  if (!first || !last) return (first || last) ? "first/last disagree about emptiness" : "";
  if (first->prev()) return "first node has a predecessor";
  size_t n = 0;
  BaseNode* prev = nullptr;
  for (BaseNode* x = first; x; x = x->next()) {
    if (++n > limit) return "list does not terminate (cycle)";
    if (x->prev() != prev) return "prev link of a node does not point to its predecessor";
    if (!x->is_active()) return "inactive node linked into the list";
    prev = x;
  }
  if (prev != last) return "last_node() is not the end of the list";
  return "";
}

static void run_builder(const Script& S, bool compiler, bool with_edits, Snap& out, const RunOpts& ro = RunOpts()) {
  BuilderHolder H(S.arch, compiler);
  Run r;
  BaseBuilder* b = H.b.get();
  if (!init_run(r, S, b, b, out)) return;
  out.ran = true;
  r.go_on = ro.go_on;
  if (compiler) r.cc = static_cast<BaseCompiler*>(b);
  plan_global_pool(r, S, with_edits);
  out.gc_planned = unsigned(r.gc_planned.size());
  std::string hfail;
  std::map<std::string, BaseNode*> nodes;
  if (b->first_node()) nodes["S0"] = b->first_node();
  bool stop = false;
  for (int ci : S.phase1) {
    const Call& c = S.calls[size_t(ci)];
    Error err = exec_call(r, c, hfail);
    if (!hfail.empty()) { out.harness_error = hfail + " (cid " + std::to_string(c.cid) + ")"; return; }
    if (err != Error::kOk) {
      if (ro.go_on) { out.errs.push_back({ c.cid, uint32_t(err) }); continue; }
      out.err = uint32_t(err); out.err_at = std::to_string(c.cid); out.err_desc = c.desc; out.call_error = true; out.call_error_cid = c.cid;
      stop = true; break;
    }
    if (!register_nodes(r, c, nodes, hfail)) { out.harness_error = hfail; return; }
  }
  std::sort(out.errs.begin(), out.errs.end());
  if (with_edits) {
    if (stop) { out.skipped = true; return; }
    auto node_of = [&](const std::string& key) -> BaseNode* {
      auto it = nodes.find(key);
      return it == nodes.end() ? nullptr : it->second;
    };
    size_t list_limit = 8 * (S.calls.size() + S.edits.size() + 16);
    const Edit* prev_ed = nullptr;
    for (const Edit& ed : S.edits) {
      if (prev_ed) {
        std::string defect = list_defect(b, list_limit);
        if (!defect.empty()) { out.list_corrupt = prev_ed->op; out.list_corrupt_detail = defect + " after edit `" + prev_ed->op + " " + prev_ed->a + " " + prev_ed->b + "`"; return; }
      }
      prev_ed = &ed;
      BaseNode* n = nullptr; BaseNode* ref = nullptr;
      if (ed.op == "emit" || ed.op == "ni") {
        const Call* c = call_by_cid(S, atoi(ed.a.c_str()));
        if (!c) { out.harness_error = "edit references unknown call " + ed.a; return; }
        Error err = Error::kOk;
        if (ed.op == "emit") err = exec_call(r, *c, hfail);
        else if (c->kind == K_AL) {
          AlignNode* node = nullptr;
          err = b->new_align_node(Out(node), AlignMode(c->a), uint32_t(c->b));
          if (err == Error::kOk) b->add_node(node);
        }
        else if (c->kind == K_EM || c->kind == K_ED) {
          EmbedDataNode* node = nullptr;
          err = c->kind == K_EM ? b->new_embed_data_node(Out(node), TypeId::kUInt8, c->data.data(), c->data.size())
                                : b->new_embed_data_node(Out(node), TypeId(c->a), c->data.data(), size_t(c->b), size_t(c->c));
          if (err == Error::kOk) b->add_node(node);
        }
        else if (c->kind == K_CM) {
          CommentNode* node = nullptr;
          err = b->new_comment_node(Out(node), c->text.c_str(), c->text.size());
          if (err == Error::kOk) b->add_node(node);
        }
        else {
          // the InstNode is created by hand: new_inst_node + set_op + add_node
          Operand ops[6];
          if (c->kind != K_I || !materialize(r, *c, ops)) { out.harness_error = "bad ni edit"; return; }
          InstNode* node = nullptr;
          err = b->new_inst_node(Out(node), c->inst_id, InstOptions(c->opts), uint32_t(c->nops));
          if (err == Error::kOk) {
            for (int i = 0; i < c->nops; i++) node->set_op(uint32_t(i), ops[i]);
            if (c->has_extra) node->set_extra_reg(c->extra);
            if (c->has_comment) node->set_inline_comment(c->comment.c_str());
            b->add_node(node);
          }
        }
        if (!hfail.empty()) { out.harness_error = hfail + " (edit emit " + ed.a + ")"; return; }
        if (err != Error::kOk) { out.skipped = true; out.err = uint32_t(err); out.err_at = ed.a; return; }
        if (!register_nodes(r, *c, nodes, hfail)) { out.harness_error = hfail; return; }
        continue;
      }
      if (ed.op == "sn") {
        SentinelNode* sn = nullptr;
        Error err = b->new_node_t<SentinelNode>(Out(sn), SentinelType::kUnknown);
        if (err != Error::kOk) { out.skipped = true; out.err = uint32_t(err); return; }
        b->add_node(sn);
        nodes[ed.a] = sn;
        continue;
      }
      if (ed.op == "cur") {
        if (ed.a != "-") { ref = node_of(ed.a); if (!ref) { out.harness_error = "edit cur: unknown node " + ed.a; return; } }
        b->set_cursor(ref);
        continue;
      }
      n = node_of(ed.a);
      if (!n) { out.harness_error = "edit " + ed.op + ": unknown node " + ed.a; return; }
      if (ed.op == "rm") b->remove_node(n);
      else if (ed.op == "rr") {
        ref = node_of(ed.b);
        if (!ref) { out.harness_error = "edit rr: unknown node " + ed.b; return; }
        b->remove_nodes(n, ref);
      }
      else if (ed.op == "add") b->add_node(n);
      else if (ed.op == "mv") {
        if (ed.b != "-") { ref = node_of(ed.b); if (!ref) { out.harness_error = "edit mv: unknown node " + ed.b; return; } }
        b->remove_node(n);
        b->set_cursor(ref);
        b->add_node(n);
      }
      else if (ed.op == "ab" || ed.op == "aa") {
        ref = node_of(ed.b);
        if (!ref) { out.harness_error = "edit " + ed.op + ": unknown node " + ed.b; return; }
        if (ed.op == "ab") b->add_before(n, ref); else b->add_after(n, ref);
      }
      else { out.harness_error = "unknown edit op " + ed.op; return; }
    }
  }
  {
    std::string defect = list_defect(b, 8 * (S.calls.size() + S.edits.size() + 16));
    if (!defect.empty()) {
      out.list_corrupt = with_edits && !S.edits.empty() ? S.edits.back().op : std::string("calls");
      out.list_corrupt_detail = defect + " before finalize()";
      return;
    }
  }
  if (!compiler && !stop && !r.gc_planned.empty()) {
    // a plain Builder has no global constant pool: the constants are embedded after the last node, like the Compiler's pass does
    b->set_cursor(b->last_node());
    Error err = embed_global_pool(r, hfail);
    if (!hfail.empty()) { out.harness_error = hfail; return; }
    if (err != Error::kOk) { out.harness_error = "embedding the global pool into the Builder failed"; return; }
    out.gc_pool_placed = true;
  }
  if (compiler && r.gc_label_pending) {
    // NL of the global pool's label without any GC call executed (a minimizer cut): the label does not exist in this run
    out.harness_error = "global pool label announced but no GC call executed"; return;
  }
  out.foreign_label_nodes = r.foreign_label_nodes;
  for (BaseNode* n = b->first_node(); n; n = n->next()) {
    out.node_count++;
    out.node_kinds |= 1u << (uint32_t(n->type()) & 31);
    if (out.node_count > 100000) { out.harness_error = "node list does not terminate"; return; }
  }
  Error ferr = b->finalize();
  out.finalize_err = uint32_t(ferr);
  if (compiler && ferr == Error::kOk && !r.gc_planned.empty()) out.gc_pool_placed = true;
  if (!out.call_error) {
    out.err = uint32_t(ferr);
    if (ferr != Error::kOk) { out.err_at = "finalize"; }
  }
  snapshot(r, out, out.err == 0 && ferr == Error::kOk);
}

// ---------------------------------------------------------------------------------------------------------------------
// differential oracle
// ---------------------------------------------------------------------------------------------------------------------

struct Violation { std::string key, what; };

static std::string culprit_at(const Snap& ref, uint32_t sec, size_t off, std::string* tok_out) {
  const Extent* best = nullptr;
  for (const Extent& x : ref.extents) {
    if (x.sec != sec) continue;
    if (off >= x.off0 && off < x.off1) { best = &x; break; }
    if (x.off0 <= off) best = &x;
  }
  if (!best) return "?";
  if (tok_out) *tok_out = best->tok;
  if (best->call) {
    size_t dot = best->tok.find('.');
    if (dot != std::string::npos && best->tok.find('(') != std::string::npos) return best->tok.substr(best->tok.find('(') + 1, best->tok.size() - best->tok.find('(') - 2);
    return best->call->desc;
  }
  size_t p = best->tok.find('(');
  return p == std::string::npos ? best->tok : best->tok.substr(p + 1, best->tok.size() - p - 2);
}

static std::string vec_diff(const std::vector<std::string>& a, const std::vector<std::string>& b, const char* what) {
  if (a.size() != b.size()) {
    std::string extra;
    const std::vector<std::string>& lng = a.size() > b.size() ? a : b;
    size_t i = std::min(a.size(), b.size());
    for (size_t j = 0; j < i; j++) if (a[j] != b[j]) { return fmt("%s count %zu vs %zu; first differing #%zu: ", what, a.size(), b.size(), j) + a[j] + " vs " + b[j]; }
    return fmt("%s count %zu vs %zu; first unmatched: ", what, a.size(), b.size()) + lng[i];
  }
  for (size_t i = 0; i < a.size(); i++) if (a[i] != b[i]) return fmt("%s #%zu: ", what, i) + a[i] + " vs " + b[i];
  return "";
}

// compares a reference assembler run with a builder/compiler run; returns (component, detail, culprit)
struct Diff { std::string comp, detail, culprit; };

static bool compare_state(const Snap& ref, const Snap& got, Diff& d);

static bool compare_full(const Snap& ref, const Snap& got, Diff& d) {
  if (ref.err != got.err) {
    d.comp = "error";
    d.culprit = ref.err ? ref.err_desc : std::string("none-expected");
    d.detail = fmt("first error: assembler %u (%s) at %s, builder %u (%s) at %s", ref.err, DebugUtils::error_as_string(Error(ref.err)), ref.err_at.c_str(),
                   got.err, DebugUtils::error_as_string(Error(got.err)), got.err_at.c_str());
    return false;
  }
  return compare_state(ref, got, d);
}

// everything but the error outcome
static bool compare_state(const Snap& ref, const Snap& got, Diff& d) {
  std::string s = vec_diff(ref.sec_meta, got.sec_meta, "section");
  if (!s.empty()) { d.comp = "sections"; d.detail = s; d.culprit = "-"; return false; }
  for (size_t i = 0; i < ref.sec_bytes.size(); i++) {
    const std::string& a = ref.sec_bytes[i]; const std::string& b = got.sec_bytes[i];
    if (a == b) continue;
    size_t n = std::min(a.size(), b.size()), p = 0;
    while (p < n && a[p] == b[p]) p++;
    std::string tok;
    d.comp = "bytes";
    d.culprit = culprit_at(ref, uint32_t(i), p, &tok);
    size_t from = p >= 4 ? p - 4 : 0;
    d.detail = fmt("section %zu: sizes %zu (assembler) vs %zu (builder), first difference at offset %zu inside/after call %s: assembler ..", i, a.size(), b.size(), p, tok.c_str())
      + hexstr(a.data() + from, std::min<size_t>(a.size() - from, 24)) + " builder .." + hexstr(b.data() + from, std::min<size_t>(b.size() - from, 24));
    return false;
  }
  s = vec_diff(ref.labels, got.labels, "label");
  if (!s.empty()) { d.comp = "labels"; d.detail = s; d.culprit = "-"; return false; }
  s = vec_diff(ref.relocs, got.relocs, "relocation");
  if (!s.empty()) { d.comp = "relocs"; d.detail = s; d.culprit = "-"; return false; }
  if (ref.unresolved != got.unresolved) { d.comp = "fixups"; d.detail = fmt("unresolved_fixup_count %zu vs %zu", ref.unresolved, got.unresolved); d.culprit = "count"; return false; }
  s = vec_diff(ref.fixups, got.fixups, "fixup");
  if (!s.empty()) { d.comp = "fixups"; d.detail = s; d.culprit = "list"; return false; }
  if (ref.finished && got.finished) {
    for (int i = 0; i < 4; i++) if (ref.ferr[i] != got.ferr[i]) {
      static const char* st[] = { "flatten", "resolve_cross_section_fixups", "relocate_to_base", "copy_flattened_data" };
      d.comp = "final"; d.culprit = st[i]; d.detail = fmt("%s returned %u vs %u", st[i], ref.ferr[i], got.ferr[i]); return false;
    }
    if (ref.image != got.image) {
      size_t n = std::min(ref.image.size(), got.image.size()), p = 0;
      while (p < n && ref.image[p] == got.image[p]) p++;
      d.comp = "final"; d.culprit = "image"; d.detail = fmt("relocated images differ at %zu (sizes %zu vs %zu)", p, ref.image.size(), got.image.size()); return false;
    }
  }
  return true;
}

// script-order assembler vs node-order assembler: only what section grouping cannot legitimately change
static bool compare_final(const Snap& a, const Snap& r, Diff& d) {
  if (a.sec_bytes.size() != r.sec_bytes.size()) { d.comp = "sections"; d.detail = "section count differs"; return false; }
  for (size_t i = 0; i < a.sec_bytes.size(); i++)
    if (a.sec_bytes[i].size() != r.sec_bytes[i].size()) { d.comp = "size"; d.detail = fmt("section %zu size %zu vs %zu", i, a.sec_bytes[i].size(), r.sec_bytes[i].size()); return false; }
  std::string s = vec_diff(a.labels, r.labels, "label");
  if (!s.empty()) { d.comp = "labels"; d.detail = s; return false; }
  // relocations are created in a different order, so a failing finishing step may name a different first error code
  for (int i = 0; i < 4; i++) {
    if ((a.ferr[i] != 0) != (r.ferr[i] != 0)) { d.comp = "final-error"; d.detail = fmt("finishing step %d returned %u vs %u", i, a.ferr[i], r.ferr[i]); return false; }
    if (a.ferr[i]) return true;
  }
  if (a.image != r.image) {
    size_t n = std::min(a.image.size(), r.image.size()), p = 0;
    while (p < n && a.image[p] == r.image[p]) p++;
    d.comp = "image"; d.detail = fmt("relocated images differ at %zu (sizes %zu vs %zu)", p, a.image.size(), r.image.size()); return false;
  }
  return true;
}

struct Result {
  std::vector<Violation> viol;
  std::string harness;
  uint32_t errA = 0, errR = 0, errB = 0, errC = 0, errR2 = 0, errB2 = 0;
  int edit = 0;          // 0 none, 1 judged, 2 skipped
  int ambiguous = 0;
  int log_cmp = 0;       // 0 none, 1 equal, 2 differs
  int raw_equal_script_order = -1;
  int first_error_compared = 0;
  int call_time_error_compared = 0;
  int state_before_refused_call_compared = 0;
  int go_on = 0;         // 0 not tried, 1 judged (state after a refused call compared), 2 not comparable (the Builder reports at finalize), 3 no call refused
  int go_on_calls_after_refusal = 0;
  unsigned foreign_label_nodes = 0, gc_calls = 0, gc_pools = 0, gc_pools_edit = 0;
  uint32_t kinds = 0, nodes = 0, kinds_edit = 0, nodes_edit = 0, kinds_compiler = 0;
  std::string log_note;
  std::string errR_at, errR_desc, log_class;
};

static const char* arch_family(const Script& S) { return S.arch == Arch::kAArch64 ? "a64" : "x86"; }

static void judge_plain(const Script& S, const Snap& A, const Snap& R, const Snap& B, const char* who, Result& res) {
  std::string post = std::string(":plain:") + arch_family(S) + ":" + who;
  if (!B.harness_error.empty()) { res.harness = std::string(who) + ": " + B.harness_error; return; }
  if (!B.list_corrupt.empty()) { res.viol.push_back({ "node-list-corrupt:" + B.list_corrupt + post, B.list_corrupt_detail }); return; }
  if (B.call_error) {
    // the builder refused a call itself: the assembler must refuse the same call with the same code
    if (A.err && A.call_error_cid != B.call_error_cid) {
      // the assembler failed at an earlier call, which the builder accepted as a node and would only report at finalize(): not comparable
      for (int ci : S.phase1) {
        int cid = S.calls[size_t(ci)].cid;
        if (cid == A.call_error_cid) { res.ambiguous++; return; }
        if (cid == B.call_error_cid) break;
      }
    }
    if (A.call_error_cid != B.call_error_cid || A.err != B.err) {
      res.viol.push_back({ "error:call-time:" + B.err_desc + post,
        fmt("%s refused call %s with error %u (%s) at the call, the assembler's first error is %u (%s) at call %s", who, B.err_at.c_str(), B.err,
            DebugUtils::error_as_string(Error(B.err)), A.err, DebugUtils::error_as_string(Error(A.err)), A.err_at.c_str()) });
      return;
    }
    res.call_time_error_compared++;
    // the nodes accepted before the refused call must still serialize to what the assembler produces for them: the node-order replay of
    // exactly the calls in front of the refused one (sections, bytes, labels, relocations, fixups). Not with a global constant pool: the
    // Compiler appends what the pool holds so far.
    if (B.finalize_err == 0 && B.gc_planned == 0) {
      Snap Rt;
      RunOpts ro; ro.stop_cid = B.call_error_cid;
      run_asm(S, 1, Rt, ro);
      if (!Rt.harness_error.empty()) { res.harness = "asm(calls in front of the refused call): " + Rt.harness_error; return; }
      if (Rt.err == 0) {
        Diff d;
        res.state_before_refused_call_compared++;
        if (!compare_state(Rt, B, d)) {
          res.viol.push_back({ d.comp + ":" + d.culprit + ":before-call-time-error" + post, "state after finalize() differs from assembling the calls in front of the refused call " + B.err_at + ": " + d.detail });
          return;
        }
      }
    }
    if (B.finalize_err == 0 && B.gc_planned == 0) {
      for (size_t i = 0; i < A.sec_bytes.size() && i < B.sec_bytes.size(); i++) {
        // with several sections the builder's section grouping may legitimately turn an embed_label_delta relocation into a constant:
        // only the sizes are comparable then
        bool differs = S.secs.empty() ? A.sec_bytes[i] != B.sec_bytes[i] : A.sec_bytes[i].size() != B.sec_bytes[i].size();
        if (differs) {
          const std::string& a = A.sec_bytes[i]; const std::string& b = B.sec_bytes[i];
          size_t n = std::min(a.size(), b.size()), p = 0;
          while (p < n && a[p] == b[p]) p++;
          size_t from = p >= 8 ? p - 8 : 0;
          std::string tok;
          std::string cul = culprit_at(A, uint32_t(i), p, &tok);
          res.viol.push_back({ "bytes:before-call-time-error" + post, fmt("section %zu differs (%zu vs %zu bytes) for the calls accepted before the refused call %s; first difference at %zu in call %s (%s): assembler ..", i, a.size(), b.size(), B.err_at.c_str(), p, tok.c_str(), cul.c_str())
            + hexstr(a.data() + from, std::min<size_t>(a.size() - from, 24)) + " builder .." + hexstr(b.data() + from, std::min<size_t>(b.size() - from, 24)) });
          return;
        }
      }
    }
    return;
  }
  Diff d;
  if (!compare_full(R, B, d)) {
    res.viol.push_back({ d.comp + ":" + d.culprit + post, d.detail });
    return;
  }
  if (R.err) res.first_error_compared++;
  if ((S.flags & F_LOGGER) && R.err == 0) {
    // logger text is compared but not judged. Data directives are compared separately from instruction / label / comment lines.
    auto split_log = [](const std::string& log, std::vector<std::string>& code, std::vector<std::string>& data) {
      std::istringstream ls(log); std::string l;
      while (std::getline(ls, l)) {
        size_t p = l.find_first_not_of(" \t");
        if (p != std::string::npos && l[p] == '.' && l.compare(p, 7, ".align ") != 0 && l.compare(p, 9, ".section ") != 0) data.push_back(l); else code.push_back(l);
      }
    };
    auto first_tok = [](const std::string& l) { std::istringstream ls(l); std::string t; ls >> t; return t; };
    if (R.log == B.log) { if (res.log_cmp == 0) res.log_cmp = 1; }
    else {
      std::vector<std::string> rc, rd, bc, bd;
      split_log(R.log, rc, rd); split_log(B.log, bc, bd);
      const std::vector<std::string>& x = rc != bc ? rc : rd;
      const std::vector<std::string>& y = rc != bc ? bc : bd;
      size_t i = 0;
      while (i < x.size() && i < y.size() && x[i] == y[i]) i++;
      std::string la = i < x.size() ? x[i] : std::string("<end>"), lb = i < y.size() ? y[i] : std::string("<end>");
      if (rc != bc) res.log_cmp = 2; else if (res.log_cmp != 2) res.log_cmp = 3;
      if (res.log_note.empty() || rc != bc) {
        res.log_note = std::string(who) + ": assembler log `" + la + "` vs `" + lb + "`";
        res.log_class = std::string(rc != bc ? "code:" : "data:") + first_tok(la) + "|" + first_tok(lb);
      }
    }
  }
}

// "Go on after a refused call": every emitter ignores the error of a refused call and continues with the next one. When Builder / Compiler
// refuse exactly the calls the Assembler refuses (same codes), everything they produce must equal what the Assembler produces from the same
// sequence - in particular a refused instruction must not leave options, an extra register or an inline comment behind for the next one.
// A Builder that accepts the offending call as a node and reports it from finalize() is judged by the first-error rule only (see judge_plain).
static void judge_go_on(const Script& S, Result& res) {
  Snap A, R;
  RunOpts ro; ro.go_on = true;
  run_asm(S, 0, A, ro);
  if (!A.harness_error.empty()) { res.harness = "asm(script order, go on): " + A.harness_error; return; }
  if (A.errs.empty()) { res.go_on = 3; return; }
  run_asm(S, 1, R, ro);
  if (!R.harness_error.empty()) { res.harness = "asm(node order, go on): " + R.harness_error; return; }
  res.go_on = 2;
  if (R.errs != A.errs || A.err || R.err) return;    // an error that depends on the position (jump range, ...): not this replay's subject
  int after = 0;
  {
    bool seen = false;
    for (int ci : S.phase1) {
      const Call& c = S.calls[size_t(ci)];
      if (seen && c.kind != K_NL) after++;
      for (const auto& ae : A.errs) if (ae.first == c.cid) { seen = true; after = 0; }
    }
  }
  for (int pass = 0; pass < 2; pass++) {
    const char* who = pass ? "compiler" : "builder";
    std::string post = std::string(":go-on:") + arch_family(S) + ":" + who;
    Snap B;
    run_builder(S, pass == 1, false, B, ro);
    if (!B.harness_error.empty()) { res.harness = std::string(who) + "(go on): " + B.harness_error; return; }
    if (!B.list_corrupt.empty()) { res.viol.push_back({ "node-list-corrupt:" + B.list_corrupt + post, B.list_corrupt_detail }); return; }
    // every call the builder refuses must be refused by the assembler with the same code
    for (const auto& be : B.errs) {
      bool found = false;
      for (const auto& ae : A.errs) if (ae == be) found = true;
      if (!found) {
        const Call* c = call_by_cid(S, be.first);
        res.viol.push_back({ "error:call-time:" + (c ? c->desc : std::string("?")) + post,
          fmt("%s refused call %d with error %u (%s); the assembler, going on after refused calls as well, did not refuse that call with that code", who, be.first, be.second,
              DebugUtils::error_as_string(Error(be.second))) });
        return;
      }
    }
    if (B.errs != A.errs) continue;             // accepted as a node: reported by finalize(), first-error rule
    Diff d;
    if (!compare_full(R, B, d)) {
      res.viol.push_back({ d.comp + ":" + d.culprit + post, fmt("after call %d was refused by both and the script went on: ", A.errs.front().first) + d.detail });
      return;
    }
    res.go_on = 1;
    res.go_on_calls_after_refusal += after;
  }
}

static void judge(const Script& S, Result& res) {
  Snap A, R, B, C;
  run_asm(S, 0, A);
  if (!A.harness_error.empty()) { res.harness = "asm(script order): " + A.harness_error; return; }
  if (!S.has_R) { res.harness = "script without R line"; return; }
  run_asm(S, 1, R);
  if (!R.harness_error.empty()) { res.harness = "asm(node order): " + R.harness_error; return; }
  res.errA = A.err; res.errR = R.err; res.errR_at = R.err_at; res.errR_desc = R.err_desc;
  // consistency of the two assembler orders (what grouping by section may not change)
  if (A.err == 0 && R.err == 0) {
    Diff d;
    if (!compare_final(A, R, d))
      res.viol.push_back({ "asm-section-grouping:" + d.comp + ":" + arch_family(S), "script-order vs node-order assembling disagree: " + d.detail });
    res.raw_equal_script_order = (A.sec_bytes == R.sec_bytes && A.relocs.size() == R.relocs.size() && A.unresolved == R.unresolved) ? 1 : 0;
  }
  run_builder(S, false, false, B);
  res.errB = B.err; res.kinds = B.node_kinds; res.nodes = B.node_count;
  judge_plain(S, A, R, B, "builder", res);
  if (!res.harness.empty()) return;
  run_builder(S, true, false, C);
  res.errC = C.err; res.kinds_compiler = C.node_kinds;
  judge_plain(S, A, R, C, "compiler", res);
  if (!res.harness.empty()) return;
  res.foreign_label_nodes = B.foreign_label_nodes + C.foreign_label_nodes;
  res.gc_calls = C.gc_planned;
  res.gc_pools = (C.gc_pool_placed && R.gc_pool_placed && C.err == 0) ? 1 : 0;
  if ((S.flags & F_CONTINUE) && res.viol.empty()) {
    judge_go_on(S, res);
    if (!res.harness.empty()) return;
  }
  if (S.has_X) {
    Snap R2, B2;
    bool compiler = (S.flags & F_EDIT_COMPILER) != 0;
    const char* who = compiler ? "compiler" : "builder";
    run_asm(S, 2, R2);
    if (!R2.harness_error.empty()) { res.harness = "asm(edited order): " + R2.harness_error; return; }
    run_builder(S, compiler, true, B2);
    if (!B2.harness_error.empty()) { res.harness = std::string(who) + "(edit): " + B2.harness_error; return; }
    res.errR2 = R2.err; res.errB2 = B2.err;
    res.kinds_edit = B2.node_kinds; res.nodes_edit = B2.node_count;
    res.foreign_label_nodes += B2.foreign_label_nodes;
    if (compiler && B2.gc_pool_placed && R2.gc_pool_placed && B2.err == 0) res.gc_pools_edit = 1;
    if (!B2.list_corrupt.empty()) {
      res.edit = 1;
      res.viol.push_back({ "node-list-corrupt:" + B2.list_corrupt + ":edit:" + arch_family(S) + ":" + who, B2.list_corrupt_detail });
      return;
    }
    if (B2.skipped) { res.edit = 2; return; }
    res.edit = 1;
    Diff d;
    if (!compare_full(R2, B2, d)) res.viol.push_back({ d.comp + ":" + d.culprit + ":edit:" + arch_family(S) + ":" + who, d.detail });
    else if (R2.err) res.first_error_compared++;
  }
}

// Backstop against non-termination inside the library (a corrupted list makes it spin): CPU time, not wall time, per script.
static void on_cpu_alarm(int) {
  static const char msg[] = "@hang\n";
  ssize_t r = write(2, msg, sizeof msg - 1); (void)r;
  _exit(71);
}

int main(int argc, char** argv) {
  Args args(argc, argv);
  std::string in = args.str("scripts", "-");
  unsigned cpu_limit = (unsigned)args.u64("cpu-limit", 20);
  signal(SIGVTALRM, on_cpu_alarm);
  for (uint32_t id = 1; id < a64::Inst::_kIdCount; id++) {
    String s;
    InstAPI::inst_id_to_string(Arch::kAArch64, id, InstStringifyOptions::kNone, s);
    g_a64_by_name[std::string(s.data(), s.size())].push_back(id);
  }
  std::istream* is = &std::cin;
  std::ifstream f;
  if (in != "-") { f.open(in); is = &f; }
  std::string line, out;
  std::unique_ptr<Script> S;
  while (std::getline(*is, line)) {
    if (line.empty()) continue;
    std::istringstream ss(line);
    std::string tag; ss >> tag;
    if (tag == "S") {
      S.reset(new Script());
      std::string fl;
      ss >> S->sid >> S->arch_s >> fl;
      S->flags = (uint32_t)strtoul(fl.c_str(), nullptr, 16);
      S->arch = S->arch_s == "a64" ? Arch::kAArch64 : S->arch_s == "x86" ? Arch::kX86 : Arch::kX64;
    }
    else if (!S) continue;
    else if (tag == "SEC") { SecD sd; std::string fl; ss >> sd.name >> fl >> sd.alignment >> sd.order; sd.flags = (uint32_t)strtoul(fl.c_str(), nullptr, 16); S->secs.push_back(sd); }
    else if (tag == "C") {
      Call c;
      if (!parse_call(*S, ss, c)) { S->parse_error = true; S->parse_msg = "cannot parse: " + line; }
      S->by_cid[c.cid] = int(S->calls.size());
      (c.phase == 1 ? S->phase1 : S->phase2).push_back(int(S->calls.size()));
      S->calls.push_back(c);
    }
    else if (tag == "E") { Edit e; ss >> e.op >> e.a >> e.b; S->edits.push_back(e); }
    else if (tag == "R") { S->has_R = true; std::string t; while (ss >> t) S->R.push_back(t); }
    else if (tag == "X") { S->has_X = true; std::string t; while (ss >> t) S->X.push_back(t); }
    else if (tag == "END") {
      Result res;
      // announce the script before running it, so that a sanitizer abort can be attributed
      fprintf(stderr, "@script %s\n", S->sid.c_str());
      { struct itimerval tv; memset(&tv, 0, sizeof tv); tv.it_value.tv_sec = cpu_limit; setitimer(ITIMER_VIRTUAL, &tv, nullptr); }
      if (S->parse_error) res.harness = S->parse_msg;
      else judge(*S, res);
      out = "{\"sid\":" + jstr(S->sid) + ",\"arch\":" + jstr(S->arch_s);
      out += fmt(",\"errA\":%u,\"errR\":%u,\"errB\":%u,\"errC\":%u,\"errR2\":%u,\"errB2\":%u,\"edit\":%d,\"amb\":%d,\"log\":%d,\"raw_eq\":%d,\"fec\":%d,\"ctec\":%d,\"kinds\":%u,\"nodes\":%u,\"kinds_edit\":%u,\"nodes_edit\":%u",
                 res.errA, res.errR, res.errB, res.errC, res.errR2, res.errB2, res.edit, res.ambiguous, res.log_cmp, res.raw_equal_script_order,
                 res.first_error_compared, res.call_time_error_compared, res.kinds, res.nodes, res.kinds_edit, res.nodes_edit);
      out += fmt(",\"kinds_compiler\":%u,\"sbrc\":%d,\"go_on\":%d,\"go_on_after\":%d,\"foreign\":%u,\"gc_calls\":%u,\"gc_pools\":%u,\"gc_edit\":%u",
                 res.kinds_compiler, res.state_before_refused_call_compared, res.go_on, res.go_on_calls_after_refusal, res.foreign_label_nodes, res.gc_calls, res.gc_pools, res.gc_pools_edit);
      if (res.errR) out += ",\"errR_at\":" + jstr(res.errR_at) + ",\"errR_desc\":" + jstr(res.errR_desc);
      if (!res.harness.empty()) out += ",\"harness\":" + jstr(res.harness);
      if (!res.log_note.empty()) out += ",\"log_note\":" + jstr(res.log_note) + ",\"log_class\":" + jstr(res.log_class);
      out += ",\"viol\":[";
      for (size_t i = 0; i < res.viol.size(); i++) {
        if (i) out += ",";
        out += "{\"key\":" + jstr(res.viol[i].key) + ",\"what\":" + jstr(res.viol[i].what) + "}";
      }
      out += "]}\n";
      fwrite(out.data(), 1, out.size(), stdout);
      fflush(stdout);
      S.reset();
    }
  }
  return 0;
}
