// C07 (Compiler side): frames that the Compiler derives for functions with several call sites.
// Harness code; asmjit is only called through its public API. Seeded programs with 2..6 invokes of different
// signatures (0..14 integer and, on x86-64, 0..10 double arguments; immediates and virtual registers), live values
// under register pressure and new_stack() memory are finalized by x86::Compiler (x86-64, x86-32) and a64::Compiler.
// After finalize() the monitor reads the function's FuncFrame and every InvokeNode's FuncDetail:
//   - the call-stack area must cover the largest stack-argument block of ANY invoke of the function,
//   - the local area must start at or above the call-stack area (the areas are disjoint),
//   - a function with invokes is flagged as calling functions, and its call-stack alignment is at least natural.
// Output: one JSON line {"programs":..,"invokes":..,"finalize_errors":..,"max_arg_stack":..,"violations":[{"key","what","spec"}]}.
#include <asmjit/core.h>
#include <asmjit/x86.h>
#include <asmjit/a64.h>
#include "vcommon.h"
#include <map>

using namespace asmjit;

struct Viol { std::string key, what, spec; uint64_t count = 0; };
static std::map<std::string, Viol> g_viol;
static void viol(const std::string& key, const std::string& what, const std::string& spec) {
  Viol& v = g_viol[key];
  if (!v.count) { v.key = key; v.what = what; v.spec = spec; }
  v.count++;
}

struct Stats { uint64_t programs = 0, invokes = 0, finalize_errors = 0, max_arg_stack = 0, with_locals = 0, big_before_small = 0; };
static Stats S;

static FuncSignature make_sig(Rng& r, bool allow_double, uint32_t* n_int, uint32_t* n_dbl) {
  FuncSignature sig(CallConvId::kCDecl);
  sig.set_ret(TypeId::kVoid);
  uint32_t ni = uint32_t(r.below(4) == 0 ? r.below(15) : r.below(8));
  uint32_t nd = allow_double ? uint32_t(r.below(3) == 0 ? r.below(11) : r.below(3)) : 0;
  // interleave
  uint32_t i = 0, d = 0;
  while (i < ni || d < nd) {
    bool pick_d = d < nd && (i >= ni || r.below(2));
    if (pick_d) { sig.add_arg(TypeId::kFloat64); d++; }
    else { sig.add_arg(r.below(2) ? TypeId::kUIntPtr : TypeId::kInt32); i++; }
  }
  *n_int = ni; *n_dbl = nd;
  return sig;
}

template<typename CC, typename GP, typename VEC>
static void check_frames(CC& cc, const std::string& arch, const std::string& spec) {
  // walk the node list: functions and the invokes that belong to them
  FuncNode* fn = nullptr;
  uint32_t max_arg = 0, n_inv = 0, first_arg = 0, last_arg = 0;
  auto close = [&]() {
    if (!fn) return;
    const FuncFrame& f = fn->frame();
    if (n_inv) {
      if (max_arg > S.max_arg_stack) S.max_arg_stack = max_arg;
      if (first_arg > last_arg) S.big_before_small++;
      if (f.call_stack_size() < max_arg)
        viol("cc-frame:call-stack-smaller-than-largest-invoke:" + arch,
             "FuncFrame::call_stack_size() = " + std::to_string(f.call_stack_size()) + " but an invoke of the function passes " + std::to_string(max_arg) +
             " bytes of stack arguments (last invoke: " + std::to_string(last_arg) + "): the call area does not cover the arguments that are written to it", spec);
      if (!f.has_func_calls())
        viol("cc-frame:has-func-calls-not-set:" + arch, "a function with " + std::to_string(n_inv) + " invokes is not flagged kHasFuncCalls", spec);
      if (f.local_stack_size() && f.local_stack_offset() < f.call_stack_size())
        viol("cc-frame:local-area-inside-call-area:" + arch,
             "local_stack_offset() = " + std::to_string(f.local_stack_offset()) + " lies inside the call-stack area of " + std::to_string(f.call_stack_size()) + " bytes", spec);
      if (f.local_stack_size() && f.local_stack_offset() < max_arg)
        viol("cc-frame:local-area-inside-stack-arguments:" + arch,
             "local_stack_offset() = " + std::to_string(f.local_stack_offset()) + " lies inside the " + std::to_string(max_arg) + " bytes an invoke writes its stack arguments to", spec);
      if (f.local_stack_size()) S.with_locals++;
    }
    fn = nullptr;
  };
  for (BaseNode* n = cc.first_node(); n; n = n->next()) {
    if (n->type() == NodeType::kFunc) { close(); fn = n->template as<FuncNode>(); max_arg = 0; n_inv = 0; first_arg = last_arg = 0; }
    else if (n->type() == NodeType::kInvoke && fn) {
      uint32_t a = n->template as<InvokeNode>()->detail().arg_stack_size();
      if (!n_inv) first_arg = a;
      last_arg = a; n_inv++; S.invokes++;
      if (a > max_arg) max_arg = a;
    }
  }
  close();
}

static void run_x86(Rng& r, Arch arch, const std::string& spec) {
  CodeHolder code;
  Environment env(arch);
  if (code.init(env) != Error::kOk) { fprintf(stderr, "init failed\n"); exit(2); }
  x86::Compiler cc(&code);
  bool x64 = arch == Arch::kX64;
  FuncNode* fn = cc.add_func(FuncSignature::build<void>());
  if (!fn) { fprintf(stderr, "add_func failed\n"); exit(2); }
  uint32_t nlive = uint32_t(r.below(3) == 0 ? 12 + r.below(14) : r.below(8));
  std::vector<x86::Gp> live;
  for (uint32_t i = 0; i < nlive; i++) { x86::Gp g = cc.new_gpz("l%u", i); cc.mov(g, Imm(int64_t(i * 7 + 1))); live.push_back(g); }
  std::vector<x86::Vec> dlive;
  if (x64) for (uint32_t i = 0; i < r.below(6); i++) { x86::Vec v = cc.new_xmm_sd("d%u", i); cc.xorps(v, v); dlive.push_back(v); }
  x86::Mem stk; bool has_stk = r.below(2) == 0;
  if (has_stk) { static const uint32_t al[] = { 4, 8, 16, 32 }; stk = cc.new_stack(uint32_t(8 + r.below(20) * 8), al[r.below(x64 ? 4 : 3)]); x86::Mem m = stk; m.set_size(4); cc.mov(m, Imm(0x5A5A5A5A)); }
  uint32_t k = uint32_t(2 + r.below(5));
  for (uint32_t c = 0; c < k; c++) {
    uint32_t ni, nd;
    FuncSignature sig = make_sig(r, x64, &ni, &nd);
    InvokeNode* inv = nullptr;
    if (cc.invoke(Out(inv), Imm(int64_t(0x1000 + c * 16)), sig) != Error::kOk || !inv) { S.finalize_errors++; return; }
    for (uint32_t a = 0; a < sig.arg_count(); a++) {
      if (sig.args()[a] == TypeId::kFloat64) {
        if (dlive.empty()) { x86::Vec v = cc.new_xmm_sd("dx"); dlive.push_back(v); }
        inv->set_arg(a, dlive[r.below(dlive.size())]);
      }
      else if (live.empty() || r.below(3) == 0) inv->set_arg(a, Imm(int64_t(r.below(2) ? 0x80000000ll + int64_t(a) : int64_t(a) - 3)));
      else inv->set_arg(a, live[r.below(live.size())]);
    }
  }
  x86::Gp acc = cc.new_gpz("acc");
  cc.xor_(acc, acc);
  for (const x86::Gp& g : live) cc.add(acc, g);
  if (has_stk) { x86::Mem m = stk; m.set_size(4); cc.add(acc.r32(), m); }
  cc.ret();
  cc.end_func();
  Error e = cc.finalize();
  S.programs++;
  if (e != Error::kOk) { S.finalize_errors++; return; }
  check_frames<x86::Compiler, x86::Gp, x86::Vec>(cc, x64 ? "x64" : "x86", spec);
}

static void run_a64(Rng& r, const std::string& spec) {
  CodeHolder code;
  Environment env(Arch::kAArch64);
  if (code.init(env) != Error::kOk) { fprintf(stderr, "init failed\n"); exit(2); }
  a64::Compiler cc(&code);
  FuncNode* fn = cc.add_func(FuncSignature::build<void>());
  if (!fn) { fprintf(stderr, "add_func failed\n"); exit(2); }
  uint32_t nlive = uint32_t(r.below(3) == 0 ? 20 + r.below(14) : r.below(8));
  std::vector<a64::Gp> live;
  for (uint32_t i = 0; i < nlive; i++) { a64::Gp g = cc.new_gp64("l%u", i); cc.mov(g, Imm(int64_t(i * 7 + 1))); live.push_back(g); }
  uint32_t k = uint32_t(2 + r.below(5));
  for (uint32_t c = 0; c < k; c++) {
    uint32_t ni, nd;
    FuncSignature sig = make_sig(r, false, &ni, &nd);
    InvokeNode* inv = nullptr;
    a64::Gp target = cc.new_gp64("t");
    cc.mov(target, Imm(int64_t(0x1000 + c * 16)));
    if (cc.invoke(Out(inv), target, sig) != Error::kOk || !inv) { S.finalize_errors++; return; }
    for (uint32_t a = 0; a < sig.arg_count(); a++) {
      if (live.empty() || r.below(3) == 0) inv->set_arg(a, Imm(int64_t(a) - 3));
      else inv->set_arg(a, live[r.below(live.size())]);
    }
  }
  a64::Gp acc = cc.new_gp64("acc");
  cc.mov(acc, Imm(0));
  for (const a64::Gp& g : live) cc.add(acc, acc, g);
  cc.ret();
  cc.end_func();
  Error e = cc.finalize();
  S.programs++;
  if (e != Error::kOk) { S.finalize_errors++; return; }
  check_frames<a64::Compiler, a64::Gp, a64::Vec>(cc, "a64", spec);
}

int main(int argc, char** argv) {
  Args a(argc, argv);
  uint64_t seed = a.u64("seed", 1), count = a.u64("count", 1000), first = a.u64("first", 0);
  std::string arch = a.str("arch", "x64");
  if (a.has("only")) { first = a.u64("only", 0); count = 1; }
  for (uint64_t i = first; i < first + count; i++) {
    Rng r(seed * 1000003ull + i * 7919ull + (arch == "x64" ? 1 : arch == "x86" ? 2 : 3));
    std::string spec = "--arch " + arch + " --seed " + std::to_string(seed) + " --only " + std::to_string(i);
    if (arch == "x64") run_x86(r, Arch::kX64, spec);
    else if (arch == "x86") run_x86(r, Arch::kX86, spec);
    else run_a64(r, spec);
  }
  std::string o = "{\"arch\":" + jstr(arch) + ",\"programs\":" + std::to_string(S.programs) + ",\"invokes\":" + std::to_string(S.invokes) +
                  ",\"finalize_errors\":" + std::to_string(S.finalize_errors) + ",\"max_arg_stack\":" + std::to_string(S.max_arg_stack) +
                  ",\"with_locals\":" + std::to_string(S.with_locals) + ",\"big_before_small\":" + std::to_string(S.big_before_small) + ",\"violations\":[";
  bool firstv = true;
  for (auto& kv : g_viol) {
    if (!firstv) o += ",";
    firstv = false;
    o += "{\"key\":" + jstr(kv.second.key) + ",\"what\":" + jstr(kv.second.what) + ",\"spec\":" + jstr(kv.second.spec) + ",\"count\":" + std::to_string(kv.second.count) + "}";
  }
  o += "]}";
  puts(o.c_str());
  return 0;
}
