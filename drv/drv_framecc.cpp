// C07 (Compiler side): frames that the Compiler derives for functions with several call sites.
// Harness code; asmjit is only called through its public API. Seeded programs with 2..6 invokes of different
// signatures (0..14 integer and, on x86-64, 0..10 double arguments; immediates and virtual registers), live values
// under register pressure and new_stack() memory are finalized by x86::Compiler (x86-64, x86-32) and a64::Compiler.
// After finalize() the monitor reads the function's FuncFrame and every InvokeNode's FuncDetail:
//   - the call-stack area must cover the largest stack-argument block of ANY invoke of the function,
//   - the local area must start at or above the call-stack area (the areas are disjoint),
//   - a function with invokes is flagged as calling functions, and its call-stack alignment is at least natural.
// Output: one JSON line {"programs":..,"invokes":..,"finalize_errors":..,"max_arg_stack":..,"violations":[{"key","what","spec"}]}.
#include <asmjit/core.h>
#include <asmjit/x86.h>
#include <asmjit/a64.h>
#include "vcommon.h"
#include <map>

using namespace asmjit;

struct Viol { std::string key, what, spec; uint64_t count = 0; };
static std::map<std::string, Viol> g_viol;
static void viol(const std::string& key, const std::string& what, const std::string& spec) {
  Viol& v = g_viol[key];
  if (!v.count) { v.key = key; v.what = what; v.spec = spec; }
  v.count++;
}

struct Stats { uint64_t programs = 0, invokes = 0, finalize_errors = 0, max_arg_stack = 0, with_locals = 0, big_before_small = 0; };
static Stats S;

static FuncSignature make_sig(Rng& r, bool allow_double, uint32_t* n_int, uint32_t* n_dbl) {
  FuncSignature sig(CallConvId::kCDecl);
  sig.set_ret(TypeId::kVoid);
  uint32_t ni = uint32_t(r.below(4) == 0 ? r.below(15) : r.below(8));
  uint32_t nd = allow_double ? uint32_t(r.below(3) == 0 ? r.below(11) : r.below(3)) : 0;
  // interleave
  uint32_t i = 0, d = 0;
  while (i < ni || d < nd) {
    bool pick_d = d < nd && (i >= ni || r.below(2));
    if (pick_d) { sig.add_arg(TypeId::kFloat64); d++; }
    else { sig.add_arg(r.below(2) ? TypeId::kUIntPtr : TypeId::kInt32); i++; }
  }
  *n_int = ni; *n_dbl = nd;
  return sig;
}

template<typename CC, typename GP, typename VEC>
static void check_frames(CC& cc, const std::string& arch, const std::string& spec) {
  // walk the node list: functions and the invokes that belong to them
  FuncNode* fn = nullptr;
  uint32_t max_arg = 0, n_inv = 0, first_arg = 0, last_arg = 0;
  auto close = [&]() {
    if (!fn) return;
    const FuncFrame& f = fn->frame();
    if (n_inv) {
      if (max_arg > S.max_arg_stack) S.max_arg_stack = max_arg;
      if (first_arg > last_arg) S.big_before_small++;
      if (f.call_stack_size() < max_arg)
        viol("cc-frame:call-stack-smaller-than-largest-invoke:" + arch,
             "FuncFrame::call_stack_size() = " + std::to_string(f.call_stack_size()) + " but an invoke of the function passes " + std::to_string(max_arg) +
             " bytes of stack arguments (last invoke: " + std::to_string(last_arg) + "): the call area does not cover the arguments that are written to it", spec);
      if (!f.has_func_calls())
        viol("cc-frame:has-func-calls-not-set:" + arch, "a function with " + std::to_string(n_inv) + " invokes is not flagged kHasFuncCalls", spec);
      if (f.local_stack_size() && f.local_stack_offset() < f.call_stack_size())
        viol("cc-frame:local-area-inside-call-area:" + arch,
             "local_stack_offset() = " + std::to_string(f.local_stack_offset()) + " lies inside the call-stack area of " + std::to_string(f.call_stack_size()) + " bytes", spec);
      if (f.local_stack_size() && f.local_stack_offset() < max_arg)
        viol("cc-frame:local-area-inside-stack-arguments:" + arch,
             "local_stack_offset() = " + std::to_string(f.local_stack_offset()) + " lies inside the " + std::to_string(max_arg) + " bytes an invoke writes its stack arguments to", spec);
      if (f.local_stack_size()) S.with_locals++;
    }
    fn = nullptr;
  };
  for (BaseNode* n = cc.first_node(); n; n = n->next()) {
    if (n->type() == NodeType::kFunc) { close(); fn = n->template as<FuncNode>(); max_arg = 0; n_inv = 0; first_arg = last_arg = 0; }
    else if (n->type() == NodeType::kInvoke && fn) {
      uint32_t a = n->template as<InvokeNode>()->detail().arg_stack_size();
      if (!n_inv) first_arg = a;
      last_arg = a; n_inv++; S.invokes++;
      if (a > max_arg) max_arg = a;
    }
  }
  close();
}

static void run_x86(Rng& r, Arch arch, const std::string& spec) {
  CodeHolder code;
  Environment env(arch);
  if (code.init(env) != Error::kOk) { fprintf(stderr, "init failed\n"); exit(2); }
  x86::Compiler cc(&code);
  bool x64 = arch == Arch::kX64;
  FuncNode* fn = cc.add_func(FuncSignature::build<void>());
  if (!fn) { fprintf(stderr, "add_func failed\n"); exit(2); }
  uint32_t nlive = uint32_t(r.below(3) == 0 ? 12 + r.below(14) : r.below(8));
  std::vector<x86::Gp> live;
  for (uint32_t i = 0; i < nlive; i++) { x86::Gp g = cc.new_gpz("l%u", i); cc.mov(g, Imm(int64_t(i * 7 + 1))); live.push_back(g); }
  std::vector<x86::Vec> dlive;
  if (x64) for (uint32_t i = 0; i < r.below(6); i++) { x86::Vec v = cc.new_xmm_sd("d%u", i); cc.xorps(v, v); dlive.push_back(v); }
  x86::Mem stk; bool has_stk = r.below(2) == 0;
  if (has_stk) { static const uint32_t al[] = { 4, 8, 16, 32 }; stk = cc.new_stack(uint32_t(8 + r.below(20) * 8), al[r.below(x64 ? 4 : 3)]); x86::Mem m = stk; m.set_size(4); cc.mov(m, Imm(0x5A5A5A5A)); }
  uint32_t k = uint32_t(2 + r.below(5));
  for (uint32_t c = 0; c < k; c++) {
    uint32_t ni, nd;
    FuncSignature sig = make_sig(r, x64, &ni, &nd);
    InvokeNode* inv = nullptr;
    if (cc.invoke(Out(inv), Imm(int64_t(0x1000 + c * 16)), sig) != Error::kOk || !inv) { S.finalize_errors++; return; }
    for (uint32_t a = 0; a < sig.arg_count(); a++) {
      if (sig.args()[a] == TypeId::kFloat64) {
        if (dlive.empty()) { x86::Vec v = cc.new_xmm_sd("dx"); dlive.push_back(v); }
        inv->set_arg(a, dlive[r.below(dlive.size())]);
      }
      else if (live.empty() || r.below(3) == 0) inv->set_arg(a, Imm(int64_t(r.below(2) ? 0x80000000ll + int64_t(a) : int64_t(a) - 3)));
      else inv->set_arg(a, live[r.below(live.size())]);
    }
  }
  x86::Gp acc = cc.new_gpz("acc");
  cc.xor_(acc, acc);
  for (const x86::Gp& g : live) cc.add(acc, g);
  if (has_stk) { x86::Mem m = stk; m.set_size(4); cc.add(acc.r32(), m); }
  cc.ret();
  cc.end_func();
  Error e = cc.finalize();
  S.programs++;
  if (e != Error::kOk) { S.finalize_errors++; return; }
  check_frames<x86::Compiler, x86::Gp, x86::Vec>(cc, x64 ? "x64" : "x86", spec);
}

static void run_a64(Rng& r, const std::string& spec) {
  CodeHolder code;
  Environment env(Arch::kAArch64);
  if (code.init(env) != Error::kOk) { fprintf(stderr, "init failed\n"); exit(2); }
  a64::Compiler cc(&code);
  FuncNode* fn = cc.add_func(FuncSignature::build<void>());
  if (!fn) { fprintf(stderr, "add_func failed\n"); exit(2); }
  uint32_t nlive = uint32_t(r.below(3) == 0 ? 20 + r.below(14) : r.below(8));
  std::vector<a64::Gp> live;
  for (uint32_t i = 0; i < nlive; i++) { a64::Gp g = cc.new_gp64("l%u", i); cc.mov(g, Imm(int64_t(i * 7 + 1))); live.push_back(g); }
  uint32_t k = uint32_t(2 + r.below(5));
  for (uint32_t c = 0; c < k; c++) {
    uint32_t ni, nd;
    FuncSignature sig = make_sig(r, false, &ni, &nd);
    InvokeNode* inv = nullptr;
    a64::Gp target = cc.new_gp64("t");
    cc.mov(target, Imm(int64_t(0x1000 + c * 16)));
    if (cc.invoke(Out(inv), target, sig) != Error::kOk || !inv) { S.finalize_errors++; return; }
    for (uint32_t a = 0; a < sig.arg_count(); a++) {
      if (live.empty() || r.below(3) == 0) inv->set_arg(a, Imm(int64_t(a) - 3));
      else inv->set_arg(a, live[r.below(live.size())]);
    }
  }
  a64::Gp acc = cc.new_gp64("acc");
  cc.mov(acc, Imm(0));
  for (const a64::Gp& g : live) cc.add(acc, acc, g);
  cc.ret();
  cc.end_func();
  Error e = cc.finalize();
  S.programs++;
  if (e != Error::kOk) { S.finalize_errors++; return; }
  check_frames<a64::Compiler, a64::Gp, a64::Vec>(cc, "a64", spec);
}

// ---------------------------------------------------------------------------------------------------------------------
// x86-64, executed: functions with MANY parameters (so that some arrive on the stack and may have to be relocated into the
// function's own frame) that also call a many-argument C helper (so that the frame has a call area). Every parameter is
// stored to an output buffer after the call and compared with what the C++ caller passed.
#if defined(__x86_64__)
static uint64_t g_helper_seen[12];
static uint64_t helper10(uint64_t a0, uint64_t a1, uint64_t a2, uint64_t a3, uint64_t a4, uint64_t a5, uint64_t a6, uint64_t a7, uint64_t a8, uint64_t a9) {
  uint64_t v[10] = { a0, a1, a2, a3, a4, a5, a6, a7, a8, a9 };
  for (int i = 0; i < 10; i++) g_helper_seen[i] = v[i];
  return a0 ^ a9;
}
static uint64_t g_out_i[16];
static double g_out_d[17];
typedef void (*FnI16)(uint64_t, uint64_t, uint64_t, uint64_t, uint64_t, uint64_t, uint64_t, uint64_t, uint64_t, uint64_t, uint64_t, uint64_t, uint64_t, uint64_t, uint64_t, uint64_t);
typedef void (*FnD17)(double, double, double, double, double, double, double, double, double, double, double, double, double, double, double, double, double);
typedef void (*FnI8D12)(uint64_t, uint64_t, uint64_t, uint64_t, uint64_t, uint64_t, uint64_t, uint64_t, double, double, double, double, double, double, double, double, double, double, double, double);

static JitRuntime* g_jit = nullptr;
static uint64_t g_exec = 0, g_exec_relocation_shapes = 0;

static void run_exec(Rng& r, const std::string& spec) {
  if (!g_jit) g_jit = new JitRuntime();
  int shape = int(r.below(3));                 // 0: 16 ints, 1: 17 doubles, 2: 8 ints + 12 doubles
  uint32_t ni = shape == 0 ? 16 : shape == 1 ? 0 : 8, nd = shape == 0 ? 0 : shape == 1 ? 17 : 12;
  bool wide_vec = r.below(2) == 0;             // double parameters bound to 128-bit virtual registers
  uint32_t stk_align = (uint32_t[]){ 0, 0, 16, 32, 64 }[r.below(5)];
  bool fp = r.below(3) == 0;
  bool call_first = r.below(4) != 0;           // the helper call happens before the parameters are consumed
  bool with_call = r.below(5) != 0;
  CodeHolder code;
  if (code.init(g_jit->environment(), g_jit->cpu_features()) != Error::kOk) { fprintf(stderr, "init failed\n"); exit(2); }
  x86::Compiler cc(&code);
  FuncSignature sig(CallConvId::kCDecl);
  sig.set_ret(TypeId::kVoid);
  for (uint32_t i = 0; i < ni; i++) sig.add_arg(TypeId::kUInt64);
  for (uint32_t i = 0; i < nd; i++) sig.add_arg(TypeId::kFloat64);
  FuncNode* fn = cc.add_func(sig);
  if (!fn) { fprintf(stderr, "add_func failed\n"); exit(2); }
  if (fp) fn->frame().set_preserved_fp();
  std::vector<x86::Gp> ia; std::vector<x86::Vec> da;
  for (uint32_t i = 0; i < ni; i++) { x86::Gp g = cc.new_gp64("a%u", i); fn->set_arg(i, g); ia.push_back(g); }
  for (uint32_t i = 0; i < nd; i++) { x86::Vec v = wide_vec ? cc.new_xmm("d%u", i) : cc.new_xmm_sd("d%u", i); fn->set_arg(ni + i, v); da.push_back(v); }
  x86::Mem stk;
  if (stk_align) { stk = cc.new_stack(64, stk_align); x86::Mem m = stk; m.set_size(8); cc.mov(m, Imm(0x1122334455667788ll & 0x7FFFFFFF)); }
  auto do_call = [&]() {
    InvokeNode* inv = nullptr;
    FuncSignature hs = FuncSignature::build<uint64_t, uint64_t, uint64_t, uint64_t, uint64_t, uint64_t, uint64_t, uint64_t, uint64_t, uint64_t, uint64_t>();
    cc.invoke(Out(inv), Imm(int64_t(uintptr_t(&helper10))), hs);
    for (uint32_t a = 0; a < 10; a++) inv->set_arg(a, Imm(int64_t(0x100 + a)));
    x86::Gp rv = cc.new_gp64("rv"); inv->set_ret(0, rv);
  };
  if (with_call && call_first) do_call();
  x86::Gp p = cc.new_gp64("p");
  cc.mov(p, Imm(int64_t(uintptr_t(g_out_i))));
  for (uint32_t i = 0; i < ni; i++) cc.mov(x86::qword_ptr(p, int32_t(i * 8)), ia[i]);
  cc.mov(p, Imm(int64_t(uintptr_t(g_out_d))));
  for (uint32_t i = 0; i < nd; i++) cc.movsd(x86::qword_ptr(p, int32_t(i * 8)), da[i]);
  if (with_call && !call_first) do_call();
  cc.ret();
  cc.end_func();
  Error e = cc.finalize();
  S.programs++;
  if (e != Error::kOk) { S.finalize_errors++; return; }
  void* fnp = nullptr;
  if (g_jit->add(&fnp, &code) != Error::kOk) { S.finalize_errors++; return; }
  uint64_t iv[16]; double dv[17];
  for (int i = 0; i < 16; i++) iv[i] = 0xA000000000000000ull + uint64_t(i) * 0x0101010101ull + r.below(1000);
  for (int i = 0; i < 17; i++) dv[i] = 1000.5 + i * 3.25 + double(r.below(1000));
  memset(g_out_i, 0xEE, sizeof g_out_i); memset(g_out_d, 0xEE, sizeof g_out_d); memset(g_helper_seen, 0, sizeof g_helper_seen);
  if (shape == 0) ((FnI16)fnp)(iv[0], iv[1], iv[2], iv[3], iv[4], iv[5], iv[6], iv[7], iv[8], iv[9], iv[10], iv[11], iv[12], iv[13], iv[14], iv[15]);
  else if (shape == 1) ((FnD17)fnp)(dv[0], dv[1], dv[2], dv[3], dv[4], dv[5], dv[6], dv[7], dv[8], dv[9], dv[10], dv[11], dv[12], dv[13], dv[14], dv[15], dv[16]);
  else ((FnI8D12)fnp)(iv[0], iv[1], iv[2], iv[3], iv[4], iv[5], iv[6], iv[7], dv[0], dv[1], dv[2], dv[3], dv[4], dv[5], dv[6], dv[7], dv[8], dv[9], dv[10], dv[11]);
  g_exec++;
  if (with_call && (wide_vec || stk_align >= 32) && (nd > 8 || ni > 6)) g_exec_relocation_shapes++;
  char cfg[160];
  snprintf(cfg, sizeof cfg, "shape=%d wide-vregs=%d stack-align=%u preserved-fp=%d call=%s", shape, int(wide_vec), stk_align, int(fp), !with_call ? "none" : call_first ? "before" : "after");
  for (uint32_t i = 0; i < ni; i++) if (g_out_i[i] != iv[i]) {
    char b[256]; snprintf(b, sizeof b, "integer parameter #%u arrived as 0x%llx, the caller passed 0x%llx (%s)", i, (unsigned long long)g_out_i[i], (unsigned long long)iv[i], cfg);
    viol(std::string("cc-exec:parameter-wrong:int:") + (i >= 6 ? "stack" : "reg"), b, spec); break;
  }
  for (uint32_t i = 0; i < nd; i++) if (memcmp(&g_out_d[i], &dv[i], 8) != 0) {
    char b[256]; snprintf(b, sizeof b, "double parameter #%u arrived as %g, the caller passed %g (%s)", i, g_out_d[i], dv[i], cfg);
    viol(std::string("cc-exec:parameter-wrong:f64:") + (i >= 8 ? "stack" : "reg"), b, spec); break;
  }
  if (with_call) for (int a = 0; a < 10; a++) if (g_helper_seen[a] != uint64_t(0x100 + a)) {
    char b[200]; snprintf(b, sizeof b, "helper argument #%d arrived as 0x%llx, expected 0x%x (%s)", a, (unsigned long long)g_helper_seen[a], 0x100 + a, cfg);
    viol("cc-exec:helper-argument-wrong", b, spec); break;
  }
  g_jit->release(fnp);
}
#endif

int main(int argc, char** argv) {
  Args a(argc, argv);
  uint64_t seed = a.u64("seed", 1), count = a.u64("count", 1000), first = a.u64("first", 0);
  std::string arch = a.str("arch", "x64");
  if (a.has("only")) { first = a.u64("only", 0); count = 1; }
  for (uint64_t i = first; i < first + count; i++) {
    Rng r(seed * 1000003ull + i * 7919ull + (arch == "x64" ? 1 : arch == "x86" ? 2 : 3));
    std::string spec = "--arch " + arch + " --seed " + std::to_string(seed) + " --only " + std::to_string(i);
#if defined(__x86_64__)
    if (arch == "x64exec") { run_exec(r, spec); continue; }
#endif
    if (arch == "x64") run_x86(r, Arch::kX64, spec);
    else if (arch == "x86") run_x86(r, Arch::kX86, spec);
    else run_a64(r, spec);
  }
  std::string o = "{\"arch\":" + jstr(arch) + ",\"programs\":" + std::to_string(S.programs) + ",\"invokes\":" + std::to_string(S.invokes) +
                  ",\"finalize_errors\":" + std::to_string(S.finalize_errors) + ",\"max_arg_stack\":" + std::to_string(S.max_arg_stack) +
                  ",\"executed\":" + std::to_string(
#if defined(__x86_64__)
                  g_exec
#else
                  0
#endif
                  ) + ",\"with_locals\":" + std::to_string(S.with_locals) + ",\"big_before_small\":" + std::to_string(S.big_before_small) + ",\"violations\":[";
  bool firstv = true;
  for (auto& kv : g_viol) {
    if (!firstv) o += ",";
    firstv = false;
    o += "{\"key\":" + jstr(kv.second.key) + ",\"what\":" + jstr(kv.second.what) + ",\"spec\":" + jstr(kv.second.spec) + ",\"count\":" + std::to_string(kv.second.count) + "}";
  }
  o += "]}";
  puts(o.c_str());
  return 0;
}
