// C07 (Compiler side): frames that the Compiler derives for functions with several call sites.
// Harness code; asmjit is only called through its public API. Seeded programs with 2..6 invokes of different
// signatures (0..14 integer and, on x86-64, 0..10 double arguments; immediates and virtual registers), live values
// under register pressure and new_stack() memory are finalized by x86::Compiler (x86-64, x86-32) and a64::Compiler.
// After finalize() the monitor reads the function's FuncFrame and every InvokeNode's FuncDetail:
//   - the call-stack area must cover the largest stack-argument block of ANY invoke of the function,
//   - the local area must start at or above the call-stack area (the areas are disjoint),
//   - a function with invokes is flagged as calling functions, and its call-stack alignment is at least natural.
// Output: one JSON line {"programs":..,"invokes":..,"finalize_errors":..,"max_arg_stack":..,"violations":[{"key","what","spec"}]}.
#include <asmjit/core.h>
#include <asmjit/x86.h>
#include <asmjit/a64.h>
#include "vcommon.h"
#include <map>
#include <functional>
#include <algorithm>

using namespace asmjit;

struct Viol { std::string key, what, spec; uint64_t count = 0; };
static std::map<std::string, Viol> g_viol;
static void viol(const std::string& key, const std::string& what, const std::string& spec) {
  Viol& v = g_viol[key];
  if (!v.count) { v.key = key; v.what = what; v.spec = spec; }
  v.count++;
}

static void slot_alignment_oracle(FuncNode* fn, const char* arch_name, uint32_t requested, const std::string& spec, const std::string& cfg);

struct Stats { uint64_t programs = 0, invokes = 0, finalize_errors = 0, max_arg_stack = 0, with_locals = 0, big_before_small = 0; };
static Stats S;

static FuncSignature make_sig(Rng& r, bool allow_double, uint32_t* n_int, uint32_t* n_dbl) {
  FuncSignature sig(CallConvId::kCDecl);
  sig.set_ret(TypeId::kVoid);
  uint32_t ni = uint32_t(r.below(4) == 0 ? r.below(15) : r.below(8));
  uint32_t nd = allow_double ? uint32_t(r.below(3) == 0 ? r.below(11) : r.below(3)) : 0;
  // interleave
  uint32_t i = 0, d = 0;
  while (i < ni || d < nd) {
    bool pick_d = d < nd && (i >= ni || r.below(2));
    if (pick_d) { sig.add_arg(TypeId::kFloat64); d++; }
    else { sig.add_arg(r.below(2) ? TypeId::kUIntPtr : TypeId::kInt32); i++; }
  }
  *n_int = ni; *n_dbl = nd;
  return sig;
}

template<typename CC, typename GP, typename VEC>
static void check_frames(CC& cc, const std::string& arch, const std::string& spec) {
  // walk the node list: functions and the invokes that belong to them
  FuncNode* fn = nullptr;
  uint32_t max_arg = 0, n_inv = 0, first_arg = 0, last_arg = 0;
  auto close = [&]() {
    if (!fn) return;
    const FuncFrame& f = fn->frame();
    if (n_inv) {
      if (max_arg > S.max_arg_stack) S.max_arg_stack = max_arg;
      if (first_arg > last_arg) S.big_before_small++;
      if (f.call_stack_size() < max_arg)
        viol("cc-frame:call-stack-smaller-than-largest-invoke:" + arch,
             "FuncFrame::call_stack_size() = " + std::to_string(f.call_stack_size()) + " but an invoke of the function passes " + std::to_string(max_arg) +
             " bytes of stack arguments (last invoke: " + std::to_string(last_arg) + "): the call area does not cover the arguments that are written to it", spec);
      if (!f.has_func_calls())
        viol("cc-frame:has-func-calls-not-set:" + arch, "a function with " + std::to_string(n_inv) + " invokes is not flagged kHasFuncCalls", spec);
      if (f.local_stack_size() && f.local_stack_offset() < f.call_stack_size())
        viol("cc-frame:local-area-inside-call-area:" + arch,
             "local_stack_offset() = " + std::to_string(f.local_stack_offset()) + " lies inside the call-stack area of " + std::to_string(f.call_stack_size()) + " bytes", spec);
      if (f.local_stack_size() && f.local_stack_offset() < max_arg)
        viol("cc-frame:local-area-inside-stack-arguments:" + arch,
             "local_stack_offset() = " + std::to_string(f.local_stack_offset()) + " lies inside the " + std::to_string(max_arg) + " bytes an invoke writes its stack arguments to", spec);
      if (f.local_stack_size()) S.with_locals++;
    }
    fn = nullptr;
  };
  for (BaseNode* n = cc.first_node(); n; n = n->next()) {
    if (n->type() == NodeType::kFunc) { close(); fn = n->template as<FuncNode>(); max_arg = 0; n_inv = 0; first_arg = last_arg = 0; }
    else if (n->type() == NodeType::kInvoke && fn) {
      uint32_t a = n->template as<InvokeNode>()->detail().arg_stack_size();
      if (!n_inv) first_arg = a;
      last_arg = a; n_inv++; S.invokes++;
      if (a > max_arg) max_arg = a;
    }
  }
  close();
}

static void run_x86(Rng& r, Arch arch, const std::string& spec) {
  CodeHolder code;
  Environment env(arch);
  if (code.init(env) != Error::kOk) { fprintf(stderr, "init failed\n"); exit(2); }
  x86::Compiler cc(&code);
  bool x64 = arch == Arch::kX64;
  FuncNode* fn = cc.add_func(FuncSignature::build<void>());
  if (!fn) { fprintf(stderr, "add_func failed\n"); exit(2); }
  uint32_t nlive = uint32_t(r.below(3) == 0 ? 12 + r.below(14) : r.below(8));
  std::vector<x86::Gp> live;
  for (uint32_t i = 0; i < nlive; i++) { x86::Gp g = cc.new_gpz("l%u", i); cc.mov(g, Imm(int64_t(i * 7 + 1))); live.push_back(g); }
  std::vector<x86::Vec> dlive;
  if (x64) for (uint32_t i = 0; i < r.below(6); i++) { x86::Vec v = cc.new_xmm_sd("d%u", i); cc.xorps(v, v); dlive.push_back(v); }
  x86::Mem stk; bool has_stk = r.below(2) == 0;
  uint32_t stk_req = 0;
  if (has_stk) { static const uint32_t al[] = { 4, 8, 16, 32 }; stk_req = al[r.below(x64 ? 4 : 3)]; stk = cc.new_stack(uint32_t(8 + r.below(20) * 8), stk_req); x86::Mem m = stk; m.set_size(4); cc.mov(m, Imm(0x5A5A5A5A)); }
  uint32_t k = uint32_t(2 + r.below(5));
  for (uint32_t c = 0; c < k; c++) {
    uint32_t ni, nd;
    FuncSignature sig = make_sig(r, x64, &ni, &nd);
    InvokeNode* inv = nullptr;
    if (cc.invoke(Out(inv), Imm(int64_t(0x1000 + c * 16)), sig) != Error::kOk || !inv) { S.finalize_errors++; return; }
    for (uint32_t a = 0; a < sig.arg_count(); a++) {
      if (sig.args()[a] == TypeId::kFloat64) {
        if (dlive.empty()) { x86::Vec v = cc.new_xmm_sd("dx"); dlive.push_back(v); }
        inv->set_arg(a, dlive[r.below(dlive.size())]);
      }
      else if (live.empty() || r.below(3) == 0) inv->set_arg(a, Imm(int64_t(r.below(2) ? 0x80000000ll + int64_t(a) : int64_t(a) - 3)));
      else inv->set_arg(a, live[r.below(live.size())]);
    }
  }
  x86::Gp acc = cc.new_gpz("acc");
  cc.xor_(acc, acc);
  for (const x86::Gp& g : live) cc.add(acc, g);
  if (has_stk) { x86::Mem m = stk; m.set_size(4); cc.add(acc.r32(), m); }
  cc.ret();
  cc.end_func();
  Error e = cc.finalize();
  S.programs++;
  if (e != Error::kOk) { S.finalize_errors++; return; }
  check_frames<x86::Compiler, x86::Gp, x86::Vec>(cc, x64 ? "x64" : "x86", spec);
  slot_alignment_oracle(fn, x64 ? "x64" : "x86", stk_req, spec, "multi-invoke program");
}

static void run_a64(Rng& r, const std::string& spec) {
  CodeHolder code;
  Environment env(Arch::kAArch64);
  if (code.init(env) != Error::kOk) { fprintf(stderr, "init failed\n"); exit(2); }
  a64::Compiler cc(&code);
  FuncNode* fn = cc.add_func(FuncSignature::build<void>());
  if (!fn) { fprintf(stderr, "add_func failed\n"); exit(2); }
  uint32_t nlive = uint32_t(r.below(3) == 0 ? 20 + r.below(14) : r.below(8));
  std::vector<a64::Gp> live;
  for (uint32_t i = 0; i < nlive; i++) { a64::Gp g = cc.new_gp64("l%u", i); cc.mov(g, Imm(int64_t(i * 7 + 1))); live.push_back(g); }
  uint32_t k = uint32_t(2 + r.below(5));
  for (uint32_t c = 0; c < k; c++) {
    uint32_t ni, nd;
    FuncSignature sig = make_sig(r, false, &ni, &nd);
    InvokeNode* inv = nullptr;
    a64::Gp target = cc.new_gp64("t");
    cc.mov(target, Imm(int64_t(0x1000 + c * 16)));
    if (cc.invoke(Out(inv), target, sig) != Error::kOk || !inv) { S.finalize_errors++; return; }
    for (uint32_t a = 0; a < sig.arg_count(); a++) {
      if (live.empty() || r.below(3) == 0) inv->set_arg(a, Imm(int64_t(a) - 3));
      else inv->set_arg(a, live[r.below(live.size())]);
    }
  }
  a64::Gp acc = cc.new_gp64("acc");
  cc.mov(acc, Imm(0));
  for (const a64::Gp& g : live) cc.add(acc, acc, g);
  cc.ret();
  cc.end_func();
  Error e = cc.finalize();
  S.programs++;
  if (e != Error::kOk) { S.finalize_errors++; return; }
  check_frames<a64::Compiler, a64::Gp, a64::Vec>(cc, "a64", spec);
}

// ---------------------------------------------------------------------------------------------------------------------
// x86-64, executed: functions with MANY parameters (so that some arrive on the stack and may have to be relocated into the
// function's own frame) that also call a many-argument C helper (so that the frame has a call area). Every parameter is
// stored to an output buffer after the call and compared with what the C++ caller passed.
#if defined(__x86_64__)
static uint64_t g_helper_seen[12];
static uint64_t helper10(uint64_t a0, uint64_t a1, uint64_t a2, uint64_t a3, uint64_t a4, uint64_t a5, uint64_t a6, uint64_t a7, uint64_t a8, uint64_t a9) {
  uint64_t v[10] = { a0, a1, a2, a3, a4, a5, a6, a7, a8, a9 };
  for (int i = 0; i < 10; i++) g_helper_seen[i] = v[i];
  return a0 ^ a9;
}
static uint64_t g_out_i[16];
static uint64_t g_out_stack_addr, g_exec_stack_addr_checked;
static double g_out_d[17];
typedef void (*FnI16)(uint64_t, uint64_t, uint64_t, uint64_t, uint64_t, uint64_t, uint64_t, uint64_t, uint64_t, uint64_t, uint64_t, uint64_t, uint64_t, uint64_t, uint64_t, uint64_t);
typedef void (*FnD17)(double, double, double, double, double, double, double, double, double, double, double, double, double, double, double, double, double);
typedef void (*FnI8D12)(uint64_t, uint64_t, uint64_t, uint64_t, uint64_t, uint64_t, uint64_t, uint64_t, double, double, double, double, double, double, double, double, double, double, double, double);

static JitRuntime* g_jit = nullptr;
static uint64_t g_exec = 0, g_exec_relocation_shapes = 0;

static void run_exec(Rng& r, const std::string& spec) {
  if (!g_jit) g_jit = new JitRuntime();
  int shape = int(r.below(3));                 // 0: 16 ints, 1: 17 doubles, 2: 8 ints + 12 doubles
  uint32_t ni = shape == 0 ? 16 : shape == 1 ? 0 : 8, nd = shape == 0 ? 0 : shape == 1 ? 17 : 12;
  bool wide_vec = r.below(2) == 0;             // double parameters bound to 128-bit virtual registers
  uint32_t stk_align = (uint32_t[]){ 0, 0, 16, 32, 64 }[r.below(5)];
  bool fp = r.below(3) == 0;
  bool call_first = r.below(4) != 0;           // the helper call happens before the parameters are consumed
  bool with_call = r.below(5) != 0;
  CodeHolder code;
  if (code.init(g_jit->environment(), g_jit->cpu_features()) != Error::kOk) { fprintf(stderr, "init failed\n"); exit(2); }
  x86::Compiler cc(&code);
  FuncSignature sig(CallConvId::kCDecl);
  sig.set_ret(TypeId::kVoid);
  for (uint32_t i = 0; i < ni; i++) sig.add_arg(TypeId::kUInt64);
  for (uint32_t i = 0; i < nd; i++) sig.add_arg(TypeId::kFloat64);
  FuncNode* fn = cc.add_func(sig);
  if (!fn) { fprintf(stderr, "add_func failed\n"); exit(2); }
  if (fp) fn->frame().set_preserved_fp();
  std::vector<x86::Gp> ia; std::vector<x86::Vec> da;
  for (uint32_t i = 0; i < ni; i++) { x86::Gp g = cc.new_gp64("a%u", i); fn->set_arg(i, g); ia.push_back(g); }
  for (uint32_t i = 0; i < nd; i++) { x86::Vec v = wide_vec ? cc.new_xmm("d%u", i) : cc.new_xmm_sd("d%u", i); fn->set_arg(ni + i, v); da.push_back(v); }
  x86::Mem stk;
  if (stk_align) {
    stk = cc.new_stack(64, stk_align); x86::Mem m = stk; m.set_size(8); cc.mov(m, Imm(0x1122334455667788ll & 0x7FFFFFFF));
    x86::Gp sa = cc.new_gp64("sa"), sp_ = cc.new_gp64("sp_");
    cc.lea(sa, stk);
    cc.mov(sp_, Imm(int64_t(uintptr_t(&g_out_stack_addr))));
    cc.mov(x86::qword_ptr(sp_), sa);
  }
  auto do_call = [&]() {
    InvokeNode* inv = nullptr;
    FuncSignature hs = FuncSignature::build<uint64_t, uint64_t, uint64_t, uint64_t, uint64_t, uint64_t, uint64_t, uint64_t, uint64_t, uint64_t, uint64_t>();
    cc.invoke(Out(inv), Imm(int64_t(uintptr_t(&helper10))), hs);
    for (uint32_t a = 0; a < 10; a++) inv->set_arg(a, Imm(int64_t(0x100 + a)));
    x86::Gp rv = cc.new_gp64("rv"); inv->set_ret(0, rv);
  };
  if (with_call && call_first) do_call();
  x86::Gp p = cc.new_gp64("p");
  cc.mov(p, Imm(int64_t(uintptr_t(g_out_i))));
  for (uint32_t i = 0; i < ni; i++) cc.mov(x86::qword_ptr(p, int32_t(i * 8)), ia[i]);
  cc.mov(p, Imm(int64_t(uintptr_t(g_out_d))));
  for (uint32_t i = 0; i < nd; i++) cc.movsd(x86::qword_ptr(p, int32_t(i * 8)), da[i]);
  if (with_call && !call_first) do_call();
  cc.ret();
  cc.end_func();
  Error e = cc.finalize();
  S.programs++;
  if (e != Error::kOk) { S.finalize_errors++; return; }
  void* fnp = nullptr;
  if (g_jit->add(&fnp, &code) != Error::kOk) { S.finalize_errors++; return; }
  uint64_t iv[16]; double dv[17];
  for (int i = 0; i < 16; i++) iv[i] = 0xA000000000000000ull + uint64_t(i) * 0x0101010101ull + r.below(1000);
  for (int i = 0; i < 17; i++) dv[i] = 1000.5 + i * 3.25 + double(r.below(1000));
  g_out_stack_addr = 1;
  memset(g_out_i, 0xEE, sizeof g_out_i); memset(g_out_d, 0xEE, sizeof g_out_d); memset(g_helper_seen, 0, sizeof g_helper_seen);
  if (shape == 0) ((FnI16)fnp)(iv[0], iv[1], iv[2], iv[3], iv[4], iv[5], iv[6], iv[7], iv[8], iv[9], iv[10], iv[11], iv[12], iv[13], iv[14], iv[15]);
  else if (shape == 1) ((FnD17)fnp)(dv[0], dv[1], dv[2], dv[3], dv[4], dv[5], dv[6], dv[7], dv[8], dv[9], dv[10], dv[11], dv[12], dv[13], dv[14], dv[15], dv[16]);
  else ((FnI8D12)fnp)(iv[0], iv[1], iv[2], iv[3], iv[4], iv[5], iv[6], iv[7], dv[0], dv[1], dv[2], dv[3], dv[4], dv[5], dv[6], dv[7], dv[8], dv[9], dv[10], dv[11]);
  g_exec++;
  if (with_call && (wide_vec || stk_align >= 32) && (nd > 8 || ni > 6)) g_exec_relocation_shapes++;
  char cfg[160];
  snprintf(cfg, sizeof cfg, "shape=%d wide-vregs=%d stack-align=%u preserved-fp=%d call=%s", shape, int(wide_vec), stk_align, int(fp), !with_call ? "none" : call_first ? "before" : "after");
  for (uint32_t i = 0; i < ni; i++) if (g_out_i[i] != iv[i]) {
    char b[256]; snprintf(b, sizeof b, "integer parameter #%u arrived as 0x%llx, the caller passed 0x%llx (%s)", i, (unsigned long long)g_out_i[i], (unsigned long long)iv[i], cfg);
    viol(std::string("cc-exec:parameter-wrong:int:") + (i >= 6 ? "stack" : "reg"), b, spec); break;
  }
  for (uint32_t i = 0; i < nd; i++) if (memcmp(&g_out_d[i], &dv[i], 8) != 0) {
    char b[256]; snprintf(b, sizeof b, "double parameter #%u arrived as %g, the caller passed %g (%s)", i, g_out_d[i], dv[i], cfg);
    viol(std::string("cc-exec:parameter-wrong:f64:") + (i >= 8 ? "stack" : "reg"), b, spec); break;
  }
  if (stk_align) {
    g_exec_stack_addr_checked++;
    if (g_out_stack_addr % stk_align) {
      char b[256]; snprintf(b, sizeof b, "new_stack(64, %u) lives at 0x%llx (%s)", stk_align, (unsigned long long)g_out_stack_addr, cfg);
      viol("cc-exec:stack-area-misaligned:align" + std::to_string(stk_align), b, spec);
    }
  }
  if (with_call) for (int a = 0; a < 10; a++) if (g_helper_seen[a] != uint64_t(0x100 + a)) {
    char b[200]; snprintf(b, sizeof b, "helper argument #%d arrived as 0x%llx, expected 0x%x (%s)", a, (unsigned long long)g_helper_seen[a], 0x100 + a, cfg);
    viol("cc-exec:helper-argument-wrong", b, spec); break;
  }
  g_jit->release(fnp);
}
#endif

// ---------------------------------------------------------------------------------------------------------------------
// "pres" workload: callee-saved registers of Compiler-generated functions (allocator -> frame hand-over of clobbered regs).
// Seeded programs: a function of a random convention (every ABI convention and the light-call conventions) keeps a number
// of GP and vector values alive - the number is biased to the size of the convention's caller-saved set, so that the next
// register the allocator reaches for is a callee-saved one - over loops, diamonds, instructions with fixed registers
// (x86: shift by CL, MUL, SSE4.1 blends through XMM0) and invokes of callees of OTHER conventions (fixed argument/return
// registers, and a clobber set that may be larger than the function's own). Two oracles:
//   scan  (all architectures): after finalize() every instruction node of the function is decoded with InstAPI::query_rw_info;
//         every register written by an instruction or clobbered by an invoked callee's convention that the function's
//         convention preserves must be in FuncFrame::saved_regs() (else the prolog/epilog cannot restore it);
//   exec  (x86-64 host): the function is called through a register-image trampoline with every GP/XMM register set to a
//         sentinel and an entry SP of varying 16-byte phase; afterwards every register of the ABI's preserved set must hold
//         its entry value, SP must be back, and the addresses of new_stack() areas logged by the body must have the
//         alignment that was requested.
struct PStats {
  uint64_t programs = 0, finalize_errors = 0, executed = 0, signals = 0, timeouts = 0, timeouts_dup_kept = 0, insts_scanned = 0, rw_unknown = 0;
  uint64_t invokes = 0, cross_conv_invokes = 0, weaker_callee_invokes = 0, loops = 0, diamonds = 0, fixed_reg_ops = 0;
  uint64_t funcs_writing_preserved = 0, preserved_regs_written = 0, preserved_written_only_by_copies = 0, preserved_clobbered_only_by_callee = 0;
  uint64_t regs_compared = 0, stack_addr_checked = 0, stack_addr_over_natural = 0, slot_align_checked = 0, slot_align_over_natural = 0, wide_vec_funcs = 0;
  uint64_t at_pressure_boundary = 0, dup_kept_programs = 0;
  std::map<std::string, uint64_t> by_conv, refusals;
  std::map<std::string, std::string> refusal_specs;
  std::set<std::string> classes;
  std::vector<std::string> samples;
};
static PStats P;
static bool g_dump = false;
static FileLogger g_logger(stderr);

enum { FAM_ABI = 0, FAM_LIGHT = 1 };
struct PConv { CallConvId id; const char* name; int fam; };

// Preserved sets from the ABI documents (NOT from asmjit): SysV AMD64: rbx rbp r12-r15; Microsoft x64 (+vectorcall): rbx rbp
// rsi rdi r12-r15 xmm6-xmm15; i386 (all): ebx esi edi ebp; AAPCS64: x19-x28, x29, x30 (the return goes through it), d8-d15.
static void abi_preserved_of(Arch arch, CallConvId id, uint32_t out[4]) {
  auto B = [](std::initializer_list<int> l) { uint32_t m = 0; for (int i : l) m |= 1u << i; return m; };
  out[0] = out[1] = out[2] = out[3] = 0;
  if (arch == Arch::kX64) {
    if (id == CallConvId::kX64SystemV) out[0] = B({3, 5, 12, 13, 14, 15});
    else { out[0] = B({3, 5, 6, 7, 12, 13, 14, 15}); out[1] = B({6, 7, 8, 9, 10, 11, 12, 13, 14, 15}); }
  }
  else if (arch == Arch::kX86) out[0] = B({3, 5, 6, 7});
  else { out[0] = B({19, 20, 21, 22, 23, 24, 25, 26, 27, 28, 29, 30}); out[1] = B({8, 9, 10, 11, 12, 13, 14, 15}); }
}

static uint32_t group_mask(Arch arch, int g) {
  if (arch == Arch::kX64) return g < 2 ? 0xFFFFu : 0xFFu;
  if (arch == Arch::kX86) return 0xFFu;
  return g == 0 ? 0x7FFFFFFFu : g == 1 ? 0xFFFFFFFFu : 0u;
}

static const char* kGroupName[] = { "gp", "vec", "mask", "x" };

// arg_kept: argument registers of an invoke that the CALLEE's convention preserves (only possible with the light-call conventions)
struct ScanResult { uint32_t by_inst[4] = {0, 0, 0, 0}, by_noncopy[4] = {0, 0, 0, 0}, by_call[4] = {0, 0, 0, 0}, arg_kept[4] = {0, 0, 0, 0}; };

static void scan_function(FuncNode* fn, Arch arch, ScanResult& sr) {
  // the epilog (everything behind the exit label) restores registers: its loads are not "writes of the body"
  for (BaseNode* n = fn->next(); n && n != fn->end_node() && n != fn->exit_node(); n = n->next()) {
    if (!n->is_inst()) continue;
    InstNode* in = n->as<InstNode>();
    const Operand* ops = in->operands_data();
    size_t nops = in->op_count();
    if (n->type() == NodeType::kInvoke) {
      const CallConv& callee = n->as<InvokeNode>()->detail().call_conv();
      for (int g = 0; g < 4; g++) sr.by_call[g] |= ~callee.preserved_regs(RegGroup(g)) & group_mask(arch, g);
      if (arch == Arch::kAArch64) sr.by_call[0] |= 1u << 30;   // bl/blr write the link register
      const FuncDetail& cd = n->as<InvokeNode>()->detail();
      for (uint32_t ai = 0; ai < cd.arg_count(); ai++) {
        const FuncValuePack& pk = cd.arg_pack(ai);
        for (uint32_t vi = 0; vi < pk.count(); vi++) if (pk[vi].is_reg()) {
          uint32_t g = uint32_t(RegUtils::group_of(pk[vi].reg_type())), id = pk[vi].reg_id();
          if (g < 4 && id < 32 && (callee.preserved_regs(RegGroup(g)) >> id & 1)) sr.arg_kept[g] |= 1u << id;
        }
      }
    }
    InstRWInfo rw;
    if (InstAPI::query_rw_info(arch, in->baseInst(), ops, nops, &rw) != Error::kOk) { P.rw_unknown++; continue; }
    P.insts_scanned++;
    bool copy = nops == 2 && ops[0].is_reg() && ops[1].is_reg() && rw.operand(0).is_write_only() &&
                ops[0].as<Reg>().reg_group() == ops[1].as<Reg>().reg_group();
    for (size_t i = 0; i < nops; i++) {
      if (!ops[i].is_reg() || !rw.operand(i).is_write()) continue;
      const Reg& rg = ops[i].as<Reg>();
      uint32_t g = uint32_t(rg.reg_group()), id = rg.id();
      if (g >= 4 || id >= 32) continue;
      sr.by_inst[g] |= 1u << id;
      if (!copy) sr.by_noncopy[g] |= 1u << id;
    }
  }
}

// Class of the input: an invoke passes the SAME virtual register in two argument registers and the callee's convention
// preserves the second one (possible with the light-call conventions only). dupk = those second registers per group.
static void note_dup_kept(InvokeNode* inv, const std::vector<uint32_t>& vid, uint32_t dupk[4]) {
  const FuncDetail& fd = inv->detail();
  for (size_t j = 0; j < vid.size() && j < fd.arg_count(); j++) {
    if (!vid[j] || !fd.arg(j).is_reg()) continue;
    bool seen = false;
    for (size_t i = 0; i < j; i++) if (vid[i] == vid[j] && fd.arg(i).is_reg()) seen = true;
    if (!seen) continue;
    uint32_t g = uint32_t(RegUtils::group_of(fd.arg(j).reg_type())), id = fd.arg(j).reg_id();
    if (g < 4 && id < 32 && (fd.call_conv().preserved_regs(RegGroup(g)) >> id & 1)) dupk[g] |= 1u << id;
  }
}
static bool any_dupk(const uint32_t dupk[4]) { return (dupk[0] | dupk[1] | dupk[2] | dupk[3]) != 0; }

// returns the family-specific preserved set the oracle uses
static void oracle_preserved(Arch arch, const PConv& cv, const FuncDetail& fd, uint32_t pres[4]) {
  if (cv.fam == FAM_LIGHT) for (int g = 0; g < 4; g++) pres[g] = fd.call_conv().preserved_regs(RegGroup(g)) & group_mask(arch, g);
  else abi_preserved_of(arch, fd.call_conv().id(), pres);
  pres[0] &= ~(1u << (arch == Arch::kAArch64 ? 31 : 4));
}

static void scan_oracle(FuncNode* fn, Arch arch, const char* arch_name, const PConv& cv, const uint32_t dupk[4], const std::string& spec, const std::string& cfg) {
  ScanResult sr;
  scan_function(fn, arch, sr);
  const FuncFrame& f = fn->frame();
  uint32_t pres[4];
  oracle_preserved(arch, cv, fn->detail(), pres);
  uint32_t fp_id = arch == Arch::kAArch64 ? 29u : 5u;
  bool any = false;
  for (int g = 0; g < 4; g++) {
    uint32_t have = f.saved_regs(RegGroup(g));
    if (g == 0 && f.has_preserved_fp()) have |= 1u << fp_id;
    uint32_t wi = sr.by_inst[g] & pres[g], wc = sr.by_call[g] & pres[g];
    if (wi | wc) any = true;
    P.preserved_regs_written += uint64_t(__builtin_popcount(wi | wc));
    P.preserved_written_only_by_copies += uint64_t(__builtin_popcount(wi & ~sr.by_noncopy[g] & ~wc));
    P.preserved_clobbered_only_by_callee += uint64_t(__builtin_popcount(wc & ~wi));
    uint32_t miss_i = wi & ~have, miss_c = wc & ~wi & ~have;
    // class of the failing input: the register is an argument register of an invoke that the callee preserves (written by the
    // argument marshalling only) vs. any other register
    uint32_t miss_arg = miss_i & dupk[g];
    miss_i &= ~miss_arg;
    if (miss_arg) {
      char b[500]; snprintf(b, sizeof b, "an invoke passes one virtual register in two argument registers; the copy into the second one writes %s registers 0x%x that the callee's "
                                         "convention preserves and the function's own convention preserves too, FuncFrame::saved_regs() = 0x%x: they are neither saved by the prolog nor "
                                         "restored (%s)", kGroupName[g], miss_arg, have, cfg.c_str());
      viol(std::string("cc-invoke-dup-arg-kept:scan:") + arch_name + ":not-saved:" + kGroupName[g] + ":" + (cv.fam == FAM_LIGHT ? "light" : "abi"), b, spec);
    }
    if (miss_i) {
      char b[400]; snprintf(b, sizeof b, "instructions of the finalized function write callee-saved %s registers 0x%x but FuncFrame::saved_regs() = 0x%x (missing 0x%x, of these "
                                         "written only by register copies: 0x%x): the prolog/epilog do not restore them (%s)", kGroupName[g], wi, have, miss_i, miss_i & ~sr.by_noncopy[g], cfg.c_str());
      viol(std::string("cc-scan:") + arch_name + ":callee-saved-written-not-saved:" + kGroupName[g] + ":" + (cv.fam == FAM_LIGHT ? "light" : "abi"), b, spec);
    }
    if (miss_c) {
      char b[400]; snprintf(b, sizeof b, "an invoked callee's convention clobbers %s registers 0x%x that the function's own convention preserves, FuncFrame::saved_regs() = 0x%x "
                                         "(missing 0x%x) (%s)", kGroupName[g], wc, have, miss_c, cfg.c_str());
      viol(std::string("cc-scan:") + arch_name + ":callee-clobbered-not-saved:" + kGroupName[g] + ":" + (cv.fam == FAM_LIGHT ? "light" : "abi"), b, spec);
    }
  }
  if (any) P.funcs_writing_preserved++;
}

// requested new_stack() alignment against the frame (all architectures)
static void slot_alignment_oracle(FuncNode* fn, const char* arch_name, uint32_t requested, const std::string& spec, const std::string& cfg) {
  if (!requested) return;
  const FuncFrame& f = fn->frame();
  P.slot_align_checked++;
  if (requested > f.natural_stack_alignment()) P.slot_align_over_natural++;
  if (f.local_stack_alignment() < requested || f.final_stack_alignment() < requested) {
    char b[300]; snprintf(b, sizeof b, "a new_stack() area of alignment %u was requested but the frame has local_stack_alignment()=%u final_stack_alignment()=%u (%s)",
                          requested, f.local_stack_alignment(), f.final_stack_alignment(), cfg.c_str());
    viol(std::string("cc-frame:stack-slot-alignment-not-in-frame:") + arch_name, b, spec);
  }
  if (f.local_stack_size() && requested > 1 && f.local_stack_offset() % std::min<uint32_t>(requested, f.final_stack_alignment())) {
    char b[300]; snprintf(b, sizeof b, "local_stack_offset()=%u is not a multiple of the requested slot alignment %u (%s)", f.local_stack_offset(), requested, cfg.c_str());
    viol(std::string("cc-frame:local-offset-misaligned:") + arch_name, b, spec);
  }
}

static uint32_t pressure_pick(Rng& r, uint32_t volatile_count, uint32_t cap) {
  // half of the programs sit at the boundary of the caller-saved set (the next register is a callee-saved one)
  if (r.below(2) == 0) {
    static const int d[] = { -1, 0, 0, 0, 1 };
    int n = int(volatile_count) + d[r.below(5)];
    P.at_pressure_boundary++;
    return uint32_t(std::max(1, std::min<int>(n, int(cap))));
  }
  return uint32_t(1 + r.below(cap));
}

#if defined(__x86_64__)
extern "C" {
uint64_t pc_in_gp[16], pc_out_gp[16];
alignas(16) uint8_t pc_in_vec[16][16];
alignas(16) uint8_t pc_out_vec[16][16];
uint64_t pc_target, pc_host_rsp, pc_skew;
void pc_tramp();
}
asm(R"ASM(
.text
.globl pc_tramp
.type pc_tramp,@function
pc_tramp:
  push %rbx
  push %rbp
  push %r12
  push %r13
  push %r14
  push %r15
  mov %rsp, pc_host_rsp(%rip)
  sub $40, %rsp
  sub pc_skew(%rip), %rsp
.irp n,0,1,2,3,4,5,6,7,8,9,10,11,12,13,14,15
  movdqu pc_in_vec+16*\n(%rip), %xmm\n
.endr
  mov %rsp, pc_in_gp+32(%rip)
  mov pc_in_gp+0(%rip), %rax
  mov pc_in_gp+8(%rip), %rcx
  mov pc_in_gp+16(%rip), %rdx
  mov pc_in_gp+24(%rip), %rbx
  mov pc_in_gp+40(%rip), %rbp
  mov pc_in_gp+48(%rip), %rsi
  mov pc_in_gp+56(%rip), %rdi
  mov pc_in_gp+64(%rip), %r8
  mov pc_in_gp+72(%rip), %r9
  mov pc_in_gp+80(%rip), %r10
  mov pc_in_gp+88(%rip), %r11
  mov pc_in_gp+96(%rip), %r12
  mov pc_in_gp+104(%rip), %r13
  mov pc_in_gp+112(%rip), %r14
  mov pc_in_gp+120(%rip), %r15
  call *pc_target(%rip)
  mov %rsp, pc_out_gp+32(%rip)
  mov %rax, pc_out_gp+0(%rip)
  mov %rcx, pc_out_gp+8(%rip)
  mov %rdx, pc_out_gp+16(%rip)
  mov %rbx, pc_out_gp+24(%rip)
  mov %rbp, pc_out_gp+40(%rip)
  mov %rsi, pc_out_gp+48(%rip)
  mov %rdi, pc_out_gp+56(%rip)
  mov %r8, pc_out_gp+64(%rip)
  mov %r9, pc_out_gp+72(%rip)
  mov %r10, pc_out_gp+80(%rip)
  mov %r11, pc_out_gp+88(%rip)
  mov %r12, pc_out_gp+96(%rip)
  mov %r13, pc_out_gp+104(%rip)
  mov %r14, pc_out_gp+112(%rip)
  mov %r15, pc_out_gp+120(%rip)
.irp n,0,1,2,3,4,5,6,7,8,9,10,11,12,13,14,15
  movdqu %xmm\n, pc_out_vec+16*\n(%rip)
.endr
  mov pc_host_rsp(%rip), %rsp
  cld
  pop %r15
  pop %r14
  pop %r13
  pop %r12
  pop %rbp
  pop %rbx
  ret
.size pc_tramp, .-pc_tramp
)ASM");

#include <signal.h>
#include <setjmp.h>
#include <sys/time.h>
#include <sys/mman.h>
static sigjmp_buf pc_jb;
static volatile sig_atomic_t pc_in_test = 0;
static volatile int pc_sig = 0;
static void pc_on_signal(int sig, siginfo_t*, void*) {
  if (!pc_in_test) { signal(sig, SIG_DFL); raise(sig); return; }
  pc_sig = sig; pc_in_test = 0;
  siglongjmp(pc_jb, 1);
}
static void pc_install_signals() {
  static bool done = false;
  if (done) return;
  done = true;
  uint8_t* alt = (uint8_t*)mmap(nullptr, 1 << 18, PROT_READ | PROT_WRITE, MAP_PRIVATE | MAP_ANONYMOUS, -1, 0);
  stack_t ss; ss.ss_sp = alt; ss.ss_size = 1 << 18; ss.ss_flags = 0;
  sigaltstack(&ss, nullptr);
  struct sigaction sa; memset(&sa, 0, sizeof sa);
  sa.sa_sigaction = pc_on_signal;
  sa.sa_flags = SA_SIGINFO | SA_ONSTACK | SA_NODEFER;
  sigemptyset(&sa.sa_mask);
  int sigs[] = { SIGSEGV, SIGBUS, SIGILL, SIGFPE, SIGTRAP, SIGVTALRM };
  for (int s : sigs) sigaction(s, &sa, nullptr);
}
static int __attribute__((noinline)) pc_guarded_run() {
  pc_sig = 0;
  struct itimerval tv;
  if (sigsetjmp(pc_jb, 1) == 0) {
    memset(&tv, 0, sizeof tv); tv.it_value.tv_usec = 100000;     // CPU time of this process: a generated function runs for microseconds
    setitimer(ITIMER_VIRTUAL, &tv, nullptr);
    pc_in_test = 1;
    pc_tramp();
    pc_in_test = 0;
    memset(&tv, 0, sizeof tv);
    setitimer(ITIMER_VIRTUAL, &tv, nullptr);
    return 0;
  }
  memset(&tv, 0, sizeof tv);
  setitimer(ITIMER_VIRTUAL, &tv, nullptr);
  asm volatile("cld" ::: "memory");
  return pc_sig ? pc_sig : -1;
}

// Callees of the executed functions: each writes junk to EVERY register its own convention lets it clobber.
static volatile uint64_t pc_helper_calls = 0;
#define PC_JUNK_GP_SYSV "mov $0xD1D1D1D1, %%ecx\n mov %%rcx, %%rdx\n mov %%rcx, %%rsi\n mov %%rcx, %%rdi\n mov %%rcx, %%r8\n mov %%rcx, %%r9\n mov %%rcx, %%r10\n mov %%rcx, %%r11\n"
#define PC_JUNK_GP_WIN  "mov $0xD1D1D1D1, %%ecx\n mov %%rcx, %%rdx\n mov %%rcx, %%r8\n mov %%rcx, %%r9\n mov %%rcx, %%r10\n mov %%rcx, %%r11\n"
#define PC_JUNK_X(n) "pcmpeqd %%xmm" #n ", %%xmm" #n "\n"
__attribute__((noinline, no_sanitize("address"))) static uint64_t pc_helper_sysv(uint64_t a, uint64_t b, uint64_t c, double x, double y) {
  pc_helper_calls = pc_helper_calls + 1;
  uint64_t xb; double s = x + y; memcpy(&xb, &s, 8);
  uint64_t rv = a * 3 + (b ^ (c << 7)) + (xb >> 11);
  asm volatile(PC_JUNK_GP_SYSV PC_JUNK_X(0) PC_JUNK_X(1) PC_JUNK_X(2) PC_JUNK_X(3) PC_JUNK_X(4) PC_JUNK_X(5) PC_JUNK_X(6) PC_JUNK_X(7)
               PC_JUNK_X(8) PC_JUNK_X(9) PC_JUNK_X(10) PC_JUNK_X(11) PC_JUNK_X(12) PC_JUNK_X(13) PC_JUNK_X(14) PC_JUNK_X(15)
               ::: "rcx", "rdx", "rsi", "rdi", "r8", "r9", "r10", "r11", "xmm0", "xmm1", "xmm2", "xmm3", "xmm4", "xmm5", "xmm6", "xmm7",
                   "xmm8", "xmm9", "xmm10", "xmm11", "xmm12", "xmm13", "xmm14", "xmm15", "memory");
  return rv;
}
__attribute__((noinline, ms_abi, no_sanitize("address"))) static uint64_t pc_helper_win(uint64_t a, uint64_t b, uint64_t c, double x, double y) {
  pc_helper_calls = pc_helper_calls + 1;
  uint64_t xb; double s = x + y; memcpy(&xb, &s, 8);
  uint64_t rv = a * 5 + (b ^ (c << 3)) + (xb >> 13);
  asm volatile(PC_JUNK_GP_WIN PC_JUNK_X(0) PC_JUNK_X(1) PC_JUNK_X(2) PC_JUNK_X(3) PC_JUNK_X(4) PC_JUNK_X(5)
               ::: "rcx", "rdx", "r8", "r9", "r10", "r11", "xmm0", "xmm1", "xmm2", "xmm3", "xmm4", "xmm5", "memory");
  return rv;
}
alignas(64) static uint64_t pc_io[160];
#endif

static const PConv kConvX64[] = { { CallConvId::kX64SystemV, "sysv", FAM_ABI }, { CallConvId::kX64Windows, "win64", FAM_ABI }, { CallConvId::kVectorCall, "vectorcall", FAM_ABI },
                                  { CallConvId::kLightCall2, "light2", FAM_LIGHT }, { CallConvId::kLightCall3, "light3", FAM_LIGHT }, { CallConvId::kLightCall4, "light4", FAM_LIGHT } };
static const PConv kConvX86[] = { { CallConvId::kCDecl, "cdecl", FAM_ABI }, { CallConvId::kStdCall, "stdcall", FAM_ABI }, { CallConvId::kFastCall, "fastcall", FAM_ABI },
                                  { CallConvId::kRegParm3, "regparm3", FAM_ABI }, { CallConvId::kLightCall2, "light2", FAM_LIGHT }, { CallConvId::kLightCall3, "light3", FAM_LIGHT },
                                  { CallConvId::kLightCall4, "light4", FAM_LIGHT } };
static const PConv kConvA64[] = { { CallConvId::kCDecl, "aapcs64", FAM_ABI }, { CallConvId::kLightCall2, "light2", FAM_LIGHT }, { CallConvId::kLightCall3, "light3", FAM_LIGHT },
                                  { CallConvId::kLightCall4, "light4", FAM_LIGHT } };

static uint32_t volatile_count(Arch arch, const FuncDetail& fd, int g, uint32_t reserved) {
  uint32_t m = group_mask(arch, g) & ~fd.call_conv().preserved_regs(RegGroup(g));
  if (g == 0) m &= ~(1u << (arch == Arch::kAArch64 ? 31 : 4));
  if (g == 0 && arch == Arch::kAArch64) m &= ~(1u << 18);
  uint32_t n = uint32_t(__builtin_popcount(m));
  return n > reserved ? n - reserved : 1;
}

static void run_x86_pres(Rng& r, Arch arch, bool exec, const std::string& spec) {
  bool x64 = arch == Arch::kX64;
  const char* arch_name = exec ? "x64exec" : x64 ? "x64" : "x86";
  const PConv& cv = x64 ? kConvX64[r.below(6)] : kConvX86[r.below(7)];
  CodeHolder code;
  bool host_avx = false, host_sse41 = true;
#if defined(__x86_64__)
  static JitRuntime* jit = nullptr;
  if (exec) {
    if (!jit) jit = new JitRuntime();
    host_avx = jit->cpu_features().x86().has_avx();
    host_sse41 = jit->cpu_features().x86().has_sse4_1();
    if (code.init(jit->environment(), jit->cpu_features()) != Error::kOk) { fprintf(stderr, "init failed\n"); exit(2); }
  }
  else
#endif
  {
    host_avx = true;
    Environment env(arch, SubArch::kUnknown, Vendor::kUnknown, r.below(3) == 0 ? Platform::kWindows : Platform::kLinux, PlatformABI::kUnknown);
    if (code.init(env) != Error::kOk) { fprintf(stderr, "init failed\n"); exit(2); }
  }
  if (g_dump) code.set_logger(&g_logger);
  x86::Compiler cc(&code);
  FuncSignature sig(cv.id);
  sig.set_ret(TypeId::kVoid);
  sig.add_arg(TypeId::kUIntPtr); sig.add_arg(TypeId::kUIntPtr);
  FuncNode* fn = cc.add_func(sig);
  if (!fn) { fprintf(stderr, "add_func failed\n"); exit(2); }
  bool fp = r.below(3) == 0;
  if (fp) fn->frame().set_preserved_fp();
  int vmode = int(r.below(4));                 // 0,1: SSE xmm  2: AVX-encoded xmm  3: AVX ymm
  if (!host_avx && vmode >= 2) vmode = 0;
  bool avx = vmode >= 2, ymm = vmode == 3;
  if (avx) fn->frame().set_avx_enabled();      // documented duty of the user of AVX instructions / YMM registers
  uint32_t rs = x64 ? 8 : 4;
  x86::Gp io = cc.new_gpz("io"), nn = cc.new_gpz("n");
  fn->set_arg(0, io); fn->set_arg(1, nn);
  uint32_t vol_g = volatile_count(arch, fn->detail(), 0, 1);   // one register holds the io pointer
  uint32_t vol_v = volatile_count(arch, fn->detail(), 1, 0);
  uint32_t ng = pressure_pick(r, vol_g, x64 ? 14 : 7), nv = pressure_pick(r, vol_v, x64 ? 17 : 9), nd = uint32_t(r.below(3));
  if (nv > nd + 1 && nd) nv -= nd;   // the scalar doubles share the vector file
  std::vector<x86::Gp> g; std::vector<x86::Vec> v, d;
  for (uint32_t i = 0; i < ng; i++) { x86::Gp x = cc.new_gpz("g%u", i); cc.mov(x, x86::ptr(io, int32_t(i * rs))); g.push_back(x); }
  for (uint32_t i = 0; i < nv; i++) {
    x86::Vec x = ymm ? cc.new_ymm("v%u", i) : cc.new_xmm("v%u", i);
    if (ymm) cc.vmovdqu(x, x86::ptr(io, int32_t(256 + i * 32))); else if (avx) cc.vmovdqu(x, x86::ptr(io, int32_t(256 + i * 32))); else cc.movdqu(x, x86::ptr(io, int32_t(256 + i * 32)));
    v.push_back(x);
  }
  for (uint32_t i = 0; i < nd; i++) { x86::Vec x = cc.new_xmm_sd("d%u", i); if (avx) cc.vmovsd(x, x86::qword_ptr(io, int32_t(832 + i * 8))); else cc.movsd(x, x86::qword_ptr(io, int32_t(832 + i * 8))); d.push_back(x); }
  // stack areas with a requested alignment: the body logs their addresses
  uint32_t n_stk = uint32_t(r.below(3)), max_req = 0;
  uint32_t stk_al[2] = { 0, 0 };
  for (uint32_t i = 0; i < n_stk; i++) {
    static const uint32_t al[] = { 4, 8, 16, 16, 32, 32, 64 };
    stk_al[i] = al[r.below(x64 ? 7 : 6)];
    x86::Mem stk = cc.new_stack(uint32_t(stk_al[i] * (1 + r.below(3)) + r.below(2) * 8), stk_al[i]);
    x86::Gp t = cc.new_gpz("sa%u", i);
    cc.lea(t, stk);
    cc.mov(x86::ptr(io, int32_t(896 + i * 8)), t);
    x86::Mem m = stk; m.set_size(4); cc.mov(m, Imm(0x5A5A5A5A));
    max_req = std::max(max_req, stk_al[i]);
  }
  uint32_t n_inv = 0, n_cross = 0, n_weaker = 0, n_loops = 0, n_dia = 0, n_fixed = 0;
  uint32_t dupk[4] = { 0, 0, 0, 0 };
  int budget = int(6 + r.below(22));
  std::function<void(int, int)> block = [&](int depth, int count) {
    for (int s = 0; s < count && budget > 0; s++) {
      budget--;
      uint32_t k = uint32_t(r.below(20));
      if (k < 4 && ng) {
        uint32_t a = uint32_t(r.below(ng)), b = uint32_t(r.below(ng));
        switch (r.below(4)) { case 0: cc.add(g[a], g[b]); break; case 1: cc.xor_(g[a], g[b]); break; case 2: cc.sub(g[a], g[b]); break; default: cc.imul(g[a], g[b]); }
      }
      else if (k < 6 && ng >= 2) {
        uint32_t a = uint32_t(r.below(ng)), b = uint32_t(r.below(ng)); if (a == b) b = (a + 1) % ng;
        if (r.below(2)) cc.shl(g[a], g[b].r8()); else cc.ror(g[a], g[b].r8());
        n_fixed++;
      }
      else if (k < 7 && ng >= 3) {
        uint32_t a = uint32_t(r.below(ng)), b = (a + 1 + uint32_t(r.below(ng - 1))) % ng, c = uint32_t(r.below(ng));
        cc.mul(g[a], g[b], g[c]);   // xDX:xAX
        n_fixed++;
      }
      else if (k < 11 && nv) {
        uint32_t a = uint32_t(r.below(nv)), b = uint32_t(r.below(nv)), c = uint32_t(r.below(nv));
        if (ymm) { if (r.below(2)) cc.vxorpd(v[a], v[b], v[c]); else cc.vorps(v[a], v[b], v[c]); }
        else if (avx) { if (r.below(2)) cc.vpaddq(v[a], v[b], v[c]); else cc.vpxor(v[a], v[b], v[c]); }
        else switch (r.below(3)) { case 0: cc.paddq(v[a], v[b]); break; case 1: cc.pxor(v[a], v[b]); break; default: cc.psubd(v[a], v[b]); }
      }
      else if (k < 14 && nv >= 2 && !ymm && host_sse41) {
        uint32_t a = uint32_t(r.below(nv)), c = (a + 1 + uint32_t(r.below(nv - 1))) % nv, b = uint32_t(r.below(nv));
        switch (r.below(3)) { case 0: cc.pblendvb(v[a], v[b], v[c]); break; case 1: cc.blendvpd(v[a], v[b], v[c]); break; default: cc.blendvps(v[a], v[b], v[c]); }   // mask in XMM0
        n_fixed++;
      }
      else if (k < 15 && nd) {
        uint32_t a = uint32_t(r.below(nd)), b = uint32_t(r.below(nd));
        if (avx) cc.vaddsd(d[a], d[a], d[b]); else cc.addsd(d[a], d[b]);
      }
      else if (k < 16 && depth < 2 && budget > 2) {
        x86::Gp cnt = cc.new_gp32("cnt");
        cc.mov(cnt, Imm(int64_t(1 + r.below(3))));
        Label L = cc.new_label();
        cc.bind(L);
        block(depth + 1, int(2 + r.below(5)));
        cc.dec(cnt);
        cc.jnz(L);
        n_loops++;
      }
      else if (k < 17 && depth < 2 && budget > 2 && ng) {
        Label Else = cc.new_label(), End = cc.new_label();
        cc.test(g[r.below(ng)], Imm(int64_t(1) << r.below(8)));
        cc.jz(Else);
        block(depth + 1, int(1 + r.below(4)));
        cc.jmp(End);
        cc.bind(Else);
        block(depth + 1, int(r.below(4)));
        cc.bind(End);
        n_dia++;
      }
      else if (k < 19) {
        // invoke: (uintptr, uintptr, uintptr, double, double) -> uintptr; the callee's convention is independent of the function's
        CallConvId callee_id; Imm target(int64_t(0x1000));
#if defined(__x86_64__)
        bool fixed_sig = false;
        if (exec) {
          uint32_t which = uint32_t(r.below(3));
          if (which == 2) {
            // a callee that obeys every light-call convention: writes RAX, XMM0 and XMM1 only (assembled once)
            static void* stub = nullptr;
            if (!stub) {
              CodeHolder sc;
              if (sc.init(jit->environment(), jit->cpu_features()) != Error::kOk) { fprintf(stderr, "init failed\n"); exit(2); }
              x86::Assembler sa(&sc);
              sa.pcmpeqd(x86::xmm0, x86::xmm0); sa.pcmpeqd(x86::xmm1, x86::xmm1); sa.mov(x86::rax, Imm(0x5151515151515151ll)); sa.ret();
              if (jit->add(&stub, &sc) != Error::kOk) { fprintf(stderr, "stub failed\n"); exit(2); }
            }
            callee_id = kConvX64[3 + r.below(3)].id;
            target = Imm(int64_t(uintptr_t(stub)));
          }
          else {
            callee_id = which ? CallConvId::kX64Windows : CallConvId::kX64SystemV;
            target = which ? Imm(int64_t(uintptr_t(&pc_helper_win))) : Imm(int64_t(uintptr_t(&pc_helper_sysv)));
            fixed_sig = true;
          }
        }
        else
#endif
          callee_id = x64 ? kConvX64[r.below(6)].id : kConvX86[r.below(7)].id;
        FuncSignature hs(callee_id);
        hs.set_ret(TypeId::kUIntPtr);
        uint32_t hi = fixed_sig ? 3 : uint32_t(r.below(6)), hd = fixed_sig ? 2 : uint32_t(r.below(4));
        for (uint32_t i = 0; i < hi; i++) hs.add_arg(TypeId::kUIntPtr);
        for (uint32_t i = 0; i < hd; i++) hs.add_arg(TypeId::kFloat64);
        InvokeNode* inv = nullptr;
        if (cc.invoke(Out(inv), target, hs) != Error::kOk || !inv) { std::string k = std::string(arch_name) + ":invoke"; if (!P.refusals[k]++) P.refusal_specs[k] = spec; continue; }
        std::vector<uint32_t> vid(hi + hd, 0);
        for (uint32_t i = 0; i < hi; i++) { if (ng && r.below(4)) { const x86::Gp& x = g[r.below(ng)]; inv->set_arg(i, x); vid[i] = x.id(); } else inv->set_arg(i, Imm(int64_t(0x100 + i))); }
        for (uint32_t i = 0; i < hd; i++) {
          if (d.empty()) { x86::Vec x = cc.new_xmm_sd("dx"); if (avx) cc.vxorpd(x, x, x); else cc.xorps(x, x); d.push_back(x); nd++; }
          const x86::Vec& x = d[r.below(nd)]; inv->set_arg(hi + i, x); vid[hi + i] = x.id();
        }
        note_dup_kept(inv, vid, dupk);
        if (ng && r.below(3)) inv->set_ret(0, g[r.below(ng)]); else { x86::Gp rv = cc.new_gpz("rv"); inv->set_ret(0, rv); }
        n_inv++;
        if (callee_id != fn->detail().call_conv().id()) n_cross++;
        {
          CallConv callee_cc; callee_cc.init(callee_id, code.environment());
          bool weaker = false;
          for (int gi = 0; gi < 2; gi++) if (fn->detail().call_conv().preserved_regs(RegGroup(gi)) & ~callee_cc.preserved_regs(RegGroup(gi)) & group_mask(arch, gi)) weaker = true;
          if (weaker) n_weaker++;
        }
      }
      else if (ng) cc.add(g[r.below(ng)], Imm(int64_t(1 + r.below(100))));
    }
  };
  block(0, 1000);
  for (uint32_t i = 0; i < g.size(); i++) cc.mov(x86::ptr(io, int32_t(i * rs)), g[i]);
  for (uint32_t i = 0; i < v.size(); i++) { if (avx) cc.vmovdqu(x86::ptr(io, int32_t(256 + i * 32)), v[i]); else cc.movdqu(x86::ptr(io, int32_t(256 + i * 32)), v[i]); }
  for (uint32_t i = 0; i < d.size() && i < 8; i++) { if (avx) cc.vmovsd(x86::qword_ptr(io, int32_t(832 + i * 8)), d[i]); else cc.movsd(x86::qword_ptr(io, int32_t(832 + i * 8)), d[i]); }
  cc.ret();
  cc.end_func();
  Error e = cc.finalize();
  P.programs++;
  char cfg[260];
  snprintf(cfg, sizeof cfg, "conv=%s preserved-fp=%d vec=%s live gp=%u vec=%u f64=%u (caller-saved gp=%u vec=%u) loops=%u diamonds=%u fixed-register ops=%u invokes=%u stack areas=%u/%u",
           cv.name, int(fp), ymm ? "avx-ymm" : avx ? "avx-xmm" : "sse", ng, nv, nd, vol_g, vol_v, n_loops, n_dia, n_fixed, n_inv, stk_al[0], stk_al[1]);
  if (e != Error::kOk) {
    std::string k = std::string(arch_name) + ":finalize:" + DebugUtils::error_as_string(e) + ":" + (cv.fam == FAM_LIGHT ? "light" : "abi");
    P.finalize_errors++; if (!P.refusals[k]++) P.refusal_specs[k] = spec; return;
  }
  P.invokes += n_inv; P.cross_conv_invokes += n_cross; P.weaker_callee_invokes += n_weaker; P.loops += n_loops; P.diamonds += n_dia; P.fixed_reg_ops += n_fixed;
  if (ymm) P.wide_vec_funcs++;
  P.by_conv[std::string(arch_name) + ":" + cv.name]++;
  {
    char cl[160]; snprintf(cl, sizeof cl, "%s|%s|fp%d|v%d|g%u|v%u|L%u|D%u|F%u|I%u|W%d|S%u", arch_name, cv.name, int(fp), vmode, ng, nv, std::min(n_loops, 2u), std::min(n_dia, 2u), std::min(n_fixed, 3u),
                           std::min(n_inv, 2u), int(n_weaker != 0), max_req);
    P.classes.insert(cl);
  }
  if (P.samples.size() < 2 && P.programs % 37 == 5) P.samples.push_back(std::string(arch_name) + ": " + cfg);
  if (any_dupk(dupk)) P.dup_kept_programs++;
  scan_oracle(fn, arch, arch_name, cv, dupk, spec, cfg);
  slot_alignment_oracle(fn, arch_name, max_req, spec, cfg);
#if defined(__x86_64__)
  if (!exec) return;
  void* fnp = nullptr;
  if (jit->add(&fnp, &code) != Error::kOk) { if (!P.refusals["x64exec:jit-add"]++) P.refusal_specs["x64exec:jit-add"] = spec; return; }
  pc_install_signals();
  const FuncDetail& fd = fn->detail();
  if (!fd.arg(0).is_reg() || !fd.arg(1).is_reg()) { fprintf(stderr, "unexpected argument location\n"); exit(2); }
  for (int i = 0; i < 16; i++) pc_in_gp[i] = 0xE1E1E1E100001000ull + uint64_t(i) * 0x0101u;
  for (int i = 0; i < 16; i++) for (int j = 0; j < 16; j++) pc_in_vec[i][j] = uint8_t(0x21 + ((i * 67 + j * 13) % 89));
  for (int i = 0; i < 160; i++) pc_io[i] = r.next();
  for (int i = 0; i < 8; i++) { double dv = 1.5 + double(r.below(1000)); memcpy(&pc_io[104 + i], &dv, 8); }
  pc_io[112] = pc_io[113] = 0;
  pc_in_gp[fd.arg(0).reg_id()] = uint64_t(uintptr_t(pc_io));
  pc_in_gp[fd.arg(1).reg_id()] = 3;
  pc_skew = 16 * r.below(8);
  pc_target = uint64_t(uintptr_t(fnp));
  memset(pc_out_gp, 0, sizeof pc_out_gp); memset(pc_out_vec, 0, sizeof pc_out_vec);
  int sg = pc_guarded_run();
  P.executed++;
  if (sg == SIGVTALRM) { P.timeouts++; if (any_dupk(dupk)) P.timeouts_dup_kept++; jit->release(fnp); return; }
  if (sg) {
    P.signals++;
    char b[400]; snprintf(b, sizeof b, "signal %d inside the generated function or a callee (%s)", sg, cfg);
    viol(std::string(any_dupk(dupk) ? "cc-invoke-dup-arg-kept:exec:" : "cc-exec:") + "signal:" + (sg == SIGSEGV ? "SIGSEGV" : sg == SIGBUS ? "SIGBUS" : sg == SIGILL ? "SIGILL" : sg == SIGFPE ? "SIGFPE" : "other") + ":" + (cv.fam == FAM_LIGHT ? "light" : "abi"), b, spec);
    jit->release(fnp);
    return;
  }
  uint32_t pres[4];
  oracle_preserved(arch, cv, fd, pres);
  const char* fam = cv.fam == FAM_LIGHT ? "light" : "abi";
  const std::string kx = any_dupk(dupk) ? "cc-invoke-dup-arg-kept:exec:" : "cc-exec:";
  static const char* gpn[] = { "rax", "rcx", "rdx", "rbx", "rsp", "rbp", "rsi", "rdi", "r8", "r9", "r10", "r11", "r12", "r13", "r14", "r15" };
  if (pc_out_gp[4] != pc_in_gp[4]) {
    char b[300]; snprintf(b, sizeof b, "SP after return = entry SP %+lld (%s)", (long long)(pc_out_gp[4] - pc_in_gp[4]), cfg);
    viol(kx + "sp-after-return:" + fam, b, spec);
  }
  for (uint32_t i = 0; i < 16; i++) if (pres[0] >> i & 1) {
    P.regs_compared++;
    if (pc_out_gp[i] != pc_in_gp[i]) {
      char b[400]; snprintf(b, sizeof b, "callee-saved %s: entry 0x%llx, after return 0x%llx; FuncFrame::saved_regs(gp)=0x%x (%s)", gpn[i], (unsigned long long)pc_in_gp[i], (unsigned long long)pc_out_gp[i],
                            fn->frame().saved_regs(RegGroup::kGp), cfg);
      viol(kx + "callee-saved-not-preserved:gp:" + fam, b, spec); break;
    }
  }
  for (uint32_t i = 0; i < 16; i++) if (pres[1] >> i & 1) {
    P.regs_compared++;
    if (memcmp(pc_out_vec[i], pc_in_vec[i], 16) != 0) {
      std::string w = "callee-saved xmm" + std::to_string(i) + ": entry " + hexstr(pc_in_vec[i], 16) + ", after return " + hexstr(pc_out_vec[i], 16) + "; FuncFrame::saved_regs(vec)=" +
                      std::to_string(fn->frame().saved_regs(RegGroup::kVec)) + " (" + cfg + ")";
      viol(kx + "callee-saved-not-preserved:vec:" + fam, w, spec); break;
    }
  }
  for (uint32_t i = 0; i < n_stk; i++) {
    P.stack_addr_checked++;
    if (stk_al[i] > 16) P.stack_addr_over_natural++;
    uint64_t addr = pc_io[112 + i];
    if (addr % stk_al[i]) {
      char b[400]; snprintf(b, sizeof b, "new_stack() area requested with alignment %u lives at 0x%llx (entry SP 0x%llx) (%s)", stk_al[i], (unsigned long long)addr, (unsigned long long)(pc_in_gp[4] - 8), cfg);
      viol(kx + "stack-area-misaligned:align" + std::to_string(stk_al[i]), b, spec);
    }
    if (addr >= pc_in_gp[4] - 8 || addr < pc_in_gp[4] - (1u << 20)) {
      char b[400]; snprintf(b, sizeof b, "new_stack() area at 0x%llx is not below the return address slot 0x%llx (%s)", (unsigned long long)addr, (unsigned long long)(pc_in_gp[4] - 8), cfg);
      viol(kx + "stack-area-outside-frame", b, spec);
    }
  }
  jit->release(fnp);
#endif
}

static void run_a64_pres(Rng& r, const std::string& spec) {
  const Arch arch = Arch::kAArch64;
  const PConv& cv = kConvA64[r.below(3) == 0 ? 0 : r.below(4)];
  CodeHolder code;
  bool apple = r.below(3) == 0;
  Environment env(arch, SubArch::kUnknown, Vendor::kUnknown, apple ? Platform::kOSX : Platform::kLinux, apple ? PlatformABI::kDarwin : PlatformABI::kGNU);
  if (code.init(env) != Error::kOk) { fprintf(stderr, "init failed\n"); exit(2); }
  if (g_dump) code.set_logger(&g_logger);
  a64::Compiler cc(&code);
  FuncSignature sig(cv.id);
  sig.set_ret(TypeId::kVoid);
  sig.add_arg(TypeId::kUIntPtr); sig.add_arg(TypeId::kUIntPtr);
  FuncNode* fn = cc.add_func(sig);
  if (!fn) { fprintf(stderr, "add_func failed\n"); exit(2); }
  bool fp = r.below(3) == 0;
  if (fp) fn->frame().set_preserved_fp();
  a64::Gp io = cc.new_gp64("io"), nn = cc.new_gp64("n");
  fn->set_arg(0, io); fn->set_arg(1, nn);
  uint32_t vol_g = volatile_count(arch, fn->detail(), 0, 1), vol_v = volatile_count(arch, fn->detail(), 1, 0);
  uint32_t ng = pressure_pick(r, vol_g, 27), nv = pressure_pick(r, std::min(vol_v, 8u), 12);   // AAPCS64: v8 is the first callee-saved one
  std::vector<a64::Gp> g; std::vector<a64::Vec> d;
  for (uint32_t i = 0; i < ng; i++) { a64::Gp x = cc.new_gp64("g%u", i); cc.ldr(x, a64::ptr(io, int32_t(i * 8))); g.push_back(x); }
  for (uint32_t i = 0; i < nv; i++) { a64::Vec x = cc.new_vec_d("d%u", i); cc.ldr(x, a64::ptr(io, int32_t(512 + i * 8))); d.push_back(x); }
  uint32_t max_req = 0, stk_al0 = 0;
  if (r.below(2) == 0) {
    static const uint32_t al[] = { 4, 8, 16, 16 };   // above 16 the AArch64 prolog does not align SP (known finding of drv_frame), not repeated here
    stk_al0 = al[r.below(4)];
    a64::Mem stk = cc.new_stack(uint32_t(stk_al0 * (1 + r.below(3))), stk_al0);
    a64::Gp t = cc.new_gp64("sv");
    cc.mov(t, Imm(0x5A5A));
    cc.str(t, stk);
    max_req = stk_al0;
  }
  uint32_t n_inv = 0, n_cross = 0, n_weaker = 0, n_loops = 0, n_dia = 0;
  uint32_t dupk[4] = { 0, 0, 0, 0 };
  int budget = int(6 + r.below(22));
  std::function<void(int, int)> block = [&](int depth, int count) {
    for (int s = 0; s < count && budget > 0; s++) {
      budget--;
      uint32_t k = uint32_t(r.below(20));
      if (k < 6) {
        uint32_t a = uint32_t(r.below(ng)), b = uint32_t(r.below(ng)), c = uint32_t(r.below(ng));
        switch (r.below(3)) { case 0: cc.add(g[a], g[b], g[c]); break; case 1: cc.eor(g[a], g[b], g[c]); break; default: cc.sub(g[a], g[b], g[c]); }
      }
      else if (k < 10) {
        uint32_t a = uint32_t(r.below(nv)), b = uint32_t(r.below(nv)), c = uint32_t(r.below(nv));
        if (r.below(2)) cc.fadd(d[a], d[b], d[c]); else cc.fmov(d[a], d[b]);
      }
      else if (k < 12 && depth < 2 && budget > 2) {
        a64::Gp cnt = cc.new_gp64("cnt");
        cc.mov(cnt, Imm(int64_t(1 + r.below(3))));
        Label L = cc.new_label();
        cc.bind(L);
        block(depth + 1, int(2 + r.below(5)));
        cc.subs(cnt, cnt, Imm(1));
        cc.b_ne(L);
        n_loops++;
      }
      else if (k < 14 && depth < 2 && budget > 2) {
        Label Else = cc.new_label(), End = cc.new_label();
        cc.tbz(g[r.below(ng)], Imm(int64_t(r.below(8))), Else);
        block(depth + 1, int(1 + r.below(4)));
        cc.b(End);
        cc.bind(Else);
        block(depth + 1, int(r.below(4)));
        cc.bind(End);
        n_dia++;
      }
      else if (k < 19) {
        CallConvId callee_id = kConvA64[r.below(2) == 0 ? 0 : r.below(4)].id;
        FuncSignature hs(callee_id);
        hs.set_ret(r.below(4) == 0 ? TypeId::kFloat64 : TypeId::kUIntPtr);
        uint32_t hi = uint32_t(r.below(7)), hd = uint32_t(r.below(5));
        for (uint32_t i = 0; i < hi; i++) hs.add_arg(TypeId::kUIntPtr);
        for (uint32_t i = 0; i < hd; i++) hs.add_arg(TypeId::kFloat64);
        a64::Gp target = cc.new_gp64("t");
        cc.mov(target, Imm(int64_t(0x1000 + n_inv * 16)));
        InvokeNode* inv = nullptr;
        if (cc.invoke(Out(inv), target, hs) != Error::kOk || !inv) { if (!P.refusals["a64:invoke"]++) P.refusal_specs["a64:invoke"] = spec; continue; }
        std::vector<uint32_t> vid(hi + hd, 0);
        for (uint32_t i = 0; i < hi; i++) { if (r.below(4)) { const a64::Gp& x = g[r.below(ng)]; inv->set_arg(i, x); vid[i] = x.id(); } else inv->set_arg(i, Imm(int64_t(0x100 + i))); }
        for (uint32_t i = 0; i < hd; i++) { const a64::Vec& x = d[r.below(nv)]; inv->set_arg(hi + i, x); vid[hi + i] = x.id(); }
        note_dup_kept(inv, vid, dupk);
        if (hs.ret() == TypeId::kFloat64) inv->set_ret(0, d[r.below(nv)]);
        else if (r.below(3)) inv->set_ret(0, g[r.below(ng)]); else { a64::Gp rv = cc.new_gp64("rv"); inv->set_ret(0, rv); }
        n_inv++;
        if (callee_id != fn->detail().call_conv().id()) n_cross++;
        {
          CallConv callee_cc; callee_cc.init(callee_id, code.environment());
          bool weaker = false;
          for (int gi = 0; gi < 2; gi++) if (fn->detail().call_conv().preserved_regs(RegGroup(gi)) & ~callee_cc.preserved_regs(RegGroup(gi)) & group_mask(arch, gi)) weaker = true;
          if (weaker) n_weaker++;
        }
      }
      else cc.add(g[r.below(ng)], g[r.below(ng)], Imm(int64_t(1 + r.below(100))));
    }
  };
  block(0, 1000);
  for (uint32_t i = 0; i < ng; i++) cc.str(g[i], a64::ptr(io, int32_t(i * 8)));
  for (uint32_t i = 0; i < nv; i++) cc.str(d[i], a64::ptr(io, int32_t(512 + i * 8)));
  cc.ret();
  cc.end_func();
  Error e = cc.finalize();
  P.programs++;
  char cfg[260];
  snprintf(cfg, sizeof cfg, "conv=%s%s preserved-fp=%d live gp=%u f64=%u (caller-saved gp=%u vec=%u) loops=%u diamonds=%u invokes=%u stack area=%u",
           cv.name, apple ? "/apple" : "", int(fp), ng, nv, vol_g, vol_v, n_loops, n_dia, n_inv, stk_al0);
  if (e != Error::kOk) {
    std::string k = std::string("a64:finalize:") + DebugUtils::error_as_string(e) + ":" + (cv.fam == FAM_LIGHT ? "light" : "abi");
    P.finalize_errors++; if (!P.refusals[k]++) P.refusal_specs[k] = spec; return;
  }
  P.invokes += n_inv; P.cross_conv_invokes += n_cross; P.weaker_callee_invokes += n_weaker; P.loops += n_loops; P.diamonds += n_dia;
  P.by_conv[std::string("a64:") + cv.name + (apple ? "/apple" : "")]++;
  {
    char cl[160]; snprintf(cl, sizeof cl, "a64|%s|%d|fp%d|g%u|v%u|L%u|D%u|I%u|W%d|S%u", cv.name, int(apple), int(fp), ng, nv, std::min(n_loops, 2u), std::min(n_dia, 2u), std::min(n_inv, 2u), int(n_weaker != 0), max_req);
    P.classes.insert(cl);
  }
  if (P.samples.size() < 2 && P.programs % 37 == 5) P.samples.push_back(std::string("a64: ") + cfg);
  if (any_dupk(dupk)) P.dup_kept_programs++;
  scan_oracle(fn, arch, "a64", cv, dupk, spec, cfg);
  slot_alignment_oracle(fn, "a64", max_req, spec, cfg);
}

static std::string pres_summary(const std::string& arch) {
  std::string o = "{\"pres\":1,\"arch\":" + jstr(arch);
  auto add = [&](const char* k, uint64_t v) { o += std::string(",\"") + k + "\":" + std::to_string(v); };
  add("programs", P.programs); add("finalize_errors", P.finalize_errors); add("executed", P.executed); add("signals", P.signals); add("timeouts", P.timeouts); add("timeouts_dup_kept", P.timeouts_dup_kept);
  add("insts_scanned", P.insts_scanned); add("rw_unknown", P.rw_unknown); add("invokes", P.invokes); add("cross_conv_invokes", P.cross_conv_invokes);
  add("weaker_callee_invokes", P.weaker_callee_invokes); add("loops", P.loops); add("diamonds", P.diamonds); add("fixed_reg_ops", P.fixed_reg_ops);
  add("funcs_writing_preserved", P.funcs_writing_preserved); add("preserved_regs_written", P.preserved_regs_written);
  add("preserved_written_only_by_copies", P.preserved_written_only_by_copies); add("preserved_clobbered_only_by_callee", P.preserved_clobbered_only_by_callee);
  add("regs_compared", P.regs_compared); add("stack_addr_checked", P.stack_addr_checked); add("stack_addr_over_natural", P.stack_addr_over_natural);
  add("slot_align_checked", P.slot_align_checked); add("slot_align_over_natural", P.slot_align_over_natural); add("wide_vec_funcs", P.wide_vec_funcs);
  add("at_pressure_boundary", P.at_pressure_boundary); add("dup_kept_programs", P.dup_kept_programs);
#if defined(__x86_64__)
  add("helper_calls", pc_helper_calls);
#endif
  auto dump_map = [&](const char* name, const std::map<std::string, uint64_t>& m) {
    o += std::string(",\"") + name + "\":{";
    bool first = true;
    for (auto& kv : m) { if (!first) o += ","; first = false; o += jstr(kv.first) + ":" + std::to_string(kv.second); }
    o += "}";
  };
  dump_map("by_conv", P.by_conv); dump_map("refusals", P.refusals);
  o += ",\"refusal_specs\":{";
  { bool first = true; for (auto& kv : P.refusal_specs) { if (!first) o += ","; first = false; o += jstr(kv.first) + ":" + jstr(kv.second); } }
  o += "}";
  o += ",\"classes\":[";
  { bool first = true; char hb[24]; for (auto& s : P.classes) { if (!first) o += ","; first = false; snprintf(hb, sizeof hb, "\"%016llx\"", (unsigned long long)fnv1a(s.data(), s.size())); o += hb; } }
  o += "],\"samples\":[";
  for (size_t i = 0; i < P.samples.size(); i++) { if (i) o += ","; o += jstr(P.samples[i]); }
  o += "],\"violations\":[";
  bool firstv = true;
  for (auto& kv : g_viol) {
    if (!firstv) o += ",";
    firstv = false;
    o += "{\"key\":" + jstr(kv.second.key) + ",\"what\":" + jstr(kv.second.what) + ",\"spec\":" + jstr(kv.second.spec) + ",\"count\":" + std::to_string(kv.second.count) + "}";
  }
  o += "]}";
  return o;
}

int main(int argc, char** argv) {
  Args a(argc, argv);
  uint64_t seed = a.u64("seed", 1), count = a.u64("count", 1000), first = a.u64("first", 0);
  std::string arch = a.str("arch", "x64");
  if (a.has("only")) { first = a.u64("only", 0); count = 1; }
  g_dump = a.has("dump");
  if (a.str("mode", "") == "pres") {
    for (uint64_t i = first; i < first + count; i++) {
      Rng r(seed * 1000003ull + i * 7919ull + 0x9E5ull + (arch == "x64" ? 1 : arch == "x86" ? 2 : arch == "a64" ? 3 : 4));
      std::string spec = "--mode pres --arch " + arch + " --seed " + std::to_string(seed) + " --only " + std::to_string(i);
      if (arch == "x64") run_x86_pres(r, Arch::kX64, false, spec);
      else if (arch == "x86") run_x86_pres(r, Arch::kX86, false, spec);
      else if (arch == "a64") run_a64_pres(r, spec);
#if defined(__x86_64__)
      else if (arch == "x64exec") run_x86_pres(r, Arch::kX64, true, spec);
#endif
      else { printf("{\"harness_error\":\"bad --arch\"}\n"); return 3; }
    }
    puts(pres_summary(arch).c_str());
    return 0;
  }
  for (uint64_t i = first; i < first + count; i++) {
    Rng r(seed * 1000003ull + i * 7919ull + (arch == "x64" ? 1 : arch == "x86" ? 2 : 3));
    std::string spec = "--arch " + arch + " --seed " + std::to_string(seed) + " --only " + std::to_string(i);
#if defined(__x86_64__)
    if (arch == "x64exec") { run_exec(r, spec); continue; }
#endif
    if (arch == "x64") run_x86(r, Arch::kX64, spec);
    else if (arch == "x86") run_x86(r, Arch::kX86, spec);
    else run_a64(r, spec);
  }
  std::string o = "{\"arch\":" + jstr(arch) + ",\"programs\":" + std::to_string(S.programs) + ",\"invokes\":" + std::to_string(S.invokes) +
                  ",\"finalize_errors\":" + std::to_string(S.finalize_errors) + ",\"max_arg_stack\":" + std::to_string(S.max_arg_stack) +
                  ",\"executed\":" + std::to_string(
#if defined(__x86_64__)
                  g_exec
#else
                  0
#endif
                  ) + ",\"stack_addr_checked\":" + std::to_string(
#if defined(__x86_64__)
                  g_exec_stack_addr_checked
#else
                  0
#endif
                  ) + ",\"slot_align_checked\":" + std::to_string(P.slot_align_checked) + ",\"with_locals\":" + std::to_string(S.with_locals) + ",\"big_before_small\":" + std::to_string(S.big_before_small) + ",\"violations\":[";
  bool firstv = true;
  for (auto& kv : g_viol) {
    if (!firstv) o += ",";
    firstv = false;
    o += "{\"key\":" + jstr(kv.second.key) + ",\"what\":" + jstr(kv.second.what) + ",\"spec\":" + jstr(kv.second.spec) + ",\"count\":" + std::to_string(kv.second.count) + "}";
  }
  o += "]}";
  puts(o.c_str());
  return 0;
}
